package core

import (
	"fmt"
	"go/ast"
	"go/token"
	"go/types"
	"os"
	"path/filepath"
	"sort"
	"strings"

	"golang.org/x/tools/go/callgraph"
	"golang.org/x/tools/go/callgraph/cha"
	"golang.org/x/tools/go/callgraph/vta"
	"golang.org/x/tools/go/packages"
	"golang.org/x/tools/go/ssa"
	"golang.org/x/tools/go/ssa/ssautil"
)

// ModPath is the module under analysis.
const ModPath = "github.com/nlnwa/whatwg-url"

// BitsetPath is the one dependency analysed from source (its objects are part of the tables).
const BitsetPath = "github.com/bits-and-blooms/bitset"

// Prog is the loaded, type-checked program in SSA form.
type Prog struct {
	RepoDir string
	GOARCH  string
	Fset    *token.FileSet
	Roots   []*packages.Package          // the module's packages
	ByName  map[string]*packages.Package // "url", "canonicalizer", "errors"
	AllPkgs map[string]*packages.Package // by import path, incl. deps
	SSA     *ssa.Program
	SSAPkg  map[string]*ssa.Package // by short name
	AllFns  map[*ssa.Function]bool
	ModFns  []*ssa.Function // functions (incl. closures, wrappers excluded) of the module, sorted
	cg      *callgraph.Graph
	declOf  map[*types.Func]*ast.FuncDecl
	fileOf  map[*ast.FuncDecl]*packages.Package
	Stats   map[string]int
}

// Load type-checks /repo's current working tree (non-test files, all packages) and builds SSA.
func Load(repoDir, goarch string) (*Prog, error) {
	env := append(os.Environ(), "GOFLAGS=-mod=mod", "GOPROXY=off", "GOSUMDB=off", "GOWORK=off", "GOTOOLCHAIN=local")
	if goarch != "" {
		env = append(env, "GOARCH="+goarch)
	}
	cfg := &packages.Config{
		Mode:    packages.LoadAllSyntax,
		Dir:     repoDir,
		Env:     env,
		Tests:   false,
		Overlay: PredicateOverlay(repoDir, env, SwitchOverlay(repoDir)),
	}
	nOverlay := len(cfg.Overlay)
	pkgs, err := packages.Load(cfg, "./...")
	if err != nil {
		return nil, fmt.Errorf("load: %v", err)
	}
	var errs []string
	collect := func() {
		errs = nil
		packages.Visit(pkgs, nil, func(p *packages.Package) {
			for _, e := range p.Errors {
				errs = append(errs, e.Error())
			}
		})
	}
	collect()
	if len(errs) > 0 && nOverlay > 0 {
		// the normalised text must not be what fails: read the author's text as it is
		cfg.Overlay = nil
		nOverlay = 0
		pkgs, err = packages.Load(cfg, "./...")
		if err != nil {
			return nil, fmt.Errorf("load: %v", err)
		}
		collect()
	}
	if len(errs) > 0 {
		return nil, fmt.Errorf("type/load errors: %s", strings.Join(errs, "; "))
	}
	p := &Prog{RepoDir: repoDir, GOARCH: goarch, ByName: map[string]*packages.Package{}, AllPkgs: map[string]*packages.Package{},
		SSAPkg: map[string]*ssa.Package{}, declOf: map[*types.Func]*ast.FuncDecl{}, fileOf: map[*ast.FuncDecl]*packages.Package{}, Stats: map[string]int{}}
	for _, pk := range pkgs {
		if !strings.HasPrefix(pk.PkgPath, ModPath) {
			return nil, fmt.Errorf("unexpected root package %s", pk.PkgPath)
		}
		p.Roots = append(p.Roots, pk)
		p.ByName[pk.Name] = pk
		p.Fset = pk.Fset
		if len(pk.IgnoredFiles) > 0 {
			// build-tagged or otherwise excluded files would not be analysed: fail closed
			var ig []string
			for _, f := range pk.IgnoredFiles {
				if !strings.HasSuffix(f, "_test.go") {
					ig = append(ig, f)
				}
			}
			if len(ig) > 0 {
				return nil, fmt.Errorf("package %s has files excluded from the build (not analysed): %v", pk.PkgPath, ig)
			}
		}
	}
	for _, want := range []string{"url", "canonicalizer", "errors"} {
		if p.ByName[want] == nil {
			return nil, fmt.Errorf("package %q not found in %s (found %d packages)", want, repoDir, len(pkgs))
		}
	}
	if len(p.Roots) != 3 {
		return nil, fmt.Errorf("expected 3 packages, found %d", len(p.Roots))
	}
	packages.Visit(pkgs, nil, func(pk *packages.Package) { p.AllPkgs[pk.PkgPath] = pk })
	prog, spkgs := ssautil.AllPackages(pkgs, ssa.InstantiateGenerics)
	prog.Build()
	p.SSA = prog
	for i, sp := range spkgs {
		if sp == nil {
			return nil, fmt.Errorf("no SSA for %s", pkgs[i].PkgPath)
		}
		p.SSAPkg[pkgs[i].Name] = sp
	}
	p.AllFns = ssautil.AllFunctions(prog)
	for f := range p.AllFns {
		if p.InModule(f) && len(f.Blocks) > 0 && f.Synthetic == "" || (p.InModule(f) && strings.HasPrefix(f.Name(), "init") && len(f.Blocks) > 0) {
			p.ModFns = append(p.ModFns, f)
		}
	}
	sort.Slice(p.ModFns, func(i, j int) bool { return p.ModFns[i].String() < p.ModFns[j].String() })
	for _, pk := range p.Roots {
		for _, f := range pk.Syntax {
			for _, d := range f.Decls {
				if fd, ok := d.(*ast.FuncDecl); ok {
					if o, ok := pk.TypesInfo.Defs[fd.Name].(*types.Func); ok {
						p.declOf[o] = fd
						p.fileOf[fd] = pk
					}
				}
			}
		}
	}
	p.Stats["packages"] = len(p.Roots)
	p.Stats["files_read_normalised_by_the_overlay"] = nOverlay
	p.Stats["packages_with_deps"] = len(p.AllPkgs)
	p.Stats["functions_all"] = len(p.AllFns)
	p.Stats["functions_module"] = len(p.ModFns)
	nb := 0
	for _, f := range p.ModFns {
		nb += len(f.Blocks)
	}
	p.Stats["ssa_blocks_module"] = nb
	return p, nil
}

// PkgPathOf returns the import path of the package that owns fn ("" if unknown).
func PkgPathOf(f *ssa.Function) string {
	if f == nil {
		return ""
	}
	for g := f; g != nil; g = g.Parent() {
		if g.Pkg != nil {
			return g.Pkg.Pkg.Path()
		}
		if g.Object() != nil && g.Object().Pkg() != nil {
			return g.Object().Pkg().Path()
		}
	}
	if o := f.Origin(); o != nil && o != f {
		return PkgPathOf(o)
	}
	return ""
}

// InModule tells whether fn belongs to the module under analysis.
func (p *Prog) InModule(f *ssa.Function) bool {
	return strings.HasPrefix(PkgPathOf(f), ModPath)
}

// InBitset tells whether fn belongs to the bitset dependency.
func (p *Prog) InBitset(f *ssa.Function) bool {
	return PkgPathOf(f) == BitsetPath
}

// CG returns the VTA call graph (built on first use).
func (p *Prog) CG() *callgraph.Graph {
	if p.cg == nil {
		p.cg = vta.CallGraph(p.AllFns, cha.CallGraph(p.SSA))
		n := 0
		for _, nd := range p.cg.Nodes {
			n += len(nd.Out)
		}
		p.Stats["callgraph_edges"] = n
	}
	return p.cg
}

// Callees returns the possible callees of a call instruction in fn.
func (p *Prog) Callees(fn *ssa.Function, site ssa.CallInstruction) []*ssa.Function {
	if c := site.Common().StaticCallee(); c != nil {
		return []*ssa.Function{c}
	}
	var out []*ssa.Function
	if nd := p.CG().Nodes[fn]; nd != nil {
		for _, e := range nd.Out {
			if e.Site == site {
				out = append(out, e.Callee.Func)
			}
		}
	}
	sort.Slice(out, func(i, j int) bool { return out[i].String() < out[j].String() })
	return out
}

// Pos renders a position relative to the repository root.
func (p *Prog) Pos(pos token.Pos) string {
	if !pos.IsValid() {
		return "-"
	}
	ps := p.Fset.Position(pos)
	rel, err := filepath.Rel(p.RepoDir, ps.Filename)
	if err != nil || strings.HasPrefix(rel, "..") {
		rel = ps.Filename
	}
	return fmt.Sprintf("%s:%d", rel, ps.Line)
}

// Func finds a package-level function or a method: Func("url", "", "Parse"), Func("url", "parser", "BasicParser").
func (p *Prog) Func(pkg, recv, name string) *ssa.Function {
	if f := p.funcExact(pkg, recv, name); f != nil {
		return f
	}
	// an unexported function that changed between method and plain function (or moved to another receiver) is still
	// the function of that name, as long as the package has only one
	if name == "" || (name[0] >= 'A' && name[0] <= 'Z') {
		return nil
	}
	var found *ssa.Function
	for _, f := range p.ModFns {
		if f.Parent() != nil || f.Name() != name || f.Pkg == nil || f.Pkg != p.SSAPkg[pkg] {
			continue
		}
		if found != nil {
			return nil
		}
		found = f
	}
	return found
}

func (p *Prog) funcExact(pkg, recv, name string) *ssa.Function {
	sp := p.SSAPkg[pkg]
	if sp == nil {
		return nil
	}
	if recv == "" {
		return sp.Func(name)
	}
	tn, ok := sp.Pkg.Scope().Lookup(recv).(*types.TypeName)
	if !ok {
		return nil
	}
	for _, t := range []types.Type{types.NewPointer(tn.Type()), tn.Type()} {
		ms := p.SSA.MethodSets.MethodSet(t)
		for i := 0; i < ms.Len(); i++ {
			sel := ms.At(i)
			if sel.Obj().Name() == name && sel.Obj().Pkg() == sp.Pkg {
				if fn := p.SSA.MethodValue(sel); fn != nil {
					// prefer the declared method, not a promoted wrapper
					if fn.Synthetic == "" {
						return fn
					}
				}
			}
		}
	}
	return nil
}

// Decl returns the syntax of a source function.
func (p *Prog) Decl(fn *ssa.Function) *ast.FuncDecl {
	if fn == nil {
		return nil
	}
	if o, ok := fn.Object().(*types.Func); ok {
		return p.declOf[o]
	}
	return nil
}

// DeclOfObj returns the syntax of a function object.
func (p *Prog) DeclOfObj(o *types.Func) *ast.FuncDecl { return p.declOf[o] }

// PkgOfDecl returns the package whose syntax contains fd.
func (p *Prog) PkgOfDecl(fd *ast.FuncDecl) *packages.Package { return p.fileOf[fd] }

// Type looks up a named type of a module package.
func (p *Prog) Type(pkg, name string) *types.Named {
	pk := p.ByName[pkg]
	if pk == nil {
		return nil
	}
	tn, ok := pk.Types.Scope().Lookup(name).(*types.TypeName)
	if !ok {
		return nil
	}
	n, _ := tn.Type().(*types.Named)
	return n
}

// FieldIndex returns the index of a field of a named struct type, or -1.
func FieldIndex(t *types.Named, name string) int {
	if t == nil {
		return -1
	}
	st, ok := t.Underlying().(*types.Struct)
	if !ok {
		return -1
	}
	for i := 0; i < st.NumFields(); i++ {
		if st.Field(i).Name() == name {
			return i
		}
	}
	return -1
}

// StructFields lists the field names of a named struct type.
func StructFields(t *types.Named) []string {
	st, ok := t.Underlying().(*types.Struct)
	if !ok {
		return nil
	}
	var out []string
	for i := 0; i < st.NumFields(); i++ {
		out = append(out, st.Field(i).Name())
	}
	return out
}

// FuncName is a short stable name: url.(*parser).BasicParser, url.Parse, url.WithFoo$1.
func FuncName(f *ssa.Function) string {
	if f == nil {
		return "<nil>"
	}
	s := f.String()
	s = strings.ReplaceAll(s, ModPath+"/", "")
	s = strings.ReplaceAll(s, BitsetPath, "bitset")
	return s
}

// ExportedAPI lists exported functions and methods (on exported or unexported receiver types reachable through
// exported API) of the module's packages.
func (p *Prog) ExportedAPI() []*ssa.Function {
	var out []*ssa.Function
	seen := map[*ssa.Function]bool{}
	for _, name := range []string{"url", "canonicalizer", "errors"} {
		sp := p.SSAPkg[name]
		for _, m := range sp.Members {
			switch x := m.(type) {
			case *ssa.Function:
				if ast.IsExported(x.Name()) && !seen[x] {
					seen[x] = true
					out = append(out, x)
				}
			case *ssa.Type:
				for _, t := range []types.Type{x.Type(), types.NewPointer(x.Type())} {
					ms := p.SSA.MethodSets.MethodSet(t)
					for i := 0; i < ms.Len(); i++ {
						if !ast.IsExported(ms.At(i).Obj().Name()) {
							continue
						}
						fn := p.SSA.MethodValue(ms.At(i))
						if fn == nil || fn.Synthetic != "" || seen[fn] || !p.InModule(fn) {
							continue
						}
						seen[fn] = true
						out = append(out, fn)
					}
				}
			}
		}
	}
	sort.Slice(out, func(i, j int) bool { return out[i].String() < out[j].String() })
	return out
}
