package core

import (
	"encoding/json"
	"fmt"
	"os"
	"path/filepath"
	"sort"
	"strings"
)

// Verdicts of an obligation.
const (
	Discharged = "discharged"
	Violated   = "violated"
	Undecided  = "undecided" // the rule applies to the construct but does not recognise its idiom: fails closed
)

// Obligation is one construct a rule applies to, with its verdict.
type Obligation struct {
	Rule      string   `json:"rule"`
	Construct string   `json:"construct"` // stable key: function / normalised expression / ordinal (no line numbers)
	Pos       string   `json:"pos"`       // file:line (diagnostic only)
	Verdict   string   `json:"verdict"`
	Fact      string   `json:"fact"` // the deciding fact, or what is wrong
	Props     []string `json:"props"`
	Trivial   bool     `json:"trivial,omitempty"` // discharged by a constant / vacuous argument
}

// Serves tells whether the obligation is assigned to property id.
func (o Obligation) Serves(id string) bool {
	for _, p := range o.Props {
		if p == id {
			return true
		}
	}
	return false
}

// Sink collects obligations of a rule run.
type Sink struct {
	Rule  string
	Props []string
	Obs   []Obligation
}

func (s *Sink) add(v, construct, pos, fact string, props []string, trivial bool) {
	if props == nil {
		props = s.Props
	}
	s.Obs = append(s.Obs, Obligation{Rule: s.Rule, Construct: construct, Pos: pos, Verdict: v, Fact: fact, Props: props, Trivial: trivial})
}

// OK records a discharged obligation.
func (s *Sink) OK(construct, pos, fact string, props ...string) {
	s.add(Discharged, construct, pos, fact, props, false)
}

// Bad records a violated obligation.
func (s *Sink) Bad(construct, pos, fact string, props ...string) {
	s.add(Violated, construct, pos, fact, props, false)
}

// Unknown records an undecided obligation (fails closed).
func (s *Sink) Unknown(construct, pos, fact string, props ...string) {
	s.add(Undecided, construct, pos, fact, props, false)
}

// Check records discharged if ok, else violated.
func (s *Sink) Check(ok bool, construct, pos, okFact, badFact string, props ...string) {
	if ok {
		s.OK(construct, pos, okFact, props...)
	} else {
		s.Bad(construct, pos, badFact, props...)
	}
}

// Finding is an entry of known_findings.json.
type Finding struct {
	Property  string `json:"property"`
	Rule      string `json:"rule"`
	Construct string `json:"construct"`
	What      string `json:"what"`
	Status    string `json:"status"` // "known" | "fixed"
	Commit    string `json:"commit,omitempty"`
	Input     string `json:"failing_input,omitempty"`
}

// LoadFindings reads the committed known-findings file.
func LoadFindings(path string) ([]Finding, error) {
	b, err := os.ReadFile(path)
	if err != nil {
		return nil, err
	}
	var f struct {
		Findings []Finding `json:"findings"`
	}
	if err := json.Unmarshal(b, &f); err != nil {
		return nil, err
	}
	return f.Findings, nil
}

// RuleInfo documents a rule in the evidence.
type RuleInfo struct {
	Name       string `json:"rule"`
	Doc        string `json:"requires"`
	Floor      int    `json:"floor"`
	Instances  int    `json:"instances"`
	Discharged int    `json:"discharged"`
}

// Result of a property run.
type Result struct {
	Property    string
	Tier        string
	Seed        int
	Obs         []Obligation // filtered to the property
	Rules       []RuleInfo
	Internal    []string // checker-internal failures (panic, unresolved anchor, floor)
	Known       []string // KNOWN-FINDING lines
	Violations  []Obligation
	Stats       map[string]int
	Explanation string
	Decides     []string
	NotDecided  []string
	Assumptions []string
	Extra       map[string]interface{}
	WallS       float64
}

// WriteEvidence writes /verif/evidence/<id>.json per EVIDENCE.schema.json.
func (r *Result) WriteEvidence(dir string) error {
	if err := os.MkdirAll(dir, 0o755); err != nil {
		return err
	}
	disch, nontriv := 0, 0
	seen := map[string]bool{}
	for _, o := range r.Obs {
		if o.Verdict == Discharged {
			disch++
			k := o.Rule + "|" + o.Construct
			if !o.Trivial && !seen[k] {
				seen[k] = true
				nontriv++
			}
		}
	}
	// samples: up to 3 obligations per rule, violations first
	var samples []Obligation
	perRule := map[string]int{}
	for _, o := range r.Violations {
		samples = append(samples, o)
	}
	for _, o := range r.Obs {
		if o.Verdict == Discharged && perRule[o.Rule] < 3 {
			perRule[o.Rule]++
			samples = append(samples, o)
		}
	}
	cov := map[string]interface{}{
		"explanation":         r.Explanation,
		"decides":             r.Decides,
		"not_decided":         r.NotDecided,
		"obligations":         len(r.Obs),
		"discharged":          disch,
		"evaluations":         len(r.Obs),
		"distinct_nontrivial": nontriv,
		"rule":                "one obligation per construct a repository-specific static rule applies to (call site, store, case-clause path, table row, loop, index expression); distinct = distinct (rule, construct) keys; non-trivial = discharged by a recognised structural fact rather than vacuously",
		"samples":             samples,
		"exhaustive":          true,
		"rules":               r.Rules,
		"analysed":            r.Stats,
		"checker_cmd":         "/verif/run.sh " + r.Property + " " + r.Tier,
		"trusted_base":        []string{"go/types and go/ssa of golang.org/x/tools v0.29.0", "reviewed tables under /verif/tables", "reference tables under /verif/spec (transcribed from the 24 May 2023 URL Standard)"},
		"known_findings":      r.Known,
		"internal_failures":   r.Internal,
	}
	for k, v := range r.Extra {
		cov[k] = v
	}
	if r.Assumptions == nil {
		r.Assumptions = []string{}
	}
	if r.Decides == nil {
		cov["decides"] = []string{}
	}
	if r.NotDecided == nil {
		cov["not_decided"] = []string{}
	}
	if r.Known == nil {
		cov["known_findings"] = []string{}
	}
	if r.Internal == nil {
		cov["internal_failures"] = []string{}
	}
	if samples == nil {
		cov["samples"] = []Obligation{}
	}
	ev := map[string]interface{}{
		"property_id": r.Property,
		"tier":        r.Tier,
		"seed":        r.Seed,
		"level":       "other",
		"coverage":    cov,
		"assumptions": r.Assumptions,
		"wall_s":      r.WallS,
		"violations":  len(r.Violations) + len(r.Internal),
	}
	b, err := json.MarshalIndent(ev, "", " ")
	if err != nil {
		return err
	}
	return os.WriteFile(filepath.Join(dir, r.Property+".json"), append(b, '\n'), 0o644)
}

// WriteViolations writes the replay file and returns its path.
func (r *Result) WriteViolations(dir string) (string, error) {
	vd := filepath.Join(dir, "violations")
	if err := os.MkdirAll(vd, 0o755); err != nil {
		return "", err
	}
	path := filepath.Join(vd, r.Property+".json")
	out := map[string]interface{}{
		"property":          r.Property,
		"violations":        r.Violations,
		"internal_failures": r.Internal,
		"how_to_read":       "each entry names the rule, the construct (function / expression / ordinal), file:line in /repo, and the fact that is missing; re-run `/verif/run.sh " + r.Property + " quick` to reproduce",
	}
	b, _ := json.MarshalIndent(out, "", " ")
	return path, os.WriteFile(path, append(b, '\n'), 0o644)
}

// Classify splits obligations into violations and known findings.
func (r *Result) Classify(findings []Finding) {
	used := map[int]bool{}
	for _, o := range r.Obs {
		if o.Verdict == Discharged {
			continue
		}
		matched := false
		if o.Verdict == Violated {
			for i, f := range findings {
				if f.Status == "known" && f.Property == r.Property && f.Rule == o.Rule && f.Construct == o.Construct {
					matched = true
					if !used[i] {
						used[i] = true
						r.Known = append(r.Known, fmt.Sprintf("KNOWN-FINDING: property=%s %s [%s @ %s]", r.Property, f.What, o.Rule, o.Construct))
					}
				}
			}
		}
		if !matched {
			r.Violations = append(r.Violations, o)
		}
	}
	sort.SliceStable(r.Violations, func(i, j int) bool { return r.Violations[i].Rule < r.Violations[j].Rule })
}

// Summary renders a human-readable run summary.
func (r *Result) Summary() string {
	var sb strings.Builder
	fmt.Fprintf(&sb, "property %s tier=%s: %d obligations", r.Property, r.Tier, len(r.Obs))
	d := 0
	for _, o := range r.Obs {
		if o.Verdict == Discharged {
			d++
		}
	}
	fmt.Fprintf(&sb, ", %d discharged, %d violations, %d known, %d internal\n", d, len(r.Violations), len(r.Known), len(r.Internal))
	for _, ri := range r.Rules {
		fmt.Fprintf(&sb, "  rule %-16s instances=%-4d discharged=%-4d floor=%d\n", ri.Name, ri.Instances, ri.Discharged, ri.Floor)
	}
	for _, o := range r.Violations {
		fmt.Fprintf(&sb, "  %s %s: %s [%s] %s\n", strings.ToUpper(o.Verdict), o.Rule, o.Construct, o.Pos, o.Fact)
	}
	for _, s := range r.Internal {
		fmt.Fprintf(&sb, "  INTERNAL: %s\n", s)
	}
	return sb.String()
}
