package core

// Name normalisation. The rules name unexported functions, methods, fields and variables of the module (they are the
// anchors the properties are stated in). A change that merely renames such identifiers must not move the anchors, so
// before the analysis the current tree is aligned with a reference inventory of the reviewed tree
// (/verif/spec/names.json): every reference entity is matched to the entity of the current source that plays its part
// — same kind, same place (package, receiver / struct type), same shape (signature / field type), and, when the name
// differs, the most similar set of outside references (standard-library and exported callees, exported constants,
// literals, the already matched module functions that use it). If any name differs, an alpha-renamed copy of the tree
// is written to a scratch directory and that copy is analysed; renaming is semantics-preserving and line-preserving,
// so verdicts and file:line positions are those of the current source. Unmatched entities keep their names (the rules
// that need them then report an unresolved anchor, as before).

import (
	"encoding/json"
	"fmt"
	"go/ast"
	"go/token"
	"go/types"
	"os"
	"path/filepath"
	"sort"
	"strings"

	"golang.org/x/tools/go/packages"
)

type refEntity struct {
	Kind  string   `json:"kind"` // type | func | field | var
	Pkg   string   `json:"pkg"`
	Owner string   `json:"owner,omitempty"` // receiver type (func) / struct type (field)
	Name  string   `json:"name"`
	Shape string   `json:"shape"` // signature / field type / type shape, unexported module type names as written in the reference
	Feat  []string `json:"feat,omitempty"`
	// func only: parameter and result names by position; local variables in order of declaration ("name type")
	Params []string `json:"params,omitempty"`
	Locals []string `json:"locals,omitempty"`
	Order  int      `json:"order,omitempty"` // position among the declarations of the package (source order)
}

type nameInventory struct {
	Doc      string            `json:"_doc"`
	Entities []refEntity       `json:"entities"`
	Locals   map[string]string `json:"basicparser_locals"` // role -> name
}

type invEntity struct {
	refEntity
	obj       types.Object
	decl      *ast.FuncDecl
	pk        *packages.Package
	refs      map[types.Object]bool // module objects referenced from the body (funcs) — for second-round features
	usedBy    map[types.Object]bool // functions referencing this field / var
	localObjs []types.Object
}

func loadLight(repoDir string) ([]*packages.Package, error) {
	env := append(os.Environ(), "GOFLAGS=-mod=mod", "GOPROXY=off", "GOSUMDB=off", "GOWORK=off", "GOTOOLCHAIN=local")
	cfg := &packages.Config{Mode: packages.NeedName | packages.NeedFiles | packages.NeedCompiledGoFiles | packages.NeedImports | packages.NeedDeps | packages.NeedTypes | packages.NeedSyntax | packages.NeedTypesInfo | packages.NeedTypesSizes,
		Dir: repoDir, Env: env, Tests: false} // no overlay: the name-aligned copy is written from positions in the files as they are on disk
	for {
		pkgs, err := packages.Load(cfg, "./...")
		if err != nil {
			return nil, err
		}
		var first error
		for _, p := range pkgs {
			if len(p.Errors) > 0 && first == nil {
				first = fmt.Errorf("%v", p.Errors[0])
			}
		}
		if first == nil {
			return pkgs, nil
		}
		if cfg.Overlay == nil {
			return nil, first
		}
		cfg.Overlay = nil
	}
}

func (e *refEntity) id() string { return e.Kind + ":" + e.Pkg + "." + e.Owner + "." + e.Name }

func isModuleObj(o types.Object) bool {
	return o != nil && o.Pkg() != nil && strings.HasPrefix(o.Pkg().Path(), ModPath)
}

// shapeOf prints a type with unexported module type names passed through `tname`.
func shapeOf(t types.Type, tname func(*types.TypeName) string) string {
	return types.TypeString(t, func(p *types.Package) string {
		if p == nil {
			return ""
		}
		return p.Name()
	})
}

func sigShape(sig *types.Signature) string {
	var ps, rs []string
	for i := 0; i < sig.Params().Len(); i++ {
		ps = append(ps, shapeOf(sig.Params().At(i).Type(), nil))
	}
	for i := 0; i < sig.Results().Len(); i++ {
		rs = append(rs, shapeOf(sig.Results().At(i).Type(), nil))
	}
	v := ""
	if sig.Variadic() {
		v = "..."
	}
	return "(" + strings.Join(ps, ",") + v + ")(" + strings.Join(rs, ",") + ")"
}

func recvName(sig *types.Signature) string {
	if sig.Recv() == nil {
		return ""
	}
	t := sig.Recv().Type()
	if p, ok := t.(*types.Pointer); ok {
		t = p.Elem()
	}
	if n, ok := t.(*types.Named); ok {
		return n.Obj().Name()
	}
	return ""
}

func buildInventory(pkgs []*packages.Package) []*invEntity {
	var out []*invEntity
	byObj := map[types.Object]*invEntity{}
	add := func(e *invEntity) {
		out = append(out, e)
		byObj[e.obj] = e
	}
	for _, pk := range pkgs {
		sc := pk.Types.Scope()
		for _, n := range sc.Names() {
			switch o := sc.Lookup(n).(type) {
			case *types.TypeName:
				named, ok := o.Type().(*types.Named)
				if !ok {
					continue
				}
				shape := "type:" + shapeOf(named.Underlying(), nil)
				if st, ok := named.Underlying().(*types.Struct); ok {
					var fts []string
					for i := 0; i < st.NumFields(); i++ {
						fts = append(fts, shapeOf(st.Field(i).Type(), nil))
					}
					sort.Strings(fts)
					shape = "struct{" + strings.Join(fts, ";") + "}"
					for i := 0; i < st.NumFields(); i++ {
						f := st.Field(i)
						add(&invEntity{refEntity: refEntity{Kind: "field", Pkg: pk.Name, Owner: o.Name(), Name: f.Name(), Shape: shapeOf(f.Type(), nil)}, obj: f, pk: pk, usedBy: map[types.Object]bool{}})
					}
				}
				if it, ok := named.Underlying().(*types.Interface); ok {
					for i := 0; i < it.NumExplicitMethods(); i++ {
						m := it.ExplicitMethod(i)
						add(&invEntity{refEntity: refEntity{Kind: "func", Pkg: pk.Name, Owner: o.Name(), Name: m.Name(), Shape: sigShape(m.Type().(*types.Signature))}, obj: m, pk: pk, refs: map[types.Object]bool{}})
					}
				}
				add(&invEntity{refEntity: refEntity{Kind: "type", Pkg: pk.Name, Name: o.Name(), Shape: shape}, obj: o, pk: pk})
			case *types.Var:
				add(&invEntity{refEntity: refEntity{Kind: "var", Pkg: pk.Name, Name: o.Name(), Shape: shapeOf(o.Type(), nil)}, obj: o, pk: pk, usedBy: map[types.Object]bool{}})
			case *types.Const:
				add(&invEntity{refEntity: refEntity{Kind: "var", Pkg: pk.Name, Name: o.Name(), Shape: "const " + shapeOf(o.Type(), nil)}, obj: o, pk: pk, usedBy: map[types.Object]bool{}})
			}
		}
		for _, f := range pk.Syntax {
			for _, d := range f.Decls {
				fd, ok := d.(*ast.FuncDecl)
				if !ok {
					continue
				}
				o, ok := pk.TypesInfo.Defs[fd.Name].(*types.Func)
				if !ok || fd.Name.Name == "init" && fd.Recv == nil {
					continue
				}
				sig := o.Type().(*types.Signature)
				e := &invEntity{refEntity: refEntity{Kind: "func", Pkg: pk.Name, Owner: recvName(sig), Name: o.Name(), Shape: sigShape(sig)}, obj: o, decl: fd, pk: pk, refs: map[types.Object]bool{}}
				if fd.Recv != nil && len(fd.Recv.List) == 1 && len(fd.Recv.List[0].Names) == 1 {
					e.Params = append(e.Params, "recv:"+fd.Recv.List[0].Names[0].Name)
				}
				for _, fl := range fd.Type.Params.List {
					for _, nm := range fl.Names {
						e.Params = append(e.Params, nm.Name)
					}
					if len(fl.Names) == 0 {
						e.Params = append(e.Params, "_")
					}
				}
				if fd.Type.Results != nil {
					for _, fl := range fd.Type.Results.List {
						for _, nm := range fl.Names {
							e.Params = append(e.Params, "res:"+nm.Name)
						}
					}
				}
				add(e)
			}
		}
	}
	// source order of declarations (per package)
	{
		idx := make([]*invEntity, 0, len(out))
		for _, e := range out {
			if e.Kind == "func" || e.Kind == "var" || e.Kind == "type" {
				idx = append(idx, e)
			}
		}
		sort.SliceStable(idx, func(i, j int) bool {
			pi, pj := idx[i].pk.Fset.Position(idx[i].obj.Pos()), idx[j].pk.Fset.Position(idx[j].obj.Pos())
			if filepath.Base(pi.Filename) != filepath.Base(pj.Filename) {
				return filepath.Base(pi.Filename) < filepath.Base(pj.Filename)
			}
			return pi.Offset < pj.Offset
		})
		for i, e := range idx {
			e.Order = i + 1
		}
	}
	// features
	for _, e := range out {
		if e.Kind != "func" || e.decl == nil || e.decl.Body == nil {
			continue
		}
		feat := map[string]bool{}
		info := e.pk.TypesInfo
		kinds := map[string]int{}
		ast.Inspect(e.decl.Body, func(n ast.Node) bool {
			switch x := n.(type) {
			case *ast.RangeStmt:
				kinds["range"]++
			case *ast.ForStmt:
				kinds["for"]++
			case *ast.SwitchStmt:
				kinds["switch"]++
			case *ast.IfStmt:
				kinds["if"]++
			case *ast.ReturnStmt:
				kinds["return"]++
			case *ast.SliceExpr:
				kinds["slice"]++
			case *ast.IndexExpr:
				kinds["index"]++
			case *ast.IncDecStmt:
				kinds["incdec"+x.Tok.String()]++
			case *ast.BinaryExpr:
				kinds["op"+x.Op.String()]++
			}
			return true
		})
		for k, n := range kinds {
			if n > 4 {
				n = 4
			}
			for i := 1; i <= n; i++ {
				feat[fmt.Sprintf("ast:%s#%d", k, i)] = true
			}
		}
		// local variables in order of declaration
		type lv struct {
			pos token.Pos
			s   string
			o   types.Object
		}
		var lvs []lv
		ast.Inspect(e.decl.Body, func(n ast.Node) bool {
			if id, ok := n.(*ast.Ident); ok && id.Name != "_" {
				if o, ok := info.Defs[id].(*types.Var); ok && o != nil && !o.IsField() {
					lvs = append(lvs, lv{id.Pos(), o.Name() + " " + shapeOf(o.Type(), nil), o})
				}
			}
			return true
		})
		sort.Slice(lvs, func(i, j int) bool { return lvs[i].pos < lvs[j].pos })
		for _, l := range lvs {
			e.Locals = append(e.Locals, l.s)
			e.localObjs = append(e.localObjs, l.o)
		}
		ast.Inspect(e.decl.Body, func(n ast.Node) bool {
			switch x := n.(type) {
			case *ast.BasicLit:
				v := x.Value
				if len(v) > 24 {
					v = v[:24]
				}
				if x.Kind == token.STRING || x.Kind == token.CHAR || len(v) > 1 {
					feat["lit:"+v] = true
				}
			case *ast.Ident:
				o := info.Uses[x]
				if o == nil {
					return true
				}
				switch y := o.(type) {
				case *types.Func:
					if !isModuleObj(y) || y.Exported() {
						feat["call:"+y.FullName()] = true
					} else {
						e.refs[y] = true
					}
				case *types.Const, *types.Var:
					if v, isVar := y.(*types.Var); isVar && v.IsField() {
						if isModuleObj(y) {
							if y.Exported() {
								feat["field:"+y.Name()] = true
							} else if fe := byObj[y]; fe != nil {
								fe.usedBy[e.obj] = true
							}
						}
						return true
					}
					if y.Parent() != nil && y.Parent() != y.Pkg().Scope() {
						return true // local
					}
					if isModuleObj(y) {
						if y.Exported() {
							feat["ref:"+y.Pkg().Name()+"."+y.Name()] = true
						} else {
							e.refs[y] = true
							if ve := byObj[y]; ve != nil && ve.usedBy != nil {
								ve.usedBy[e.obj] = true
							}
						}
					} else if y.Pkg() != nil {
						feat["ref:"+y.Pkg().Path()+"."+y.Name()] = true
					}
				case *types.TypeName:
					if isModuleObj(y) && !y.Exported() {
						e.refs[y] = true
					}
				}
			}
			return true
		})
		for f := range feat {
			e.Feat = append(e.Feat, f)
		}
		sort.Strings(e.Feat)
	}
	return out
}

// finishFeatures adds, for functions, the (canonical) names of the module entities they use, and for fields and
// variables the (canonical) names of the functions using them.
func finishFeatures(inv []*invEntity, canon func(types.Object) string) {
	byObj := map[types.Object]*invEntity{}
	for _, e := range inv {
		byObj[e.obj] = e
	}
	for _, e := range inv {
		var extra []string
		switch e.Kind {
		case "func":
			for o := range e.refs {
				if n := canon(o); n != "" {
					extra = append(extra, "uses:"+n)
				}
			}
		case "field", "var":
			for o := range e.usedBy {
				if n := canon(o); n != "" {
					extra = append(extra, "usedby:"+n)
				}
			}
		}
		base := e.Feat[:0:0]
		for _, f := range e.Feat {
			if !strings.HasPrefix(f, "uses:") && !strings.HasPrefix(f, "usedby:") {
				base = append(base, f)
			}
		}
		e.Feat = append(base, extra...)
		sort.Strings(e.Feat)
	}
}

func qualName(o types.Object) string {
	switch x := o.(type) {
	case *types.Func:
		return x.FullName()
	case *types.Var:
		if x.IsField() {
			return "field " + x.Name()
		}
	}
	if o.Pkg() != nil {
		return o.Pkg().Name() + "." + o.Name()
	}
	return o.Name()
}

// basicParserLocals finds the variables of BasicParser the rules know by role.
func basicParserLocals(pkgs []*packages.Package) (map[string]types.Object, *ast.FuncDecl, *packages.Package) {
	for _, pk := range pkgs {
		if pk.Name != "url" {
			continue
		}
		for _, f := range pk.Syntax {
			for _, d := range f.Decls {
				fd, ok := d.(*ast.FuncDecl)
				if !ok || fd.Name.Name != "BasicParser" || fd.Recv == nil || fd.Body == nil {
					continue
				}
				info := pk.TypesInfo
				roles := map[string]types.Object{}
				// parameters by position
				var params []types.Object
				for _, fl := range fd.Type.Params.List {
					for _, nm := range fl.Names {
						params = append(params, info.Defs[nm])
					}
				}
				for i, r := range []string{"urlOrRef", "baseUrl", "url", "stateOverride"} {
					if i < len(params) {
						roles[r] = params[i]
					}
				}
				if len(fd.Recv.List) == 1 && len(fd.Recv.List[0].Names) == 1 {
					roles["p"] = info.Defs[fd.Recv.List[0].Names[0]]
				}
				refs := map[types.Object]int{}
				ast.Inspect(fd.Body, func(n ast.Node) bool {
					if id, ok := n.(*ast.Ident); ok {
						if o := info.Uses[id]; o != nil {
							refs[o]++
						}
					}
					return true
				})
				named := func(t types.Type) string {
					if p, ok := t.(*types.Pointer); ok {
						t = p.Elem()
					}
					if n, ok := t.(*types.Named); ok {
						return n.Obj().Name()
					}
					return ""
				}
				var builders []types.Object
				ast.Inspect(fd.Body, func(n ast.Node) bool {
					switch x := n.(type) {
					case *ast.Ident:
						o, ok := info.Defs[x].(*types.Var)
						if !ok || o == nil {
							return true
						}
						switch {
						case named(o.Type()) == "inputString" && roles["input"] == nil:
							roles["input"] = o
						case named(o.Type()) == "State" && roles["state"] == nil:
							roles["state"] = o
						case named(o.Type()) == "Builder":
							builders = append(builders, o)
						case named(o.Type()) == "Url" && roles["base"] == nil:
							roles["base"] = o
						}
					case *ast.AssignStmt:
						if len(x.Lhs) == 1 && len(x.Rhs) == 1 {
							id, ok := x.Lhs[0].(*ast.Ident)
							if !ok {
								return true
							}
							o := info.Defs[id]
							if o == nil {
								return true
							}
							if be, ok := x.Rhs[0].(*ast.BinaryExpr); ok && be.Op == token.GTR {
								if pid, ok := be.X.(*ast.Ident); ok && roles["stateOverride"] != nil && info.Uses[pid] == roles["stateOverride"] {
									roles["stateOverridden"] = o
								}
							}
							if call, ok := x.Rhs[0].(*ast.CallExpr); ok {
								if sel, ok := call.Fun.(*ast.SelectorExpr); ok {
									if rid, ok := sel.X.(*ast.Ident); ok && roles["input"] != nil && info.Uses[rid] == roles["input"] {
										if b, ok := o.Type().Underlying().(*types.Basic); ok && b.Kind() == types.Int32 && roles["r"] == nil {
											roles["r"] = o
										}
									}
								}
							}
						}
					}
					return true
				})
				best := -1
				for _, b := range builders {
					if refs[b] > best {
						best = refs[b]
						roles["buffer"] = b
					}
				}
				return roles, fd, pk
			}
		}
	}
	return nil, nil, nil
}

// GenNames writes the reference inventory of the tree in repoDir.
func GenNames(repoDir, outFile string) error {
	pkgs, err := loadLight(repoDir)
	if err != nil {
		return err
	}
	inv := buildInventory(pkgs)
	ids := map[types.Object]string{}
	for _, e := range inv {
		ids[e.obj] = e.id()
	}
	finishFeatures(inv, func(o types.Object) string { return ids[o] })
	ni := nameInventory{Doc: "Reference inventory of the reviewed tree: the names the rules use for unexported entities, with the shape and outside references by which the same entity is recognised under another name (core/canon.go). Regenerate with `wucheck -gen-names` only after reviewing the rules against the tree it is generated from.", Locals: map[string]string{}}
	for _, e := range inv {
		ni.Entities = append(ni.Entities, e.refEntity)
	}
	sort.Slice(ni.Entities, func(i, j int) bool {
		a, b := ni.Entities[i], ni.Entities[j]
		if a.Kind != b.Kind {
			return a.Kind < b.Kind
		}
		if a.Pkg != b.Pkg {
			return a.Pkg < b.Pkg
		}
		if a.Owner != b.Owner {
			return a.Owner < b.Owner
		}
		return a.Name < b.Name
	})
	roles, _, _ := basicParserLocals(pkgs)
	for r, o := range roles {
		if o != nil {
			ni.Locals[r] = o.Name()
		}
	}
	b, _ := json.MarshalIndent(ni, "", " ")
	return os.WriteFile(outFile, b, 0o644)
}

func jaccard(a, b []string) float64 {
	if len(a) == 0 && len(b) == 0 {
		return 0
	}
	set := map[string]bool{}
	for _, x := range a {
		set[x] = true
	}
	inter, union := 0, len(set)
	for _, x := range b {
		if set[x] {
			inter++
		} else {
			union++
		}
	}
	return float64(inter) / float64(union)
}

// Renaming is one identifier of the current source that is known to the rules under another name.
type Renaming struct {
	What, From, To string
}

// Normalise aligns the tree in repoDir with the reference inventory. It returns the directory to analyse (repoDir
// itself when every reference name is present, otherwise a scratch copy with the matched identifiers renamed to their
// reference names — to be removed by the caller) and the renamings applied.
func Normalise(repoDir, verifDir string) (string, []Renaming, error) {
	b, err := os.ReadFile(filepath.Join(verifDir, "spec", "names.json"))
	if err != nil {
		return repoDir, nil, nil // no inventory: nothing to align with
	}
	var ref nameInventory
	if err := json.Unmarshal(b, &ref); err != nil {
		return repoDir, nil, fmt.Errorf("spec/names.json: %v", err)
	}
	pkgs, err := loadLight(repoDir)
	if err != nil {
		return repoDir, nil, nil // the full load reports the problem
	}
	inv := buildInventory(pkgs)
	key := func(e *refEntity) string { return e.Kind + "|" + e.Pkg + "|" + e.Owner + "|" + e.Name }
	actual := map[string]*invEntity{}
	for _, e := range inv {
		actual[key(&e.refEntity)] = e
	}
	matched := map[*invEntity]*refEntity{} // actual -> reference
	taken := map[string]bool{}             // reference keys matched
	canonOf := map[types.Object]string{}   // actual object -> canonical qualified name (for features)
	// owners (types) first, by identity of name, then by shape
	typeCanon := map[string]string{} // pkg|actualTypeName -> reference type name
	var refTypes, refOthers []*refEntity
	for i := range ref.Entities {
		e := &ref.Entities[i]
		if e.Kind == "type" {
			refTypes = append(refTypes, e)
		} else {
			refOthers = append(refOthers, e)
		}
	}
	for _, rt := range refTypes {
		if a := actual[key(rt)]; a != nil {
			matched[a], taken[key(rt)] = rt, true
			typeCanon[rt.Pkg+"|"+a.Name] = rt.Name
			canonOf[a.obj] = rt.id()
		}
	}
	for _, rt := range refTypes {
		if taken[key(rt)] {
			continue
		}
		var cands []*invEntity
		for _, a := range inv {
			if a.Kind == "type" && a.Pkg == rt.Pkg && matched[a] == nil && a.Shape == rt.Shape && !a.obj.Exported() {
				cands = append(cands, a)
			}
		}
		if len(cands) == 1 {
			matched[cands[0]], taken[key(rt)] = rt, true
			typeCanon[rt.Pkg+"|"+cands[0].Name] = rt.Name
			canonOf[cands[0].obj] = rt.id()
		}
	}
	ownerCanon := func(e *invEntity) string {
		if e.Owner == "" {
			return ""
		}
		if c, ok := typeCanon[e.Pkg+"|"+e.Owner]; ok {
			return c
		}
		return e.Owner
	}
	// shapes mention unexported type names: compare after mapping actual type names to reference names
	canonShape := func(e *invEntity) string {
		s := e.Shape
		for k, v := range typeCanon {
			parts := strings.SplitN(k, "|", 2)
			if parts[1] != v {
				s = replaceWord(s, parts[0]+"."+parts[1], parts[0]+"."+v)
			}
		}
		return s
	}
	canonName := func(o types.Object) string {
		if n, ok := canonOf[o]; ok {
			return n
		}
		return ""
	}
	// identity matches
	for _, re := range refOthers {
		for _, a := range inv {
			if a.Kind == re.Kind && a.Pkg == re.Pkg && ownerCanon(a) == re.Owner && a.Name == re.Name && matched[a] == nil {
				matched[a], taken[key(re)] = re, true
				canonOf[a.obj] = re.id()
			}
		}
	}
	// similarity matches, functions first (their names feed the features of fields and variables)
	for round := 0; round < 4; round++ {
		finishFeatures(inv, canonName)
		progress := false
		for _, kind := range []string{"func", "field", "var"} {
			for _, re := range refOthers {
				if re.Kind != kind || taken[key(re)] {
					continue
				}
				// reference features were written with reference names: same form as canonOf values
				rf := make([]string, 0, len(re.Feat))
				for _, f := range re.Feat {
					rf = append(rf, f)
				}
				var best, second float64
				var bestE *invEntity
				n := 0
				for _, a := range inv {
					if a.Kind != kind || a.Pkg != re.Pkg || matched[a] != nil || ownerCanon(a) != re.Owner || canonShape(a) != re.Shape {
						continue
					}
					if a.obj.Exported() {
						continue // exported names are the API: never renamed
					}
					n++
					sc := jaccard(rf, a.Feat)
					if sc > best {
						best, second, bestE = sc, best, a
					} else if sc > second {
						second = sc
					}
				}
				if bestE == nil {
					continue
				}
				if (n == 1 && best >= 0.2) || (best >= 0.34 && best-second >= 0.08) || (n == 1 && len(rf) == 0 && len(bestE.Feat) == 0) {
					matched[bestE], taken[key(re)] = re, true
					canonOf[bestE.obj] = re.id()
					progress = true
				}
			}
		}
		if !progress {
			break
		}
	}
	// what is left: groups of the same kind, place and shape with as many unmatched reference entities as unmatched
	// candidates are paired in source order (a pure renaming keeps the order of declarations)
	{
		type grp struct {
			refs []*refEntity
			acts []*invEntity
		}
		groups := map[string]*grp{}
		gk := func(kind, pkg, owner, shape string) string { return kind + "|" + pkg + "|" + owner + "|" + shape }
		for _, re := range refOthers {
			if taken[key(re)] || re.Kind == "field" {
				continue
			}
			k := gk(re.Kind, re.Pkg, re.Owner, re.Shape)
			if groups[k] == nil {
				groups[k] = &grp{}
			}
			groups[k].refs = append(groups[k].refs, re)
		}
		for _, a := range inv {
			if matched[a] != nil || a.Kind == "field" || a.Kind == "type" || a.obj.Exported() {
				continue
			}
			k := gk(a.Kind, a.Pkg, ownerCanon(a), canonShape(a))
			if groups[k] != nil {
				groups[k].acts = append(groups[k].acts, a)
			}
		}
		for _, g := range groups {
			if len(g.refs) == 0 || len(g.refs) != len(g.acts) {
				continue
			}
			sort.Slice(g.refs, func(i, j int) bool { return g.refs[i].Order < g.refs[j].Order })
			sort.Slice(g.acts, func(i, j int) bool { return g.acts[i].Order < g.acts[j].Order })
			for i := range g.refs {
				matched[g.acts[i]], taken[key(g.refs[i])] = g.refs[i], true
				canonOf[g.acts[i].obj] = g.refs[i].id()
			}
		}
	}
	// the renamings
	rename := map[types.Object]string{}
	var list []Renaming
	for a, re := range matched {
		if a.Name != re.Name && !a.obj.Exported() {
			rename[a.obj] = re.Name
			list = append(list, Renaming{re.Kind + " " + strings.Trim(re.Pkg+"."+re.Owner, "."), a.Name, re.Name})
		}
		// parameter and result names of matched functions, by position
		if a.Kind == "func" && a.decl != nil && len(a.Params) == len(re.Params) {
			var objs []types.Object
			info := a.pk.TypesInfo
			if a.decl.Recv != nil && len(a.decl.Recv.List) == 1 && len(a.decl.Recv.List[0].Names) == 1 {
				objs = append(objs, info.Defs[a.decl.Recv.List[0].Names[0]])
			}
			for _, fl := range a.decl.Type.Params.List {
				for _, nm := range fl.Names {
					objs = append(objs, info.Defs[nm])
				}
				if len(fl.Names) == 0 {
					objs = append(objs, nil)
				}
			}
			if a.decl.Type.Results != nil {
				for _, fl := range a.decl.Type.Results.List {
					for _, nm := range fl.Names {
						objs = append(objs, info.Defs[nm])
					}
				}
			}
			if len(objs) == len(re.Params) {
				for i, o := range objs {
					want := re.Params[i]
					want = strings.TrimPrefix(strings.TrimPrefix(want, "recv:"), "res:")
					if o == nil || want == "_" || o.Name() == "_" || o.Name() == want {
						continue
					}
					rename[o] = want
				}
			}
			// local variables, when the function declares the same sequence of types
			if len(a.localObjs) == len(re.Locals) && len(re.Locals) > 0 {
				same := true
				for i, l := range a.Locals {
					if typeOfLocal(l) != typeOfLocal(re.Locals[i]) {
						same = false
					}
				}
				if same {
					for i, o := range a.localObjs {
						want := strings.SplitN(re.Locals[i], " ", 2)[0]
						if o.Name() != want {
							rename[o] = want
						}
					}
				}
			}
		}
	}
	// locals of BasicParser by role
	if roles, _, _ := basicParserLocals(pkgs); roles != nil {
		for role, o := range roles {
			want, ok := ref.Locals[role]
			if !ok || o == nil || o.Name() == want {
				continue
			}
			rename[o] = want
			list = append(list, Renaming{"variable of BasicParser", o.Name(), want})
		}
	}
	if len(rename) == 0 {
		return repoDir, nil, nil
	}
	// collisions: a renamed identifier must not capture or be captured by another one of the same name
	dropCollisions(pkgs, rename)
	if len(rename) == 0 {
		return repoDir, nil, nil
	}
	dir, err := writeRenamed(repoDir, pkgs, rename)
	if err != nil {
		return repoDir, nil, err
	}
	sort.Slice(list, func(i, j int) bool { return list[i].What+list[i].From < list[j].What+list[j].From })
	var kept []Renaming
	for _, r := range list {
		kept = append(kept, r)
	}
	return dir, kept, nil
}

func typeOfLocal(s string) string {
	if i := strings.IndexByte(s, ' '); i >= 0 {
		return s[i+1:]
	}
	return s
}

func replaceWord(s, old, new string) string {
	isId := func(c byte) bool {
		return c == '_' || (c >= '0' && c <= '9') || (c >= 'a' && c <= 'z') || (c >= 'A' && c <= 'Z')
	}
	var out strings.Builder
	for i := 0; i < len(s); {
		if strings.HasPrefix(s[i:], old) && (i+len(old) == len(s) || !isId(s[i+len(old)])) && (i == 0 || !isId(s[i-1])) {
			out.WriteString(new)
			i += len(old)
			continue
		}
		out.WriteByte(s[i])
		i++
	}
	return out.String()
}

// dropCollisions removes renamings whose new name is already used, in a scope where the object is visible, by an
// object that keeps that name.
func dropCollisions(pkgs []*packages.Package, rename map[types.Object]string) {
	for changed := true; changed; {
		changed = false
		for o, want := range rename {
			bad := false
			// objects that will carry `want` after renaming, in the scopes that matter
			check := func(other types.Object) {
				if other == nil || other == o {
					return
				}
				final := other.Name()
				if r, ok := rename[other]; ok {
					final = r
				}
				if final == want {
					bad = true
				}
			}
			switch v := o.(type) {
			case *types.Var:
				if v.IsField() {
					// sibling fields and methods of the owning struct: found through the package's named types
					for _, pk := range pkgs {
						if pk.Types != o.Pkg() {
							continue
						}
						for _, n := range pk.Types.Scope().Names() {
							tn, ok := pk.Types.Scope().Lookup(n).(*types.TypeName)
							if !ok {
								continue
							}
							st, ok := tn.Type().Underlying().(*types.Struct)
							if !ok {
								continue
							}
							own := false
							for i := 0; i < st.NumFields(); i++ {
								if st.Field(i) == v {
									own = true
								}
							}
							if !own {
								continue
							}
							for i := 0; i < st.NumFields(); i++ {
								check(st.Field(i))
							}
							if named, ok := tn.Type().(*types.Named); ok {
								for i := 0; i < named.NumMethods(); i++ {
									check(named.Method(i))
								}
							}
						}
					}
				} else if o.Parent() != nil {
					// a local or package-level variable: everything visible in its scope chain and in nested scopes
					var walk func(sc *types.Scope)
					walk = func(sc *types.Scope) {
						for _, n := range sc.Names() {
							check(sc.Lookup(n))
						}
						for i := 0; i < sc.NumChildren(); i++ {
							walk(sc.Child(i))
						}
					}
					top := o.Parent()
					pkgScope := o.Pkg().Scope()
					if top != pkgScope {
						// climb to the scope of the enclosing function (its parent is the file scope)
						for {
							par := top.Parent()
							if par == nil || par == types.Universe || par == pkgScope || par.Parent() == pkgScope {
								break
							}
							top = par
						}
					}
					walk(top)
				}
			case *types.Func:
				sig := v.Type().(*types.Signature)
				if sig.Recv() == nil {
					for _, n := range o.Pkg().Scope().Names() {
						check(o.Pkg().Scope().Lookup(n))
					}
				} else {
					t := sig.Recv().Type()
					if p, ok := t.(*types.Pointer); ok {
						t = p.Elem()
					}
					if named, ok := t.(*types.Named); ok {
						for i := 0; i < named.NumMethods(); i++ {
							check(named.Method(i))
						}
						if st, ok := named.Underlying().(*types.Struct); ok {
							for i := 0; i < st.NumFields(); i++ {
								check(st.Field(i))
							}
						}
					}
				}
			case *types.TypeName, *types.Const:
				for _, n := range o.Pkg().Scope().Names() {
					check(o.Pkg().Scope().Lookup(n))
				}
			}
			if bad {
				delete(rename, o)
				changed = true
			}
		}
	}
}

// writeRenamed copies the tree to a scratch directory, replacing every identifier that denotes a renamed object.
func writeRenamed(repoDir string, pkgs []*packages.Package, rename map[types.Object]string) (string, error) {
	dir, err := os.MkdirTemp("", "wucheck-norm-")
	if err != nil {
		return "", err
	}
	type edit struct {
		off, n int
		to     string
	}
	edits := map[string][]edit{}
	for _, pk := range pkgs {
		record := func(id *ast.Ident, o types.Object) {
			to, ok := rename[o]
			if !ok || id.Name == "_" {
				return
			}
			pos := pk.Fset.Position(id.Pos())
			edits[pos.Filename] = append(edits[pos.Filename], edit{pos.Offset, len(id.Name), to})
		}
		for id, o := range pk.TypesInfo.Defs {
			if o != nil {
				record(id, o)
			}
		}
		for id, o := range pk.TypesInfo.Uses {
			record(id, o)
		}
		// struct literal keys and selections are Uses; embedded fields are not renamed (their name is the type's)
	}
	// copy every file of the repository (not .git), applying edits to the analysed ones
	err = filepath.Walk(repoDir, func(path string, fi os.FileInfo, err error) error {
		if err != nil {
			return err
		}
		rel, _ := filepath.Rel(repoDir, path)
		if fi.IsDir() {
			if fi.Name() == ".git" {
				return filepath.SkipDir
			}
			return os.MkdirAll(filepath.Join(dir, rel), 0o755)
		}
		if strings.HasSuffix(path, "_test.go") {
			return nil // tests are not analysed (and would not compile against renamed identifiers)
		}
		b, err := os.ReadFile(path)
		if err != nil {
			return err
		}
		if es := edits[path]; len(es) > 0 {
			sort.Slice(es, func(i, j int) bool { return es[i].off > es[j].off })
			last := -1
			for _, e := range es {
				if e.off == last {
					continue
				}
				last = e.off
				b = append(b[:e.off], append([]byte(e.to), b[e.off+e.n:]...)...)
			}
		}
		return os.WriteFile(filepath.Join(dir, rel), b, 0o644)
	})
	if err != nil {
		os.RemoveAll(dir)
		return "", err
	}
	return dir, nil
}
