package core

// Source normalisation before loading: a tagless switch is read as the if / else-if chain it abbreviates.
//
// go/ssa lowers `if a || b {…}` into branches (one test per block) but evaluates the case expressions of a tagless
// switch as values (`a || b` becomes a phi of booleans feeding one branch). The two forms mean the same, and the rules
// read tests off branches; so that the form chosen by the author does not matter, every tagless switch that can be
// rewritten without changing its meaning is handed to the loader as an if / else-if chain, through an overlay that
// keeps every line where it was (positions in reports still point at the author's text). Not rewritten: switches with
// an init statement or a label, with a `break` that leaves the switch, with `fallthrough`, or with a default clause
// that is not the last one.

import (
	"go/ast"
	"go/parser"
	"go/token"
	"os"
	"path/filepath"
	"sort"
	"strings"
)

type srcEdit struct {
	from, to int // byte offsets
	text     string
}

// SwitchOverlay returns the overlay (file name -> rewritten content) for the non-test Go files below dir.
func SwitchOverlay(dir string) map[string][]byte {
	out := map[string][]byte{}
	filepath.Walk(dir, func(path string, info os.FileInfo, err error) error {
		if err != nil {
			return nil
		}
		if info.IsDir() {
			n := info.Name()
			if path != dir && (strings.HasPrefix(n, ".") || n == "vendor" || n == "testdata") {
				return filepath.SkipDir
			}
			return nil
		}
		if !strings.HasSuffix(path, ".go") || strings.HasSuffix(path, "_test.go") {
			return nil
		}
		src, err := os.ReadFile(path)
		if err != nil {
			return nil
		}
		if nsrc, changed := rewriteTaglessSwitches(path, src); changed {
			abs, err := filepath.Abs(path)
			if err == nil {
				out[abs] = nsrc
			}
		}
		return nil
	})
	return out
}

func rewriteTaglessSwitches(name string, src []byte) ([]byte, bool) {
	fset := token.NewFileSet()
	f, err := parser.ParseFile(fset, name, src, parser.SkipObjectResolution)
	if err != nil {
		return nil, false
	}
	off := func(p token.Pos) int { return fset.Position(p).Offset }
	labelled := map[ast.Stmt]bool{}
	ast.Inspect(f, func(n ast.Node) bool {
		if l, ok := n.(*ast.LabeledStmt); ok {
			labelled[l.Stmt] = true
		}
		return true
	})
	var edits []srcEdit
	ast.Inspect(f, func(n ast.Node) bool {
		sw, ok := n.(*ast.SwitchStmt)
		if !ok || sw.Tag != nil || sw.Init != nil || labelled[sw] || len(sw.Body.List) == 0 {
			return true
		}
		// default last or absent; no break out of the switch; no fallthrough
		for i, st := range sw.Body.List {
			cc := st.(*ast.CaseClause)
			if cc.List == nil && i != len(sw.Body.List)-1 {
				return true
			}
		}
		leaves := false
		var scan func(n ast.Node, depth int)
		scan = func(n ast.Node, depth int) {
			ast.Inspect(n, func(m ast.Node) bool {
				switch x := m.(type) {
				case *ast.BranchStmt:
					if x.Tok == token.FALLTHROUGH {
						leaves = true
					}
					if x.Tok == token.BREAK && x.Label == nil {
						leaves = true
					}
				case *ast.ForStmt, *ast.RangeStmt, *ast.SelectStmt, *ast.TypeSwitchStmt, *ast.FuncLit:
					// an unlabelled break below binds to this statement, not to our switch; fallthrough cannot occur
					// in them for our switch either
					return false
				case *ast.SwitchStmt:
					if x != sw {
						return false
					}
				}
				return true
			})
		}
		scan(sw, 0)
		if leaves {
			return true
		}
		keepLines := func(from, to int, text string) string {
			want := strings.Count(string(src[from:to]), "\n")
			have := strings.Count(text, "\n")
			for ; have < want; have++ {
				text += "\n"
			}
			return text
		}
		// "switch {" -> "{"
		a, b := off(sw.Switch), off(sw.Body.Lbrace)+1
		edits = append(edits, srcEdit{a, b, keepLines(a, b, "{")})
		for i, st := range sw.Body.List {
			cc := st.(*ast.CaseClause)
			a, b := off(cc.Case), off(cc.Colon)+1
			var text string
			if cc.List == nil {
				if i == 0 {
					text = "if true {"
				} else {
					text = "} else {"
				}
			} else {
				var parts []string
				for _, e := range cc.List {
					parts = append(parts, "("+string(src[off(e.Pos()):off(e.End())])+")")
				}
				cond := strings.Join(parts, " || ")
				if i == 0 {
					text = "if " + cond + " {"
				} else {
					text = "} else if " + cond + " {"
				}
			}
			edits = append(edits, srcEdit{a, b, keepLines(a, b, text)})
		}
		r := off(sw.Body.Rbrace)
		edits = append(edits, srcEdit{r, r + 1, "}}"})
		return true
	})
	if len(edits) == 0 {
		return nil, false
	}
	sort.Slice(edits, func(i, j int) bool { return edits[i].from < edits[j].from })
	var sb strings.Builder
	pos := 0
	for _, e := range edits {
		if e.from < pos {
			return nil, false // overlapping edits: leave the file alone
		}
		sb.Write(src[pos:e.from])
		sb.WriteString(e.text)
		pos = e.to
	}
	sb.Write(src[pos:])
	nsrc := []byte(sb.String())
	// the rewritten file must still parse; otherwise leave the file as it is
	if _, err := parser.ParseFile(token.NewFileSet(), name, nsrc, parser.SkipObjectResolution); err != nil {
		return nil, false
	}
	return nsrc, true
}
