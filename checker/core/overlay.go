package core

// Source normalisation before loading: a tagless switch is read as the if / else-if chain it abbreviates.
//
// go/ssa lowers `if a || b {…}` into branches (one test per block) but evaluates the case expressions of a tagless
// switch as values (`a || b` becomes a phi of booleans feeding one branch). The two forms mean the same, and the rules
// read tests off branches; so that the form chosen by the author does not matter, every tagless switch that can be
// rewritten without changing its meaning is handed to the loader as an if / else-if chain, through an overlay that
// keeps every line where it was (positions in reports still point at the author's text). Not rewritten: switches with
// an init statement or a label, with a `break` that leaves the switch, with `fallthrough`, or with a default clause
// that is not the last one.

import (
	"go/ast"
	"go/parser"
	"go/token"
	"go/types"
	"os"
	"path/filepath"
	"sort"
	"strings"

	"golang.org/x/tools/go/packages"
)

type srcEdit struct {
	from, to int // byte offsets
	text     string
}

// SwitchOverlay returns the overlay (file name -> rewritten content) for the non-test Go files below dir.
func SwitchOverlay(dir string) map[string][]byte {
	out := map[string][]byte{}
	filepath.Walk(dir, func(path string, info os.FileInfo, err error) error {
		if err != nil {
			return nil
		}
		if info.IsDir() {
			n := info.Name()
			if path != dir && (strings.HasPrefix(n, ".") || n == "vendor" || n == "testdata") {
				return filepath.SkipDir
			}
			return nil
		}
		if !strings.HasSuffix(path, ".go") || strings.HasSuffix(path, "_test.go") {
			return nil
		}
		src, err := os.ReadFile(path)
		if err != nil {
			return nil
		}
		if nsrc, changed := rewriteTaglessSwitches(path, src); changed {
			abs, err := filepath.Abs(path)
			if err == nil {
				out[abs] = nsrc
			}
		}
		return nil
	})
	return out
}

func rewriteTaglessSwitches(name string, src []byte) ([]byte, bool) {
	fset := token.NewFileSet()
	f, err := parser.ParseFile(fset, name, src, parser.SkipObjectResolution)
	if err != nil {
		return nil, false
	}
	off := func(p token.Pos) int { return fset.Position(p).Offset }
	labelled := map[ast.Stmt]bool{}
	ast.Inspect(f, func(n ast.Node) bool {
		if l, ok := n.(*ast.LabeledStmt); ok {
			labelled[l.Stmt] = true
		}
		return true
	})
	var edits []srcEdit
	ast.Inspect(f, func(n ast.Node) bool {
		sw, ok := n.(*ast.SwitchStmt)
		if !ok || sw.Tag != nil || sw.Init != nil || labelled[sw] || len(sw.Body.List) == 0 {
			return true
		}
		// default last or absent; no break out of the switch; no fallthrough
		for i, st := range sw.Body.List {
			cc := st.(*ast.CaseClause)
			if cc.List == nil && i != len(sw.Body.List)-1 {
				return true
			}
		}
		leaves := false
		var scan func(n ast.Node, depth int)
		scan = func(n ast.Node, depth int) {
			ast.Inspect(n, func(m ast.Node) bool {
				switch x := m.(type) {
				case *ast.BranchStmt:
					if x.Tok == token.FALLTHROUGH {
						leaves = true
					}
					if x.Tok == token.BREAK && x.Label == nil {
						leaves = true
					}
				case *ast.ForStmt, *ast.RangeStmt, *ast.SelectStmt, *ast.TypeSwitchStmt, *ast.FuncLit:
					// an unlabelled break below binds to this statement, not to our switch; fallthrough cannot occur
					// in them for our switch either
					return false
				case *ast.SwitchStmt:
					if x != sw {
						return false
					}
				}
				return true
			})
		}
		scan(sw, 0)
		if leaves {
			return true
		}
		keepLines := func(from, to int, text string) string {
			want := strings.Count(string(src[from:to]), "\n")
			have := strings.Count(text, "\n")
			for ; have < want; have++ {
				text += "\n"
			}
			return text
		}
		// "switch {" -> "{"
		a, b := off(sw.Switch), off(sw.Body.Lbrace)+1
		edits = append(edits, srcEdit{a, b, keepLines(a, b, "{")})
		for i, st := range sw.Body.List {
			cc := st.(*ast.CaseClause)
			a, b := off(cc.Case), off(cc.Colon)+1
			var text string
			if cc.List == nil {
				if i == 0 {
					text = "if true {"
				} else {
					text = "} else {"
				}
			} else {
				var parts []string
				for _, e := range cc.List {
					parts = append(parts, "("+string(src[off(e.Pos()):off(e.End())])+")")
				}
				cond := strings.Join(parts, " || ")
				if i == 0 {
					text = "if " + cond + " {"
				} else {
					text = "} else if " + cond + " {"
				}
			}
			edits = append(edits, srcEdit{a, b, keepLines(a, b, text)})
		}
		r := off(sw.Body.Rbrace)
		edits = append(edits, srcEdit{r, r + 1, "}}"})
		return true
	})
	if len(edits) == 0 {
		return nil, false
	}
	sort.Slice(edits, func(i, j int) bool { return edits[i].from < edits[j].from })
	var sb strings.Builder
	pos := 0
	for _, e := range edits {
		if e.from < pos {
			return nil, false // overlapping edits: leave the file alone
		}
		sb.Write(src[pos:e.from])
		sb.WriteString(e.text)
		pos = e.to
	}
	sb.Write(src[pos:])
	nsrc := []byte(sb.String())
	// the rewritten file must still parse; otherwise leave the file as it is
	if _, err := parser.ParseFile(token.NewFileSet(), name, nsrc, parser.SkipObjectResolution); err != nil {
		return nil, false
	}
	return nsrc, true
}

// ---- second normalisation: trivial predicate methods are read where they are called ----
//
// `func (u *Url) hasHost() bool { return u.host != nil }` … `if u.hasHost() { *u.host }` means `if u.host != nil`.
// Rules that look for a nil test, a flag test or a comparison in front of a dereference, a store or a return would
// each have to look through such accessors; instead the loader is handed the call sites with the body substituted
// (again through the overlay, line for line). Only methods that the reference inventory does not know (the rules name
// some predicates of the reviewed tree) and whose body is one `return E` with E built from fields of the receiver,
// literals, nil, comparisons, !, && and || — no calls other than to methods of the same kind on the same receiver —
// are substituted, and only at calls without arguments whose receiver expression is an identifier or a chain of field
// selections. If anything about the rewritten text does not parse, the file is left as it is.

// KnownFuncs: "pkg.Owner.name" of the functions the reference inventory knows (set by the command before Load).
var KnownFuncs map[string]bool

type trivialPred struct {
	fn   *types.Func
	recv *types.Var
	body ast.Expr
	file *token.File
	src  []byte
}

// PredicateOverlay extends ov (file name -> content, may be nil) by the substitution of trivial predicate methods.
func PredicateOverlay(dir string, env []string, ov map[string][]byte) map[string][]byte {
	cfg := &packages.Config{Mode: packages.NeedName | packages.NeedFiles | packages.NeedCompiledGoFiles | packages.NeedImports | packages.NeedDeps | packages.NeedTypes | packages.NeedSyntax | packages.NeedTypesInfo | packages.NeedTypesSizes,
		Dir: dir, Env: env, Tests: false, Overlay: ov}
	pkgs, err := packages.Load(cfg, "./...")
	if err != nil {
		return ov
	}
	for _, p := range pkgs {
		if len(p.Errors) > 0 {
			return ov
		}
	}
	content := func(name string) []byte {
		if b, ok := ov[name]; ok {
			return b
		}
		b, _ := os.ReadFile(name)
		return b
	}
	out := map[string][]byte{}
	for k, v := range ov {
		out[k] = v
	}
	for _, pk := range pkgs {
		if !strings.HasPrefix(pk.PkgPath, ModPath) {
			continue
		}
		info := pk.TypesInfo
		preds := map[*types.Func]*trivialPred{}
		// candidates
		for _, f := range pk.Syntax {
			tf := pk.Fset.File(f.Pos())
			for _, d := range f.Decls {
				fd, ok := d.(*ast.FuncDecl)
				if !ok || fd.Recv == nil || len(fd.Recv.List) != 1 || len(fd.Recv.List[0].Names) != 1 || fd.Body == nil || len(fd.Body.List) != 1 {
					continue
				}
				if fd.Type.Params != nil && len(fd.Type.Params.List) > 0 {
					continue
				}
				ret, ok := fd.Body.List[0].(*ast.ReturnStmt)
				if !ok || len(ret.Results) != 1 {
					continue
				}
				fn, _ := info.Defs[fd.Name].(*types.Func)
				rv, _ := info.Defs[fd.Recv.List[0].Names[0]].(*types.Var)
				if fn == nil || rv == nil || fn.Exported() {
					continue
				}
				sig := fn.Type().(*types.Signature)
				if sig.Results().Len() != 1 || !types.Identical(sig.Results().At(0).Type(), types.Typ[types.Bool]) {
					continue
				}
				owner := ""
				if n := namedTypeOf(rv.Type()); n != nil {
					owner = n.Obj().Name()
				}
				if KnownFuncs[pk.Name+"."+owner+"."+fn.Name()] {
					continue
				}
				preds[fn] = &trivialPred{fn: fn, recv: rv, body: ret.Results[0], file: tf, src: content(tf.Name())}
			}
		}
		// keep those whose body is of the permitted form (calls only to other candidates on the receiver)
		var okBody func(p *trivialPred, e ast.Expr, depth int) bool
		okBody = func(p *trivialPred, e ast.Expr, depth int) bool {
			if depth > 12 {
				return false
			}
			switch x := e.(type) {
			case *ast.ParenExpr:
				return okBody(p, x.X, depth+1)
			case *ast.UnaryExpr:
				return x.Op == token.NOT && okBody(p, x.X, depth+1)
			case *ast.BinaryExpr:
				switch x.Op {
				case token.EQL, token.NEQ, token.LSS, token.LEQ, token.GTR, token.GEQ, token.LAND, token.LOR:
					return okBody(p, x.X, depth+1) && okBody(p, x.Y, depth+1)
				}
				return false
			case *ast.BasicLit:
				return true
			case *ast.Ident:
				switch info.Uses[x].(type) {
				case *types.Nil, *types.Const:
					return true
				}
				return false
			case *ast.StarExpr:
				return okBody(p, x.X, depth+1)
			case *ast.SelectorExpr:
				id, ok := x.X.(*ast.Ident)
				if !ok || info.Uses[id] != types.Object(p.recv) {
					return false
				}
				v, ok := info.Uses[x.Sel].(*types.Var)
				return ok && v.IsField()
			case *ast.CallExpr:
				if len(x.Args) != 0 {
					return false
				}
				sel, ok := x.Fun.(*ast.SelectorExpr)
				if !ok {
					return false
				}
				id, ok := sel.X.(*ast.Ident)
				if !ok || info.Uses[id] != types.Object(p.recv) {
					return false
				}
				q, _ := info.Uses[sel.Sel].(*types.Func)
				return q != nil && preds[q] != nil && q != p.fn
			}
			return false
		}
		for changed := true; changed; {
			changed = false
			for fn, p := range preds {
				if !okBody(p, p.body, 0) {
					delete(preds, fn)
					changed = true
				}
			}
		}
		if len(preds) == 0 {
			continue
		}
		// the body of p with the receiver written as recvText, nested predicates substituted
		var render func(p *trivialPred, recvText string, depth int) (string, bool)
		render = func(p *trivialPred, recvText string, depth int) (string, bool) {
			if depth > 3 {
				return "", false
			}
			type rep struct {
				from, to int
				text     string
			}
			var reps []rep
			ok := true
			ast.Inspect(p.body, func(n ast.Node) bool {
				switch x := n.(type) {
				case *ast.CallExpr:
					sel := x.Fun.(*ast.SelectorExpr)
					q := preds[info.Uses[sel.Sel].(*types.Func)]
					t, ok2 := render(q, recvText, depth+1)
					if !ok2 {
						ok = false
						return false
					}
					reps = append(reps, rep{p.file.Offset(x.Pos()), p.file.Offset(x.End()), "(" + t + ")"})
					return false
				case *ast.Ident:
					if info.Uses[x] == types.Object(p.recv) {
						reps = append(reps, rep{p.file.Offset(x.Pos()), p.file.Offset(x.End()), recvText})
					}
				}
				return true
			})
			if !ok {
				return "", false
			}
			sort.Slice(reps, func(i, j int) bool { return reps[i].from < reps[j].from })
			a, b := p.file.Offset(p.body.Pos()), p.file.Offset(p.body.End())
			var sb strings.Builder
			pos := a
			for _, r := range reps {
				if r.from < pos {
					return "", false
				}
				sb.Write(p.src[pos:r.from])
				sb.WriteString(r.text)
				pos = r.to
			}
			sb.Write(p.src[pos:b])
			t := sb.String()
			if strings.Contains(t, "\n") {
				return "", false
			}
			return t, true
		}
		pureRecv := func(e ast.Expr) bool {
			for {
				switch x := e.(type) {
				case *ast.Ident:
					_, isVar := info.Uses[x].(*types.Var)
					return isVar
				case *ast.SelectorExpr:
					v, ok := info.Uses[x.Sel].(*types.Var)
					if !ok || !v.IsField() {
						return false
					}
					e = x.X
				default:
					return false
				}
			}
		}
		// call sites
		for _, f := range pk.Syntax {
			tf := pk.Fset.File(f.Pos())
			src := content(tf.Name())
			var edits []srcEdit
			ast.Inspect(f, func(n ast.Node) bool {
				call, ok := n.(*ast.CallExpr)
				if !ok || len(call.Args) != 0 {
					return true
				}
				sel, ok := call.Fun.(*ast.SelectorExpr)
				if !ok {
					return true
				}
				q, _ := info.Uses[sel.Sel].(*types.Func)
				p := preds[q]
				if p == nil || !pureRecv(sel.X) {
					return true
				}
				// the names the body uses (constants, nil) mean the same where the call stands: not shadowed there
				if sc := pk.Types.Scope().Innermost(call.Pos()); sc != nil {
					captured := false
					var check func(q *trivialPred, depth int)
					check = func(q *trivialPred, depth int) {
						if depth > 3 {
							return
						}
						ast.Inspect(q.body, func(m ast.Node) bool {
							switch y := m.(type) {
							case *ast.SelectorExpr:
								// only the receiver side can be a free identifier
								if id, ok := y.X.(*ast.Ident); ok && info.Uses[id] == types.Object(q.recv) {
									return false
								}
							case *ast.CallExpr:
								if sel2, ok := y.Fun.(*ast.SelectorExpr); ok {
									if q2 := preds[funcOf(info, sel2.Sel)]; q2 != nil {
										check(q2, depth+1)
									}
								}
								return false
							case *ast.Ident:
								if o := info.Uses[y]; o != nil {
									if _, found := sc.LookupParent(y.Name, call.Pos()); found != o {
										captured = true
									}
								}
							}
							return true
						})
					}
					check(p, 0)
					if captured {
						return true
					}
				}
				recvText := string(src[tf.Offset(sel.X.Pos()):tf.Offset(sel.X.End())])
				t, ok := render(p, recvText, 0)
				if !ok {
					return true
				}
				edits = append(edits, srcEdit{tf.Offset(call.Pos()), tf.Offset(call.End()), "(" + t + ")"})
				return false
			})
			if len(edits) == 0 {
				continue
			}
			sort.Slice(edits, func(i, j int) bool { return edits[i].from < edits[j].from })
			var sb strings.Builder
			pos := 0
			bad := false
			for _, e := range edits {
				if e.from < pos || strings.Contains(string(src[e.from:e.to]), "\n") {
					bad = true
					break
				}
				sb.Write(src[pos:e.from])
				sb.WriteString(e.text)
				pos = e.to
			}
			if bad {
				continue
			}
			sb.Write(src[pos:])
			nsrc := []byte(sb.String())
			if _, err := parser.ParseFile(token.NewFileSet(), tf.Name(), nsrc, parser.SkipObjectResolution); err != nil {
				continue
			}
			out[tf.Name()] = nsrc
		}
	}
	return out
}

func namedTypeOf(t types.Type) *types.Named {
	if p, ok := t.(*types.Pointer); ok {
		t = p.Elem()
	}
	n, _ := t.(*types.Named)
	return n
}

func funcOf(info *types.Info, id *ast.Ident) *types.Func {
	f, _ := info.Uses[id].(*types.Func)
	return f
}
