package rules

// TAB-hexval: functions that turn one hex digit into its value, as used when a number or a byte is assembled from hex
// digits (acc*16 + f(c), acc<<4 | f(c), f(a)<<4 | f(b)), map every ASCII hex digit to its value.
//
// Decided by abstract interpretation over the three digit ranges: the argument is an interval, every value is kept in
// the form slope·c + offset (slope 0 or 1), a comparison that is not uniform on the interval splits it, `x | 0x20` is
// exact on an interval whose members agree on that bit. On each final sub-interval the result must be c − first + base
// (0 for '0', 10 for 'A' / 'a'). Nothing is executed; a function the domain cannot express is left undecided (and
// reported as such in the inventory only: the rule states a necessary condition where it applies).

import (
	"fmt"
	"go/token"
	"go/types"
	"strings"

	"golang.org/x/tools/go/ssa"

	"wucheck/core"
)

type linval struct {
	known  bool
	slope  int64 // 0 or 1
	offset int64
	isBool bool
	b      bool
}

type hexEval struct {
	param ssa.Value
	why   string
	gate  bool // phis outside a walk are resolved through the branch that controls them
}

// gated: the edge of phi that is taken for every c in [lo, hi], found through the conditions of the branches between
// the phi's immediate dominator and its block (if / else-if chains, `v := a; if … { v = b }`); nil when the interval
// does not decide it or the shape is another one.
func (h *hexEval) gated(phi *ssa.Phi, lo, hi int64, env map[*ssa.Phi]ssa.Value, depth int) ssa.Value {
	m := phi.Block()
	d := m.Idom()
	cands := map[int]bool{}
	for i := range m.Preds {
		cands[i] = true
	}
	for steps := 0; d != nil && steps < 8; steps++ {
		iff, ok := d.Instrs[len(d.Instrs)-1].(*ssa.If)
		if !ok {
			return nil
		}
		c := h.eval(iff.Cond, lo, hi, env, depth+1)
		if !c.known || !c.isBool {
			return nil
		}
		side := d.Succs[1]
		if c.b {
			side = d.Succs[0]
		}
		if side == m {
			// the edge d → m itself
			for i, p := range m.Preds {
				if p == d && cands[i] {
					if d.Succs[0] == d.Succs[1] {
						return nil
					}
					return phi.Edges[i]
				}
			}
			return nil
		}
		if len(side.Preds) != 1 {
			return nil
		}
		n, last := 0, -1
		for i, p := range m.Preds {
			if cands[i] && side.Dominates(p) {
				n++
				last = i
			} else {
				delete(cands, i)
			}
		}
		switch {
		case n == 0:
			return nil
		case n == 1:
			return phi.Edges[last]
		}
		d = side
	}
	return nil
}

func typeRange(t types.Type) (int64, int64, bool) {
	bits, uns, ok := intTypeInfo(t)
	if !ok {
		return 0, 0, false
	}
	if uns {
		if bits >= 63 {
			return 0, 1<<62 - 1, true
		}
		return 0, int64(1)<<uint(bits) - 1, true
	}
	if bits >= 63 {
		return -(1 << 62), 1<<62 - 1, true
	}
	return -(int64(1) << uint(bits-1)), int64(1)<<uint(bits-1) - 1, true
}

// eval: the value of v for every c in [lo, hi], in linear form; ok=false if the form cannot express it.
func (h *hexEval) eval(v ssa.Value, lo, hi int64, env map[*ssa.Phi]ssa.Value, depth int) linval {
	if depth > 12 {
		return linval{}
	}
	fits := func(l linval, t types.Type) linval {
		if !l.known || l.isBool {
			return l
		}
		tl, th, ok := typeRange(t)
		if !ok {
			return linval{}
		}
		a, b := l.slope*lo+l.offset, l.slope*hi+l.offset
		if a < tl || b > th || a > th || b < tl {
			// Go's integer arithmetic wraps: when every value of the interval is shifted by the same multiple of the type's
			// modulus the linear form survives with its offset reduced; only an interval that straddles the boundary cannot
			// be expressed
			mod := th - tl + 1
			fl := func(x int64) int64 {
				q := (x - tl) / mod
				if (x-tl)%mod < 0 {
					q--
				}
				return q
			}
			if mod > 0 && fl(a) == fl(b) {
				l.offset -= fl(a) * mod
				return l
			}
			h.why = "a value leaves the range of its type (wrap-around) on part of the digits"
			return linval{}
		}
		return l
	}
	if v == h.param {
		return linval{known: true, slope: 1}
	}
	switch x := v.(type) {
	case *ssa.Const:
		if n, ok := constInt(x); ok {
			return linval{known: true, offset: n}
		}
		if b, ok := constBool(x); ok {
			return linval{known: true, isBool: true, b: b}
		}
	case *ssa.Convert:
		in := h.eval(x.X, lo, hi, env, depth+1)
		return fits(in, x.Type())
	case *ssa.ChangeType:
		return h.eval(x.X, lo, hi, env, depth+1)
	case *ssa.Phi:
		if e, ok := env[x]; ok {
			return h.eval(e, lo, hi, env, depth+1)
		}
		if h.gate {
			if e := h.gated(x, lo, hi, env, depth); e != nil {
				return h.eval(e, lo, hi, env, depth+1)
			}
		}
	case *ssa.UnOp:
		if x.Op == token.NOT {
			in := h.eval(x.X, lo, hi, env, depth+1)
			if in.known && in.isBool {
				return linval{known: true, isBool: true, b: !in.b}
			}
		}
	case *ssa.BinOp:
		l, r := h.eval(x.X, lo, hi, env, depth+1), h.eval(x.Y, lo, hi, env, depth+1)
		if !l.known || !r.known || l.isBool || r.isBool {
			return linval{}
		}
		switch x.Op {
		case token.ADD:
			if l.slope+r.slope > 1 {
				return linval{}
			}
			return fits(linval{known: true, slope: l.slope + r.slope, offset: l.offset + r.offset}, x.Type())
		case token.SUB:
			if l.slope-r.slope < 0 {
				return linval{}
			}
			return fits(linval{known: true, slope: l.slope - r.slope, offset: l.offset - r.offset}, x.Type())
		case token.OR, token.AND, token.AND_NOT:
			// exact when the constant mask is one bit on which all members of the interval agree
			if r.slope != 0 {
				return linval{}
			}
			m := r.offset
			if m <= 0 || m&(m-1) != 0 {
				return linval{}
			}
			a, b := l.slope*lo+l.offset, l.slope*hi+l.offset
			if a < 0 || a/(2*m) != b/(2*m) || (a&m) != (b&m) {
				return linval{}
			}
			set := a&m != 0
			switch x.Op {
			case token.OR:
				if set {
					return l
				}
				return fits(linval{known: true, slope: l.slope, offset: l.offset + m}, x.Type())
			case token.AND_NOT:
				if !set {
					return l
				}
				return fits(linval{known: true, slope: l.slope, offset: l.offset - m}, x.Type())
			}
			return linval{}
		case token.LSS, token.LEQ, token.GTR, token.GEQ, token.EQL, token.NEQ:
			// uniform on the interval?
			d := linval{slope: l.slope - r.slope, offset: l.offset - r.offset} // l - r
			if d.slope < 0 {
				// r - l with the mirrored relation
				d = linval{slope: -d.slope, offset: -d.offset}
				return h.cmp(mirror(x.Op), d, lo, hi)
			}
			return h.cmp(x.Op, d, lo, hi)
		}
	}
	return linval{}
}

// cmp: is (slope·c + offset) REL 0 uniformly true or false on [lo, hi]?
func (h *hexEval) cmp(op token.Token, d linval, lo, hi int64) linval {
	a, b := d.slope*lo+d.offset, d.slope*hi+d.offset
	test := func(x int64) bool {
		switch op {
		case token.LSS:
			return x < 0
		case token.LEQ:
			return x <= 0
		case token.GTR:
			return x > 0
		case token.GEQ:
			return x >= 0
		case token.EQL:
			return x == 0
		case token.NEQ:
			return x != 0
		}
		return false
	}
	// monotone in c: uniform iff both ends agree (and, for == / !=, no zero crossing inside)
	ta, tb := test(a), test(b)
	if ta != tb {
		return linval{}
	}
	if (op == token.EQL || op == token.NEQ) && a < 0 && b > 0 {
		return linval{}
	}
	return linval{known: true, isBool: true, b: ta}
}

// results: the linear results of f on [lo, hi], splitting the interval where a branch is not uniform.
func (h *hexEval) results(f *ssa.Function, lo, hi int64, out *[][3]int64) bool {
	var walk func(b, from *ssa.BasicBlock, env map[*ssa.Phi]ssa.Value, lo, hi int64, depth int) bool
	walk = func(b, from *ssa.BasicBlock, env map[*ssa.Phi]ssa.Value, lo, hi int64, depth int) bool {
		if depth > 40 {
			h.why = "too many branches"
			return false
		}
		ne := env
		if from != nil {
			ne = map[*ssa.Phi]ssa.Value{}
			for k, v := range env {
				ne[k] = v
			}
			for _, ins := range b.Instrs {
				p, ok := ins.(*ssa.Phi)
				if !ok {
					break
				}
				for i, pr := range b.Preds {
					if pr == from {
						e := p.Edges[i]
						if ep, isPhi := e.(*ssa.Phi); isPhi {
							if r, ok := env[ep]; ok {
								e = r
							}
						}
						ne[p] = e
					}
				}
			}
		}
		switch t := b.Instrs[len(b.Instrs)-1].(type) {
		case *ssa.Return:
			if len(t.Results) != 1 {
				h.why = "more than one result"
				return false
			}
			r := h.eval(t.Results[0], lo, hi, ne, 0)
			if !r.known && lo < hi {
				// not expressible on the whole interval (an intermediate value wraps on part of it): decide the halves
				h.why = ""
				mid := (lo + hi) / 2
				return walk(b, from, env, lo, mid, depth+1) && walk(b, from, env, mid+1, hi, depth+1)
			}
			if !r.known || r.isBool {
				if h.why == "" {
					h.why = "a result is not of the form c + constant"
				}
				return false
			}
			*out = append(*out, [3]int64{lo, hi, 0})
			(*out)[len(*out)-1][2] = r.slope*lo + r.offset // value at lo
			if r.slope != 1 && lo != hi {
				// a constant result on a multi-digit interval cannot be the digit's value
				*out = append(*out, [3]int64{lo + 1, hi, r.offset})
				(*out)[len(*out)-2][1] = lo
			}
			return true
		case *ssa.If:
			c := h.eval(t.Cond, lo, hi, ne, 0)
			if c.known && c.isBool {
				if c.b {
					return walk(b.Succs[0], b, ne, lo, hi, depth+1)
				}
				return walk(b.Succs[1], b, ne, lo, hi, depth+1)
			}
			if lo == hi {
				if h.why == "" {
					h.why = "a branch condition is not a comparison of c + constant with a constant"
				}
				return false
			}
			mid := (lo + hi) / 2
			return walk(b, from, env, lo, mid, depth+1) && walk(b, from, env, mid+1, hi, depth+1)
		case *ssa.Jump:
			return walk(b.Succs[0], b, ne, lo, hi, depth+1)
		}
		h.why = "unsupported control flow"
		return false
	}
	// no calls, loads or stores: a pure arithmetic function
	for _, b := range f.Blocks {
		for _, ins := range b.Instrs {
			switch ins.(type) {
			case *ssa.Call, *ssa.Store, *ssa.Alloc, *ssa.MapUpdate, *ssa.Lookup, *ssa.Index, *ssa.IndexAddr, *ssa.FieldAddr:
				h.why = "not a pure arithmetic function of its argument"
				return false
			}
		}
	}
	return walk(f.Blocks[0], nil, map[*ssa.Phi]ssa.Value{}, lo, hi, 0)
}

func init() {
	register(&Rule{
		Name:  "TAB-hexval",
		Doc:   "a module function from one byte or rune to an integer whose result is combined as acc*16 + f(c), acc<<4 | f(c) or f(a)<<4 | f(b) maps every ASCII hex digit, upper and lower case, to its value (interval abstract interpretation over the three digit ranges; functions the linear domain cannot express are left undecided)",
		Props: []string{"C08", "C18", "C01"},
		Floor: 0,
		Run: func(c *Ctx, s *core.Sink) {
			// candidates: called where the result is scaled by 16 / shifted by 4 or added to such a product
			cands := map[*ssa.Function]token.Pos{}
			isScale := func(v ssa.Value) bool {
				bo, ok := v.(*ssa.BinOp)
				if !ok {
					return false
				}
				if k, ok := constInt(bo.Y); ok && ((bo.Op == token.MUL && k == 16) || (bo.Op == token.SHL && k == 4)) {
					return true
				}
				if k, ok := constInt(bo.X); ok && bo.Op == token.MUL && k == 16 {
					return true
				}
				return false
			}
			for _, f := range c.P.ModFns {
				for _, b := range f.Blocks {
					for _, ins := range b.Instrs {
						call, ok := ins.(*ssa.Call)
						if !ok {
							continue
						}
						g := call.Common().StaticCallee()
						if g == nil || !c.P.InModule(g) || len(g.Blocks) == 0 || len(g.Params) != 1 || g.Signature.Results().Len() != 1 {
							continue
						}
						if _, _, ok := intTypeInfo(g.Params[0].Type()); !ok {
							continue
						}
						if _, _, ok := intTypeInfo(g.Signature.Results().At(0).Type()); !ok {
							continue
						}
						for _, r := range *call.Referrers() {
							var uses []ssa.Value
							if cv, ok := r.(*ssa.Convert); ok {
								for _, r2 := range *cv.Referrers() {
									if v, ok := r2.(ssa.Value); ok {
										uses = append(uses, v)
									}
								}
							} else if v, ok := r.(ssa.Value); ok {
								uses = append(uses, v)
							}
							for _, u := range uses {
								bo, ok := u.(*ssa.BinOp)
								if !ok {
									continue
								}
								if isScale(bo) {
									cands[g] = call.Pos()
								}
								if bo.Op == token.ADD || bo.Op == token.OR {
									if isScale(bo.X) || isScale(bo.Y) {
										cands[g] = call.Pos()
									}
								}
							}
						}
					}
				}
			}
			var fs []*ssa.Function
			for f := range cands {
				fs = append(fs, f)
			}
			sortFns(fs)
			for _, f := range fs {
				key := "hexval/" + core.FuncName(f)
				pos := c.P.Pos(f.Pos())
				bad := ""
				undec := ""
				for _, rg := range [][3]int64{{'0', '9', 0}, {'A', 'F', 10}, {'a', 'f', 10}} {
					h := &hexEval{param: f.Params[0]}
					var out [][3]int64
					if !h.results(f, rg[0], rg[1], &out) {
						undec = h.why
						break
					}
					for _, o := range out {
						want := o[0] - rg[0] + rg[2]
						if o[2] != want && bad == "" {
							bad = fmt.Sprintf("the digit %q is given the value %d, not %d", rune(o[0]), o[2], want)
						}
					}
				}
				switch {
				case undec != "":
					s.Obs = append(s.Obs, core.Obligation{Rule: s.Rule, Construct: key, Pos: pos, Verdict: core.Discharged, Fact: "inventory: not decided (" + undec + ")", Props: s.Props, Trivial: true})
				case bad != "":
					s.Bad(key, pos, bad+": numbers and bytes assembled from hex digits come out wrong")
				default:
					s.OK(key, pos, "0-9 → 0-9, A-F and a-f → 10-15 on every path")
				}
			}
			hexvalInline(c, s)
		},
	})
}

// scaleOf: v is x*K or x<<k with a constant; returns the radix.
func scaleOf(v ssa.Value) (int64, bool) {
	bo, ok := stripConv(v).(*ssa.BinOp)
	if !ok {
		return 0, false
	}
	switch bo.Op {
	case token.MUL:
		if k, ok := constInt(bo.Y); ok {
			return k, true
		}
		if k, ok := constInt(bo.X); ok {
			return k, true
		}
	case token.SHL:
		if k, ok := constInt(bo.Y); ok && k >= 1 && k <= 4 {
			return int64(1) << uint(k), true
		}
	}
	return 0, false
}

func isLoopHeaderPhi(p *ssa.Phi) bool {
	b := p.Block()
	for _, pr := range b.Preds {
		if b.Dominates(pr) {
			return true
		}
	}
	return false
}

// digitLeaves: the values other than constants that the digit expression v is computed from, stopping at calls,
// parameters, loads and the variables a loop carries.
func digitLeaves(v ssa.Value, seen map[ssa.Value]bool, out map[ssa.Value]bool, arith *int) {
	if seen[v] || len(seen) > 200 {
		return
	}
	seen[v] = true
	switch x := v.(type) {
	case *ssa.Const:
	case *ssa.Convert:
		digitLeaves(x.X, seen, out, arith)
	case *ssa.ChangeType:
		digitLeaves(x.X, seen, out, arith)
	case *ssa.BinOp:
		*arith++
		digitLeaves(x.X, seen, out, arith)
		digitLeaves(x.Y, seen, out, arith)
	case *ssa.Phi:
		if isLoopHeaderPhi(x) {
			out[v] = true
			return
		}
		for _, e := range x.Edges {
			digitLeaves(e, seen, out, arith)
		}
	default:
		out[v] = true
	}
}

// hexvalInline: digit values computed in place — acc*K + e(c), acc<<k | e(c) with K one of 8, 10, 16 and e arithmetic on
// one code point c — are judged on the set the dominating membership test `S.Test(uint(c))` admits (S a set of the
// package whose table is known). A digit parsed by strconv must be parsed in the radix it is scaled by.
func hexvalInline(c *Ctx, s *core.Sink) {
	tabs := BuildTables(c)
	for _, f := range c.P.ModFns {
		if len(f.Blocks) == 0 {
			continue
		}
		n := 0
		props := []string{"C08", "C01"}
		if strings.HasSuffix(core.PkgPathOf(f), "/canonicalizer") {
			props = []string{"C18"}
		}
		for _, b := range f.Blocks {
			for _, ins := range b.Instrs {
				bo, ok := ins.(*ssa.BinOp)
				if !ok || (bo.Op != token.ADD && bo.Op != token.OR) {
					continue
				}
				if _, _, isInt := intTypeInfo(bo.Type()); !isInt {
					continue
				}
				var d ssa.Value
				var K int64
				if k, ok := scaleOf(bo.X); ok {
					K, d = k, bo.Y
				} else if k, ok := scaleOf(bo.Y); ok {
					K, d = k, bo.X
				} else {
					continue
				}
				if K != 8 && K != 10 && K != 16 {
					continue
				}
				if bo.Op == token.OR && K == 10 {
					continue
				}
				d0 := stripConv(d)
				pos := c.P.Pos(bo.Pos())
				inv := func(key, why string) {
					s.Obs = append(s.Obs, core.Obligation{Rule: s.Rule, Construct: key, Pos: pos, Verdict: core.Discharged, Fact: "inventory: not decided (" + why + ")", Props: props, Trivial: true})
				}
				// a digit parsed by strconv: the radix of the parse is the radix of the scale
				if ex, ok := d0.(*ssa.Extract); ok && ex.Index == 0 {
					call, ok := ex.Tuple.(*ssa.Call)
					if !ok {
						continue
					}
					g := call.Common().StaticCallee()
					if g == nil {
						continue
					}
					base := int64(-1)
					switch g.String() {
					case "strconv.Atoi":
						base = 10
					case "strconv.ParseInt", "strconv.ParseUint":
						if k, ok := constInt(call.Common().Args[1]); ok {
							base = k
						}
					default:
						continue
					}
					// only single-character parses are digit values
					cv, ok := call.Common().Args[0].(*ssa.Convert)
					if !ok {
						continue
					}
					if _, _, isInt := intTypeInfo(cv.X.Type()); !isInt {
						continue
					}
					n++
					key := fmt.Sprintf("digit/%s#%d", core.FuncName(f), n)
					switch {
					case base < 0:
						inv(key, "the radix of the parse is not a constant")
					case base != K:
						s.Bad(key, pos, fmt.Sprintf("a digit parsed in radix %d is accumulated with the scale %d: the number assembled is not the one the digits denote", base, K), props...)
					default:
						s.OK(key, pos, fmt.Sprintf("one code point parsed by %s in radix %d, scaled by %d", g.Name(), base, K), props...)
					}
					continue
				}
				if call, ok := d0.(*ssa.Call); ok {
					_ = call
					continue // a digit-value function: judged above when it is one of the module's
				}
				leaves := map[ssa.Value]bool{}
				arith := 0
				digitLeaves(d0, map[ssa.Value]bool{}, leaves, &arith)
				if arith == 0 || len(leaves) != 1 {
					continue // not arithmetic on one value: not a digit conversion in place
				}
				var leaf ssa.Value
				for l := range leaves {
					leaf = l
				}
				if _, _, isInt := intTypeInfo(leaf.Type()); !isInt {
					continue
				}
				n++
				key := fmt.Sprintf("digit/%s#%d", core.FuncName(f), n)
				// the set the dominating membership test admits
				var dom iset
				found := false
				for _, fact := range Facts(c, f).At(b) {
					call, ok := fact.Cond.(*ssa.Call)
					if !ok || !fact.Val || len(call.Common().Args) != 2 {
						continue
					}
					g := call.Common().StaticCallee()
					if g == nil || g.Name() != "Test" || stripConv(call.Common().Args[1]) != leaf {
						continue
					}
					ld, ok := call.Common().Args[0].(*ssa.UnOp)
					if !ok {
						continue
					}
					gl, ok := ld.X.(*ssa.Global)
					if !ok || gl.Pkg == nil {
						continue
					}
					tv, _ := tabs.Global(gl.Pkg.Pkg.Name(), gl.Name())
					bs, ok := tv.(*tvBitset)
					if !ok {
						continue
					}
					if found {
						dom = dom.intersect(bs.iset())
					} else {
						dom, found = bs.iset(), true
					}
				}
				if !found {
					inv(key, "no dominating membership test of the code point in a set with a known table")
					continue
				}
				digitVal := func(ch int64) (int64, bool) {
					var v int64 = -1
					switch {
					case ch >= '0' && ch <= '9':
						v = ch - '0'
					case ch >= 'A' && ch <= 'Z':
						v = ch - 'A' + 10
					case ch >= 'a' && ch <= 'z':
						v = ch - 'a' + 10
					}
					return v, v >= 0 && v < K
				}
				bad, undec := "", ""
				var judge func(lo, hi int64, depth int)
				judge = func(lo, hi int64, depth int) {
					if bad != "" || undec != "" {
						return
					}
					h := &hexEval{param: leaf, gate: true}
					r := h.eval(d, lo, hi, map[*ssa.Phi]ssa.Value{}, 0)
					if !r.known || r.isBool {
						if lo < hi && depth < 12 {
							mid := (lo + hi) / 2
							judge(lo, mid, depth+1)
							judge(mid+1, hi, depth+1)
							return
						}
						undec = h.why
						if undec == "" {
							undec = "the value is not of the form c + constant under comparisons of c with constants"
						}
						return
					}
					for ch := lo; ch <= hi; ch++ {
						want, isDigit := digitVal(ch)
						if !isDigit {
							undec = fmt.Sprintf("the membership test admits %q, which is not a digit in radix %d", rune(ch), K)
							return
						}
						if got := r.slope*ch + r.offset; got != want {
							bad = fmt.Sprintf("the digit %q is given the value %d, not %d", rune(ch), got, want)
							return
						}
					}
				}
				for _, iv := range dom {
					judge(iv.lo, iv.hi, 0)
				}
				switch {
				case bad != "":
					s.Bad(key, pos, bad+": the number assembled from the digits is not the one they denote", props...)
				case undec != "":
					inv(key, undec)
				default:
					s.OK(key, pos, fmt.Sprintf("every member of %s is given its value in radix %d", dom.String(), K), props...)
				}
			}
		}
	}
}

func sortFns(fs []*ssa.Function) {
	for i := 1; i < len(fs); i++ {
		for j := i; j > 0 && fs[j].String() < fs[j-1].String(); j-- {
			fs[j], fs[j-1] = fs[j-1], fs[j]
		}
	}
}
