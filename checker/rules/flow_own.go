package rules

// Ownership rules (who may read / call what):
//   FLOW-idna        every IDNA conversion goes through the package's own lookup profile (built with MapForLookup)
//   OPT-schemetable  the package-level default scheme table is read only to initialise the options; every decision
//                    about special schemes and default ports consults the parser's own table

import (
	"fmt"
	"go/ast"
	"go/types"
	"strings"

	"golang.org/x/tools/go/ssa"
	"golang.org/x/tools/go/types/typeutil"

	"wucheck/core"
)

func init() {
	register(&Rule{
		Name:  "FLOW-idna",
		Doc:   "every conversion call into golang.org/x/net/idna has as receiver a package-level profile of the module whose initialiser is idna.New(…) with MapForLookup() among its options: no raw profile (Punycode, Registration, the package-level functions) that skips the UTS #46 mapping — lower-casing included — can produce a host",
		Props: []string{"C09"},
		Floor: 1,
		Run: func(c *Ctx, s *core.Sink) {
			// profiles of the module built with MapForLookup
			good := map[*ssa.Global]bool{}
			for _, name := range []string{"url", "canonicalizer"} {
				pk := c.P.ByName[name]
				if pk == nil {
					continue
				}
				for _, in := range pk.TypesInfo.InitOrder {
					if len(in.Lhs) != 1 {
						continue
					}
					call, ok := ast.Unparen(in.Rhs).(*ast.CallExpr)
					if !ok {
						continue
					}
					fn, _ := typeutil.Callee(pk.TypesInfo, call).(*types.Func)
					if fn == nil || fn.Pkg() == nil || !strings.HasSuffix(fn.Pkg().Path(), "/idna") || fn.Name() != "New" {
						continue
					}
					maps := false
					for _, a := range call.Args {
						if ac, ok := ast.Unparen(a).(*ast.CallExpr); ok {
							if af, _ := typeutil.Callee(pk.TypesInfo, ac).(*types.Func); af != nil && af.Name() == "MapForLookup" {
								maps = true
							}
						}
					}
					if g, ok := c.P.SSAPkg[name].Members[in.Lhs[0].Name()].(*ssa.Global); ok && maps {
						good[g] = true
					}
				}
			}
			n := 0
			for _, f := range c.P.ModFns {
				for _, b := range f.Blocks {
					for _, ins := range b.Instrs {
						call, ok := ins.(*ssa.Call)
						if !ok {
							continue
						}
						cl := call.Common().StaticCallee()
						if cl == nil || !strings.HasSuffix(core.PkgPathOf(cl), "/idna") {
							continue
						}
						switch cl.Name() {
						case "ToASCII", "ToUnicode":
						default:
							continue
						}
						n++
						key := "idna/" + core.FuncName(f) + "/" + cl.Name()
						okRecv := false
						if cl.Signature.Recv() != nil && len(call.Common().Args) > 0 {
							if ld, ok := call.Common().Args[0].(*ssa.UnOp); ok {
								if g, ok := ld.X.(*ssa.Global); ok && good[g] {
									okRecv = true
								}
							}
						}
						s.Check(okRecv, key, c.P.Pos(call.Pos()), "on the module's lookup profile (MapForLookup)", "an IDNA conversion that does not go through the module's lookup profile: a raw profile does not apply the UTS #46 mapping (no lower-casing, no normalisation)")
						// what the enclosing function hands out as a success is what the conversion produced (or the empty
						// string): never its own unmapped input - an error tolerated for ASCII domains does not mean the
						// mapping may be skipped
						if okRecv && cl.Name() == "ToASCII" && f.Signature.Results().Len() == 2 && errResultIndex(f) == 1 {
							produced := map[ssa.Value]bool{}
							nres := 0
							for _, r := range *call.Referrers() {
								if ex, ok := r.(*ssa.Extract); ok && ex.Index == 0 {
									produced[ex] = true
								}
							}
							for _, rb := range f.Blocks {
								ret, ok := rb.Instrs[len(rb.Instrs)-1].(*ssa.Return)
								if !ok || !isNilConst(ret.Results[1]) {
									continue
								}
								if !call.Block().Dominates(rb) {
									continue // decided before the conversion (empty input)
								}
								bad := ""
								var check func(v ssa.Value, depth int)
								check = func(v ssa.Value, depth int) {
									switch x := v.(type) {
									case *ssa.Const:
										if k, ok := constString(x); !ok || k != "" {
											bad = "a constant"
										}
									case *ssa.Phi:
										if depth < 4 {
											for _, e := range x.Edges {
												check(e, depth+1)
											}
										}
									default:
										if !produced[v] {
											bad = "a value the conversion did not produce (" + v.Name() + ")"
											if p, isP := v.(*ssa.Parameter); isP {
												bad = "its own input " + p.Name() + ", unmapped"
											}
										}
									}
								}
								check(ret.Results[0], 0)
								nres++
								s.Check(bad == "", fmt.Sprintf("idna/%s/result#%d", core.FuncName(f), nres), c.P.Pos(ret.Pos()), "every success behind the conversion returns what the conversion produced", "a success behind the IDNA conversion returns "+bad+": lower-casing and the rest of the UTS #46 mapping are skipped")
							}
						}
					}
				}
			}
			if n == 0 {
				s.Unknown("idna/none", "-", "no IDNA conversion call found")
			}
		},
	})

	register(&Rule{
		Name:  "OPT-schemetable",
		Doc:   "the package-level scheme table that initialises parserOptions.specialSchemes is read by nothing but the options initialiser: special-scheme tests and default-port elision always consult the table of the parser that made the URL",
		Props: []string{"C16", "C04", "C19"},
		Floor: 1,
		Run: func(c *Ctx, s *core.Sink) {
			// the globals stored into parserOptions.specialSchemes
			tables := map[*ssa.Global]bool{}
			owners := map[*ssa.Function]bool{}
			for _, f := range c.P.ModFns {
				for _, b := range f.Blocks {
					for _, ins := range b.Instrs {
						st, ok := ins.(*ssa.Store)
						if !ok {
							continue
						}
						fa, ok := st.Addr.(*ssa.FieldAddr)
						if !ok || fieldElem(fa.X.Type(), fa.Field) != "parserOptions:specialSchemes" {
							continue
						}
						if ld, ok := st.Val.(*ssa.UnOp); ok {
							if g, ok := ld.X.(*ssa.Global); ok {
								tables[g] = true
								owners[f] = true
							}
						}
					}
				}
			}
			if len(tables) == 0 {
				s.Unknown("schemetable/anchor", "-", "no package-level table is stored into parserOptions.specialSchemes")
				return
			}
			for g := range tables {
				var bad []string
				for _, f := range c.P.ModFns {
					if owners[f] || isInitializer(f) {
						continue
					}
					for _, b := range f.Blocks {
						for _, ins := range b.Instrs {
							for _, op := range ins.Operands(nil) {
								if *op == ssa.Value(g) {
									bad = append(bad, core.FuncName(f)+" at "+c.P.Pos(ins.Pos()))
								}
							}
						}
					}
				}
				s.Check(len(bad) == 0, "schemetable/"+g.Name(), c.P.Pos(g.Pos()), "read only by the options initialiser", "the package-level default table is consulted directly by "+strings.Join(bad, ", ")+": a parser configured with its own special schemes gets the defaults' answer there")
			}
		},
	})
}
