package rules

// FLOW-serialappend: the URL serializer only ever appends.
//
// (*Url).Href composes the serialization from the components in order. Text that has gone into the result must stay
// there: cutting something off the accumulated result afterwards (TrimSuffix(output, u.Hash()), a re-slice, Replace)
// decides on the *text* of a component what the record decides by the component being null or not — an empty but
// present fragment or query has no text to cut — and can hit text that belongs to an earlier component. The rule
// requires that no string the serializer has assembled (a concatenation, a merge of concatenations, what a builder
// holds) is handed to a trimming / replacing / splitting library function or re-sliced.

import (
	"go/token"

	"golang.org/x/tools/go/ssa"

	"wucheck/core"
)

var removesText = map[string]bool{
	"strings.TrimSuffix": true, "strings.TrimPrefix": true, "strings.TrimRight": true, "strings.TrimLeft": true, "strings.Trim": true,
	"strings.TrimSpace": true, "strings.TrimFunc": true, "strings.TrimRightFunc": true, "strings.TrimLeftFunc": true,
	"strings.Replace": true, "strings.ReplaceAll": true, "strings.Cut": true, "strings.CutSuffix": true, "strings.CutPrefix": true,
	"strings.Split": true, "strings.SplitN": true, "strings.Map": true, "strings.ToLower": true, "strings.ToUpper": true,
}

func init() {
	register(&Rule{
		Name:  "FLOW-serialappend",
		Doc:   "in (*Url).Href no string the serializer has assembled (a concatenation, a merge of concatenations, a builder's content) is handed to a trimming / replacing / splitting library function or re-sliced: components enter the serialization under the nil-ness of their field and are never cut out of the text afterwards",
		Props: []string{"C04", "C03"},
		Floor: 1,
		Run: func(c *Ctx, s *core.Sink) {
			f := c.P.Func("url", "Url", "Href")
			if f == nil {
				s.Unknown("serialappend/anchor", "-", "(*Url).Href not found")
				return
			}
			var assembled func(v ssa.Value, d int) bool
			assembled = func(v ssa.Value, d int) bool {
				if d > 6 {
					return false
				}
				switch x := v.(type) {
				case *ssa.BinOp:
					return x.Op == token.ADD && isStringType(x.Type())
				case *ssa.Phi:
					for _, e := range x.Edges {
						if e != v && assembled(e, d+1) {
							return true
						}
					}
				case *ssa.Call:
					if cl := x.Common().StaticCallee(); cl != nil && cl.String() == "(*strings.Builder).String" {
						return true
					}
				case *ssa.UnOp:
					// a local variable that holds the output
					if al, ok := x.X.(*ssa.Alloc); ok && x.Op == token.MUL {
						for _, r := range *al.Referrers() {
							if st, ok := r.(*ssa.Store); ok && st.Addr == ssa.Value(al) && assembled(st.Val, d+1) {
								return true
							}
						}
					}
				}
				return false
			}
			bad, pos := "", f.Pos()
			for _, g := range moduleClosure(c, f, 0) {
				for _, b := range g.Blocks {
					for _, ins := range b.Instrs {
						switch x := ins.(type) {
						case *ssa.Call:
							cl := x.Common().StaticCallee()
							if cl == nil || !removesText[cl.String()] || len(x.Common().Args) == 0 {
								continue
							}
							if assembled(x.Common().Args[0], 0) && bad == "" {
								bad = "the serializer hands the text it has assembled to " + cl.String() + ": a component is cut out of the serialization by its text, which an empty but present component does not have and an earlier component may share"
								pos = x.Pos()
							}
						case *ssa.Slice:
							if isStringType(x.X.Type()) && assembled(x.X, 0) && bad == "" {
								bad = "the serializer re-slices the text it has assembled: a component is cut out of the serialization by position"
								pos = x.Pos()
							}
						}
					}
				}
			}
			s.Check(bad == "", "serialappend/(*url.Url).Href", c.P.Pos(pos), "the serialization is only ever appended to", bad)
		},
	})
}
