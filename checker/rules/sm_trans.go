package rules

// SM-transitions: the transition relation of the basic URL parser, per state and class of the current code point.

import (
	"fmt"
	"sort"
	"strings"

	"wucheck/core"
)

type smOutcome struct {
	path *smPath
}

// smTransitions aggregates the walker's paths of a context into state -> rune class -> outcome -> a witness path.
// Outcomes: a next state, "stay", "RETURN" for a successful return, "FAIL" for a return behind a failure-flagged
// handler call or behind an error that no handler produced (a host parser's). Returns behind non-fatal validation
// errors exist only under fail-on-validation-error and are left out.
func smTransitions(m *smModel, ctx string) map[string]map[string]map[string]*smPath {
	T := map[string]map[string]map[string]*smPath{}
	for _, p := range m.Paths[ctx] {
		if p.State == "<prologue>" || p.State == "" {
			continue
		}
		out := p.Next
		if p.Returned {
			if p.RetKind == "fail" {
				flagged, nonFatal := false, false
				for _, h := range p.Handlers {
					if h.Taken == 1 {
						if h.Site.Failure || !h.Site.FailKnown {
							flagged = true
						} else {
							nonFatal = true
						}
					}
				}
				if nonFatal && !flagged {
					continue
				}
				out = "FAIL"
			} else {
				out = "RETURN"
			}
		} else if out == "" {
			out = "stay"
		}
		for _, cl := range p.RClass {
			if T[p.State] == nil {
				T[p.State] = map[string]map[string]*smPath{}
			}
			if T[p.State][cl] == nil {
				T[p.State][cl] = map[string]*smPath{}
			}
			if T[p.State][cl][out] == nil {
				T[p.State][cl][out] = p
			}
		}
	}
	return T
}

func init() {
	register(&Rule{
		Name:  "SM-transitions",
		Doc:   "for every state of the basic URL parser and every class of the current code point (the delimiters the code compares with, EOF, anything else) the set of possible outcomes - next state, staying, failure - equals the standard's transition table: every outcome of the standard is possible in the code and the code has no other (path walker over the state machine, no state override, with a base)",
		Props: []string{"C01", "C06"},
		Floor: 100,
		Run: func(c *Ctx, s *core.Sink) {
			m := BuildSM(c)
			if smProblems(m, s) {
				return
			}
			var spec struct {
				Context string   `json:"context"`
				Classes []string `json:"classes"`
				States  map[string][]struct {
					On   []string `json:"on"`
					Must []string `json:"must"`
					May  []string `json:"may"`
				} `json:"states"`
			}
			readSpec(c, "transitions.json", &spec)
			known := map[string]bool{}
			for _, cl := range spec.Classes {
				known[cl] = true
			}
			T := smTransitions(m, spec.Context)
			var states []string
			for st := range spec.States {
				states = append(states, st)
			}
			sort.Strings(states)
			propsFor := func(state string) []string {
				switch state {
				case "StateNoScheme", "StateRelative", "StateRelativeSlash", "StateSpecialRelativeOrAuthority":
					return []string{"C01", "C06"} // where a reference meets its base
				}
				return []string{"C01"}
			}
			for _, st := range states {
				byClass := T[st]
				if byClass == nil {
					s.Unknown("trans/"+st, "-", "the state is not reached by the walker (no case clause, or no path leads to it)", propsFor(st)...)
					continue
				}
				// classes the code distinguishes beyond the table's are refinements of OTHER
				merged := map[string]map[string]*smPath{}
				for cl, outs := range byClass {
					k := cl
					if !known[cl] {
						k = "OTHER"
					}
					if merged[k] == nil {
						merged[k] = map[string]*smPath{}
					}
					for o, p := range outs {
						if merged[k][o] == nil {
							merged[k][o] = p
						}
					}
				}
				for _, row := range spec.States[st] {
					must, may := map[string]bool{}, map[string]bool{}
					for _, o := range row.Must {
						must[o] = true
					}
					for _, o := range row.May {
						may[o] = true
					}
					for _, cl := range row.On {
						outs, ok := merged[cl]
						if !ok {
							continue // the code does not single this code point out: covered by OTHER
						}
						key := fmt.Sprintf("trans/%s/%s", st, cl)
						var have []string
						for o := range outs {
							have = append(have, o)
						}
						sort.Strings(have)
						var missing, extra []string
						for o := range must {
							if outs[o] == nil {
								missing = append(missing, o)
							}
						}
						pos := "-"
						for _, o := range have {
							if !must[o] && !may[o] {
								extra = append(extra, o)
								if p := outs[o]; p != nil {
									if p.NextPos.IsValid() {
										pos = c.P.Pos(p.NextPos)
									} else if p.RetPos.IsValid() {
										pos = c.P.Pos(p.RetPos)
									}
								}
							}
						}
						sort.Strings(missing)
						sort.Strings(extra)
						if pos == "-" {
							if cc := m.An.clauses[st]; cc != nil {
								pos = c.P.Pos(cc.Pos())
							}
						}
						switch {
						case len(missing) > 0 || len(extra) > 0:
							msg := fmt.Sprintf("in %s on %s the code can do {%s}; the standard: {%s}", st, cl, strings.Join(have, ", "), strings.Join(row.Must, ", "))
							if len(missing) > 0 {
								msg += "; never happens: " + strings.Join(missing, ", ")
							}
							if len(extra) > 0 {
								msg += "; not in the standard: " + strings.Join(extra, ", ")
							}
							s.Bad(key, pos, msg, propsFor(st)...)
						default:
							s.OK(key, pos, "{"+strings.Join(have, ", ")+"}", propsFor(st)...)
						}
					}
				}
			}
			// states of the code the table does not know
			for st := range T {
				if _, ok := spec.States[st]; !ok && st != "StateHostname" {
					if cc := m.An.clauses[st]; cc != nil {
						s.Bad("trans/"+st, c.P.Pos(cc.Pos()), "a state the standard's machine does not have is reachable when parsing", "C01")
					}
				}
			}
		},
	})
}
