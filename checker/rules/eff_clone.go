package rules

// EFF-clonefaithful: a copy function fills every field of the copy from the same field of the original, and hands the
// copy to nobody who rewrites it (DESIGN §3.2).
//
// Independence of the copy (EFF-result, EFF-clonepure) says nothing about its content. Resolution against a URL value
// works on Clone(base), so a Clone that re-derives a field (re-serialises the query from the parameter list, say) makes
// (*Url).Parse disagree with ParseRef on the base's serialisation — and nothing in the suite calls Clone.

import (
	"fmt"
	"go/token"
	"go/types"
	"sort"
	"strings"

	"golang.org/x/tools/go/ssa"

	"wucheck/core"
)

// cloneOrigins: the fields (by name) of objects of type T, other than self, that v is computed from.
func cloneOrigins(v ssa.Value, T string, self *ssa.Alloc, seen map[ssa.Value]bool, out map[string]bool) {
	if v == nil || seen[v] || len(seen) > 400 {
		return
	}
	seen[v] = true
	rec := func(x ssa.Value) { cloneOrigins(x, T, self, seen, out) }
	switch x := v.(type) {
	case *ssa.FieldAddr:
		if x.X != ssa.Value(self) && namedOf(x.X.Type()) == T {
			out[strings.TrimPrefix(fieldElem(x.X.Type(), x.Field), T+":")] = true
			return
		}
		rec(x.X)
	case *ssa.UnOp:
		rec(x.X)
	case *ssa.Alloc:
		if x == self {
			return
		}
		for _, r := range *x.Referrers() {
			switch y := r.(type) {
			case *ssa.Store:
				if y.Addr == ssa.Value(x) {
					rec(y.Val)
				}
			case *ssa.FieldAddr:
				for _, r2 := range *y.Referrers() {
					if st, ok := r2.(*ssa.Store); ok && st.Addr == ssa.Value(y) {
						rec(st.Val)
					}
				}
			case *ssa.IndexAddr:
				for _, r2 := range *y.Referrers() {
					if st, ok := r2.(*ssa.Store); ok && st.Addr == ssa.Value(y) {
						rec(st.Val)
					}
				}
			}
		}
	case *ssa.Call:
		for _, a := range x.Common().Args {
			rec(a)
		}
		if x.Common().IsInvoke() {
			rec(x.Common().Value)
		}
	case *ssa.Phi:
		for _, e := range x.Edges {
			rec(e)
		}
	case *ssa.Slice:
		rec(x.X)
	case *ssa.Convert:
		rec(x.X)
	case *ssa.ChangeType:
		rec(x.X)
	case *ssa.MakeInterface:
		rec(x.X)
	case *ssa.TypeAssert:
		rec(x.X)
	case *ssa.IndexAddr:
		rec(x.X)
	case *ssa.Index:
		rec(x.X)
	case *ssa.Lookup:
		rec(x.X)
	case *ssa.Extract:
		rec(x.Tuple)
	case *ssa.Next:
		rec(x.Iter)
	case *ssa.Range:
		rec(x.X)
	case *ssa.BinOp:
		rec(x.X)
		rec(x.Y)
	}
}

// copyHelper: g fills the object behind its parameter dst field by field from the same fields of another parameter of
// the same type, by direct stores only.
func copyHelper(g *ssa.Function, dst int) bool {
	if dst >= len(g.Params) {
		return false
	}
	T := namedOf(g.Params[dst].Type())
	if T == "" {
		return false
	}
	n := 0
	for _, b := range g.Blocks {
		for _, ins := range b.Instrs {
			switch x := ins.(type) {
			case *ssa.Call:
				for _, a := range x.Common().Args {
					if a == ssa.Value(g.Params[dst]) {
						return false
					}
				}
			case *ssa.Store:
				fa, ok := x.Addr.(*ssa.FieldAddr)
				if !ok || fa.X != ssa.Value(g.Params[dst]) {
					continue
				}
				n++
				F := strings.TrimPrefix(fieldElem(fa.X.Type(), fa.Field), T+":")
				or := map[string]bool{}
				cloneOrigins(x.Val, T, nil, map[ssa.Value]bool{g.Params[dst]: true}, or)
				if len(or) != 1 || !or[F] {
					return false
				}
			}
		}
	}
	return n > 0
}

func init() {
	register(&Rule{
		Name:  "EFF-clonefaithful",
		Doc:   "in a copy function (clone*, Clone*) every field of a freshly built object that is computed from an object of the same type is computed from the same field of it, and the fresh object is handed to no function that writes its fields (other than a field-by-field copy helper)",
		Props: []string{"C13", "C06"},
		Floor: 3,
		Run: func(c *Ctx, s *core.Sink) {
			e := BuildEff(c)
			for _, f := range e.Fns {
				if !c.P.InModule(f) || f.Synthetic != "" || f.Parent() != nil || len(f.Blocks) == 0 {
					continue
				}
				if !strings.HasPrefix(strings.ToLower(f.Name()), "clone") {
					continue
				}
				props := []string{"C13"}
				if namedOf(recvType(f)) == "Url" {
					props = []string{"C13", "C06"}
				}
				for _, b := range f.Blocks {
					for _, ins := range b.Instrs {
						al, ok := ins.(*ssa.Alloc)
						if !ok {
							continue
						}
						T := namedOf(al.Type())
						pt, isPtr := al.Type().Underlying().(*types.Pointer)
						if T == "" || !isPtr {
							continue
						}
						if _, isStruct := pt.Elem().Underlying().(*types.Struct); !isStruct {
							continue
						}
						if nm, ok := pt.Elem().(*types.Named); !ok || nm.Obj().Pkg() == nil || !strings.HasPrefix(nm.Obj().Pkg().Path(), core.ModPath) {
							continue
						}
						key := fmt.Sprintf("faithful/%s/%s", core.FuncName(f), T)
						var bad []string
						nf := 0
						for _, r := range *al.Referrers() {
							switch x := r.(type) {
							case *ssa.FieldAddr:
								F := strings.TrimPrefix(fieldElem(x.X.Type(), x.Field), T+":")
								for _, r2 := range *x.Referrers() {
									st, ok := r2.(*ssa.Store)
									if !ok || st.Addr != ssa.Value(x) {
										continue
									}
									nf++
									or := map[string]bool{}
									cloneOrigins(st.Val, T, al, map[ssa.Value]bool{}, or)
									var other []string
									for g := range or {
										if g != F {
											other = append(other, g)
										}
									}
									sort.Strings(other)
									if len(other) > 0 {
										bad = append(bad, fmt.Sprintf("field %s of the copy is computed from field %s of the original [%s]", F, strings.Join(other, ", "), c.P.Pos(st.Pos())))
									}
								}
							case *ssa.Call:
								g := x.Common().StaticCallee()
								if g == nil {
									continue
								}
								sum := e.Sum(g)
								if sum == nil {
									continue
								}
								for i, a := range x.Common().Args {
									if a != ssa.Value(al) {
										continue
									}
									m := sum.MutRootedAt(i)
									if len(m) == 0 || copyHelper(g, i) {
										continue
									}
									sort.Strings(m)
									if len(m) > 4 {
										m = append(m[:4], "…")
									}
									bad = append(bad, fmt.Sprintf("the copy is handed to %s, which rewrites %s: those fields are no longer what the original holds [%s]", core.FuncName(g), strings.Join(m, ", "), c.P.Pos(x.Pos())))
								}
							}
						}
						// an object tied to the copy — a field of it, or what a function that was handed the copy returned
						// (the parameter list bound to the clone): a callee that writes, through it, a field of an object
						// of the copied type rewrites the copy as well
						for _, b2 := range f.Blocks {
							for _, in2 := range b2.Instrs {
								x, ok := in2.(*ssa.Call)
								if !ok {
									continue
								}
								g := x.Common().StaticCallee()
								if g == nil {
									continue
								}
								sum := e.Sum(g)
								if sum == nil {
									continue
								}
								for i, a := range x.Common().Args {
									tied := false
									if ld, ok := a.(*ssa.UnOp); ok && ld.Op == token.MUL {
										if fa, ok := ld.X.(*ssa.FieldAddr); ok && fa.X == ssa.Value(al) {
											tied = true
										}
									}
									if c2, ok := a.(*ssa.Call); ok {
										for _, a2 := range c2.Common().Args {
											if a2 == ssa.Value(al) {
												tied = true
											}
										}
									}
									if !tied {
										continue
									}
									var through []string
									for _, m := range sum.MutRootedAt(i) {
										if strings.Contains(m, "."+T+":") {
											through = append(through, m)
										}
									}
									if len(through) > 0 {
										sort.Strings(through)
										bad = append(bad, fmt.Sprintf("an object tied to the copy is handed to %s, which rewrites %s through it: the copy no longer holds what the original holds [%s]", core.FuncName(g), strings.Join(through, ", "), c.P.Pos(x.Pos())))
									}
								}
							}
						}
						sort.Strings(bad)
						if len(bad) > 0 {
							s.Bad(key, c.P.Pos(al.Pos()), strings.Join(bad, "; "), props...)
						} else {
							s.OK(key, c.P.Pos(al.Pos()), fmt.Sprintf("%d field stores, each from the same field of the original (or from nothing of its type); no callee rewrites the copy", nf), props...)
						}
					}
				}
			}
		},
	})
}

var _ = token.NoPos
