package rules

// Semantic reading of "what guards the effects of a method": the branch facts that hold at every store into the
// receiver and at every mutating call, looking through unexported helpers of the same type (virtual inlining) and
// through boolean predicate helpers (their summaries), normalised to atoms over access paths from the receiver.

import (
	"fmt"
	"go/token"
	"sort"
	"strings"

	"golang.org/x/tools/go/ssa"
)

type xblock struct {
	Fn    *ssa.Function
	Block *ssa.BasicBlock
	Facts []condFact
	bind  map[ssa.Value]ssa.Value
}

func (x *xblock) Root(v ssa.Value) ssa.Value {
	for i := 0; i < 8; i++ {
		r, ok := x.bind[v]
		if !ok {
			return v
		}
		v = r
	}
	return v
}

// expandBlocks: every reachable block of root and of the module functions it calls that `follow` accepts (virtually
// inlined, each with the facts inherited along the chain of call sites and the parameter bindings).
func expandBlocks(c *Ctx, root *ssa.Function, follow func(*ssa.Function) bool, maxDepth int) []xblock {
	var out []xblock
	var rec func(fn *ssa.Function, inherited []condFact, bind map[ssa.Value]ssa.Value, depth int, onStack map[*ssa.Function]bool)
	rec = func(fn *ssa.Function, inherited []condFact, bind map[ssa.Value]ssa.Value, depth int, onStack map[*ssa.Function]bool) {
		ff := Facts(c, fn)
		for _, b := range fn.Blocks {
			if !ff.Reachable(b) {
				continue
			}
			facts := append(append([]condFact(nil), inherited...), ff.At(b)...)
			xb := xblock{Fn: fn, Block: b, Facts: facts, bind: bind}
			out = append(out, xb)
			for _, ins := range b.Instrs {
				call, ok := ins.(*ssa.Call)
				if !ok {
					continue
				}
				cl := call.Common().StaticCallee()
				if cl == nil || len(cl.Blocks) == 0 || depth >= maxDepth || onStack[cl] || !follow(cl) {
					continue
				}
				nb := map[ssa.Value]ssa.Value{}
				for k, v := range bind {
					nb[k] = v
				}
				for i, p := range cl.Params {
					if i < len(call.Common().Args) {
						nb[p] = xb.Root(call.Common().Args[i])
					}
				}
				onStack[cl] = true
				rec(cl, facts, nb, depth+1, onStack)
				delete(onStack, cl)
			}
		}
	}
	rec(root, nil, map[ssa.Value]ssa.Value{}, 0, map[*ssa.Function]bool{root: true})
	return out
}

// accessPath: v as a path from a parameter of the root function ("P0.Url:host", "*P0.Url:host").
func accessPath(v ssa.Value, root func(ssa.Value) ssa.Value, depth int) (string, bool) {
	if depth > 6 {
		return "", false
	}
	v = root(v)
	switch x := v.(type) {
	case *ssa.Parameter:
		for i, p := range x.Parent().Params {
			if p == x {
				return fmt.Sprintf("P%d", i), true
			}
		}
	case *ssa.UnOp:
		if x.Op != token.MUL {
			return "", false
		}
		if fa, ok := x.X.(*ssa.FieldAddr); ok {
			b, ok := accessPath(fa.X, root, depth+1)
			if !ok {
				return "", false
			}
			return b + "." + fieldElem(fa.X.Type(), fa.Field), true
		}
		b, ok := accessPath(x.X, root, depth+1)
		if !ok {
			return "", false
		}
		return "*" + b, true
	case *ssa.FieldAddr:
		b, ok := accessPath(x.X, root, depth+1)
		if !ok {
			return "", false
		}
		return "&" + b + "." + fieldElem(x.X.Type(), x.Field), true
	}
	return "", false
}

// factAtoms normalises one branch fact to atoms over access paths; predicate calls are replaced by what their summary
// says they imply.
func factAtoms(c *Ctx, f condFact, root func(ssa.Value) ssa.Value, depth int) []string {
	if depth > 3 {
		return nil
	}
	switch x := f.Cond.(type) {
	case *ssa.BinOp:
		if x.Op != token.EQL && x.Op != token.NEQ {
			return nil
		}
		op := "=="
		if (x.Op == token.EQL) != f.Val {
			op = "!="
		}
		for _, pr := range [][2]ssa.Value{{x.X, x.Y}, {x.Y, x.X}} {
			k, ok := pr[1].(*ssa.Const)
			if !ok {
				continue
			}
			p, ok := accessPath(pr[0], root, 0)
			if !ok {
				continue
			}
			lit := "nil"
			if k.Value != nil {
				lit = k.Value.ExactString()
			}
			return []string{p + " " + op + " " + lit}
		}
	case *ssa.UnOp:
		if p, ok := accessPath(x, root, 0); ok {
			return []string{fmt.Sprintf("%s == %v", p, f.Val)}
		}
	case *ssa.Call:
		cl := x.Common().StaticCallee()
		if cl == nil {
			return nil
		}
		if ps := predicateSummary(c, cl); ps != nil {
			sub := ps.whenFalse
			if f.Val {
				sub = ps.whenTrue
			}
			if len(sub) > 0 {
				bind := map[ssa.Value]ssa.Value{}
				for i, p := range cl.Params {
					if i < len(x.Common().Args) {
						bind[p] = root(x.Common().Args[i])
					}
				}
				r2 := func(v ssa.Value) ssa.Value {
					for i := 0; i < 8; i++ {
						if r, ok := bind[v]; ok {
							v = r
							continue
						}
						break
					}
					return root(v)
				}
				var out []string
				for _, sf := range sub {
					out = append(out, factAtoms(c, sf, r2, depth+1)...)
				}
				if len(out) > 0 {
					return out
				}
			}
		}
		// an opaque predicate of receiver-rooted arguments
		var args []string
		for _, a := range x.Common().Args {
			p, ok := accessPath(a, root, 0)
			if !ok {
				return nil
			}
			args = append(args, p)
		}
		return []string{fmt.Sprintf("%s(%s) == %v", cl.Name(), strings.Join(args, ","), f.Val)}
	}
	return nil
}

// effectGuard: the atoms about the receiver that hold at every effect of method f — stores into memory reached from
// the receiver and calls (not looked through) whose effect summary writes something.
func effectGuard(c *Ctx, f *ssa.Function) ([]string, int) {
	e := BuildEff(c)
	recvT := namedOf(recvType(f))
	follow := func(g *ssa.Function) bool {
		return c.P.InModule(g) && namedOf(recvType(g)) == recvT && g.Object() != nil && !g.Object().Exported()
	}
	var guard map[string]bool
	sites := 0
	for _, xb := range expandBlocks(c, f, follow, 3) {
		effect := false
		for _, ins := range xb.Block.Instrs {
			switch x := ins.(type) {
			case *ssa.Store:
				if p, ok := accessPath(x.Addr, xb.Root, 0); ok && strings.HasPrefix(strings.TrimLeft(p, "&*"), "P0") {
					effect = true
				}
			case *ssa.Call:
				cl := x.Common().StaticCallee()
				if cl == nil || !c.P.InModule(cl) || follow(cl) {
					continue
				}
				if sum := e.Sum(cl); sum != nil && len(sum.Mut) > 0 {
					effect = true
				}
			}
		}
		if !effect {
			continue
		}
		sites++
		here := map[string]bool{}
		for _, fa := range xb.Facts {
			for _, a := range factAtoms(c, fa, xb.Root, 0) {
				if strings.Contains(a, "P0") {
					here[a] = true
				}
			}
		}
		if guard == nil {
			guard = here
		} else {
			for a := range guard {
				if !here[a] {
					delete(guard, a)
				}
			}
		}
	}
	var out []string
	for a := range guard {
		out = append(out, a)
	}
	sort.Strings(out)
	return out, sites
}
