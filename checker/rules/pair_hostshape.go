package rules

// PAIR-hostshape: the address-kind accessors read the host text with the delimiters the serializers write.
//
// IsIPv6 and IsIPv4 have no cache (PAIR-group): they recognise the kind of host from its text. What they look for must
// be what the host parser writes: the brackets it puts around the IPv6 serialization, the separator the IPv4
// serializer puts between the numbers. Writer's and reader's constants are collected from the code and compared; a
// recogniser written in a form the collection does not read is listed, not decided.

import (
	"fmt"
	"go/constant"
	"go/types"
	"sort"
	"strings"

	"golang.org/x/tools/go/ssa"

	"wucheck/core"
)

func punctConst(v ssa.Value) (string, bool) {
	k, ok := v.(*ssa.Const)
	if !ok || k.Value == nil || k.Value.Kind() != constant.Int {
		return "", false
	}
	b, ok := k.Type().Underlying().(*types.Basic)
	if !ok || (b.Kind() != types.Uint8 && b.Kind() != types.Int32 && b.Kind() != types.UntypedRune) {
		return "", false
	}
	n, ok := constant.Int64Val(k.Value)
	if !ok {
		return "", false
	}
	if (n >= 0x21 && n <= 0x2f) || (n >= 0x3a && n <= 0x40) || (n >= 0x5b && n <= 0x60) || (n >= 0x7b && n <= 0x7e) {
		return string(rune(n)), true
	}
	return "", false
}

// moduleClosure: f and the module functions it calls statically, to the given depth.
func moduleClosure(c *Ctx, f *ssa.Function, depth int) []*ssa.Function {
	seen := map[*ssa.Function]bool{f: true}
	out := []*ssa.Function{f}
	for i, d := 0, 0; i < len(out) && d <= depth*8; i++ {
		for _, b := range out[i].Blocks {
			for _, ins := range b.Instrs {
				if ci, ok := ins.(ssa.CallInstruction); ok {
					if cl := ci.Common().StaticCallee(); cl != nil && c.P.InModule(cl) && !seen[cl] && len(cl.Blocks) > 0 && len(out) < 1+depth*6 {
						seen[cl] = true
						out = append(out, cl)
					}
				}
			}
		}
	}
	return out
}

func init() {
	register(&Rule{
		Name:  "PAIR-hostshape",
		Doc:   "IsIPv6 tests the host text for exactly the prefix and suffix the host parser writes around the IPv6 serialization, and the IPv4 recogniser behind IsIPv4 splits on exactly the separator the IPv4 serializer writes between the numbers (writer's and reader's constants compared); other forms are listed, not decided",
		Props: []string{"C19"},
		Floor: 2,
		Run: func(c *Ctx, s *core.Sink) {
			inv := func(key, pos, why string) {
				s.Obs = append(s.Obs, core.Obligation{Rule: s.Rule, Construct: key, Pos: pos, Verdict: core.Discharged, Fact: "inventory: not decided (" + why + ")", Props: s.Props, Trivial: true})
			}
			// --- IPv6: writer
			var pre, suf string
			writers := 0
			var wpos string
			for _, f := range c.P.ModFns {
				for _, b := range f.Blocks {
					for _, ins := range b.Instrs {
						call, ok := ins.(*ssa.Call)
						if !ok {
							continue
						}
						cl := call.Common().StaticCallee()
						if cl == nil || cl.Name() != "String" || namedOf(recvType(cl)) != "IPv6Addr" {
							continue
						}
						// the concatenation the serialization is part of
						var p, q string
						cur := ssa.Value(call)
						for hop := 0; hop < 4; hop++ {
							var next ssa.Value
							for _, r := range *cur.Referrers() {
								bo, ok := r.(*ssa.BinOp)
								if !ok || !isStringType(bo.Type()) {
									continue
								}
								if bo.Y == cur {
									if k, ok := constString(bo.X); ok {
										p = k + p
									}
								}
								if bo.X == cur {
									if k, ok := constString(bo.Y); ok {
										q = q + k
									}
								}
								next = bo
							}
							if next == nil {
								break
							}
							cur = next
						}
						if p != "" || q != "" {
							writers++
							pre, suf = p, q
							wpos = c.P.Pos(call.Pos())
						}
					}
				}
			}
			is6 := c.P.Func("url", "Url", "IsIPv6")
			switch {
			case is6 == nil:
				s.Unknown("hostshape/IsIPv6", "-", "accessor not found")
			case writers != 1:
				inv("hostshape/IsIPv6", c.P.Pos(is6.Pos()), fmt.Sprintf("%d places wrap the IPv6 serialization in constant text", writers))
			default:
				var rp, rs []string
				for _, g := range moduleClosure(c, is6, 1) {
					for _, b := range g.Blocks {
						for _, ins := range b.Instrs {
							call, ok := ins.(*ssa.Call)
							if !ok {
								continue
							}
							cl := call.Common().StaticCallee()
							if cl == nil || len(call.Common().Args) != 2 {
								continue
							}
							k, ok := constString(call.Common().Args[1])
							if !ok {
								continue
							}
							switch cl.String() {
							case "strings.HasPrefix":
								rp = append(rp, k)
							case "strings.HasSuffix":
								rs = append(rs, k)
							}
						}
					}
				}
				if len(rp) == 0 && len(rs) == 0 {
					inv("hostshape/IsIPv6", c.P.Pos(is6.Pos()), "the accessor does not test a constant prefix or suffix")
					break
				}
				bad := ""
				for _, k := range rp {
					if k != pre {
						bad = fmt.Sprintf("IsIPv6 looks for the prefix %q, the host parser writes %q in front of an IPv6 address (%s)", k, pre, wpos)
					}
				}
				for _, k := range rs {
					if k != suf {
						bad = fmt.Sprintf("IsIPv6 looks for the suffix %q, the host parser writes %q behind an IPv6 address (%s)", k, suf, wpos)
					}
				}
				s.Check(bad == "", "hostshape/IsIPv6", c.P.Pos(is6.Pos()), fmt.Sprintf("tests for the %q … %q the host parser writes", pre, suf), bad+": the accessor answers false for IPv6 hosts")
			}
			// --- IPv4: writer's separators
			seps := map[string]bool{}
			var w4 *ssa.Function
			for _, f := range c.P.ModFns {
				if f.Name() == "String" && namedOf(recvType(f)) == "IPv4Addr" && f.Parent() == nil {
					w4 = f
				}
			}
			is4 := c.P.Func("url", "Url", "IsIPv4")
			if is4 == nil {
				s.Unknown("hostshape/IsIPv4", "-", "accessor not found")
				return
			}
			if w4 == nil {
				inv("hostshape/IsIPv4", c.P.Pos(is4.Pos()), "no IPv4 serializer found")
				return
			}
			for _, g := range moduleClosure(c, w4, 1) {
				for _, b := range g.Blocks {
					for _, ins := range b.Instrs {
						for _, op := range ins.Operands(nil) {
							if *op == nil {
								continue
							}
							if k, ok := constString(*op); ok && k != "" {
								seps[k] = true
							}
							if k, ok := punctConst(*op); ok {
								seps[k] = true
							}
						}
					}
				}
			}
			var rseps []string
			for _, g := range moduleClosure(c, is4, 2) {
				if g == is4 {
					continue
				}
				for _, b := range g.Blocks {
					for _, ins := range b.Instrs {
						call, ok := ins.(*ssa.Call)
						if !ok {
							continue
						}
						cl := call.Common().StaticCallee()
						if cl == nil || cl.Pkg == nil || cl.Pkg.Pkg.Path() != "strings" || len(call.Common().Args) < 2 {
							continue
						}
						switch cl.Name() {
						case "Split", "SplitN", "SplitAfter", "Cut", "Count", "Index", "LastIndex", "IndexByte", "LastIndexByte", "IndexRune", "ContainsRune":
							if k, ok := constString(call.Common().Args[1]); ok {
								rseps = append(rseps, k)
							} else if k, ok := punctConst(call.Common().Args[1]); ok {
								rseps = append(rseps, k)
							}
						}
					}
				}
			}
			if len(rseps) == 0 || len(seps) == 0 {
				inv("hostshape/IsIPv4", c.P.Pos(is4.Pos()), "the recogniser does not split on a constant, or the serializer writes none")
				return
			}
			var ws []string
			for k := range seps {
				ws = append(ws, k)
			}
			sort.Strings(ws)
			bad := ""
			for _, k := range rseps {
				if !seps[k] {
					bad = fmt.Sprintf("the IPv4 recogniser behind IsIPv4 splits on %q, the IPv4 serializer writes %s between the numbers", k, strings.Join(ws, ", "))
				}
			}
			s.Check(bad == "", "hostshape/IsIPv4", c.P.Pos(is4.Pos()), "splits on the separator the IPv4 serializer writes", bad+": the accessor answers false for IPv4 hosts")
		},
	})
}
