package rules

// FLOW-hexpair: the two digits of an escape that a decoder consumes are the two digits it tested.
//
// A decoder turns "%XY" into a byte after testing that X and Y are hex digits. Consumption is visible in the code:
// a hex digit value function applied to x[i+k], or the slice x[i:i+3] handed to an unescape function. The rule
// collects the positions consumed and the positions covered by a dominating `ASCIIHexDigit.Test(x[i+k])` fact on the
// same slice and requires every consumed digit position to be a tested one. It is a contradiction rule: when the
// function tests no position of that slice itself (the validation lives in a helper) it says nothing (inventory).

import (
	"fmt"
	"go/token"

	"golang.org/x/tools/go/ssa"

	"wucheck/core"
)

type elemPos struct {
	x    ssa.Value
	base ssa.Value
	k    int64
}

func splitIndex(idx ssa.Value) (ssa.Value, int64) {
	idx = stripConv(idx)
	if bo, ok := idx.(*ssa.BinOp); ok && bo.Op == token.ADD {
		if k, ok := constInt(bo.Y); ok {
			return stripConv(bo.X), k
		}
		if k, ok := constInt(bo.X); ok {
			return stripConv(bo.Y), k
		}
	}
	return idx, 0
}

// elemOf recognises (a conversion of) the load x[idx].
func elemOf(v ssa.Value) (elemPos, bool) {
	v = stripConv(v)
	switch x := v.(type) {
	case *ssa.UnOp:
		if x.Op == token.MUL {
			if ia, ok := x.X.(*ssa.IndexAddr); ok {
				b, k := splitIndex(ia.Index)
				return elemPos{x: ia.X, base: b, k: k}, true
			}
		}
	case *ssa.Index:
		b, k := splitIndex(x.Index)
		return elemPos{x: x.X, base: b, k: k}, true
	case *ssa.Lookup:
		if !x.CommaOk {
			b, k := splitIndex(x.Index)
			return elemPos{x: x.X, base: b, k: k}, true
		}
	}
	return elemPos{}, false
}

func isHexDigitTest(v ssa.Value) (elemPos, bool) {
	call, ok := v.(*ssa.Call)
	if !ok {
		return elemPos{}, false
	}
	com := call.Common()
	cl := com.StaticCallee()
	if cl == nil || cl.Name() != "Test" || len(com.Args) != 2 {
		return elemPos{}, false
	}
	ld, ok := com.Args[0].(*ssa.UnOp)
	if !ok || ld.Op != token.MUL {
		return elemPos{}, false
	}
	g, ok := ld.X.(*ssa.Global)
	if !ok || g.Name() != "ASCIIHexDigit" {
		return elemPos{}, false
	}
	return elemOf(com.Args[1])
}

func init() {
	register(&Rule{
		Name:  "FLOW-hexpair",
		Doc:   "in every decoder, each position consumed as a hex digit of an escape (argument of a hex digit value function, or the two positions behind the '%' of a three-element slice handed to an unescape function) is a position for which a dominating ASCIIHexDigit test of the same slice answered true; contradiction rule - silent where the function tests no position itself",
		Props: []string{"C10", "C11", "C18"},
		Floor: 2,
		Run: func(c *Ctx, s *core.Sink) {
			isScale := func(v ssa.Value) bool {
				bo, ok := v.(*ssa.BinOp)
				if !ok {
					return false
				}
				if k, ok := constInt(bo.Y); ok && ((bo.Op == token.MUL && k == 16) || (bo.Op == token.SHL && k == 4)) {
					return true
				}
				if k, ok := constInt(bo.X); ok && bo.Op == token.MUL && k == 16 {
					return true
				}
				return false
			}
			for _, f := range c.P.ModFns {
				type site struct {
					ins  ssa.Instruction
					pos  []elemPos
					what string
				}
				var sites []site
				for _, b := range f.Blocks {
					for _, ins := range b.Instrs {
						switch x := ins.(type) {
						case *ssa.Call:
							g := x.Common().StaticCallee()
							if g == nil {
								continue
							}
							if c.P.InModule(g) && len(g.Params) == 1 && g.Signature.Results().Len() == 1 && len(x.Common().Args) == 1 {
								// a digit value: the answer is scaled by 16, or combined with such a product
								digit := false
								for _, r := range *x.Referrers() {
									rv, ok := r.(ssa.Value)
									if !ok {
										continue
									}
									rv2 := rv
									if cv, ok := rv.(*ssa.Convert); ok && cv.Referrers() != nil && len(*cv.Referrers()) == 1 {
										if v2, ok := (*cv.Referrers())[0].(ssa.Value); ok {
											rv2 = v2
										}
									}
									if isScale(rv2) {
										digit = true
									}
									if bo, ok := rv2.(*ssa.BinOp); ok && (bo.Op == token.OR || bo.Op == token.ADD) && (isScale(stripConv(bo.X)) || isScale(stripConv(bo.Y))) {
										digit = true
									}
								}
								if ep, ok := elemOf(x.Common().Args[0]); ok && digit {
									sites = append(sites, site{ins, []elemPos{ep}, "the argument of " + g.Name()})
								}
							}
							if g.Pkg != nil && g.Pkg.Pkg.Path() == "net/url" && (g.Name() == "PathUnescape" || g.Name() == "QueryUnescape") && len(x.Common().Args) == 1 {
								if sl, ok := stripConv(x.Common().Args[0]).(*ssa.Slice); ok && sl.Low != nil && sl.High != nil {
									lb, lk := splitIndex(sl.Low)
									hb, hk := splitIndex(sl.High)
									if lb == hb && hk-lk == 3 {
										sites = append(sites, site{ins, []elemPos{{sl.X, lb, lk + 1}, {sl.X, lb, lk + 2}}, "the escape handed to " + g.Name()})
									}
								}
							}
						}
					}
				}
				if len(sites) == 0 {
					continue
				}
				ff := Facts(c, f)
				for i, st := range sites {
					key := fmt.Sprintf("hexpair/%s#%d", core.FuncName(f), i+1)
					var tested []elemPos
					for _, fa := range ff.At(st.ins.Block()) {
						if !fa.Val {
							continue
						}
						if ep, ok := isHexDigitTest(fa.Cond); ok {
							tested = append(tested, ep)
						}
					}
					same := func(a, b elemPos) bool { return a.x == b.x && a.base == b.base && a.k == b.k }
					onSlice := 0
					for _, t := range tested {
						if t.x == st.pos[0].x {
							onSlice++
						}
					}
					if onSlice == 0 {
						s.Obs = append(s.Obs, core.Obligation{Rule: s.Rule, Construct: key, Pos: c.P.Pos(st.ins.Pos()), Verdict: core.Discharged, Fact: "inventory: not decided (the function tests no position of this slice itself)", Props: s.Props, Trivial: true})
						continue
					}
					bad := ""
					for _, p := range st.pos {
						ok := false
						for _, t := range tested {
							if same(p, t) {
								ok = true
							}
						}
						if !ok {
							bad = fmt.Sprintf("position +%d of %s is consumed as a hex digit, but the hex-digit tests that lead here cover other positions of the slice: a malformed escape is decoded", p.k, st.what)
						}
					}
					s.Check(bad == "", key, c.P.Pos(st.ins.Pos()), st.what+": every digit consumed was tested", bad)
				}
			}
		},
	})
}
