package rules

import (
	"fmt"
	"go/ast"
	"go/constant"
	"go/token"
	"go/types"
	"sort"
	"strings"

	"golang.org/x/tools/go/ssa"
	"golang.org/x/tools/go/types/typeutil"

	"wucheck/core"
)

type setsSpec struct {
	PES map[string]struct {
		Name   string    `json:"name"`
		Ranges [][]int64 `json:"ranges"`
	} `json:"percent_encode_sets"`
	Bitsets map[string]struct {
		Name   string  `json:"name"`
		Points []int64 `json:"points"`
		Modulo []int64 `json:"modulo"`
		Reason string  `json:"modulo_reason"`
	} `json:"bitsets"`
	Trim struct {
		Ranges [][]int64 `json:"ranges"`
	} `json:"trim_set"`
	Schemes     map[string]string `json:"special_schemes"`
	DefaultSets map[string]string `json:"default_sets"`
	Closure     map[string]struct {
		Ranges [][]int64 `json:"ranges"`
		Points []int64   `json:"points"`
	} `json:"reparse_closure"`
	UrlencDelims []int64 `json:"urlencoded_delimiters"`
	Dots         struct {
		Single []string `json:"single"`
		Double []string `json:"double"`
	} `json:"dot_segments"`
	HexUpper string `json:"hex_upper"`
}

func loadSetsSpec(c *Ctx) *setsSpec {
	return c.Memo("setsSpec", func() interface{} {
		var s setsSpec
		readSpec(c, "sets.json", &s)
		return &s
	}).(*setsSpec)
}

func objPos(c *Ctx, o types.Object) string {
	if o == nil {
		return "-"
	}
	return c.P.Pos(o.Pos())
}

// defaultOptions: what a parser built without options holds in each parserOptions field — read off the stores into
// parserOptions fields performed (outside loops and option closures) by NewParser and the module functions it calls,
// however the defaults are written (composite literal, field assignments, a helper): field -> table value.
func defaultOptions(c *Ctx) (map[string]interface{}, map[string]ast.Expr, token.Pos, error) {
	root := c.P.Func("url", "", "NewParser")
	if root == nil {
		return nil, nil, 0, fmt.Errorf("anchor NewParser not found")
	}
	env := BuildTables(c)
	fns := []*ssa.Function{root}
	seen := map[*ssa.Function]bool{root: true}
	for depth, frontier := 0, []*ssa.Function{root}; depth < 3 && len(frontier) > 0; depth++ {
		var next []*ssa.Function
		for _, f := range frontier {
			for _, b := range f.Blocks {
				for _, ins := range b.Instrs {
					if call, ok := ins.(*ssa.Call); ok {
						if cl := call.Common().StaticCallee(); cl != nil && c.P.InModule(cl) && len(cl.Blocks) > 0 && !seen[cl] && cl.Parent() == nil {
							seen[cl] = true
							next = append(next, cl)
							fns = append(fns, cl)
						}
					}
				}
			}
		}
		frontier = next
	}
	vals := map[string]interface{}{}
	count := map[string]int{}
	for _, f := range fns {
		loops := loopsOf(f)
		for _, b := range f.Blocks {
			if len(inLoops(loops, b)) > 0 {
				continue
			}
			for _, ins := range b.Instrs {
				st, ok := ins.(*ssa.Store)
				if !ok {
					continue
				}
				fa, ok := st.Addr.(*ssa.FieldAddr)
				if !ok {
					continue
				}
				el := fieldElem(fa.X.Type(), fa.Field)
				if !strings.HasPrefix(el, "parserOptions:") {
					continue
				}
				k := strings.TrimPrefix(el, "parserOptions:")
				count[k]++
				switch v := st.Val.(type) {
				case *ssa.Const:
					if v.Value != nil {
						vals[k] = v.Value
					}
				case *ssa.UnOp:
					if g, ok := v.X.(*ssa.Global); ok && g.Object() != nil {
						if tv, ok := env.globals[g.Object()]; ok {
							vals[k] = tv
						} else {
							vals[k] = tvUnknown{"package-level variable " + g.Name() + " has no table value"}
						}
					} else {
						vals[k] = tvUnknown{"default of " + k + " is not a package-level table"}
					}
				default:
					vals[k] = tvUnknown{"default of " + k + " is computed (" + st.Val.String() + "), not a package-level table"}
				}
			}
		}
	}
	for k, n := range count {
		if n > 1 {
			vals[k] = tvUnknown{"field " + k + " is given a default more than once"}
		}
	}
	if len(count) == 0 {
		return nil, nil, 0, fmt.Errorf("NewParser and the functions it calls store no default into parserOptions")
	}
	return vals, nil, root.Pos(), nil
}

func pesDenotation(c *Ctx, v interface{}, method string) (iset, error) {
	p, ok := v.(*tvPES)
	if !ok {
		if u, isU := v.(tvUnknown); isU {
			return nil, fmt.Errorf("value not evaluable: %s", u.why)
		}
		return nil, fmt.Errorf("not a percent-encode set (%T)", v)
	}
	return predDenotation(c, method, p)
}

func diffString(got, want iset) string {
	var parts []string
	if m := want.minus(got); len(m) > 0 {
		parts = append(parts, "missing "+m.String())
	}
	if e := got.minus(want); len(e) > 0 {
		parts = append(parts, "extra "+e.String())
	}
	return strings.Join(parts, "; ")
}

func init() {
	register(&Rule{
		Name:  "TAB-sets",
		Doc:   "the six named percent-encode sets denote, over all 0x110000 code points (interval sets computed from the constant-evaluated tables and the extracted membership predicate), exactly the standard's sets; the rune and byte predicates agree on 0–0xFF",
		Props: []string{"C10", "C01"},
		Floor: 12,
		Run: func(c *Ctx, s *core.Sink) {
			spec := loadSetsSpec(c)
			env := BuildTables(c)
			var names []string
			for n := range spec.PES {
				names = append(names, n)
			}
			sort.Strings(names)
			for _, n := range names {
				v, o := env.Global("url", n)
				key := "set/" + n
				if o == nil {
					s.Unknown(key, "-", "anchor variable url."+n+" not found")
					continue
				}
				got, err := pesDenotation(c, v, "RuneShouldBeEncoded")
				if err != nil {
					s.Unknown(key, objPos(c, o), err.Error())
					continue
				}
				want := rangesToIset(spec.PES[n].Ranges)
				s.Check(got.equal(want), key, objPos(c, o), fmt.Sprintf("= the standard's %s (%d code points)", spec.PES[n].Name, want.size()), "differs from the standard's "+spec.PES[n].Name+": "+diffString(got, want))
				gb, err := pesDenotation(c, v, "ByteShouldBeEncoded")
				if err != nil {
					s.Unknown(key+"/byte", objPos(c, o), err.Error(), "C10")
					continue
				}
				s.Check(gb.equal(got.clip(255)), key+"/byte", objPos(c, o), "byte predicate = rune predicate on 0–0xFF", "byte predicate differs from the rune predicate on 0–0xFF: "+diffString(gb, got.clip(255)), "C10")
			}
		},
	})

	register(&Rule{
		Name:  "TAB-ascii",
		Doc:   "the ASCII class tables (alpha, digit, octal digit, hex digit, alphanumeric; initialiser + init() loops) equal their definitions (the exported C0 control / C0 control or space tables, which the module does not read, are compared for the record only)",
		Props: []string{"C01", "C07"},
		Floor: 4,
		Run: func(c *Ctx, s *core.Sink) {
			spec := loadSetsSpec(c)
			env := BuildTables(c)
			for _, n := range []string{"ASCIIAlpha", "ASCIIAlphanumeric", "ASCIIDigit", "ASCIIHexDigit", "asciiOctalDigit", "C0control", "C0controlOrSpace"} {
				v, o := env.Global("url", n)
				key := "bitset/" + n
				props := []string{"C01"}
				if n == "ASCIIDigit" || n == "ASCIIHexDigit" || n == "asciiOctalDigit" {
					props = []string{"C01", "C07"}
				}
				if o == nil {
					if n == "asciiOctalDigit" || n == "C0control" || n == "C0controlOrSpace" {
						continue // optional tables: the octal digits are only needed if the radix-8 validation uses them (FLOW-strconv); the two C0 tables are exported for users, the parser does not read them
					}
					s.Unknown(key, "-", "anchor variable url."+n+" not found", props...)
					continue
				}
				b, ok := v.(*tvBitset)
				if !ok {
					s.Unknown(key, objPos(c, o), fmt.Sprintf("table not evaluable: %v", v), props...)
					continue
				}
				want := isetPoints(spec.Bitsets[n].Points...)
				if n == "C0control" || n == "C0controlOrSpace" {
					// exported for users, read by nothing in the module: no property of the parser depends on them, so
					// the comparison is recorded and is not a verdict
					fact := "inventory: = " + spec.Bitsets[n].Name + " (exported table that the module itself does not read)"
					if !b.iset().equal(want) {
						fact = "inventory: differs from " + spec.Bitsets[n].Name + ": " + diffString(b.iset(), want) + " (exported table that the module itself does not read: not a verdict)"
					}
					s.Obs = append(s.Obs, core.Obligation{Rule: s.Rule, Construct: key, Pos: objPos(c, o), Verdict: core.Discharged, Fact: fact, Props: props, Trivial: true})
					continue
				}
				s.Check(b.iset().equal(want), key, objPos(c, o), "= "+spec.Bitsets[n].Name, "differs from "+spec.Bitsets[n].Name+": "+diffString(b.iset(), want), props...)
			}
		},
	})

	register(&Rule{
		Name:  "TAB-forbidden",
		Doc:   "forbidden host / domain code point tables: equal to the standard's (host set modulo tab, LF, CR, which never reach a host) and at least the standard's",
		Props: []string{"C01", "C04", "C09"},
		Floor: 4,
		Run: func(c *Ctx, s *core.Sink) {
			spec := loadSetsSpec(c)
			env := BuildTables(c)
			for _, n := range []string{"ForbiddenHostCodePoint", "ForbiddenDomainCodePoint"} {
				v, o := env.Global("url", n)
				if o == nil {
					s.Unknown("forbidden/"+n, "-", "anchor variable not found")
					continue
				}
				b, ok := v.(*tvBitset)
				if !ok {
					s.Unknown("forbidden/"+n, objPos(c, o), fmt.Sprintf("table not evaluable: %v", v))
					continue
				}
				want := isetPoints(spec.Bitsets[n].Points...)
				mod := isetPoints(spec.Bitsets[n].Modulo...)
				got := b.iset()
				s.Check(got.minus(mod).equal(want.minus(mod)), "forbidden/"+n+"/equal", objPos(c, o), "= the standard's "+spec.Bitsets[n].Name, "differs from the standard: "+diffString(got.minus(mod), want.minus(mod)), "C01")
				sup := []string{"C04"}
				if n == "ForbiddenDomainCodePoint" {
					sup = []string{"C04", "C09"}
				}
				s.Check(want.minus(mod).subsetOf(got), "forbidden/"+n+"/superset", objPos(c, o), "⊇ the standard's "+spec.Bitsets[n].Name, "lacks "+want.minus(mod).minus(got).String(), sup...)
			}
		},
	})

	register(&Rule{
		Name:  "TAB-schemes",
		Doc:   "the default special-scheme table (scheme → default port) equals the standard's",
		Props: []string{"C01", "C04", "C19"},
		Floor: 1,
		Run: func(c *Ctx, s *core.Sink) {
			spec := loadSetsSpec(c)
			vals, _, pos, err := defaultOptions(c)
			if err != nil {
				s.Unknown("schemes/default", "-", err.Error())
				return
			}
			m, ok := vals["specialSchemes"].(tvMap)
			if !ok {
				s.Unknown("schemes/default", c.P.Pos(pos), fmt.Sprintf("specialSchemes default not evaluable: %v", vals["specialSchemes"]))
				return
			}
			var diff []string
			for k, v := range spec.Schemes {
				if g, ok := m[k]; !ok {
					diff = append(diff, "missing "+k)
				} else if g != v {
					diff = append(diff, fmt.Sprintf("%s has default port %q, standard %q", k, g, v))
				}
			}
			for k := range m {
				if _, ok := spec.Schemes[k]; !ok {
					diff = append(diff, "extra "+k)
				}
			}
			sort.Strings(diff)
			s.Check(len(diff) == 0, "schemes/default", c.P.Pos(pos), "ftp 21, file, http 80, https 443, ws 80, wss 443", strings.Join(diff, "; "))
		},
	})

	register(&Rule{
		Name:  "TAB-defaults",
		Doc:   "defaultParserOptions() maps each of the five encode-set fields to the standard's set for that component and scheme class, and sets no flag",
		Props: []string{"C10", "C16"},
		Floor: 6,
		Run: func(c *Ctx, s *core.Sink) {
			spec := loadSetsSpec(c)
			vals, _, pos, err := defaultOptions(c)
			if err != nil {
				s.Unknown("defaults", "-", err.Error())
				return
			}
			var fields []string
			for f := range spec.DefaultSets {
				fields = append(fields, f)
			}
			sort.Strings(fields)
			for _, f := range fields {
				key := "defaults/" + f
				v, ok := vals[f]
				if !ok {
					s.Bad(key, c.P.Pos(pos), "field is not initialised (nil set: nothing would be encoded as the standard requires)")
					continue
				}
				got, err := pesDenotation(c, v, "RuneShouldBeEncoded")
				if err != nil {
					s.Unknown(key, c.P.Pos(pos), err.Error())
					continue
				}
				want := rangesToIset(spec.PES[spec.DefaultSets[f]].Ranges)
				s.Check(got.equal(want), key, c.P.Pos(pos), "= the standard's "+spec.PES[spec.DefaultSets[f]].Name, "default differs from the standard's "+spec.PES[spec.DefaultSets[f]].Name+": "+diffString(got, want))
			}
			var extra []string
			for f := range vals {
				if _, ok := spec.DefaultSets[f]; !ok && f != "specialSchemes" {
					extra = append(extra, f)
				}
			}
			sort.Strings(extra)
			s.Check(len(extra) == 0, "defaults/flags", c.P.Pos(pos), "no other option is set by default", "options set by default: "+strings.Join(extra, ", "), "C16")
		},
	})

	register(&Rule{
		Name:  "TAB-closure",
		Doc:   "each default component set keeps encoded every code point that would end, or be trimmed from, that component when the serialization is parsed again",
		Props: []string{"C03"},
		Floor: 6,
		Run: func(c *Ctx, s *core.Sink) {
			spec := loadSetsSpec(c)
			vals, _, pos, err := defaultOptions(c)
			if err != nil {
				s.Unknown("closure", "-", err.Error())
				return
			}
			env := BuildTables(c)
			var names []string
			for n := range spec.Closure {
				if !strings.HasPrefix(n, "_") {
					names = append(names, n)
				}
			}
			sort.Strings(names)
			for _, n := range names {
				row := spec.Closure[n]
				var v interface{}
				p := c.P.Pos(pos)
				if gv, o := env.Global("url", n); o != nil {
					v, p = gv, objPos(c, o)
				} else {
					v = vals[n]
				}
				key := "closure/" + n
				got, err := pesDenotation(c, v, "RuneShouldBeEncoded")
				if err != nil {
					s.Unknown(key, p, err.Error())
					continue
				}
				want := rangesToIset(row.Ranges).union(isetPoints(row.Points...))
				s.Check(want.subsetOf(got), key, p, "⊇ "+want.String(), "a re-parse would split or trim this component: not encoded "+want.minus(got).String())
			}
		},
	})

	register(&Rule{
		Name:  "TAB-super",
		Doc:   "every default component set contains at least the standard's set for that component",
		Props: []string{"C04"},
		Floor: 6,
		Run: func(c *Ctx, s *core.Sink) {
			spec := loadSetsSpec(c)
			vals, _, pos, err := defaultOptions(c)
			if err != nil {
				s.Unknown("super", "-", err.Error())
				return
			}
			env := BuildTables(c)
			check := func(key string, v interface{}, p string, specName string) {
				got, err := pesDenotation(c, v, "RuneShouldBeEncoded")
				if err != nil {
					s.Unknown(key, p, err.Error())
					return
				}
				want := rangesToIset(spec.PES[specName].Ranges)
				s.Check(want.subsetOf(got), key, p, "⊇ the standard's "+spec.PES[specName].Name, "leaves unencoded "+want.minus(got).String())
			}
			var fields []string
			for f := range spec.DefaultSets {
				fields = append(fields, f)
			}
			sort.Strings(fields)
			for _, f := range fields {
				check("super/"+f, vals[f], c.P.Pos(pos), spec.DefaultSets[f])
			}
			for _, n := range []string{"UserInfoPercentEncodeSet", "C0PercentEncodeSet"} {
				v, o := env.Global("url", n)
				if o == nil {
					s.Unknown("super/"+n, "-", "anchor variable not found")
					continue
				}
				check("super/"+n, v, objPos(c, o), n)
			}
		},
	})

	register(&Rule{
		Name:  "TAB-hex",
		Doc:   "every string constant indexed by a nibble expression (c>>4, c&15) is 0123456789ABCDEF, every function that writes the byte '%' into a buffer takes both digits from such a table, and every format string that emits a literal %% follows it with %02X: escapes are upper-case hex and the encoder copies agree",
		Props: []string{"C10"},
		Floor: 2,
		Run: func(c *Ctx, s *core.Sink) {
			spec := loadSetsSpec(c)
			n := map[string]int{}
			nibbles := map[*ssa.Function]string{}
			for _, f := range c.P.ModFns {
				for _, b := range f.Blocks {
					for _, ins := range b.Instrs {
						var lkX, lkIndex ssa.Value
						switch x := ins.(type) {
						case *ssa.Lookup:
							lkX, lkIndex = x.X, x.Index
						case *ssa.Index:
							lkX, lkIndex = x.X, x.Index
						default:
							continue
						}
						lk := ins.(ssa.Value)
						k, ok := lkX.(*ssa.Const)
						if !ok || k.Value == nil || k.Value.Kind() != constant.String {
							continue
						}
						idx := stripConv(lkIndex)
						bo, ok := idx.(*ssa.BinOp)
						if !ok {
							continue
						}
						nib := ""
						if kc, ok := bo.Y.(*ssa.Const); ok && kc.Value != nil {
							v, _ := constant.Int64Val(constant.ToInt(kc.Value))
							if bo.Op == token.SHR && v == 4 {
								nib = "hi"
							}
							if bo.Op == token.AND && v == 15 {
								nib = "lo"
							}
						}
						if nib == "" {
							continue
						}
						base := "hex/" + core.FuncName(f) + "/" + nib
						n[base]++
						nibbles[f] = nibbles[f] + nib
						s.Check(constant.StringVal(k.Value) == spec.HexUpper, fmt.Sprintf("%s#%d", base, n[base]), c.P.Pos(lk.Pos()), "digits "+spec.HexUpper, "nibble table is "+k.Value.String())
					}
				}
			}
			// writers of '%': both digits come from a nibble table in the same function
			for _, f := range c.P.ModFns {
				var at token.Pos
				for _, b := range f.Blocks {
					for _, ins := range b.Instrs {
						switch x := ins.(type) {
						case *ssa.Store:
							if _, isIA := x.Addr.(*ssa.IndexAddr); !isIA {
								continue
							}
							bt, ok := x.Val.Type().Underlying().(*types.Basic)
							if !ok || bt.Kind() != types.Uint8 {
								continue
							}
							if k, ok := constInt(x.Val); ok && k == '%' && at == token.NoPos {
								at = x.Pos()
							}
						case *ssa.Call:
							cl := x.Common().StaticCallee()
							if cl == nil || core.PkgPathOf(cl) != "fmt" || len(x.Common().Args) == 0 {
								continue
							}
							for _, a := range x.Common().Args {
								format, ok := constString(a)
								if !ok || !strings.Contains(format, "%%") {
									continue
								}
								key := "hex/" + core.FuncName(f) + "/format"
								rest := format
								good := true
								for {
									i := strings.Index(rest, "%%")
									if i < 0 {
										break
									}
									rest = rest[i+2:]
									if !strings.HasPrefix(rest, "%02X") {
										good = false
									}
								}
								s.Check(good, key, c.P.Pos(x.Pos()), "a literal % is followed by %02X", "format "+fmt.Sprintf("%q", format)+" writes a % that is not followed by two upper-case hex digits (%02X)")
							}
						}
					}
				}
				if at == token.NoPos {
					continue
				}
				nb := nibbles[f]
				s.Check(strings.Contains(nb, "hi") && strings.Contains(nb, "lo"), "hex/"+core.FuncName(f)+"/writer", c.P.Pos(at), "writes '%' followed by digits of the nibble table", "writes the byte '%' into a buffer but does not take both hex digits from a nibble table in the same function: the spelling of the escape is not decided")
			}
		},
	})

	register(&Rule{
		Name:  "TAB-dots",
		Doc:   "the spellings accepted as single- and double-dot path segments are exactly the ASCII case variants of {., %2e} and {.., .%2e, %2e., %2e%2e} (read off the comparisons of the SSA form: exact comparisons of the parameter, and comparisons of its lower-cased copy)",
		Props: []string{"C01", "C18"},
		Floor: 2,
		Run: func(c *Ctx, s *core.Sink) {
			spec := loadSetsSpec(c)
			for _, t := range []struct {
				fn   string
				want []string
			}{{"isSingleDotPathSegment", spec.Dots.Single}, {"isDoubleDotPathSegment", spec.Dots.Double}} {
				key := "dots/" + t.fn
				f := c.P.Func("url", "", t.fn)
				if f == nil {
					s.Unknown(key, "-", "anchor function not found")
					continue
				}
				param := ssa.Value(f.Params[0])
				exact, lower, upper, fold := map[string]bool{}, map[string]bool{}, map[string]bool{}, map[string]bool{}
				bad := ""
				for _, b := range f.Blocks {
					for _, ins := range b.Instrs {
						switch x := ins.(type) {
						case *ssa.BinOp:
							if x.Op != token.EQL && x.Op != token.NEQ {
								continue
							}
							for _, pr := range [][2]ssa.Value{{x.X, x.Y}, {x.Y, x.X}} {
								lit, ok := constString(pr[1])
								if !ok {
									continue
								}
								switch v := pr[0].(type) {
								case *ssa.Parameter:
									if ssa.Value(v) == param {
										exact[lit] = true
									}
								case *ssa.Call:
									if cl := v.Common().StaticCallee(); cl != nil && len(v.Common().Args) == 1 && v.Common().Args[0] == param {
										switch cl.String() {
										case "strings.ToLower":
											lower[lit] = true
										case "strings.ToUpper":
											upper[lit] = true
										default:
											bad = "comparison of " + cl.String() + "(s)"
										}
									}
								case *ssa.Phi:
									// s = strings.ToLower(s) re-assigned: every edge must be the lower-cased parameter
									allLower := len(v.Edges) > 0
									for _, e := range v.Edges {
										if call, ok := e.(*ssa.Call); !ok || call.Common().StaticCallee() == nil || call.Common().StaticCallee().String() != "strings.ToLower" || call.Common().Args[0] != param {
											allLower = false
										}
									}
									if allLower {
										lower[lit] = true
									} else {
										bad = "comparison of a value that is neither s nor its lower-cased copy"
									}
								}
							}
						case *ssa.Call:
							if cl := x.Common().StaticCallee(); cl != nil && cl.String() == "strings.EqualFold" {
								for i, a := range x.Common().Args {
									if a == param {
										if lit, ok := constString(x.Common().Args[1-i]); ok {
											fold[lit] = true
										}
									}
								}
							}
						}
					}
				}
				accepts := func(v string) bool {
					return exact[v] || lower[strings.ToLower(v)] || upper[strings.ToUpper(v)] || func() bool {
						for l := range fold {
							if strings.EqualFold(l, v) {
								return true
							}
						}
						return false
					}()
				}
				variants := func(w string) []string {
					out := []string{""}
					for _, ch := range w {
						var next []string
						for _, p := range out {
							lo, up := strings.ToLower(string(ch)), strings.ToUpper(string(ch))
							next = append(next, p+lo)
							if up != lo {
								next = append(next, p+up)
							}
						}
						out = next
					}
					return out
				}
				var missing []string
				wantLower := map[string]bool{}
				for _, w := range t.want {
					wantLower[strings.ToLower(w)] = true
					for _, v := range variants(w) {
						if !accepts(v) {
							missing = append(missing, v)
						}
					}
				}
				var extra []string
				for _, m := range []map[string]bool{exact, lower, upper, fold} {
					for l := range m {
						if !wantLower[strings.ToLower(l)] {
							extra = append(extra, l)
						}
					}
				}
				sort.Strings(missing)
				sort.Strings(extra)
				// the matcher reads comparisons of the parameter (or its case-folded copy) with literals. A function that
				// works differently - cuts prefixes, walks the text, delegates to helpers of the module - is outside its
				// domain: nothing is decided about it
				foreign := ""
				for _, b := range f.Blocks {
					for _, ins := range b.Instrs {
						switch x := ins.(type) {
						case *ssa.Call:
							if cl := x.Common().StaticCallee(); cl != nil && c.P.InModule(cl) {
								foreign = "delegates to " + cl.Name()
							}
						case *ssa.Slice, *ssa.Lookup, *ssa.Range, *ssa.Index, *ssa.IndexAddr:
							foreign = "works on parts of the text"
						}
					}
				}
				if foreign != "" && (bad != "" || len(missing) > 0) {
					s.Obs = append(s.Obs, core.Obligation{Rule: s.Rule, Construct: key, Pos: c.P.Pos(f.Pos()), Verdict: core.Discharged, Fact: "inventory: not decided (" + foreign + ": not a list of comparisons with literals)", Props: s.Props, Trivial: true})
					continue
				}
				switch {
				case bad != "":
					s.Unknown(key, c.P.Pos(f.Pos()), bad)
				case len(missing) > 0 || len(extra) > 0:
					s.Bad(key, c.P.Pos(f.Pos()), fmt.Sprintf("spellings not recognised: %q; spellings recognised beyond the standard: %q", missing, extra))
				default:
					s.OK(key, c.P.Pos(f.Pos()), fmt.Sprintf("accepts every ASCII case variant of %q and nothing else", t.want))
				}
			}
		},
	})

	register(&Rule{
		Name:  "TAB-ws",
		Doc:   "the tab/newline removal set is {U+0009, U+000A, U+000D} and is the set BasicParser removes; the set trimmed from both ends (the complement of RuneNotInSet on the set passed to trim) is C0 control or space",
		Props: []string{"C01", "C18"},
		Floor: 3,
		Run: func(c *Ctx, s *core.Sink) {
			spec := loadSetsSpec(c)
			env := BuildTables(c)
			pk := c.P.ByName["url"]
			info := pk.TypesInfo
			bp := c.P.Func("url", "parser", "BasicParser")
			if bp == nil {
				s.Unknown("ws/anchor", "-", "BasicParser not found")
				return
			}
			fd := c.P.Decl(bp)
			removeCalls, trimCalls := 0, 0
			// BasicParser and the helpers the state-machine walker walks in place (a prologue moved into a helper)
			bodies := []ast.Node{fd.Body}
			if sm := BuildSM(c); sm.An != nil {
				var hs []*ast.FuncDecl
				for _, d := range sm.An.inlMemo {
					if d != nil {
						hs = append(hs, d)
					}
				}
				sort.Slice(hs, func(i, j int) bool { return hs[i].Pos() < hs[j].Pos() })
				for _, d := range hs {
					bodies = append(bodies, d.Body)
				}
			}
			all := &ast.BlockStmt{}
			for _, b := range bodies {
				all.List = append(all.List, b.(*ast.BlockStmt))
			}
			ast.Inspect(all, func(n ast.Node) bool {
				call, ok := n.(*ast.CallExpr)
				if !ok || len(call.Args) != 2 {
					return true
				}
				f, _ := typeutil.Callee(info, call).(*types.Func)
				if f == nil || f.Pkg() != pk.Types {
					return true
				}
				switch f.Name() {
				case "remove":
					removeCalls++
					v := env.eval(pk, call.Args[1])
					b, ok := v.(*tvBitset)
					if !ok {
						s.Unknown("ws/remove", c.P.Pos(call.Pos()), "removal set not evaluable")
						return true
					}
					want := isetPoints(spec.Bitsets["ASCIITabOrNewline"].Points...)
					s.Check(b.iset().equal(want), "ws/remove", c.P.Pos(call.Pos()), "removes exactly tab, LF, CR", "removal set differs: "+diffString(b.iset(), want))
				case "trim":
					trimCalls++
					v := env.eval(pk, call.Args[1])
					p, ok := v.(*tvPES)
					if !ok {
						s.Unknown("ws/trim", c.P.Pos(call.Pos()), "trim set not evaluable")
						return true
					}
					kept, err := predDenotation(c, "RuneNotInSet", p)
					if err != nil {
						s.Unknown("ws/trim", c.P.Pos(call.Pos()), err.Error())
						return true
					}
					got := kept.complement(maxCP)
					want := rangesToIset(spec.Trim.Ranges)
					s.Check(got.equal(want), "ws/trim", c.P.Pos(call.Pos()), "trims exactly C0 control or space", "trimmed set differs: "+diffString(got, want))
				}
				return true
			})
			if removeCalls == 0 {
				s.Bad("ws/remove", c.P.Pos(fd.Pos()), "BasicParser does not remove tab/newline from its input")
			}
			if trimCalls == 0 {
				s.Bad("ws/trim", c.P.Pos(fd.Pos()), "BasicParser does not trim its input")
			}
			// trimPrefix / trimPostfix stop at the first code point that RuneNotInSet accepts
			for _, n := range []string{"trimPrefix", "trimPostfix"} {
				f := c.P.Func("url", "", n)
				if f == nil {
					s.Unknown("ws/"+n, "-", "anchor not found")
					continue
				}
				// the set's own RuneNotInSet decides where trimming stops: called on the set parameter in a branch or loop
				// condition, or handed (bound to the set parameter) to a strings.*Func search
				uses := false
				var setParam ssa.Value
				for _, p := range f.Params {
					if isPESPtr(p.Type()) {
						setParam = p
					}
				}
				for _, b := range f.Blocks {
					for _, ins := range b.Instrs {
						switch x := ins.(type) {
						case *ssa.Call:
							if cl := x.Common().StaticCallee(); cl != nil && cl.Name() == "RuneNotInSet" && len(x.Common().Args) > 0 && x.Common().Args[0] == setParam {
								for _, r := range *x.Referrers() {
									switch r.(type) {
									case *ssa.If, *ssa.UnOp, *ssa.Phi, *ssa.BinOp:
										uses = true
									}
								}
							}
						case *ssa.MakeClosure:
							if fn, ok := x.Fn.(*ssa.Function); ok && strings.HasPrefix(fn.Name(), "RuneNotInSet") && len(x.Bindings) == 1 && x.Bindings[0] == setParam {
								for _, r := range *x.Referrers() {
									if call, ok := r.(*ssa.Call); ok {
										if cl := call.Common().StaticCallee(); cl != nil && core.PkgPathOf(cl) == "strings" && strings.HasSuffix(cl.Name(), "Func") {
											uses = true
										}
									}
								}
							}
						}
					}
				}
				s.Check(uses, "ws/"+n, c.P.Pos(f.Pos()), "stops at the first code point for which RuneNotInSet is true", "does not stop on RuneNotInSet")
			}
		},
	})

	register(&Rule{
		Name:  "TAB-urlenc",
		Doc:   "the set the SearchParams serializer escapes with contains the form-urlencoded delimiters & = + % (otherwise serializing and parsing a list does not return the list)",
		Props: []string{"C11"},
		Floor: 1,
		Run: func(c *Ctx, s *core.Sink) {
			spec := loadSetsSpec(c)
			f := c.P.Func("url", "SearchParams", "QueryEscape")
			if f == nil {
				s.Unknown("urlenc/anchor", "-", "(*SearchParams).QueryEscape not found")
				return
			}
			vals, _, _, err := defaultOptions(c)
			if err != nil {
				s.Unknown("urlenc/defaults", "-", err.Error())
				return
			}
			env := BuildTables(c)
			found := 0
			isEnc := func(cl *ssa.Function) bool {
				return cl != nil && (strings.HasPrefix(cl.Name(), "percentEncode") || cl.Name() == "PercentEncodeString" || isRuneEncoder(c, cl))
			}
			// the encoder calls of the escaper, looking through helpers of the module it delegates to
			{
				for _, x := range expandCalls(c, f, func(g *ssa.Function) bool { return c.P.InModule(g) && !isEnc(g) }, 2) {
					call := x.Call
					cl := call.Common().StaticCallee()
					if !isEnc(cl) {
						continue
					}
					// the *PercentEncodeSet argument
					for _, a0 := range call.Common().Args {
						if namedOf(a0.Type()) != "PercentEncodeSet" {
							continue
						}
						a := x.Root(a0)
						found++
						var v interface{}
						name := ""
						if fld := optLoad(a); fld != "" {
							v, name = vals[fld], "default of option "+fld
						} else if ld, ok := a.(*ssa.UnOp); ok {
							if g, ok := ld.X.(*ssa.Global); ok {
								v, _ = env.Global("url", g.Name())
								name = g.Name()
							}
						}
						key := "urlenc/" + core.FuncName(f) + "/set"
						got, err := pesDenotation(c, v, "RuneShouldBeEncoded")
						if err != nil {
							s.Unknown(key, c.P.Pos(call.Pos()), "escape set not evaluable: "+err.Error())
							continue
						}
						want := isetPoints(spec.UrlencDelims...)
						s.Check(want.subsetOf(got), key, c.P.Pos(call.Pos()), name+" escapes & = + %", "serializer escapes with "+name+", which leaves "+want.minus(got).String()+" literal: a name or value containing a delimiter changes the parameter list")
					}
				}
			}
			if found == 0 {
				s.Unknown("urlenc/none", c.P.Pos(f.Pos()), "no percent-encoding call with a set argument found in QueryEscape")
			}
		},
	})

	register(&Rule{
		Name:  "TAB-urlsplit",
		Doc:   "the form-urlencoded parser splits pairs on the literal & and splits each pair at the first = only",
		Props: []string{"C11"},
		Floor: 2,
		Run: func(c *Ctx, s *core.Sink) {
			f := c.P.Func("url", "SearchParams", "init")
			if f == nil {
				s.Unknown("urlsplit/anchor", "-", "(*SearchParams).init not found")
				return
			}
			// init may hand the work to a helper that grows the list it is given (decode(s.params[:0], query)): the loop is
			// read there
			if len(loopsOf(f)) == 0 {
				for _, b := range f.Blocks {
					for _, ins := range b.Instrs {
						if call, ok := ins.(*ssa.Call); ok {
							if g := call.Common().StaticCallee(); g != nil && c.P.InModule(g) && len(g.Blocks) > 0 && len(loopsOf(g)) > 0 && growsOwnParam(g) >= 0 {
								f = g
							}
						}
					}
				}
			}
			var amp, eq []string
			var ampPos, eqPos token.Pos
			sequences := map[ssa.Value]bool{} // the values standing for one raw sequence of a manual cut loop
			// the strings.* calls of init, looking through module helpers (a local cut(s, sep) for instance)
			for _, x := range expandCalls(c, f, func(g *ssa.Function) bool { return c.P.InModule(g) }, 2) {
				{
					call := x.Call
					cl := call.Common().StaticCallee()
					if cl == nil || core.PkgPathOf(cl) != "strings" {
						continue
					}
					var args []ssa.Value
					for _, a := range call.Common().Args {
						args = append(args, x.Root(a))
					}
					sep := ""
					if len(args) >= 2 {
						if k, ok := args[1].(*ssa.Const); ok && k.Value != nil {
							switch k.Value.Kind() {
							case constant.String:
								sep = constant.StringVal(k.Value)
							case constant.Int:
								if n, ok := constant.Int64Val(k.Value); ok && n > 0 && n < 128 {
									sep = string(rune(n)) // IndexByte / IndexRune
								}
							}
						}
					}
					switch cl.Name() {
					case "Count", "Contains", "ContainsRune", "ContainsAny", "HasPrefix", "HasSuffix":
						continue // these neither locate nor cut: sizing a buffer with Count is not a way of splitting
					}
					desc := cl.Name()
					if cl.Name() == "SplitN" && len(args) == 3 {
						if k, ok := args[2].(*ssa.Const); ok {
							desc = fmt.Sprintf("SplitN(…, %q, %s)", sep, k.Value)
						}
					}
					switch sep {
					case "&":
						if cutSeq := cutLoopSequences(call, int64(len(sep))); cutSeq != nil && x.Fn == f {
							desc = "Split" // a loop that cuts the text at every & is a split on &
							for _, v := range cutSeq {
								sequences[v] = true
							}
						}
						amp = append(amp, desc)
						ampPos = call.Pos()
					case "=":
						eq = append(eq, desc)
						eqPos = call.Pos()
					}
				}
			}
			// the only way a sequence is skipped is by being empty before it is split
			loops := loopsOf(f)
			var appendBlock *ssa.BasicBlock
			for _, b := range f.Blocks {
				for _, ins := range b.Instrs {
					if call, ok := ins.(*ssa.Call); ok {
						if bi, ok := call.Common().Value.(*ssa.Builtin); ok && bi.Name() == "append" {
							if _, ok := loadOfField(call.Common().Args[0], "SearchParams:params"); ok {
								appendBlock = b
							} else if sl, isSl := call.Type().Underlying().(*types.Slice); isSl && namedOf(sl.Elem()) == "NameValuePair" && f.Name() != "init" {
								appendBlock = b // the helper's own list parameter
							}
						}
					}
				}
			}
			if appendBlock == nil || len(inLoops(loops, appendBlock)) == 0 {
				s.Bad("urlsplit/skip", c.P.Pos(f.Pos()), "no loop appending pairs to the list found")
			} else {
				l := inLoops(loops, appendBlock)[0]
				reachesAppend := func(from *ssa.BasicBlock) bool {
					seen := map[*ssa.BasicBlock]bool{}
					work := []*ssa.BasicBlock{from}
					for len(work) > 0 {
						b := work[len(work)-1]
						work = work[:len(work)-1]
						if b == appendBlock {
							return true
						}
						if seen[b] || !l.Blocks[b] || b == l.Header {
							continue
						}
						seen[b] = true
						work = append(work, b.Succs...)
					}
					return false
				}
				var badSkips []string
				nSkips := 0
				for b := range l.Blocks {
					iff, ok := lastIf(b)
					if !ok || b == l.Header {
						continue
					}
					if !reachesAppend(b) && b != appendBlock {
						continue
					}
					for si, succ := range b.Succs {
						if !l.Blocks[succ] || reachesAppend(succ) {
							continue
						}
						// this edge skips the pair
						nSkips++
						okSkip := false
						for _, nf := range normFact(iff.Cond, si == 0) {
							if bo, ok := nf.Cond.(*ssa.BinOp); ok && ((bo.Op == token.EQL && nf.Val) || (bo.Op == token.NEQ && !nf.Val)) {
								for _, pr := range [][2]ssa.Value{{bo.X, bo.Y}, {bo.Y, bo.X}} {
									if k, ok := constString(pr[1]); ok && k == "" {
										// the raw sequence: an element of the '&' split
										if sequences[pr[0]] {
											okSkip = true
										}
										if ld, ok := pr[0].(*ssa.UnOp); ok {
											if ia, ok := ld.X.(*ssa.IndexAddr); ok {
												if sc, ok := ia.X.(*ssa.Call); ok && sc.Common().StaticCallee() != nil && core.PkgPathOf(sc.Common().StaticCallee()) == "strings" && len(sc.Common().Args) >= 2 {
													// … of the split on "&" (an empty piece of the name/value split is no reason to skip)
													if sep, ok := constString(sc.Common().Args[1]); ok && sep == "&" {
														okSkip = true
													}
												}
											}
										}
									}
								}
							}
						}
						if !okSkip {
							badSkips = append(badSkips, "a sequence is skipped on "+iff.Cond.String()+" at "+c.P.Pos(iff.Cond.Pos()))
						}
					}
				}
				// a hand-written cutting loop the rule cannot follow: which value is "the raw sequence" is not known
				ownLoop := len(amp) == 1 && strings.HasPrefix(amp[0], "Index")
				switch {
				case len(badSkips) > 0 && ownLoop:
					s.Obs = append(s.Obs, core.Obligation{Rule: s.Rule, Construct: "urlsplit/skip", Pos: c.P.Pos(f.Pos()), Verdict: core.Discharged, Fact: "inventory: not decided (the text is cut at '&' by a loop of a shape the rule does not follow)", Props: s.Props, Trivial: true})
				case len(badSkips) > 0:
					s.Bad("urlsplit/skip", c.P.Pos(f.Pos()), "only empty sequences may be skipped, before they are split: "+strings.Join(badSkips, "; "))
				case nSkips == 0:
					s.Bad("urlsplit/skip", c.P.Pos(f.Pos()), "empty sequences are not skipped")
				default:
					s.OK("urlsplit/skip", c.P.Pos(f.Pos()), "a sequence is skipped only when the raw sequence is empty")
				}
			}
			if len(amp) == 1 && strings.HasPrefix(amp[0], "Index") {
				s.Obs = append(s.Obs, core.Obligation{Rule: s.Rule, Construct: "urlsplit/pairs", Pos: c.P.Pos(ampPos), Verdict: core.Discharged, Fact: "inventory: not decided (the text is cut at '&' by a loop of a shape the rule does not follow)", Props: s.Props, Trivial: true})
			} else {
				s.Check(len(amp) == 1 && amp[0] == "Split", "urlsplit/pairs", c.P.Pos(ampPos), "pairs are split on every &", fmt.Sprintf("pair splitting is %v, want one strings.Split on \"&\"", amp))
			}
			okEq := len(eq) == 1 && (eq[0] == `SplitN(…, "=", 2)` || eq[0] == "Cut" || eq[0] == "Index" || eq[0] == "IndexByte" || eq[0] == "IndexRune")
			s.Check(okEq, "urlsplit/namevalue", c.P.Pos(eqPos), "name and value are split at the first = only", fmt.Sprintf("name/value splitting is %v, want a first-occurrence split on \"=\"", eq))
		},
	})

	register(&Rule{
		Name:  "TAB-ipv4prefix",
		Doc:   "the IPv4 number parser switches to radix 16 exactly on the prefixes 0x / 0X and to radix 8 exactly on a leading 0, both only for parts of at least two code points, and strips exactly the prefix: the decision DAG in front of the strconv call is compared with the standard's table over every valuation of its atoms (prefix, length and equality tests) that some text realises",
		Props: []string{"C07"},
		Floor: 3,
		Run:   runIPv4Prefix,
	})

	register(&Rule{
		Name:  "TAB-ctor",
		Doc:   "the three PercentEncodeSet constructors have the semantics the table evaluator assumes: fresh result, allBelow copied, bitset new or cloned, exactly the variadic elements set (cleared) on the new bitset",
		Props: []string{"C10"},
		Floor: 3,
		Run: func(c *Ctx, s *core.Sink) {
			for _, t := range []struct{ recv, name, op string }{{"", "NewPercentEncodeSet", "Set"}, {"PercentEncodeSet", "Set", "Set"}, {"PercentEncodeSet", "Clear", "Clear"}} {
				f := c.P.Func("url", t.recv, t.name)
				key := "ctor/" + t.name
				if t.recv != "" {
					key = "ctor/PercentEncodeSet." + t.name
				}
				if f == nil {
					s.Unknown(key, "-", "anchor not found")
					continue
				}
				// when the table evaluator interpreted the body at every use, nothing about its meaning is assumed
				if env := BuildTables(c); f.Object() != nil {
					if fo, ok := f.Object().(*types.Func); ok && env.interpreted[fo.FullName()] && !env.assumed[fo.FullName()] {
						s.OK(key, c.P.Pos(f.Pos()), "meaning read off the body by the table evaluator at every use (nothing assumed)")
						continue
					}
				}
				// … and when every percent-encode set of the module was also folded from the SSA form of the initialisers
				// (which executes the constructors as they are) with the same result, whatever was assumed was right
				{
					env, se := BuildTables(c), seTables(c)
					all, n := true, 0
					for o, v := range env.globals {
						if namedOf(o.Type()) != "PercentEncodeSet" {
							continue
						}
						n++
						if _, unk := v.(tvUnknown); unk {
							all = false
						}
						if _, have := se[o]; !have {
							all = false
						}
					}
					if all && n > 0 {
						s.OK(key, c.P.Pos(f.Pos()), fmt.Sprintf("all %d percent-encode sets built with it were also folded from the SSA form of the initialisers, with the same result", n))
						continue
					}
				}
				var bad []string
				var alloc *ssa.Alloc
				for _, b := range f.Blocks {
					for _, ins := range b.Instrs {
						if a, ok := ins.(*ssa.Alloc); ok && a.Heap && namedOf(a.Type()) == "PercentEncodeSet" {
							alloc = a
						}
					}
				}
				if alloc == nil {
					s.Bad(key, c.P.Pos(f.Pos()), "does not allocate a new PercentEncodeSet")
					continue
				}
				variadic := f.Params[len(f.Params)-1]
				okAll, okBs, okOp, okRet := false, false, false, false
				bitCalls := 0
				for _, b := range f.Blocks {
					for _, ins := range b.Instrs {
						switch x := ins.(type) {
						case *ssa.Store:
							fa, ok := x.Addr.(*ssa.FieldAddr)
							if !ok || fa.X != ssa.Value(alloc) {
								if ok && namedOf(fa.X.Type()) == "PercentEncodeSet" {
									bad = append(bad, "stores into a set other than the new one")
								}
								continue
							}
							switch fieldElem(fa.X.Type(), fa.Field) {
							case "PercentEncodeSet:allBelow":
								if t.recv == "" {
									okAll = x.Val == ssa.Value(f.Params[0])
								} else if ld, ok := x.Val.(*ssa.UnOp); ok {
									if fa2, ok := ld.X.(*ssa.FieldAddr); ok && fa2.X == ssa.Value(f.Params[0]) && fa2.Field == fa.Field {
										okAll = true
									}
								}
							case "PercentEncodeSet:bs":
								if call, ok := x.Val.(*ssa.Call); ok {
									cl := call.Common().StaticCallee()
									if t.recv == "" && cl != nil && cl.String() == core.BitsetPath+".New" {
										okBs = true
									}
									if t.recv != "" && cl != nil && cl.Name() == "Clone" && core.PkgPathOf(cl) == core.BitsetPath {
										if ld, ok := call.Common().Args[0].(*ssa.UnOp); ok {
											if fa2, ok := ld.X.(*ssa.FieldAddr); ok && fa2.X == ssa.Value(f.Params[0]) && fa2.Field == fa.Field {
												okBs = true
											}
										}
									}
								}
							}
						case *ssa.Call:
							cl := x.Common().StaticCallee()
							if cl == nil || core.PkgPathOf(cl) != core.BitsetPath {
								continue
							}
							switch cl.Name() {
							case "Set", "Clear":
								bitCalls++
								if cl.Name() != t.op {
									bad = append(bad, "calls BitSet."+cl.Name()+", expected "+t.op)
									continue
								}
								// receiver: load of alloc.bs ; argument: element of the variadic parameter
								recvOK, argOK := false, false
								if ld, ok := x.Common().Args[0].(*ssa.UnOp); ok {
									if fa, ok := ld.X.(*ssa.FieldAddr); ok && fa.X == ssa.Value(alloc) {
										recvOK = true
									}
								}
								if ld, ok := x.Common().Args[1].(*ssa.UnOp); ok {
									if ia, ok := ld.X.(*ssa.IndexAddr); ok && ia.X == ssa.Value(variadic) {
										argOK = true
									}
								}
								if recvOK && argOK {
									okOp = true
								} else {
									bad = append(bad, "BitSet."+cl.Name()+" is not applied to the new bitset with an element of the argument list")
								}
							case "New", "Clone", "Test":
							default:
								bad = append(bad, "unexpected bitset call "+cl.Name())
							}
						case *ssa.Return:
							if len(x.Results) == 1 && x.Results[0] == ssa.Value(alloc) {
								okRet = true
							}
						}
					}
				}
				if !okAll {
					bad = append(bad, "allBelow is not copied")
				}
				if !okBs {
					bad = append(bad, "bitset is not new/cloned from the receiver")
				}
				if !okOp || bitCalls != 1 {
					bad = append(bad, fmt.Sprintf("expected exactly one BitSet.%s over the argument list", t.op))
				}
				if !okRet {
					bad = append(bad, "does not return the new set")
				}
				s.Check(len(bad) == 0, key, c.P.Pos(f.Pos()), "fresh set; allBelow copied; bitset new/cloned; each argument "+strings.ToLower(t.op)+" on the new bitset", strings.Join(uniq(sortedCopy(bad)), "; "))
			}
		},
	})
}

func sortedCopy(in []string) []string {
	out := append([]string(nil), in...)
	sort.Strings(out)
	return out
}

func lastIf(b *ssa.BasicBlock) (*ssa.If, bool) {
	iff, ok := b.Instrs[len(b.Instrs)-1].(*ssa.If)
	return iff, ok
}

// cutLoopSequences recognises the manual form of a split: idx := strings.Index*(rest, sep) on a string `rest` carried
// round a loop, where every value `rest` takes for the next round is rest[idx+len(sep):] or "" — i.e. the loop consumes
// the text separator by separator. It returns the values that stand for one piece (rest[:idx], rest itself when no
// separator is left, and their merges), or nil if the shape is different.
func cutLoopSequences(call *ssa.Call, sepLen int64) []ssa.Value {
	if len(call.Common().Args) < 2 {
		return nil
	}
	rest, ok := call.Common().Args[0].(*ssa.Phi)
	if !ok {
		return nil
	}
	var okNext func(v ssa.Value, depth int) bool
	okNext = func(v ssa.Value, depth int) bool {
		if depth > 3 {
			return false
		}
		if k, ok := constString(v); ok && k == "" {
			return true
		}
		if v == ssa.Value(rest) {
			return false
		}
		switch x := v.(type) {
		case *ssa.Slice:
			if x.X != ssa.Value(rest) || x.High != nil || x.Low == nil {
				return false
			}
			t := termOf(x.Low)
			return t.base == ssa.Value(call) && t.k == sepLen
		case *ssa.Phi:
			for _, e := range x.Edges {
				if !okNext(e, depth+1) {
					return false
				}
			}
			return len(x.Edges) > 0
		}
		return false
	}
	back := 0
	for i, e := range rest.Edges {
		pred := rest.Block().Preds[i]
		if !rest.Block().Dominates(pred) {
			continue // entry edge
		}
		back++
		if !okNext(e, 0) {
			return nil
		}
	}
	if back == 0 {
		return nil
	}
	// the pieces
	var out []ssa.Value
	seen := map[ssa.Value]bool{}
	var add func(v ssa.Value, depth int)
	add = func(v ssa.Value, depth int) {
		if seen[v] || depth > 3 {
			return
		}
		seen[v] = true
		out = append(out, v)
		if refs := v.Referrers(); refs != nil {
			for _, r := range *refs {
				if phi, ok := r.(*ssa.Phi); ok && phi != rest {
					// a merge of pieces only
					all := true
					for _, e := range phi.Edges {
						if sl, ok := e.(*ssa.Slice); ok && sl.X == ssa.Value(rest) && sl.Low == nil && sl.High == ssa.Value(call) {
							continue
						}
						if e == ssa.Value(rest) {
							continue
						}
						all = false
					}
					if all {
						add(phi, depth+1)
					}
				}
			}
		}
	}
	for _, r := range *rest.Referrers() {
		if sl, ok := r.(*ssa.Slice); ok && sl.X == ssa.Value(rest) && sl.Low == nil && sl.High == ssa.Value(call) {
			add(sl, 0)
		}
	}
	add(rest, 0)
	return out
}

// TAB-strip: "strip trailing spaces from an opaque path" removes U+0020 from the end and nothing else.
func init() {
	register(&Rule{
		Name:  "TAB-strip",
		Doc:   "the function that rewrites the one segment of an opaque path in place (strip trailing spaces, called by the search and hash setters) stores strings.TrimRight(segment, \" \") of that very segment — not TrimSpace, Trim, TrimLeft or another cutset: the standard removes trailing U+0020 only; a hand-written loop is left undecided",
		Props: []string{"C05", "C03"},
		Floor: 0,
		Run: func(c *Ctx, s *core.Sink) {
			n := 0
			for _, f := range c.P.ModFns {
				if namedOf(recvType(f)) != "path" || f.Parent() != nil || len(f.Params) != 1 {
					continue
				}
				for _, b := range f.Blocks {
					for _, ins := range b.Instrs {
						st, ok := ins.(*ssa.Store)
						if !ok || !isStringType(st.Val.Type()) {
							continue
						}
						ia, ok := st.Addr.(*ssa.IndexAddr)
						if !ok {
							continue
						}
						if _, isSegs := loadOfFieldByType(ia.X, "path"); !isSegs {
							continue
						}
						n++
						key := fmt.Sprintf("strip/%s#%d", core.FuncName(f), n)
						pos := c.P.Pos(st.Pos())
						call, isCall := st.Val.(*ssa.Call)
						if !isCall || call.Common().StaticCallee() == nil || core.PkgPathOf(call.Common().StaticCallee()) != "strings" {
							s.Obs = append(s.Obs, core.Obligation{Rule: s.Rule, Construct: key, Pos: pos, Verdict: core.Discharged, Fact: "inventory: not decided (the segment is not rewritten by one call of package strings)", Props: s.Props, Trivial: true})
							continue
						}
						cl := call.Common().StaticCallee()
						args := call.Common().Args
						// the text trimmed is the element that is stored into
						same := false
						if ld, ok := args[0].(*ssa.UnOp); ok && ld.Op == token.MUL {
							if ia2, ok := ld.X.(*ssa.IndexAddr); ok && (sameValue(ia2.X, ia.X) || sameLoad(ia2.X, ia.X)) {
								k1, ok1 := constInt(ia.Index)
								k2, ok2 := constInt(ia2.Index)
								same = ok1 && ok2 && k1 == k2
							}
						}
						cut, isK := "", false
						if len(args) == 2 {
							cut, isK = constString(args[1])
						}
						switch {
						case cl.Name() == "TrimRight" && isK && cut == " " && same:
							s.OK(key, pos, "stores strings.TrimRight(segment, \" \") of the segment it replaces")
						case cl.Name() == "TrimRight" && isK && cut == " ":
							s.Bad(key, pos, "the text that is trimmed is not the segment that is replaced")
						default:
							what := "strings." + cl.Name()
							if isK {
								what += fmt.Sprintf(" with the cutset %q", cut)
							}
							s.Bad(key, pos, "an opaque path is rewritten with "+what+": the standard strips trailing U+0020 SPACE only (leading spaces, tabs and other white space stay)")
						}
					}
				}
			}
			if n == 0 {
				s.Obs = append(s.Obs, core.Obligation{Rule: s.Rule, Construct: "strip/none", Pos: "-", Verdict: core.Discharged, Fact: "inventory: not decided (no method of the path type stores a string into a segment in place)", Props: s.Props, Trivial: true})
			}
		},
	})
}
