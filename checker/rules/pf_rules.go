package rules

import (
	"encoding/json"
	"fmt"
	"go/token"
	"go/types"
	"golang.org/x/tools/go/ssa"
	"os"
	"path/filepath"
	"strings"

	"wucheck/core"
)

type indexTable struct {
	Entries []struct {
		Function  string `json:"function"`
		Expr      string `json:"expr"`
		Invariant string `json:"invariant"`
		// obligations of other rules ("RULE:construct prefix") that the reviewed argument counts on: the entry holds
		// only while every one of them is discharged on the tree at hand
		RestsOn []string `json:"rests_on"`
		// the reviewed argument names a test in the function itself ("pointer < length is tested on entry", "eof false
		// was just tested"): the entry holds only while a branch fact of that kind dominates the expression
		NeedsGuard bool `json:"needs_guard"`
	} `json:"entries"`
	// invariants attached to a type: while the struct's only bool field is true its only slice field has ≥ min_len elements
	TypeInvariants []struct {
		Type      string `json:"type"`
		MinLen    int64  `json:"min_len"`
		Invariant string `json:"invariant"`
	} `json:"type_invariants"`
	// the cursor of a cursor type: any slice field of the type indexed by (or resliced from) the named int field of the
	// same object, plus 0 or 1
	CursorInvariants []struct {
		Type      string `json:"type"`
		Cursor    string `json:"cursor"`
		Invariant string `json:"invariant"`
	} `json:"cursor_invariants"`
}

func loadIndexTable(c *Ctx) *indexTable {
	return c.Memo("indexTable", func() interface{} {
		var t indexTable
		b, err := os.ReadFile(filepath.Join(c.VerifDir, "tables", "index.json"))
		if err != nil {
			panic("tables/index.json: " + err.Error())
		}
		if err := json.Unmarshal(b, &t); err != nil {
			panic("tables/index.json: " + err.Error())
		}
		return &t
	}).(*indexTable)
}

func init() {
	register(&Rule{
		Name:  "PF-index",
		Doc:   "every index and slice expression of module code is within bounds: by a dominating length fact on the pruned CFG (incl. inlined predicates, API facts, constant lengths, range keys), or by a reviewed invariant of /verif/tables/index.json (matched by function + expression)",
		Props: []string{"C02"},
		Floor: 40,
		Run: func(c *Ctx, s *core.Sink) {
			tab := loadIndexTable(c)
			used := map[int]bool{}
			n := map[string]int{}
			allSites := collectIndexSites(c)
			for _, site := range allSites {
				fn := core.FuncName(site.Fn)
				expr := site.Expr
				if expr == "" {
					expr = "<range element>"
				}
				base := "index/" + fn + "/" + expr
				n[base]++
				key := fmt.Sprintf("%s#%d", base, n[base])
				pos := c.P.Pos(site.Pos)
				cls, fact, ok := dischargeIndex(c, site)
				if ok {
					s.OK(key, pos, cls+": "+fact)
					continue
				}
				matched := false
				if inv, ok := cursorInvariant(c, tab, site); ok {
					matched = true
					needs := false
					for _, e := range tab.Entries {
						if e.NeedsGuard && (e.Function == fn || bareFuncName(e.Function) == bareFuncName(fn)) && e.Expr == site.Expr {
							needs = true
						}
					}
					if needs && !cursorGuardHolds(c, site) {
						s.Unknown(key, pos, "the reviewed cursor invariant for this expression counts on a test in this function (cursor below the length, or the end-of-input flag false), and no such branch fact dominates it any more: possible index-out-of-range panic at the end of the input")
						continue
					}
					s.OK(key, pos, "reviewed invariant: "+inv)
					continue
				}
				alt := lenRelativeText(site)
				for i, e := range tab.Entries {
					if (e.Function == fn || bareFuncName(e.Function) == bareFuncName(fn)) && (e.Expr == site.Expr || (alt != "" && e.Expr == alt)) {
						used[i] = true
						matched = true
						if e.NeedsGuard && !cursorGuardHolds(c, site) {
							s.Unknown(key, pos, "the reviewed invariant for this expression counts on a test in this function (cursor below the length, or the end-of-input flag false), and no such branch fact dominates it any more: possible index-out-of-range panic at the end of the input")
							break
						}
						if broken := brokenSupport(c, e.RestsOn); broken != "" {
							s.Unknown(key, pos, "the reviewed invariant for this expression counts on "+broken+", which does not hold on this tree: possible index-out-of-range panic")
							break
						}
						s.OK(key, pos, "reviewed invariant: "+e.Invariant)
						break
					}
				}
				if !matched {
					// the reviewed expression, text unchanged, in a helper carved out of the reviewed function
					rt := loadReviewed(c, "index.json")
					for i, e := range tab.Entries {
						if e.Expr == site.Expr && rt.movedInto[e.Function][fn] {
							used[i] = true
							matched = true
							s.OK(key, pos, "reviewed invariant: "+e.Invariant+" (reviewed in "+bareFuncName(e.Function)+", from which this helper was carved)")
							break
						}
					}
				}
				if !matched {
					// the reviewed function is gone from the tree (renamed, moved to another type) and this is the only
					// expression of the package with the reviewed text: the reviewed code under its new name
					for i, e := range tab.Entries {
						if e.Expr != site.Expr || used[i] || funcByBareName(c, e.Function) {
							continue
						}
						n := 0
						for _, o := range allSites {
							if o.Expr == site.Expr && o.Fn.Pkg == site.Fn.Pkg {
								n++
							}
						}
						if n == 1 {
							used[i] = true
							matched = true
							s.OK(key, pos, "reviewed invariant: "+e.Invariant+" (reviewed in "+bareFuncName(e.Function)+", which the tree no longer has; the only expression of this text in the package)")
							break
						}
					}
				}
				if !matched {
					s.Unknown(key, pos, "cannot show the expression is within bounds ("+fact+") and it is not a reviewed invariant: possible index-out-of-range panic")
				}
			}
			for i, e := range tab.Entries {
				if !used[i] {
					// a stale table entry is not an error of the code base; it is reported in the evidence only
					s.OK("index/table/unused/"+e.Function+"/"+e.Expr, "-", "table entry not needed on this tree (discharged by idiom or expression gone)")
				}
			}
		},
	})
	_ = strings.Join
}

// brokenSupport: the first obligation among those a reviewed entry rests on ("RULE:construct prefix") that is not
// discharged on this tree ("" if all hold, or if there are none).
func brokenSupport(c *Ctx, restsOn []string) string {
	for _, ro := range restsOn {
		i := strings.Index(ro, ":")
		if i < 0 {
			continue
		}
		rule, prefix := ro[:i], ro[i+1:]
		obs := c.Memo("support:"+rule, func() interface{} {
			for _, r := range All() {
				if r.Name == rule {
					saved := curCtx
					o, internal := RunRule(c, r)
					curCtx = saved
					if internal != "" {
						o = append(o, core.Obligation{Rule: rule, Construct: prefix + "<internal>", Verdict: core.Undecided})
					}
					return o
				}
			}
			return []core.Obligation{{Rule: rule, Construct: prefix + "<no such rule>", Verdict: core.Undecided}}
		}).([]core.Obligation)
		n := 0
		for _, o := range obs {
			if !strings.HasPrefix(o.Construct, prefix) {
				continue
			}
			n++
			if o.Verdict != core.Discharged {
				return rule + " " + o.Construct
			}
		}
		if n == 0 {
			return rule + " " + prefix + "… (no such obligation on this tree)"
		}
	}
	return ""
}

// funcByBareName: the tree has a function with the bare name of the reviewed one.
func funcByBareName(c *Ctx, reviewed string) bool {
	want := bareFuncName(reviewed)
	for _, f := range c.P.ModFns {
		if f.Parent() == nil && f.Name() == want {
			return true
		}
	}
	return false
}

// lenRelativeText: the site written out with an index that the SSA form shows to be len(X) − k of the very slice X it
// indexes (`last := len(xs) - 1; xs[last]` reads as `xs[len(xs) - 1]`): the text a reviewed entry for the same
// expression carries when the index is not named.
func lenRelativeText(site *indexSite) string {
	i := strings.Index(site.Expr, "[")
	if i <= 0 {
		return ""
	}
	name := site.Expr[:i]
	lenMinus := func(v ssa.Value) (int64, bool) {
		if v == nil {
			return 0, false
		}
		t := termOf(v)
		if t.base == nil || t.k >= 0 {
			return 0, false
		}
		a, isLen := lenArg(t.base)
		if !isLen || !sameValue(a, site.X) {
			return 0, false
		}
		return -t.k, true
	}
	switch site.Kind {
	case "index":
		if k, ok := lenMinus(site.Index); ok {
			return fmt.Sprintf("%s[len(%s) - %d]", name, name, k)
		}
	case "slice":
		if site.Low != nil {
			if k, isK := constInt(site.Low); !isK || k != 0 {
				return ""
			}
		}
		if k, ok := lenMinus(site.High); ok {
			return fmt.Sprintf("%s[:len(%s) - %d]", name, name, k)
		}
	}
	return ""
}

// cursorInvariant: the site indexes / reslices a slice field of a cursor object by that object's own cursor field
// (+0, or +1 for the low bound of a reslice): covered by the reviewed cursor invariant of the type, whatever the
// fields holding the code points are called.
// cursorGuardHolds: a branch fact that dominates the site says the cursor is below the length (a comparison of two int
// fields of one object that holds with the smaller one first) or that a bool field of the cursor object is false.
func cursorGuardHolds(c *Ctx, site *indexSite) bool {
	fieldLoad := func(v ssa.Value) (ssa.Value, string, bool) {
		ld, ok := stripConv(v).(*ssa.UnOp)
		if !ok || ld.Op != token.MUL {
			return nil, "", false
		}
		fa, ok := ld.X.(*ssa.FieldAddr)
		if !ok {
			return nil, "", false
		}
		return fa.X, fieldElem(fa.X.Type(), fa.Field), true
	}
	below := func(cond ssa.Value, val bool) bool {
		if _, el, ok := fieldLoad(cond); ok && !val && strings.HasSuffix(el, ":eof") {
			return true
		}
		bo, ok := cond.(*ssa.BinOp)
		if !ok {
			return false
		}
		rel, ok := relOf(bo.Op, val)
		if !ok {
			return false
		}
		// either side may be an int field of the cursor, or the length of one of its slice fields
		side := func(v ssa.Value) (ssa.Value, string, bool) {
			if a, ok := lenArg(v); ok {
				if o, _, ok := fieldLoad(a); ok {
					return o, ":length", true
				}
				return nil, "", false
			}
			return fieldLoad(v)
		}
		xo, xe, ok1 := side(bo.X)
		yo, ye, ok2 := side(bo.Y)
		if !ok1 || !ok2 || xo != yo {
			return false
		}
		if rel == token.GTR {
			xe, ye, rel = ye, xe, token.LSS
		}
		return rel == token.LSS && strings.HasSuffix(xe, ":pointer") && strings.HasSuffix(ye, ":length")
	}
	for _, fa := range Facts(c, site.Fn).At(site.Ins.Block()) {
		if below(fa.Cond, fa.Val) {
			return true
		}
		// the test lives in a predicate of the cursor (`if i.atEnd() { return … }`): wherever the predicate hands back the
		// answer the path took, the cursor is below the length
		call, ok := fa.Cond.(*ssa.Call)
		if !ok {
			continue
		}
		h := call.Common().StaticCallee()
		if h == nil || !c.P.InModule(h) || len(h.Blocks) == 0 || h.Signature.Results().Len() != 1 {
			continue
		}
		hf := Facts(c, h)
		all, some := true, false
		for _, b := range h.Blocks {
			rt, ok := b.Instrs[len(b.Instrs)-1].(*ssa.Return)
			if !ok || len(rt.Results) != 1 {
				continue
			}
			if k, isK := constBool(rt.Results[0]); isK {
				if k != fa.Val {
					continue
				}
				some = true
				okb := false
				for _, f2 := range hf.At(b) {
					if below(f2.Cond, f2.Val) {
						okb = true
					}
				}
				if !okb {
					all = false
				}
				continue
			}
			some = true
			if !below(rt.Results[0], fa.Val) {
				all = false
			}
		}
		if some && all {
			return true
		}
	}
	return false
}

func cursorInvariant(c *Ctx, tab *indexTable, site *indexSite) (string, bool) {
	ld, ok := site.X.(*ssa.UnOp)
	if !ok {
		return "", false
	}
	fa, ok := ld.X.(*ssa.FieldAddr)
	if !ok {
		return "", false
	}
	tn := namedOf(fa.X.Type())
	for _, ci := range tab.CursorInvariants {
		if ci.Type != tn {
			continue
		}
		if _, isSlice := ld.Type().Underlying().(*types.Slice); !isSlice {
			continue
		}
		var idx ssa.Value
		maxK := int64(0)
		switch site.Kind {
		case "index":
			idx = site.Index
		case "slice":
			if site.High != nil || site.Low == nil {
				continue
			}
			idx, maxK = site.Low, 1
		}
		if idx == nil {
			continue
		}
		t := termOf(idx)
		if t.k < 0 || t.k > maxK || t.base == nil {
			continue
		}
		cl, ok := t.base.(*ssa.UnOp)
		if !ok {
			continue
		}
		cfa, ok := cl.X.(*ssa.FieldAddr)
		if !ok || cfa.X != fa.X || fieldElem(cfa.X.Type(), cfa.Field) != tn+":"+ci.Cursor {
			continue
		}
		return ci.Invariant, true
	}
	return "", false
}

// ---------------------------------------------------------------------------------------------------------------

type reviewedTable struct {
	Entries []struct {
		Function  string `json:"function"`
		Expr      string `json:"expr"`
		Invariant string `json:"invariant"`
	} `json:"entries"`
	// movedInto: reviewed function -> the helpers a refactoring carved out of it (functions the reference inventory
	// does not know, reachable from it through static calls); a reviewed expression that now stands in such a helper,
	// text unchanged, keeps its entry
	movedInto map[string]map[string]bool
}

func loadReviewed(c *Ctx, name string) *reviewedTable {
	return c.Memo("reviewed:"+name, func() interface{} {
		var t reviewedTable
		b, err := os.ReadFile(filepath.Join(c.VerifDir, "tables", name))
		if err != nil {
			panic("tables/" + name + ": " + err.Error())
		}
		if err := json.Unmarshal(b, &t); err != nil {
			panic("tables/" + name + ": " + err.Error())
		}
		t.movedInto = map[string]map[string]bool{}
		byName := map[string]*ssa.Function{}
		for _, f := range c.P.ModFns {
			byName[core.FuncName(f)] = f
		}
		for _, e := range t.Entries {
			if t.movedInto[e.Function] != nil {
				continue
			}
			t.movedInto[e.Function] = map[string]bool{}
			f := byName[e.Function]
			if f == nil {
				for n, g := range byName {
					if bareFuncName(n) == bareFuncName(e.Function) {
						f = g
					}
				}
			}
			if f != nil {
				for _, h := range newHelpersOf(c, f) {
					t.movedInto[e.Function][core.FuncName(h)] = true
				}
			}
		}
		return &t
	}).(*reviewedTable)
}

// bareFuncName: the function's own name without package and receiver (a reviewed entry follows a function that changed
// between method and plain function).
func bareFuncName(s string) string {
	if i := strings.LastIndexAny(s, ".)"); i >= 0 {
		return s[i+1:]
	}
	return s
}

func (t *reviewedTable) find(fn, expr string) (string, bool) {
	for _, e := range t.Entries {
		if (e.Function == fn || bareFuncName(e.Function) == bareFuncName(fn)) && e.Expr == expr {
			return e.Invariant, true
		}
	}
	for _, e := range t.Entries {
		if e.Expr == expr && e.Expr != "*" && t.movedInto[e.Function][fn] {
			return e.Invariant + " (reviewed in " + bareFuncName(e.Function) + ", from which this helper was carved)", true
		}
	}
	return "", false
}
