package rules

// FLOW-decodeprov: a percent-decoder changes its text through nothing but escapes.
//
// The percent-decoders of the module ((*parser).DecodePercentEncoded in front of domain-to-ASCII and behind the list
// parser's '+' translation, the canonicalizer's repeated decoder) have to hand back every byte that is not part of a
// well-formed escape as it came in. Inside such a function, a library call that is given the *whole* text (not one
// element, not the three elements of a tested escape) and returns text is therefore either a pure percent-decoder
// itself (net/url.PathUnescape: decodes %XX, fails on anything malformed, touches nothing else), a function whose
// results are the text or pieces of it (Split, Cut, Clone …), or a content-changing function — net/url.QueryUnescape
// (also turns '+' into a space), ToLower, Replace, Trim… — which breaks the decoder for the inputs that contain what
// it rewrites. The rule follows the text into module helpers (the fast path may live in one). An unknown library
// callee of that shape is not decided (fails closed).

import (
	"fmt"
	"go/types"

	"golang.org/x/tools/go/ssa"

	"wucheck/core"
)

var decodePure = map[string]string{
	"net/url.PathUnescape": "a pure percent-decoder (fails on a malformed escape, changes nothing else)",
	"strings.Clone":        "a copy", "strings.Split": "pieces of the text", "strings.SplitN": "pieces of the text", "strings.SplitAfter": "pieces of the text",
	"strings.SplitAfterN": "pieces of the text", "strings.Cut": "pieces of the text", "bytes.Split": "pieces of the text", "bytes.Cut": "pieces of the text", "bytes.Clone": "a copy",
	"strings.NewReader": "a reader over the text", "bytes.NewReader": "a reader over the text", "bytes.NewBuffer": "a buffer over the text", "bytes.NewBufferString": "a buffer over the text",
}

var decodeChanging = map[string]string{
	"net/url.QueryUnescape": "also turns every literal '+' into a space",
	"strings.ToLower":       "changes letter case", "strings.ToUpper": "changes letter case", "strings.ToTitle": "changes letter case", "strings.Title": "changes letter case",
	"strings.Replace": "rewrites text outside escapes", "strings.ReplaceAll": "rewrites text outside escapes", "strings.Map": "rewrites text outside escapes",
	"strings.Trim": "drops text", "strings.TrimSpace": "drops text", "strings.TrimLeft": "drops text", "strings.TrimRight": "drops text", "strings.TrimFunc": "drops text",
	"strings.TrimPrefix": "drops text", "strings.TrimSuffix": "drops text", "strings.ToValidUTF8": "rewrites invalid UTF-8", "strings.Fields": "drops white space",
	"bytes.ToLower": "changes letter case", "bytes.ToUpper": "changes letter case", "bytes.Replace": "rewrites text outside escapes", "bytes.ReplaceAll": "rewrites text outside escapes",
	"bytes.TrimSpace": "drops text", "bytes.Trim": "drops text", "bytes.ToValidUTF8": "rewrites invalid UTF-8", "html.UnescapeString": "rewrites text outside escapes",
	"strconv.Unquote": "rewrites text outside escapes",
}

func textual(t types.Type) bool {
	switch u := t.Underlying().(type) {
	case *types.Basic:
		return u.Info()&types.IsString != 0
	case *types.Slice:
		if b, ok := u.Elem().Underlying().(*types.Basic); ok && (b.Kind() == types.Byte || b.Kind() == types.Rune || b.Info()&types.IsString != 0) {
			return true
		}
	case *types.Tuple:
		for i := 0; i < u.Len(); i++ {
			if textual(u.At(i).Type()) {
				return true
			}
		}
	case *types.Pointer:
		if n := namedOf(u.Elem()); n == "Reader" || n == "Buffer" {
			return true
		}
	}
	return false
}

func init() {
	register(&Rule{
		Name:  "FLOW-decodeprov",
		Doc:   "inside a percent-decoder (and the module helpers it hands its text to) every library call that receives the whole text and returns text is a pure percent-decoder or returns the text / pieces of it; a content-changing one (net/url.QueryUnescape, ToLower, Replace, Trim…) is a violation, an unknown one is not decided",
		Props: []string{"C09", "C10", "C11", "C01", "C18"},
		Floor: 2,
		Run: func(c *Ctx, s *core.Sink) {
			// the decoders: the parser's (by its aligned name) and every module function with an escape-consuming site
			type dec struct {
				f     *ssa.Function
				props []string
			}
			var decs []dec
			seen := map[*ssa.Function]bool{}
			for _, f := range c.P.ModFns {
				if len(f.Blocks) == 0 || f.Signature.Results().Len() == 0 {
					continue
				}
				isParserDec := f.Name() == "DecodePercentEncoded" && namedOf(recvType(f)) == "parser"
				hasSite := false
				if !isParserDec {
					for _, b := range f.Blocks {
						for _, ins := range b.Instrs {
							call, ok := ins.(*ssa.Call)
							if !ok {
								continue
							}
							g := call.Common().StaticCallee()
							if g == nil {
								continue
							}
							if g.Pkg != nil && g.Pkg.Pkg.Path() == "net/url" && (g.Name() == "PathUnescape" || g.Name() == "QueryUnescape") {
								hasSite = true
							}
							if c.P.InModule(g) && g.Name() == "unhex" {
								hasSite = true
							}
						}
					}
				}
				if !(isParserDec || hasSite) || seen[f] {
					continue
				}
				// a decoder takes text and returns text
				takes := false
				for _, p := range f.Params {
					if textual(p.Type()) {
						takes = true
					}
				}
				if !takes || !textual(f.Signature.Results()) {
					continue
				}
				seen[f] = true
				props := []string{"C09", "C10", "C11", "C01"}
				if core.PkgPathOf(f) != core.ModPath+"/url" {
					props = []string{"C18"}
				}
				decs = append(decs, dec{f, props})
			}
			if len(decs) == 0 {
				s.Unknown("decodeprov/anchor", "-", "no percent-decoder found")
				return
			}
			for _, d := range decs {
				n := 0
				type item struct {
					f     *ssa.Function
					texts map[ssa.Value]bool
					depth int
				}
				start := map[ssa.Value]bool{}
				for _, p := range d.f.Params {
					if textual(p.Type()) {
						start[p] = true
					}
				}
				work := []item{{d.f, start, 0}}
				visited := map[*ssa.Function]bool{d.f: true}
				for len(work) > 0 {
					it := work[0]
					work = work[1:]
					var whole func(v ssa.Value, depth int) bool
					whole = func(v ssa.Value, depth int) bool {
						if it.texts[v] {
							return true
						}
						if depth > 10 {
							return false
						}
						switch x := v.(type) {
						case *ssa.Convert:
							return whole(x.X, depth+1)
						case *ssa.ChangeType:
							return whole(x.X, depth+1)
						case *ssa.Phi:
							for _, e := range x.Edges {
								if e != v && whole(e, depth+1) {
									return true
								}
							}
						case *ssa.Slice:
							if x.Low != nil && x.High != nil {
								lb, lk := splitIndex(x.Low)
								hb, hk := splitIndex(x.High)
								if lb == hb && hk-lk <= 3 {
									return false // the elements of one escape
								}
							}
							return whole(x.X, depth+1)
						}
						return false
					}
					for _, b := range it.f.Blocks {
						for _, ins := range b.Instrs {
							call, ok := ins.(*ssa.Call)
							if !ok {
								continue
							}
							g := call.Common().StaticCallee()
							if g == nil {
								continue
							}
							var fed []int
							for i, a := range call.Common().Args {
								if textual(a.Type()) && whole(a, 0) {
									fed = append(fed, i)
								}
							}
							if len(fed) == 0 {
								continue
							}
							if c.P.InModule(g) {
								if len(g.Blocks) > 0 && !visited[g] && it.depth < 3 && textual(g.Signature.Results()) {
									visited[g] = true
									ts := map[ssa.Value]bool{}
									for _, i := range fed {
										if i < len(g.Params) {
											ts[g.Params[i]] = true
										}
									}
									work = append(work, item{g, ts, it.depth + 1})
								}
								continue
							}
							if !textual(g.Signature.Results()) || call.Referrers() == nil || len(*call.Referrers()) == 0 {
								continue
							}
							if g.Signature.Recv() != nil {
								continue // methods of builders / buffers: append, do not transform
							}
							n++
							name := g.String()
							key := fmt.Sprintf("decodeprov/%s/%s#%d", core.FuncName(d.f), name, n)
							pos := c.P.Pos(call.Pos())
							switch {
							case decodePure[name] != "":
								s.OK(key, pos, name+" on the whole text: "+decodePure[name], d.props...)
							case decodeChanging[name] != "":
								s.Bad(key, pos, fmt.Sprintf("the decoder hands its whole text to %s, which %s: text outside well-formed escapes does not come back as it went in", name, decodeChanging[name]), d.props...)
							default:
								s.Unknown(key, pos, "the decoder hands its whole text to "+name+", whose effect on it is not in the table", d.props...)
							}
						}
					}
				}
				s.OK("decodeprov/"+core.FuncName(d.f), c.P.Pos(d.f.Pos()), fmt.Sprintf("decoder scanned with the helpers it hands its text to: %d library calls on the whole text", n), d.props...)
			}
		},
	})
}
