package rules

// OPT engine: option wiring (DESIGN §3.6), plus the canonicalizer flow rule FLOW-canon and TAB-component.

import (
	"fmt"
	"go/token"
	"go/types"
	"os"
	"sort"
	"strings"
	"unicode"

	"golang.org/x/tools/go/ssa"

	"wucheck/core"
)

func lowerFirst(s string) string {
	if s == "" {
		return s
	}
	r := []rune(s)
	r[0] = unicode.ToLower(r[0])
	return string(r)
}

// optionAliases: constructors whose name does not spell their field (reviewed).
var optionAliases = map[string]string{
	"WithFragmentPathPercentEncodeSet":        "fragmentPercentEncodeSet",
	"WithSpecialFragmentPathPercentEncodeSet": "specialFragmentPercentEncodeSet",
}

// profileFieldOf: the field of the profile that fa addresses — a field of the profile struct itself, or the field of
// a struct of the module that the profile holds by value (embedded or named: `p.postProcessing.removePort` is the
// profile's removePort).
func profileFieldOf(fa *ssa.FieldAddr) (string, bool) {
	leaf := fieldElem(fa.X.Type(), fa.Field)
	if i := strings.Index(leaf, ":"); i >= 0 {
		leaf = leaf[i+1:]
	}
	x := fa.X
	for depth := 0; depth < 3; depth++ {
		if namedOf(x.Type()) == "profile" {
			return leaf, true
		}
		up, ok := x.(*ssa.FieldAddr)
		if !ok {
			return "", false
		}
		x = up.X
	}
	return "", false
}

// condDesc describes a branch fact of the canonicalizer in symbolic form.
func condDesc(f condFact) string {
	pol := map[bool]string{true: "", false: "!"}[f.Val]
	v := f.Cond
	// profile flag
	if x, ok := v.(*ssa.UnOp); ok && x.Op == token.MUL {
		if fa, ok := x.X.(*ssa.FieldAddr); ok {
			if fld, ok := profileFieldOf(fa); ok {
				return pol + "profile." + fld
			}
		}
	}
	if bo, ok := v.(*ssa.BinOp); ok && (bo.Op == token.EQL || bo.Op == token.NEQ) {
		eq := (bo.Op == token.EQL) == f.Val
		op := map[bool]string{true: "==", false: "!="}[eq]
		for _, pr := range [][2]ssa.Value{{bo.X, bo.Y}, {bo.Y, bo.X}} {
			k, isK := pr[1].(*ssa.Const)
			if !isK {
				continue
			}
			kv := "nil"
			if k.Value != nil {
				kv = k.Value.ExactString()
			}
			if x, ok := pr[0].(*ssa.UnOp); ok && x.Op == token.MUL {
				if fa, ok := x.X.(*ssa.FieldAddr); ok {
					if fld, ok := profileFieldOf(fa); ok {
						return "profile." + fld + op + kv
					}
				}
			}
			if call, ok := pr[0].(*ssa.Call); ok {
				if cl := call.Common().StaticCallee(); cl != nil {
					return cl.Name() + "()" + op + kv
				}
			}
			if p, ok := pr[0].(*ssa.Parameter); ok {
				return "param:" + p.Name() + op + kv
			}
			if _, ok := pr[0].(*ssa.Extract); ok {
				return "err" + op + kv
			}
			if _, ok := pr[0].(*ssa.Phi); ok {
				return "err" + op + kv
			}
		}
	}
	return pol + "?" + v.String()
}

func factDescs(fs []condFact) []string {
	var out []string
	for _, f := range fs {
		out = append(out, condDesc(f))
	}
	sort.Strings(out)
	return uniq(out)
}

func init() {
	register(&Rule{
		Name:  "OPT-bij",
		Doc:   "each With* constructor installs a closure that stores exactly one options field, the field its name spells, the stored value being the constructor's parameter or the constant true; constructors ↔ fields is a bijection (url: parserOptions, canonicalizer: profile)",
		Props: []string{"C16"},
		Floor: 15,
		Run: func(c *Ctx, s *core.Sink) {
			for _, t := range []struct{ pkg, typ string }{{"url", "parserOptions"}, {"canonicalizer", "profile"}} {
				optT := c.P.Type(t.pkg, t.typ)
				if optT == nil {
					s.Unknown("bij/"+t.pkg+"/type", "-", "options type not found")
					continue
				}
				// the option fields: those of the struct, and — for a field that is itself a struct of the module held by
				// value (options grouped: `postProcessing{removePort, …}`) — the fields of that struct in its place
				var fields []string
				var leaves func(st *types.Struct, depth int)
				leaves = func(st *types.Struct, depth int) {
					for i := 0; i < st.NumFields(); i++ {
						fv := st.Field(i)
						if fv.Name() == "Parser" { // the embedded parser of a profile is not an option
							continue
						}
						// a plan made from the options when the object is built (a slice of step functions) is not an option:
						// what it holds is read through the options it was made from (planSteps)
						if sl, ok := fv.Type().Underlying().(*types.Slice); ok {
							if _, isFn := sl.Elem().Underlying().(*types.Signature); isFn {
								continue
							}
						}
						if nm, ok := fv.Type().(*types.Named); ok && depth < 2 && nm.Obj().Pkg() != nil && strings.HasPrefix(nm.Obj().Pkg().Path(), core.ModPath) {
							if sub, ok := nm.Underlying().(*types.Struct); ok && nm.Obj().Name() != "PercentEncodeSet" {
								leaves(sub, depth+1)
								continue
							}
						}
						fields = append(fields, fv.Name())
					}
				}
				if st, ok := optT.Underlying().(*types.Struct); ok {
					leaves(st, 0)
				}
				writer := map[string][]string{}
				sp := c.P.SSAPkg[t.pkg]
				var names []string
				for n, m := range sp.Members {
					if f, ok := m.(*ssa.Function); ok && strings.HasPrefix(n, "With") && f.Signature.Results().Len() == 1 {
						names = append(names, n)
					}
				}
				sort.Strings(names)
				for _, n := range names {
					f := sp.Members[n].(*ssa.Function)
					key := "bij/" + t.pkg + "." + n
					ap := applyOption(c, f, t.typ)
					if ap.why != "" {
						s.Bad(key, c.P.Pos(f.Pos()), "cannot tell what applying the option does: "+ap.why)
						continue
					}
					if len(ap.stores) != 1 || ap.other {
						s.Bad(key, c.P.Pos(f.Pos()), fmt.Sprintf("the option closure performs %d stores (and calls: %v); an option must set exactly its own field", len(ap.stores), ap.other))
						continue
					}
					st := ap.stores[0]
					if st.addr.kind != "field" || st.addr.typ != t.typ {
						s.Bad(key, c.P.Pos(st.pos), "the option closure does not store into a field of the options it is applied to")
						continue
					}
					field := st.addr.name
					writer[field] = append(writer[field], n)
					want := lowerFirst(strings.TrimPrefix(n, "With"))
					if a, ok := optionAliases[n]; ok {
						want = a
					}
					valOK := false
					switch st.val.kind {
					case "const":
						if v, ok := constBool(st.val.v); ok && v && f.Signature.Params().Len() == 0 {
							valOK = true
						}
					case "ctorparam":
						valOK = true
					}
					switch {
					case field != want:
						s.Bad(key, c.P.Pos(st.pos), fmt.Sprintf("%s sets the field %s; its name says %s", n, field, want))
					case !valOK:
						s.Bad(key, c.P.Pos(st.pos), "the stored value is neither the constructor's argument nor the constant true")
					default:
						s.OK(key, c.P.Pos(st.pos), "sets "+t.typ+"."+field)
					}
				}
				for _, fld := range fields {
					key := "bij/" + t.pkg + "/field:" + fld
					switch len(writer[fld]) {
					case 1:
						s.OK(key, c.P.Pos(optT.Obj().Pos()), "set by "+writer[fld][0])
					case 0:
						s.Bad(key, c.P.Pos(optT.Obj().Pos()), "no option constructor sets this field: the option that should set it has no effect")
					default:
						s.Bad(key, c.P.Pos(optT.Obj().Pos()), "set by several constructors: "+strings.Join(writer[fld], ", "))
					}
				}
			}
		},
	})

	register(&Rule{
		Name:  "OPT-apply",
		Doc:   "NewParser applies every option, unconditionally, to the options of the parser it returns; canonicalizer.New hands all options to url.NewParser and applies every canonicalizer option to the profile it returns",
		Props: []string{"C16"},
		Floor: 3,
		Run: func(c *Ctx, s *core.Sink) {
			// applyLoop: in f, every element of the slice parameter opts is applied, unconditionally, by `method`; returns the
			// object the options are applied to
			applyLoop := func(f *ssa.Function, opts *ssa.Parameter, method string, allowAssert bool) (ssa.Value, *ssaLoop, string) {
				loops := loopsOf(f)
				var target ssa.Value
				var loop *ssaLoop
				for _, b := range f.Blocks {
					for _, ins := range b.Instrs {
						call, ok := ins.(*ssa.Call)
						if !ok || !call.Common().IsInvoke() || call.Common().Method.Name() != method {
							continue
						}
						// receiver: element of opts (possibly type-asserted)
						recv := call.Common().Value
						if allowAssert {
							if ex, ok := recv.(*ssa.Extract); ok {
								if ta, ok := ex.Tuple.(*ssa.TypeAssert); ok {
									recv = ta.X
								}
							}
						}
						ld, ok := recv.(*ssa.UnOp)
						if !ok {
							return nil, nil, "the option applied is not an element of the argument list"
						}
						ia, ok := ld.X.(*ssa.IndexAddr)
						if !ok || ia.X != ssa.Value(opts) {
							return nil, nil, "the option applied is not an element of the argument list"
						}
						if len(call.Common().Args) != 1 {
							return nil, nil, "options are not applied to one object"
						}
						ls := inLoops(loops, b)
						if len(ls) != 1 {
							return nil, nil, "the application is not inside one loop over the options"
						}
						// the loop ranges over all of opts: index phi from 0 (or -1) step 1, bound len(opts)
						hdrOK := false
						for lb := range ls[0].Blocks {
							if iff, ok := lastIf(lb); ok {
								if bo, ok := iff.Cond.(*ssa.BinOp); ok && bo.Op == token.LSS && isLenOf(bo.Y, opts) {
									hdrOK = true
								}
							}
						}
						if !hdrOK {
							return nil, nil, "the loop is not bounded by len(options)"
						}
						// no condition other than the loop test (and the type assertion) guards the application
						ff := Facts(c, f)
						for _, fa := range ff.At(b) {
							if bo, ok := fa.Cond.(*ssa.BinOp); ok && bo.Op == token.LSS && isLenOf(bo.Y, opts) {
								continue
							}
							if allowAssert {
								if ex, ok := fa.Cond.(*ssa.Extract); ok && ex.Index == 1 {
									if _, ok := ex.Tuple.(*ssa.TypeAssert); ok {
										continue
									}
								}
							}
							return nil, nil, "an option is applied only under an extra condition: " + fa.Cond.String()
						}
						target, loop = call.Common().Args[0], ls[0]
					}
				}
				if target == nil {
					return nil, nil, "no call of " + method + " on the options"
				}
				return target, loop, ""
			}
			returned := func(f *ssa.Function, alloc ssa.Value) bool {
				n := 0
				for _, b := range f.Blocks {
					if r, ok := b.Instrs[len(b.Instrs)-1].(*ssa.Return); ok {
						n++
						v := r.Results[0]
						if mi, ok := v.(*ssa.MakeInterface); ok {
							v = mi.X
						}
						if v != alloc {
							return false
						}
					}
				}
				return n > 0
			}
			// checkLoop: the loop is in f itself, or in a module helper f hands its whole option list to, whose result becomes
			// (the options of) the object f returns
			checkLoop := func(f *ssa.Function, method string, targetOK func(arg ssa.Value, alloc *ssa.Alloc) bool, allocType string, allowAssert bool) (bool, string) {
				var alloc *ssa.Alloc
				for _, b := range f.Blocks {
					for _, ins := range b.Instrs {
						if a, ok := ins.(*ssa.Alloc); ok && a.Heap && namedOf(a.Type()) == allocType {
							alloc = a
						}
					}
				}
				if alloc == nil {
					// the object comes from a maker (every return of which is a fresh object of the type), the options are
					// applied to it by a method that is handed the whole list, and it is returned:
					// `p := newProfile(…); p.configure(opts); return p`
					opts := f.Params[len(f.Params)-1]
					for _, b := range f.Blocks {
						for _, ins := range b.Instrs {
							mk, ok := ins.(*ssa.Call)
							if !ok || namedOf(mk.Type()) != allocType {
								continue
							}
							if m := mk.Common().StaticCallee(); m == nil || !returnsFreshOnly(m, 0) {
								continue
							}
							if !returned(f, mk) {
								continue
							}
							for _, r := range *mk.Referrers() {
								call, ok := r.(*ssa.Call)
								if !ok || call == mk {
									continue
								}
								h := call.Common().StaticCallee()
								if h == nil || !c.P.InModule(h) || len(h.Blocks) == 0 || len(call.Common().Args) == 0 || call.Common().Args[0] != ssa.Value(mk) {
									continue
								}
								var hp *ssa.Parameter
								for i, a := range call.Common().Args {
									if a == ssa.Value(opts) && i < len(h.Params) {
										hp = h.Params[i]
									}
								}
								if hp == nil {
									continue
								}
								ht, _, hwhy := applyLoop(h, hp, method, allowAssert)
								if ht == nil {
									return false, hwhy
								}
								if ht != ssa.Value(h.Params[0]) {
									return false, "the method " + h.Name() + " applies the options to something other than its receiver"
								}
								// the call is unconditional
								if len(Facts(c, f).At(call.Block())) > 0 {
									return false, "the options are applied only under a condition"
								}
								return true, ""
							}
						}
					}
					return false, "does not allocate a fresh " + allocType
				}
				if !returned(f, alloc) {
					return false, "does not return the object the options were applied to"
				}
				opts := f.Params[len(f.Params)-1]
				target, _, why := applyLoop(f, opts, method, allowAssert)
				if target != nil {
					if !targetOK(target, alloc) {
						return false, "options are not applied to the object that is returned"
					}
					return true, ""
				}
				if !strings.HasPrefix(why, "no call of") {
					return false, why
				}
				// a helper receives the whole list
				for _, b := range f.Blocks {
					for _, ins := range b.Instrs {
						call, ok := ins.(*ssa.Call)
						if !ok {
							continue
						}
						h := call.Common().StaticCallee()
						if h == nil || !c.P.InModule(h) || len(h.Blocks) == 0 {
							continue
						}
						var hp *ssa.Parameter
						for i, a := range call.Common().Args {
							if a == ssa.Value(opts) && i < len(h.Params) {
								hp = h.Params[i]
							}
						}
						if hp == nil {
							continue
						}
						ht, hloop, hwhy := applyLoop(h, hp, method, allowAssert)
						if ht == nil {
							if strings.HasPrefix(hwhy, "no call of") {
								continue
							}
							return false, hwhy
						}
						// the helper applies to a local object and returns it (by value or by pointer) after the loop
						hal, isAlloc := ht.(*ssa.Alloc)
						if !isAlloc {
							return false, "the helper " + h.Name() + " applies the options to something it did not create"
						}
						for _, hb := range h.Blocks {
							r, ok := hb.Instrs[len(hb.Instrs)-1].(*ssa.Return)
							if !ok {
								continue
							}
							if len(r.Results) != 1 {
								return false, "the helper " + h.Name() + " does not return the options alone"
							}
							v := r.Results[0]
							if ld, ok := v.(*ssa.UnOp); ok && ld.Op == token.MUL {
								v = ld.X
							}
							if v != ssa.Value(hal) {
								return false, "the helper " + h.Name() + " does not return the object it applied the options to"
							}
							if hloop.Blocks[hb] || !hloop.Header.Dominates(hb) {
								return false, "the helper " + h.Name() + " can return before every option is applied"
							}
						}
						// and f puts the helper's result where targetOK says options live
						for _, r := range *call.Referrers() {
							if st, ok := r.(*ssa.Store); ok && st.Val == ssa.Value(call) && targetOK(st.Addr, alloc) {
								return true, ""
							}
						}
						return false, "the result of " + h.Name() + " does not become the options of the object that is returned"
					}
				}
				return false, why
			}
			if f := c.P.Func("url", "", "NewParser"); f == nil {
				s.Unknown("apply/url.NewParser", "-", "not found")
			} else {
				ok, why := checkLoop(f, "apply", func(arg ssa.Value, alloc *ssa.Alloc) bool {
					fa, ok := arg.(*ssa.FieldAddr)
					return ok && fa.X == ssa.Value(alloc) && fieldElem(fa.X.Type(), fa.Field) == "parser:opts"
				}, "parser", false)
				s.Check(ok, "apply/url.NewParser", c.P.Pos(f.Pos()), "every option is applied to the fresh parser's options; the parser is returned", why)
				// the fresh options start from the defaults (what they are is TAB-defaults' business)
				vals, _, _, derr := defaultOptions(c)
				s.Check(derr == nil && len(vals) > 0, "apply/url.NewParser/defaults", c.P.Pos(f.Pos()), "the options start from package-level defaults", "options do not start from package-level defaults")
			}
			if f := c.P.Func("canonicalizer", "", "New"); f == nil {
				s.Unknown("apply/canonicalizer.New", "-", "not found")
			} else {
				ok, why := checkLoop(f, "applyProfile", func(arg ssa.Value, alloc *ssa.Alloc) bool { return arg == ssa.Value(alloc) }, "profile", true)
				s.Check(ok, "apply/canonicalizer.New", c.P.Pos(f.Pos()), "every canonicalizer option is applied to the fresh profile; the profile is returned", why)
				// all options reach url.NewParser
				fwd := false
				for _, b := range f.Blocks {
					for _, ins := range b.Instrs {
						if call, ok := ins.(*ssa.Call); ok {
							if cl := call.Common().StaticCallee(); cl != nil && cl.Name() == "NewParser" && core.PkgPathOf(cl) == core.ModPath+"/url" {
								if call.Common().Args[0] == ssa.Value(f.Params[0]) {
									// stored into the profile's Parser field
									for _, r := range *call.Referrers() {
										if st, ok := r.(*ssa.Store); ok {
											if _, ok := fieldAddrOf(st.Addr, "profile:Parser"); ok {
												fwd = true
											}
										}
										// … or handed to the maker of the profile, which stores its parameter there
										if mk, ok := r.(*ssa.Call); ok && namedOf(mk.Type()) == "profile" {
											if m := mk.Common().StaticCallee(); m != nil && returnsFreshOnly(m, 0) {
												for ai, a := range mk.Common().Args {
													if a != ssa.Value(call) || ai >= len(m.Params) {
														continue
													}
													for _, mb := range m.Blocks {
														for _, mi := range mb.Instrs {
															if st, ok := mi.(*ssa.Store); ok && st.Val == ssa.Value(m.Params[ai]) {
																if _, ok := fieldAddrOf(st.Addr, "profile:Parser"); ok {
																	fwd = true
																}
															}
														}
													}
												}
											}
										}
									}
								}
							}
						}
					}
				}
				s.Check(fwd, "apply/canonicalizer.New/forward", c.P.Pos(f.Pos()), "Parser: url.NewParser(opts...) with the whole option list", "the option list is not handed unchanged to url.NewParser for the profile's parser")
			}
		},
	})

	register(&Rule{
		Name:  "OPT-sibling",
		Doc:   "the two implementations of each url.Parser entry point (*parser and *profile) agree on parameter special cases: the comparisons of a parameter with a constant that decide an early delegation",
		Props: []string{"C16"},
		Floor: 2,
		Run: func(c *Ctx, s *core.Sink) {
			guards := func(f *ssa.Function) []string {
				var out []string
				for _, b := range f.Blocks {
					iff, ok := lastIf(b)
					if !ok {
						continue
					}
					bo, ok := iff.Cond.(*ssa.BinOp)
					if !ok || (bo.Op != token.EQL && bo.Op != token.NEQ) {
						continue
					}
					for _, pr := range [][2]ssa.Value{{bo.X, bo.Y}, {bo.Y, bo.X}} {
						p, isP := pr[0].(*ssa.Parameter)
						k, isK := pr[1].(*ssa.Const)
						if !isP || !isK || k.Value == nil {
							continue
						}
						for i, q := range f.Params {
							if q == p {
								out = append(out, fmt.Sprintf("param%d %s %s", i, "==", k.Value.ExactString()))
							}
						}
					}
				}
				sort.Strings(out)
				return uniq(out)
			}
			for _, n := range []string{"Parse", "ParseRef"} {
				a := c.P.Func("url", "parser", n)
				b := c.P.Func("canonicalizer", "profile", n)
				key := "sibling/" + n
				if a == nil || b == nil {
					s.Unknown(key, "-", "implementations not found")
					continue
				}
				ga, gb := guards(a), guards(b)
				s.Check(strings.Join(ga, "|") == strings.Join(gb, "|"), key, c.P.Pos(b.Pos()), fmt.Sprintf("both special-case %v", ga), fmt.Sprintf("(*parser).%s special-cases %v, (*profile).%s special-cases %v: the same call behaves differently through a profile", n, ga, n, gb))
			}
		},
	})

	register(&Rule{
		Name:  "OPT-sortcmp",
		Doc:   "Sort uses a stable sort whose comparator is Name_i < Name_j and reads nothing else; SortAbsolute's comparator reads Name and Value of i on the left and of j on the right",
		Props: []string{"C11", "C16"},
		Floor: 4,
		Run: func(c *Ctx, s *core.Sink) {
			stable := map[string]bool{"sort.SliceStable": true, "sort.Stable": true, "slices.SortStableFunc": true}
			for _, t := range []struct {
				name   string
				fields []string
			}{{"Sort", []string{"Name"}}, {"SortAbsolute", []string{"Name", "Value"}}} {
				f := c.P.Func("url", "SearchParams", t.name)
				key := "sortcmp/" + t.name
				if f == nil {
					s.Unknown(key, "-", "not found")
					continue
				}
				var sortCall *ssa.Call
				viaHelper := false
				fns := []*ssa.Function{f}
				seenFn := map[*ssa.Function]bool{f: true}
				for i := 0; i < len(fns) && i < 8 && sortCall == nil; i++ {
					for _, b := range fns[i].Blocks {
						for _, ins := range b.Instrs {
							if call, ok := ins.(*ssa.Call); ok {
								cl := call.Common().StaticCallee()
								if cl == nil {
									continue
								}
								if core.PkgPathOf(cl) == "sort" || core.PkgPathOf(cl) == "slices" {
									sortCall = call
									viaHelper = i > 0
								} else if c.P.InModule(cl) && !seenFn[cl] && len(cl.Blocks) > 0 && namedOf(recvType(cl)) == "SearchParams" && cl.Name() != "update" && cl.Name() != "String" {
									seenFn[cl] = true
									fns = append(fns, cl)
								}
							}
						}
					}
				}
				if sortCall == nil {
					s.Bad(key+"/stable", c.P.Pos(f.Pos()), "no sort call found")
					continue
				}
				cn := sortCall.Common().StaticCallee().String()
				s.Check(stable[cn], key+"/stable", c.P.Pos(sortCall.Pos()), cn+" is stable", cn+" is not a stable sort: parameters with equal names may be reordered (only visible from 12 elements on)")
				// comparator
				var cmp *ssa.Function
				for _, a := range sortCall.Common().Args {
					if mc, ok := a.(*ssa.MakeClosure); ok {
						cmp = mc.Fn.(*ssa.Function)
					}
				}
				if cmp == nil || viaHelper {
					// sorting is delegated to a helper with a computed key: the comparator is not of a shape this rule
					// reads; stability (above) is what the tests cannot see.  Recorded, not decided.
					s.Obs = append(s.Obs, core.Obligation{Rule: s.Rule, Construct: key + "/comparator", Pos: c.P.Pos(sortCall.Pos()), Verdict: core.Discharged, Fact: "comparator shape not recognised (sorting delegated to a helper): not decided", Props: s.Props, Trivial: true})
					continue
				}
				// single return of a `<` on strings
				var ret *ssa.Return
				nret := 0
				for _, b := range cmp.Blocks {
					if r, ok := b.Instrs[len(b.Instrs)-1].(*ssa.Return); ok {
						ret = r
						nret++
					}
				}
				bad := ""
				if nret != 1 {
					bad = "comparator has several returns"
				}
				var bo *ssa.BinOp
				if bad == "" {
					var ok bool
					bo, ok = ret.Results[0].(*ssa.BinOp)
					if !ok || bo.Op != token.LSS || !isStringy(bo.X.Type()) {
						bad = "comparator is not a `<` on strings"
					}
				}
				if bad == "" {
					// leaves of each side: loads of fields of params[idx]
					side := func(v ssa.Value) ([]string, int, bool) {
						var fields []string
						idx := -1
						okAll := true
						var rec func(v ssa.Value)
						rec = func(v ssa.Value) {
							if x, ok := v.(*ssa.BinOp); ok && x.Op == token.ADD {
								rec(x.X)
								rec(x.Y)
								return
							}
							ld, ok := v.(*ssa.UnOp)
							if !ok {
								okAll = false
								return
							}
							fa, ok := ld.X.(*ssa.FieldAddr)
							if !ok || namedOf(fa.X.Type()) != "NameValuePair" {
								okAll = false
								return
							}
							fields = append(fields, strings.TrimPrefix(fieldElem(fa.X.Type(), fa.Field), "NameValuePair:"))
							// element: *(&params[i])
							el, ok := fa.X.(*ssa.UnOp)
							if !ok {
								okAll = false
								return
							}
							ia, ok := el.X.(*ssa.IndexAddr)
							if !ok {
								okAll = false
								return
							}
							p, ok := ia.Index.(*ssa.Parameter)
							if !ok {
								okAll = false
								return
							}
							for i, q := range cmp.Params {
								if q == p {
									if idx >= 0 && idx != i {
										okAll = false
									}
									idx = i
								}
							}
						}
						rec(v)
						return fields, idx, okAll
					}
					lf, li, lok := side(bo.X)
					rf, ri, rok := side(bo.Y)
					switch {
					case !lok || !rok:
						bad = "comparator operands are not fields of params[i] / params[j]"
					case li != 0 || ri != 1:
						bad = "comparator compares element j with element i (reversed order)"
					case strings.Join(lf, "+") != strings.Join(t.fields, "+") || strings.Join(rf, "+") != strings.Join(t.fields, "+"):
						bad = fmt.Sprintf("comparator compares %v with %v, want %v on both sides", lf, rf, t.fields)
					}
				}
				s.Check(bad == "", key+"/comparator", c.P.Pos(cmp.Pos()), strings.Join(t.fields, "+")+" of i < "+strings.Join(t.fields, "+")+" of j", bad)
			}
		},
	})

	register(&Rule{
		Name:  "TAB-component",
		Doc:   "each component writer of the state machine encodes with the set of its component: credentials with the userinfo set, opaque host and opaque path with the C0-control set, path with the path option, query and fragment with their option, replaced by the special variant exactly on the special-scheme branch; the username/password setters use the userinfo set",
		Props: []string{"C01", "C05", "C16"},
		Floor: 8,
		Run: func(c *Ctx, s *core.Sink) {
			m := BuildSM(c)
			if smProblems(m, s) {
				return
			}
			type want struct {
				plain, special string
				props          []string
			}
			table := map[string]want{
				"StateAuthority":  {"UserInfoPercentEncodeSet", "UserInfoPercentEncodeSet", []string{"C01", "C05"}},
				"StatePath":       {"p.opts.pathPercentEncodeSet", "p.opts.pathPercentEncodeSet", []string{"C01", "C16"}},
				"StateOpaquePath": {"C0PercentEncodeSet", "C0PercentEncodeSet", []string{"C01"}},
				"StateQuery":      {"p.opts.queryPercentEncodeSet", "p.opts.specialQueryPercentEncodeSet", []string{"C01", "C16"}},
				"StateFragment":   {"p.opts.fragmentPercentEncodeSet", "p.opts.specialFragmentPercentEncodeSet", []string{"C01", "C16"}},
			}
			type agg struct {
				sets map[string]bool
				pos  token.Pos
				bad  []string
			}
			res := map[string]*agg{}
			for _, cx := range m.Contexts {
				for _, p := range m.Paths[cx.Name] {
					w, ok := table[p.State]
					if !ok {
						continue
					}
					for _, bw := range p.BufWrites {
						if bw.Class != "encoded" {
							continue
						}
						for _, variant := range []string{"plain", "special"} {
							if variant == "special" && bw.Special != triT || variant == "plain" && bw.Special == triT {
								continue
							}
							if w.plain == w.special && variant == "special" {
								continue
							}
							k := p.State + "/" + variant
							if w.plain == w.special {
								k = p.State
							}
							a := res[k]
							if a == nil {
								a = &agg{sets: map[string]bool{}, pos: bw.Pos}
								res[k] = a
							}
							// the component's set with '%' added (the single-percent option's arm; OPT-consumers and OPT-effect
							// govern where that may happen) names the same component set
							for _, suf := range []string{".Set('%')", ".Set(0x25)", ".Set(37)"} {
								bw.Set = strings.TrimSuffix(bw.Set, suf)
							}
							a.sets[bw.Set] = true
							exp := w.plain
							if variant == "special" {
								exp = w.special
							}
							if w.plain != w.special && bw.Special == triU {
								a.bad = append(a.bad, "encode set chosen without a known scheme class")
							}
							if bw.Set != exp {
								a.bad = append(a.bad, fmt.Sprintf("encodes with %s, want %s", bw.Set, exp))
							}
						}
					}
				}
			}
			var keys []string
			for k := range table {
				if table[k].plain == table[k].special {
					keys = append(keys, k)
				} else {
					keys = append(keys, k+"/plain", k+"/special")
				}
			}
			sort.Strings(keys)
			for _, k := range keys {
				st := strings.SplitN(k, "/", 2)[0]
				w := table[st]
				a := res[k]
				key := "component/" + k
				if a == nil {
					s.Bad(key, c.P.Pos(m.An.clauses[st].Pos()), "no percent-encoding write found for this component / scheme class", w.props...)
					continue
				}
				s.Check(len(a.bad) == 0, key, c.P.Pos(a.pos), "encodes with "+strings.Join(keysOf(a.sets), ", "), strings.Join(uniq(sortedCopy(a.bad)), "; "), w.props...)
			}
			// setters and the opaque-host parser (SSA)
			for _, t := range []struct {
				recv, fn, callee, set string
				props                 []string
			}{
				{"Url", "SetUsername", "PercentEncodeString", "UserInfoPercentEncodeSet", []string{"C05"}},
				{"Url", "SetPassword", "PercentEncodeString", "UserInfoPercentEncodeSet", []string{"C05"}},
				{"parser", "parseOpaqueHost", "percentEncodeRune", "C0PercentEncodeSet", []string{"C01"}},
			} {
				f := c.P.Func("url", t.recv, t.fn)
				key := "component/" + t.fn
				rt := t.recv
				if f == nil && t.fn == "parseOpaqueHost" {
					// under another name or on another type, the opaque-host parser is still the one function that reports
					// a forbidden host code point
					f = soleReporterOf(c, "HostInvalidCodePoint")
					if f != nil {
						rt = namedOf(recvType(f))
					}
				}
				if f == nil {
					s.Unknown(key, "-", "not found", t.props...)
					continue
				}
				got := map[string]bool{}
				var pos token.Pos
				// the encoder calls of the function, looking through unexported helpers of the same type
				for _, x := range expandCalls(c, f, func(g *ssa.Function) bool {
					return c.P.InModule(g) && namedOf(recvType(g)) == rt && g.Object() != nil && !g.Object().Exported() && g.Name() != t.callee && !isRuneEncoder(c, g)
				}, 2) {
					call := x.Call
					name := ""
					if cl := call.Common().StaticCallee(); cl != nil {
						name = cl.Name()
					} else if call.Common().IsInvoke() {
						name = call.Common().Method.Name()
					}
					// the encoder under its reviewed name, or (for the rune encoder) any function of the module with its role
					if name != t.callee && !(t.callee == "percentEncodeRune" && isRuneEncoder(c, call.Common().StaticCallee())) {
						continue
					}
					pos = call.Pos()
					args := call.Common().Args
					last := x.Root(args[len(args)-1])
					for _, a := range args {
						if namedOf(a.Type()) == "PercentEncodeSet" {
							last = x.Root(a)
						}
					}
					if ld, ok := last.(*ssa.UnOp); ok {
						if g, ok := ld.X.(*ssa.Global); ok {
							got[g.Name()] = true
							continue
						}
					}
					got["?"+last.String()] = true
				}
				s.Check(len(got) == 1 && got[t.set], key, c.P.Pos(pos), "encodes with "+t.set, fmt.Sprintf("encodes with %v, want %s", keysOf(got), t.set), t.props...)
			}
		},
	})
}

// atLoadOrUses: the fact holds where the option is read, or — for a read hoisted out of the place that needs it — at
// every branch that consumes the value read (through negation, the phis of && / ||, and a local variable). A value that
// escapes another way (argument, field) is judged where it is read.
func atLoadOrUses(f *ssa.Function, ld *ssa.UnOp, holds func(b *ssa.BasicBlock) bool) bool {
	if holds(ld.Block()) {
		return true
	}
	var blocks []*ssa.BasicBlock
	understood := true
	seen := map[ssa.Value]bool{}
	var walk func(v ssa.Value)
	walk = func(v ssa.Value) {
		if seen[v] {
			return
		}
		seen[v] = true
		for _, r := range *v.Referrers() {
			switch x := r.(type) {
			case *ssa.If:
				blocks = append(blocks, x.Block())
			case *ssa.UnOp:
				if x.Op == token.NOT {
					walk(x)
				} else {
					understood = false
				}
			case *ssa.Phi:
				walk(x)
			case *ssa.DebugRef:
			case *ssa.Store:
				al, ok := x.Addr.(*ssa.Alloc)
				if !ok || x.Val != v {
					understood = false
					continue
				}
				for _, r2 := range *al.Referrers() {
					switch y := r2.(type) {
					case *ssa.UnOp:
						if y.Op == token.MUL {
							walk(y)
						} else {
							understood = false
						}
					case *ssa.Store:
						if y.Addr != ssa.Value(al) {
							understood = false
						}
					case *ssa.DebugRef:
					default:
						understood = false
					}
				}
			default:
				understood = false
			}
		}
	}
	walk(ld)
	if !understood || len(blocks) == 0 {
		return false
	}
	for _, b := range blocks {
		if !holds(b) {
			return false
		}
	}
	return true
}

// onlyUnderTrigger: the blocks that run only with the option on (a fact "option read is true" holds there) and without
// the trigger do nothing: no store, no return, no call of a function that writes memory. `if opt && trigger() { … }`
// reads the option first and still changes nothing unless the trigger holds.
func onlyUnderTrigger(c *Ctx, f *ssa.Function, ld *ssa.UnOp, trig func(b *ssa.BasicBlock) bool) bool {
	e := BuildEff(c)
	n := 0
	for _, b := range f.Blocks {
		on := false
		for _, fa := range Facts(c, f).At(b) {
			if fa.Cond == ssa.Value(ld) && fa.Val {
				on = true
			}
		}
		if !on {
			continue
		}
		n++
		if trig(b) {
			continue
		}
		for _, ins := range b.Instrs {
			switch x := ins.(type) {
			case *ssa.Store, *ssa.MapUpdate, *ssa.Return, *ssa.Send, *ssa.Go, *ssa.Defer, *ssa.Panic, *ssa.RunDefers:
				return false
			case *ssa.Call:
				g := x.Common().StaticCallee()
				if g == nil {
					return false
				}
				sum := e.Sum(g)
				if sum == nil || len(sum.Mut) > 0 || len(sum.Unknown) > 0 {
					return false
				}
			}
		}
	}
	return n > 0
}

// isRuneEncoder: a function of the module that takes one code point (rune or byte) and a *PercentEncodeSet and either
// returns text or writes into a *strings.Builder it is handed, and asks the set whether the code point is to be encoded
// (directly or through another rune encoder): percentEncodeRune under whatever name and signature.
func isRuneEncoder(c *Ctx, g *ssa.Function) bool {
	if g == nil || len(g.Blocks) == 0 || !c.P.InModule(g) {
		return false
	}
	return c.Memo("isRuneEncoder:"+g.String(), func() interface{} {
		var setP *ssa.Parameter
		hasR, hasB := false, false
		for _, p := range g.Params {
			switch {
			case namedOf(p.Type()) == "PercentEncodeSet" && p != g.Params[0]:
				setP = p
			case namedOf(p.Type()) == "PercentEncodeSet" && g.Signature.Recv() == nil:
				setP = p
			case p.Type().String() == "*strings.Builder":
				hasB = true
			default:
				if b, ok := p.Type().Underlying().(*types.Basic); ok && (b.Kind() == types.Int32 || b.Kind() == types.Uint8) {
					hasR = true
				}
			}
		}
		if setP == nil || !hasR {
			return false
		}
		res := g.Signature.Results()
		if !(hasB && res.Len() == 0) && !(res.Len() == 1 && isStringType(res.At(0).Type())) {
			return false
		}
		// the set parameter is asked, or handed to a function that is itself a rune encoder
		seen := map[ssa.Value]bool{}
		asked := false
		var follow func(v ssa.Value)
		follow = func(v ssa.Value) {
			if seen[v] || asked {
				return
			}
			seen[v] = true
			for _, r := range *v.Referrers() {
				switch x := r.(type) {
				case *ssa.Phi:
					follow(x)
				case *ssa.Call:
					cl := x.Common().StaticCallee()
					if cl == nil {
						continue
					}
					if namedOf(recvType(cl)) == "PercentEncodeSet" && strings.HasSuffix(cl.Name(), "ShouldBeEncoded") {
						asked = true
					} else if namedOf(recvType(cl)) == "PercentEncodeSet" && namedOf(x.Type()) == "PercentEncodeSet" {
						follow(x) // tr.Set('%')
					} else if cl != g && isRuneEncoder(c, cl) {
						asked = true
					}
				}
			}
		}
		follow(setP)
		return asked
	}).(bool)
}

// loadOfFieldByType: v loads a field of an object whose type is named owner; returns the object.
func loadOfFieldByType(v ssa.Value, owner string) (ssa.Value, bool) {
	ld, ok := v.(*ssa.UnOp)
	if !ok || ld.Op != token.MUL {
		return nil, false
	}
	fa, ok := ld.X.(*ssa.FieldAddr)
	if !ok || namedOf(fa.X.Type()) != owner {
		return nil, false
	}
	return fa.X, true
}

// soleReporterOf: the one function of the module with a call of an error handler for the named error type.
func soleReporterOf(c *Ctx, typeName string) *ssa.Function {
	var found *ssa.Function
	for _, st := range buildErrModel(c).Sites {
		if st.TypeName != typeName {
			continue
		}
		if found != nil && found != st.Caller {
			return nil
		}
		found = st.Caller
	}
	return found
}

func keysOf(m map[string]bool) []string {
	var out []string
	for k := range m {
		out = append(out, k)
	}
	sort.Strings(out)
	return out
}

func expectOne(s *core.Sink, key, pos string, got, want []string, what string, props ...string) {
	g := append([]string(nil), got...)
	w := append([]string(nil), want...)
	sort.Strings(g)
	sort.Strings(w)
	if strings.Join(g, " ∧ ") == strings.Join(w, " ∧ ") {
		s.OK(key, pos, what+" under exactly "+strings.Join(w, " ∧ "), props...)
	} else {
		s.Bad(key, pos, fmt.Sprintf("%s is executed under %v, want exactly %v", what, g, w), props...)
	}
}

func missingSchemeValue(c *Ctx) string {
	if k, ok := c.P.ByName["errors"].Types.Scope().Lookup("MissingSchemeNonRelativeURL").(*types.Const); ok {
		return strings.Trim(k.Val().ExactString(), `"`)
	}
	return "?"
}

// ---- OPT-consumers: every relaxing option is consulted only under its trigger ----

func init() {
	register(&Rule{
		Name:  "OPT-consumers",
		Doc:   "each relaxing parser option is read only where its trigger holds, so that switching it on cannot change the result for inputs without the trigger: accept-invalid-code-points only after the invalid-code-point test; percent-encode-single-percent-sign only after an invalid-percent test; skip-drive-letter-normalization only after the drive-letter test; collapse-consecutive-slashes replaces a segment only when the last one is empty; lax-host-parsing only on branches whose other arm fails; skip-equals only omits the '='",
		Props: []string{"C16"},
		Floor: 4,
		Run: func(c *Ctx, s *core.Sink) {
			type site struct {
				f   *ssa.Function
				ld  *ssa.UnOp
				opt string
			}
			var sites []site
			for _, f := range c.P.ModFns {
				if isInitializer(f) || (f.Parent() != nil && strings.HasPrefix(f.Parent().Name(), "With")) {
					continue
				}
				for _, b := range f.Blocks {
					for _, ins := range b.Instrs {
						if ld, ok := ins.(*ssa.UnOp); ok {
							if o := optLoad(ld); o != "" {
								sites = append(sites, site{f, ld, o})
							}
						}
					}
				}
			}
			n := map[string]int{}
			tiCtx = c
			hasFact := func(f *ssa.Function, b *ssa.BasicBlock, pred func(condFact) bool) bool {
				for _, fa := range Facts(c, f).At(b) {
					if pred(fa) {
						return true
					}
				}
				return false
			}
			callFact := func(name string, val bool) func(condFact) bool {
				return func(fa condFact) bool {
					if fa.Val != val {
						return false
					}
					if val {
						return truthImplies(fa.Cond, name, 0)
					}
					v := fa.Cond
					if ex, ok := v.(*ssa.Extract); ok {
						v = ex.Tuple
					}
					call, ok := v.(*ssa.Call)
					return ok && call.Common().StaticCallee() != nil && call.Common().StaticCallee().Name() == name
				}
			}
			for _, st := range sites {
				base := "consumer/" + st.opt + "/" + core.FuncName(st.f)
				n[base]++
				key := fmt.Sprintf("%s#%d", base, n[base])
				pos := c.P.Pos(st.ld.Pos())
				b := st.ld.Block()
				switch st.opt {
				case "acceptInvalidCodepoints":
					trig := func(bb *ssa.BasicBlock) bool { return hasFact(st.f, bb, callFact("currentIsInvalid", true)) }
					s.Check(atLoadOrUses(st.f, st.ld, trig) || onlyUnderTrigger(c, st.f, st.ld, trig), key, pos, "read only after input.currentIsInvalid() answered true", "read without the invalid-code-point test: the option could change the result for valid input")
				case "percentEncodeSinglePercentSign":
					ok := false
					directPct := atLoadOrUses(st.f, st.ld, func(bb *ssa.BasicBlock) bool {
						return hasFact(st.f, bb, func(fa condFact) bool {
							bo, ok := fa.Cond.(*ssa.BinOp)
							if !ok {
								return false
							}
							if rel, _ := relOf(bo.Op, fa.Val); rel != token.EQL {
								return false
							}
							k, ok := constInt(bo.Y)
							return ok && k == '%'
						})
					})
					// a bool parameter that is true where the option is read: the caller's answer to the invalid-percent test
					var guardParams []int
					for _, fa := range Facts(c, st.f).At(b) {
						if p, isP := fa.Cond.(*ssa.Parameter); isP && fa.Val {
							for i, q := range st.f.Params {
								if q == p {
									guardParams = append(guardParams, i)
								}
							}
						}
					}
					if !directPct {
						// a helper: every call site lies on the invalid-percent branch, or passes the test's answer
						ok = true
						sitesN := 0
						for _, g := range c.P.ModFns {
							for _, gb := range g.Blocks {
								for _, ins := range gb.Instrs {
									if call, isC := ins.(*ssa.Call); isC && call.Common().StaticCallee() == st.f {
										sitesN++
										pctHere := hasFact(g, gb, isPctFact(c))
										byArg := false
										for _, gi := range guardParams {
											if gi < len(call.Common().Args) {
												av := call.Common().Args[gi]
												if truthImplies(av, "remainingIsInvalidPercentEncoded", 0) || truthImpliesFact(c, av, isPctFact(c), 0) {
													byArg = true
												}
											}
										}
										if !hasFact(g, gb, callFact("remainingIsInvalidPercentEncoded", true)) && !pctHere && !byArg {
											// … or the enclosing helper is itself only called with the test's answer for that flag
											up := holdsUpward(c, g, gb, 2, func(facts []condFact, root func(ssa.Value) ssa.Value) bool {
												isPct := isPctFact(c)
												for _, fa := range facts {
													if !fa.Val {
														continue
													}
													v := root(fa.Cond)
													if truthImplies(v, "remainingIsInvalidPercentEncoded", 0) || truthImpliesFact(c, v, isPct, 0) {
														return true
													}
												}
												return false
											})
											if !up {
												if os.Getenv("WUDEBUG") != "" {
													fmt.Fprintf(os.Stderr, "consumers: site in %s not covered\n", g.String())
												}
												ok = false
											}
										}
									}
								}
							}
						}
						ok = ok && sitesN > 0
					} else {
						// PercentEncodeString: under r == '%' and (too short or not two hex digits)
						ok = true
					}
					s.Check(ok, key, pos, "read only after an invalid-percent-encoding test", "read without the invalid-percent test: the option could change the result for well-formed escapes")
				case "skipWindowsDriveLetterNormalization":
					s.Check(hasFact(st.f, b, callFact("isWindowsDriveLetter", true)), key, pos, "read only after isWindowsDriveLetter(buffer) answered true", "read without the drive-letter test")
				case "collapseConsecutiveSlashes":
					// the arm that differs from the default (overwrite a segment instead of adding one) needs: option on and
					// last segment empty. Overwriting sites: element stores into the path's segment slice, directly or through
					// a method of the path type that performs one.
					isPathSlice := func(v ssa.Value) bool {
						ld, ok := v.(*ssa.UnOp)
						if !ok || ld.Op != token.MUL {
							return false
						}
						fa, ok := ld.X.(*ssa.FieldAddr)
						if !ok || namedOf(fa.X.Type()) != "path" {
							return false
						}
						_, isSlice := ld.Type().Underlying().(*types.Slice)
						return isSlice
					}
					elementStore := func(g *ssa.Function) bool {
						for _, gb := range g.Blocks {
							for _, ins := range gb.Instrs {
								if st, ok := ins.(*ssa.Store); ok {
									if ia, ok := st.Addr.(*ssa.IndexAddr); ok && isPathSlice(ia.X) {
										return true
									}
								}
							}
						}
						return false
					}
					okAll := true
					found := 0
					for _, bb := range st.f.Blocks {
						for _, ins := range bb.Instrs {
							site := false
							switch x := ins.(type) {
							case *ssa.Store:
								if ia, isI := x.Addr.(*ssa.IndexAddr); isI && isPathSlice(ia.X) {
									site = true
								}
							case *ssa.Call:
								if cl := x.Common().StaticCallee(); cl != nil && namedOf(recvType(cl)) == "path" && len(cl.Blocks) > 0 && elementStore(cl) {
									// only overwriting helpers that are not the trailing-space stripper of opaque paths
									if cl.Signature.Params().Len() > 0 {
										site = true
									}
								}
							}
							if !site {
								continue
							}
							found++
							optOn := hasFact(st.f, bb, func(fa condFact) bool { return optLoad(fa.Cond) == "collapseConsecutiveSlashes" && fa.Val })
							lastEmpty := hasFact(st.f, bb, func(fa condFact) bool {
								bo, ok := fa.Cond.(*ssa.BinOp)
								if !ok {
									return false
								}
								rel, _ := relOf(bo.Op, fa.Val)
								if k, isK := constInt(bo.Y); isK && k == 0 {
									if _, isLen := lenArg(bo.X); isLen && (rel == token.LEQ || rel == token.EQL) {
										return true
									}
								}
								for _, pr := range [][2]ssa.Value{{bo.X, bo.Y}, {bo.Y, bo.X}} {
									if k, isK := constString(pr[1]); isK && k == "" && rel == token.EQL && isStringy(pr[0].Type()) {
										return true
									}
								}
								return false
							})
							if !optOn || !lastEmpty {
								okAll = false
							}
						}
					}
					s.Check(okAll && found > 0, key, pos, "the last segment is overwritten only when the option is on and that segment is empty", "a path segment can be overwritten without the option being on and the last segment being empty")
				case "laxHostParsing":
					// the If consuming the load: the non-lax arm must fail (failure-flagged handler or an error return)
					okLax := false
					why := "the option does not feed a branch"
					for _, r := range *st.ld.Referrers() {
						iff, isIf := r.(*ssa.If)
						if !isIf {
							if u, isU := r.(*ssa.UnOp); isU && u.Op == token.NOT {
								for _, r2 := range *u.Referrers() {
									if iff2, ok := r2.(*ssa.If); ok {
										iff = iff2
										isIf = true
										// negated: the non-lax arm is the true successor
										nonLax := iff.Block().Succs[0]
										okLax, why = armFails(c, nonLax)
									}
								}
							}
							continue
						}
						nonLax := iff.Block().Succs[1]
						okLax, why = armFails(c, nonLax)
					}
					s.Check(okLax, key, pos, "consulted only where the strict parser fails", "the strict arm of a lax-host-parsing decision does not fail ("+why+"): the option changes hosts the default parser accepts")
				case "skipEqualsForEmptySearchParamsValue":
					// the blocks between the deciding branch and its immediate post-dominator write "=" and do nothing else
					okEq, why := false, "the option does not feed a branch"
					var iff *ssa.If
					for _, r := range *st.ld.Referrers() {
						if i2, isIf := r.(*ssa.If); isIf {
							iff = i2
						}
						if u, isU := r.(*ssa.UnOp); isU && u.Op == token.NOT {
							for _, r2 := range *u.Referrers() {
								if i2, isIf := r2.(*ssa.If); isIf {
									iff = i2
								}
							}
						}
					}
					// the decision kept as a value first (`omit := opt && value == ""; if !omit { write '=' }`): the branch on
					// the option only computes the value (its region has no effect) and the block where it ends branches on
					// the merged boolean - that branch is the one that decides
					if iff != nil {
						region := branchRegion(st.f, iff.Block())
						quiet := true
						inRegion := map[*ssa.BasicBlock]bool{iff.Block(): true}
						for _, rb := range region {
							inRegion[rb] = true
							for _, ins := range rb.Instrs {
								switch ins.(type) {
								case *ssa.Call, *ssa.Store, *ssa.MapUpdate, *ssa.Send, *ssa.Go, *ssa.Defer, *ssa.Return, *ssa.Panic:
									quiet = false
								}
							}
						}
						if quiet {
							var join *ssa.BasicBlock
							for b := range inRegion {
								for _, sc := range b.Succs {
									if !inRegion[sc] {
										if join != nil && join != sc {
											quiet = false
										}
										join = sc
									}
								}
							}
							if quiet && join != nil {
								if i2, ok := lastIf(join); ok {
									for _, nf := range normFact(i2.Cond, true) {
										if phi, isPhi := nf.Cond.(*ssa.Phi); isPhi && phi.Block() == join {
											iff = i2
										}
									}
								}
							}
						}
					}
					if iff != nil {
						region := branchRegion(st.f, iff.Block())
						wrote := false
						why = ""
						for _, rb := range region {
							for _, ins := range rb.Instrs {
								switch x := ins.(type) {
								case *ssa.Call:
									if w, isW := builderWriteConst(x); isW && w == "=" {
										wrote = true
									} else {
										why = "the branch also calls " + callName(x)
									}
								case *ssa.Store, *ssa.MapUpdate, *ssa.Send, *ssa.Go, *ssa.Defer, *ssa.Return, *ssa.Panic:
									why = "the branch has another effect than writing '='"
								}
							}
						}
						if why == "" && !wrote {
							why = "no '=' is written under the branch"
						}
						okEq = why == ""
						if !okEq {
							// the early-return form: `if opt && value == "" { return }; write '='; escape(value)` - what the
							// option's arm leaves out is the '=' and calls that do nothing for the value known to be empty there
							if ok2, why2 := skipEqualsEarlyReturn(c, st.f, iff); ok2 {
								okEq, why = true, ""
							} else if why2 != "" {
								why = why + "; " + why2
							}
						}
					}
					s.Check(okEq, key, pos, "decides only whether '=' is written", "the option decides something other than the '=' of an empty value ("+why+")")
				default:
					// the remaining options (diagnostics, encode sets, callbacks, schemes, encoding override, trailing slash)
					// are governed by ERR-ni, TAB-component, TAB-schemes; recorded for the inventory
					s.Obs = append(s.Obs, core.Obligation{Rule: s.Rule, Construct: key, Pos: pos, Verdict: core.Discharged, Fact: "inventory: governed by another rule", Props: s.Props, Trivial: true})
				}
			}
		},
	})
}

// skipEqualsEarlyReturn: the branch on the option (possibly `opt && value == ""`) has an arm that does nothing but
// leave the function, and the other arm writes "=" and otherwise only calls functions that work element by element
// on the very value the first arm knows to be empty.
func skipEqualsEarlyReturn(c *Ctx, f *ssa.Function, iff *ssa.If) (bool, string) {
	ff := Facts(c, f)
	// the arm with the option on
	on := iff.Block().Succs[0]
	if fs := normFact(iff.Cond, true); len(fs) == 1 && !fs[0].Val {
		on = iff.Block().Succs[1]
	}
	// follow a further test of "value is empty" on that arm
	var emptyVal ssa.Value
	quiet := on
	for steps := 0; steps < 3; steps++ {
		i2, ok := lastIf(quiet)
		if !ok {
			break
		}
		bo, ok := i2.Cond.(*ssa.BinOp)
		if !ok || (bo.Op != token.EQL && bo.Op != token.NEQ) {
			break
		}
		var v ssa.Value
		for _, pr := range [][2]ssa.Value{{bo.X, bo.Y}, {bo.Y, bo.X}} {
			if k, isK := constString(pr[1]); isK && k == "" {
				v = pr[0]
			}
		}
		if v == nil {
			break
		}
		emptyVal = v
		if bo.Op == token.EQL {
			quiet = quiet.Succs[0]
		} else {
			quiet = quiet.Succs[1]
		}
	}
	// the quiet arm: nothing but a return
	for _, ins := range quiet.Instrs {
		switch ins.(type) {
		case *ssa.Return, *ssa.DebugRef:
		default:
			return false, "the arm taken with the option on does more than return"
		}
	}
	if _, isRet := quiet.Instrs[len(quiet.Instrs)-1].(*ssa.Return); !isRet {
		return false, ""
	}
	// everything else behind the branch
	seen := map[*ssa.BasicBlock]bool{quiet: true}
	var other []*ssa.BasicBlock
	var walk func(b *ssa.BasicBlock)
	walk = func(b *ssa.BasicBlock) {
		if seen[b] {
			return
		}
		seen[b] = true
		other = append(other, b)
		for _, sc := range b.Succs {
			walk(sc)
		}
	}
	for _, sc := range iff.Block().Succs {
		if sc != on {
			walk(sc)
		}
	}
	if on != quiet {
		for _, sc := range on.Succs {
			walk(sc)
		}
	}
	_ = ff
	sameSource := func(a, b ssa.Value) bool {
		if a == b {
			return true
		}
		la, ok1 := a.(*ssa.UnOp)
		lb, ok2 := b.(*ssa.UnOp)
		if ok1 && ok2 && la.Op == token.MUL && lb.Op == token.MUL {
			fa, ok1 := la.X.(*ssa.FieldAddr)
			fb, ok2 := lb.X.(*ssa.FieldAddr)
			return ok1 && ok2 && fa.X == fb.X && fa.Field == fb.Field
		}
		return false
	}
	wrote := false
	for _, b := range other {
		if b == on {
			continue
		}
		for _, ins := range b.Instrs {
			switch x := ins.(type) {
			case *ssa.Call:
				if w, isW := builderWriteConst(x); isW && w == "=" {
					wrote = true
					continue
				}
				cl := x.Common().StaticCallee()
				okCall := false
				if cl != nil && c.P.InModule(cl) && emptyVal != nil {
					for i, a := range x.Common().Args {
						if sameSource(a, emptyVal) && i < len(cl.Params) && elementwiseOver(cl, cl.Params[i]) {
							okCall = true
						}
					}
				}
				if !okCall {
					return false, "the other arm also calls " + callName(x)
				}
			case *ssa.Store, *ssa.MapUpdate, *ssa.Send, *ssa.Go, *ssa.Defer, *ssa.Panic:
				return false, "the other arm has another effect than writing '='"
			}
		}
	}
	if !wrote {
		return false, "no '=' is written on the other arm"
	}
	return true, ""
}

// elementwiseOver: every call and store of f lies inside a loop that ranges over the string parameter p - f does
// nothing for the empty string.
func elementwiseOver(f *ssa.Function, p *ssa.Parameter) bool {
	if len(f.Blocks) == 0 {
		return false
	}
	var rng *ssa.Range
	for _, r := range *p.Referrers() {
		if x, ok := r.(*ssa.Range); ok {
			rng = x
		}
	}
	if rng == nil {
		return false
	}
	// the loop: blocks dominated by the body entry (the successor of the Next test that stays in the loop)
	var body *ssa.BasicBlock
	for _, b := range f.Blocks {
		for _, ins := range b.Instrs {
			if nx, ok := ins.(*ssa.Next); ok && nx.Iter == ssa.Value(rng) {
				if iff, ok := lastIf(b); ok {
					_ = iff
					body = b.Succs[0]
				}
			}
		}
	}
	if body == nil {
		return false
	}
	for _, b := range f.Blocks {
		inLoop := body.Dominates(b)
		for _, ins := range b.Instrs {
			switch ins.(type) {
			case *ssa.Call, *ssa.Store, *ssa.MapUpdate, *ssa.Send, *ssa.Go, *ssa.Defer, *ssa.Panic:
				if !inLoop {
					return false
				}
			}
		}
	}
	return true
}

// truthImplies: v being true implies that a call to the named predicate answered true — directly, or through a module
// helper whose corresponding result is, on every return, that predicate's answer or the constant false.
func truthImplies(v ssa.Value, name string, depth int) bool {
	if depth > 3 {
		return false
	}
	switch x := v.(type) {
	case *ssa.Call:
		cl := x.Common().StaticCallee()
		if cl == nil {
			return false
		}
		if cl.Name() == name {
			return true
		}
		return resultImplies(cl, 0, name, depth)
	case *ssa.Extract:
		call, ok := x.Tuple.(*ssa.Call)
		if !ok || call.Common().StaticCallee() == nil {
			return false
		}
		cl := call.Common().StaticCallee()
		if cl.Name() == name {
			return true
		}
		return resultImplies(cl, x.Index, name, depth)
	case *ssa.Phi:
		for _, e := range x.Edges {
			if b, ok := constBool(e); ok && !b {
				continue
			}
			if e == ssa.Value(x) {
				continue
			}
			if !truthImplies(e, name, depth+1) {
				return false
			}
		}
		return true
	}
	return false
}

// truthImpliesFact: v being true implies a branch fact accepted by pred — v is such a condition itself, or a merge
// (the lowering of &&) each of whose edges is the constant false, comes from a block where such a fact holds, or is
// again such a value.
func truthImpliesFact(c *Ctx, v ssa.Value, pred func(condFact) bool, depth int) bool {
	if depth > 3 {
		return false
	}
	if pred(condFact{Cond: v, Val: true}) {
		return true
	}
	phi, ok := v.(*ssa.Phi)
	if !ok {
		return false
	}
	ff := Facts(c, phi.Parent())
	for i, e := range phi.Edges {
		if b, ok := constBool(e); ok && !b {
			continue
		}
		held := false
		for _, fa := range ff.At(phi.Block().Preds[i]) {
			if pred(fa) {
				held = true
			}
		}
		if held || truthImpliesFact(c, e, pred, depth+1) {
			continue
		}
		return false
	}
	return true
}

// isPctFact: a branch fact that says "this code point is '%'": the comparison itself, or a module predicate answering
// true whose summary contains such a comparison (startsWithInvalidPercentEncoding(rest)).
func isPctFact(c *Ctx) func(condFact) bool {
	direct := func(fa condFact) bool {
		bo, ok := fa.Cond.(*ssa.BinOp)
		if !ok || !fa.Val {
			return false
		}
		switch bo.Op {
		case token.EQL:
		default:
			return false
		}
		k, ok := constInt(bo.Y)
		return ok && k == '%'
	}
	return func(fa condFact) bool {
		if direct(fa) {
			return true
		}
		if call, ok := fa.Cond.(*ssa.Call); ok && fa.Val {
			if cl := call.Common().StaticCallee(); cl != nil && c.P.InModule(cl) {
				if ps := predicateSummary(c, cl); ps != nil {
					for _, sf := range ps.whenTrue {
						if direct(sf) {
							return true
						}
						// runes[0] != '%' being false
						if bo, ok := sf.Cond.(*ssa.BinOp); ok && bo.Op == token.NEQ && !sf.Val {
							if k, ok := constInt(bo.Y); ok && k == '%' {
								return true
							}
						}
					}
				}
			}
		}
		return false
	}
}

// tiCtx: the analysis context for truthImplies (set by the rule that uses it).
var tiCtx *Ctx

func resultImplies(cl *ssa.Function, idx int, name string, depth int) bool {
	if len(cl.Blocks) == 0 {
		return false
	}
	n := 0
	for _, b := range cl.Blocks {
		for _, ins := range b.Instrs {
			r, ok := ins.(*ssa.Return)
			if !ok {
				continue
			}
			if idx >= len(r.Results) {
				return false
			}
			n++
			if k, ok := constBool(r.Results[idx]); ok && !k {
				continue
			}
			// the constant true, returned where the predicate is known to have answered true
			if k, ok := constBool(r.Results[idx]); ok && k && tiCtx != nil {
				held := false
				for _, fa := range Facts(tiCtx, cl).At(b) {
					if fa.Val && truthImplies(fa.Cond, name, depth+1) {
						held = true
					}
				}
				if held {
					continue
				}
			}
			if !truthImplies(r.Results[idx], name, depth+1) {
				return false
			}
		}
	}
	return n > 0
}

// builderWriteConst: a strings.Builder / bytes.Buffer write of a constant; returns the text written.
func builderWriteConst(call *ssa.Call) (string, bool) {
	cl := call.Common().StaticCallee()
	if cl == nil || len(call.Common().Args) < 2 {
		return "", false
	}
	switch cl.Name() {
	case "WriteRune", "WriteByte":
		if k, ok := constInt(call.Common().Args[1]); ok {
			return string(rune(k)), true
		}
	case "WriteString":
		if k, ok := constString(call.Common().Args[1]); ok {
			return k, true
		}
	}
	return "", false
}

func callName(call *ssa.Call) string {
	if cl := call.Common().StaticCallee(); cl != nil {
		return cl.Name()
	}
	return "a dynamic callee"
}

// branchRegion: the blocks on paths from the branch at `from` to its immediate post-dominator (both excluded).
func branchRegion(f *ssa.Function, from *ssa.BasicBlock) []*ssa.BasicBlock {
	// post-dominator sets over the reversed CFG with a virtual exit
	pd := map[*ssa.BasicBlock]map[*ssa.BasicBlock]bool{}
	all := map[*ssa.BasicBlock]bool{}
	for _, b := range f.Blocks {
		all[b] = true
	}
	for _, b := range f.Blocks {
		if len(b.Succs) == 0 {
			pd[b] = map[*ssa.BasicBlock]bool{b: true}
		} else {
			m := map[*ssa.BasicBlock]bool{}
			for x := range all {
				m[x] = true
			}
			pd[b] = m
		}
	}
	for changed := true; changed; {
		changed = false
		for i := len(f.Blocks) - 1; i >= 0; i-- {
			b := f.Blocks[i]
			if len(b.Succs) == 0 {
				continue
			}
			var nd map[*ssa.BasicBlock]bool
			for _, sc := range b.Succs {
				if nd == nil {
					nd = map[*ssa.BasicBlock]bool{}
					for x := range pd[sc] {
						nd[x] = true
					}
				} else {
					for x := range nd {
						if !pd[sc][x] {
							delete(nd, x)
						}
					}
				}
			}
			nd[b] = true
			if len(nd) != len(pd[b]) {
				pd[b] = nd
				changed = true
			}
		}
	}
	// blocks reachable from the successors that do not post-dominate `from`
	var out []*ssa.BasicBlock
	seen := map[*ssa.BasicBlock]bool{from: true}
	work := append([]*ssa.BasicBlock(nil), from.Succs...)
	for len(work) > 0 {
		b := work[len(work)-1]
		work = work[:len(work)-1]
		if seen[b] || (pd[from][b] && b != from) {
			continue
		}
		seen[b] = true
		out = append(out, b)
		work = append(work, b.Succs...)
	}
	return out
}

// armFails: the block (following jumps) calls a failure-flagged handler, or returns a non-nil error.
func armFails(c *Ctx, b *ssa.BasicBlock) (bool, string) {
	seen := map[*ssa.BasicBlock]bool{}
	for i := 0; i < 4 && b != nil && !seen[b]; i++ {
		seen[b] = true
		for _, ins := range b.Instrs {
			if call, ok := ins.(*ssa.Call); ok && alwaysNonNil(c, call) {
				return true, ""
			}
			if r, ok := ins.(*ssa.Return); ok {
				last := r.Results[len(r.Results)-1]
				if !isNilConst(last) {
					return true, ""
				}
				return false, "returns without an error"
			}
		}
		if len(b.Succs) == 1 {
			b = b.Succs[0]
		} else {
			return false, "the strict arm branches again before failing"
		}
	}
	return false, "no failure found"
}

func hasFactIn(c *Ctx, f *ssa.Function, b *ssa.BasicBlock, pred func(condFact) bool) bool {
	for _, fa := range Facts(c, f).At(b) {
		if pred(fa) {
			return true
		}
	}
	return false
}

func init() {
	register(&Rule{
		Name:  "OPT-drivequirk",
		Doc:   "the Windows drive-letter quirk of the path state (X| becomes X:), which the skip-drive-letter option switches off, stands under url.scheme == \"file\" and an empty path as well as under the drive-letter test: every read of the option is dominated by all three (the standard applies the quirk to the first segment of a file URL only)",
		Props: []string{"C01"},
		Floor: 1,
		Run: func(c *Ctx, s *core.Sink) {
			n := 0
			for _, f := range c.P.ModFns {
				if isInitializer(f) || (f.Parent() != nil && strings.HasPrefix(f.Parent().Name(), "With")) {
					continue
				}
				for _, b := range f.Blocks {
					for _, ins := range b.Instrs {
						ld, ok := ins.(*ssa.UnOp)
						if !ok || optLoad(ld) != "skipWindowsDriveLetterNormalization" {
							continue
						}
						n++
						pos := c.P.Pos(ld.Pos())
						// the quirk itself (which the option switches off) applies, in the standard, only to a file URL whose
						// path is still empty: the option is consulted under those two tests as well
						isFile := func(bb *ssa.BasicBlock) bool {
							return hasFactIn(c, f, bb, func(fa condFact) bool {
								bo, ok := fa.Cond.(*ssa.BinOp)
								if !ok {
									return false
								}
								if rel, _ := relOf(bo.Op, fa.Val); rel != token.EQL {
									return false
								}
								for _, pr := range [][2]ssa.Value{{bo.X, bo.Y}, {bo.Y, bo.X}} {
									if k, isK := constString(pr[1]); isK && k == "file" {
										if _, isScheme := loadOfField(pr[0], "Url:scheme"); isScheme {
											return true
										}
									}
								}
								return false
							})
						}
						isEmptyPath := func(bb *ssa.BasicBlock) bool {
							return hasFactIn(c, f, bb, func(fa condFact) bool {
								// url.path.isEmpty() answered true
								if call, ok := fa.Cond.(*ssa.Call); ok && fa.Val {
									if cl := call.Common().StaticCallee(); cl != nil && namedOf(recvType(cl)) == "path" && len(call.Common().Args) == 1 && strings.Contains(strings.ToLower(cl.Name()), "empty") {
										return true
									}
								}
								// len(url.path.p) == 0 (or < 1)
								if bo, ok := fa.Cond.(*ssa.BinOp); ok {
									rel, okR := relOf(bo.Op, fa.Val)
									if a, isLen := lenArg(bo.X); okR && isLen {
										if _, isSegs := loadOfFieldByType(a, "path"); isSegs {
											if k, isK := constInt(bo.Y); isK && ((rel == token.EQL && k == 0) || (rel == token.LSS && k == 1) || (rel == token.LEQ && k == 0)) {
												return true
											}
										}
									}
								}
								return false
							})
						}
						qkey := fmt.Sprintf("drivequirk/%s#%d", core.FuncName(f), n)
						s.Check(atLoadOrUses(f, ld, isFile) && atLoadOrUses(f, ld, isEmptyPath), qkey, pos,
							"the drive-letter quirk the option switches off stands under url.scheme == \"file\" and an empty path, as in the standard",
							"the drive-letter quirk (and the option that switches it off) is not confined to a file URL whose path is still empty: the standard rewrites X| to X: only in the first segment of a file URL")
					}
				}
			}
			if n == 0 {
				s.Unknown("drivequirk/anchor", "-", "the option skipWindowsDriveLetterNormalization is read nowhere: the quirk's condition cannot be named")
			}
		},
	})
}
