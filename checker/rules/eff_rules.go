package rules

import (
	"fmt"
	"go/ast"
	"go/token"
	"go/types"
	"sort"
	"strings"

	"golang.org/x/tools/go/ssa"

	"wucheck/core"
)

// configTypes are the types whose values are shared, frozen configuration once a constructor has returned.
var configTypes = map[string]bool{
	"parser": true, "parserOptions": true, "profile": true, "PercentEncodeSet": true, "BitSet": true,
	"funcParserOption": true, "funcCanonParserOption": true, "Charmap": true,
}

func isInitializer(f *ssa.Function) bool {
	for g := f; g != nil; g = g.Parent() {
		if g.Name() == "init" || strings.HasPrefix(g.Name(), "init#") {
			return true
		}
	}
	return false
}

// namedTypes indexes the named struct types of the module and of bitset by simple name.
func namedTypes(c *Ctx) map[string]*types.Named {
	return c.Memo("namedTypes", func() interface{} {
		m := map[string]*types.Named{}
		add := func(pk *types.Package) {
			for _, n := range pk.Scope().Names() {
				if tn, ok := pk.Scope().Lookup(n).(*types.TypeName); ok {
					if nt, ok := tn.Type().(*types.Named); ok {
						m[n] = nt
					}
				}
			}
		}
		for _, pk := range c.P.Roots {
			add(pk.Types)
		}
		if bp := c.P.AllPkgs[core.BitsetPath]; bp != nil {
			add(bp.Types)
		}
		return m
	}).(map[string]*types.Named)
}

func elemFieldType(c *Ctx, el string) types.Type {
	i := strings.Index(el, ":")
	if i < 0 {
		return nil
	}
	nt := namedTypes(c)[el[:i]]
	if nt == nil {
		return nil
	}
	st, ok := nt.Underlying().(*types.Struct)
	if !ok {
		return nil
	}
	for k := 0; k < st.NumFields(); k++ {
		if st.Field(k).Name() == el[i+1:] {
			return st.Field(k).Type()
		}
	}
	return nil
}

func namedOf(t types.Type) string {
	for {
		switch x := t.(type) {
		case *types.Pointer:
			t = x.Elem()
			continue
		case *types.Named:
			return x.Obj().Name()
		}
		return ""
	}
}

// traversesConfig tells whether writing at path writes into (or below) an object of a configuration type.
func traversesConfig(c *Ctx, path string) (bool, string) {
	elems := pathElems(path)
	for i, el := range elems {
		if j := strings.Index(el, ":"); j >= 0 {
			if configTypes[el[:j]] {
				return true, el
			}
			if i < len(elems)-1 {
				if ft := elemFieldType(c, el); ft != nil && configTypes[namedOf(ft)] {
					return true, el
				}
			}
		}
	}
	return false, ""
}

// throughStores computes W: the fields T:f such that some code stores through a pointer loaded from that field.
func throughStores(c *Ctx) map[string]token.Pos {
	return c.Memo("throughStores", func() interface{} {
		e := BuildEff(c)
		W := map[string]token.Pos{}
		// paramThrough[fn][i]: fn stores through the pointer passed as parameter i (directly or via a callee)
		paramThrough := map[*ssa.Function]map[int]bool{}
		isAddrOp := func(v ssa.Value) bool {
			switch v.(type) {
			case *ssa.FieldAddr, *ssa.IndexAddr, *ssa.Alloc, *ssa.Global:
				return true
			}
			return false
		}
		lastElem := func(p string) string {
			el := pathElems(p)
			if len(el) == 0 {
				return ""
			}
			return el[len(el)-1]
		}
		note := func(st *effFn, v ssa.Value, pos token.Pos) bool {
			ch := false
			for r := range st.valRoots(v) {
				if !isPrePath(r) {
					continue
				}
				if le := lastElem(r); le != "" && le != "[]" && le != "*" {
					if _, ok := W[le]; !ok {
						W[le] = pos
						ch = true
					}
				} else if le == "" && strings.HasPrefix(r, "P") {
					var idx int
					fmt.Sscanf(r[1:], "%d", &idx)
					if paramThrough[st.fn] == nil {
						paramThrough[st.fn] = map[int]bool{}
					}
					if !paramThrough[st.fn][idx] {
						paramThrough[st.fn][idx] = true
						ch = true
					}
				}
			}
			return ch
		}
		for changed := true; changed; {
			changed = false
			for _, f := range e.Fns {
				if !c.P.InModule(f) {
					continue
				}
				st := e.St[f]
				for _, b := range f.Blocks {
					for _, ins := range b.Instrs {
						switch x := ins.(type) {
						case *ssa.Store:
							if !isAddrOp(x.Addr) {
								changed = note(st, x.Addr, x.Pos()) || changed
							}
						case ssa.CallInstruction:
							for _, callee := range c.P.Callees(f, x) {
								pt := paramThrough[callee]
								if pt == nil {
									continue
								}
								com := x.Common()
								argv := com.Args
								if com.IsInvoke() {
									argv = append([]ssa.Value{com.Value}, com.Args...)
								}
								for i, a := range argv {
									if pt[i] && !isAddrOp(a) {
										changed = note(st, a, x.Pos()) || changed
									}
								}
							}
						}
					}
				}
			}
		}
		return W
	}).(map[string]token.Pos)
}

// extendedElems: fields T:f such that some Mut path continues below them (the object the field refers to is written).
func extendedElems(c *Ctx) map[string]string {
	return c.Memo("extendedElems", func() interface{} {
		e := BuildEff(c)
		m := map[string]string{}
		for _, f := range e.Fns {
			if !c.P.InModule(f) {
				continue
			}
			for p := range e.Sum(f).Mut {
				el := pathElems(p)
				for i := 0; i+1 < len(el); i++ {
					if _, ok := m[el[i]]; !ok {
						m[el[i]] = core.FuncName(f) + " writes " + p
					}
				}
			}
		}
		return m
	}).(map[string]string)
}

// closure computes everything reachable from the start set through the summary heap.
func closure(s *effSummary, start pset) pset {
	seen := pset{}
	var work []string
	for k := range start {
		if seen.add(k) {
			work = append(work, k)
		}
	}
	for len(work) > 0 {
		n := work[0]
		work = work[1:]
		prefix := n + "."
		for k, h := range s.Heap {
			if k == n || strings.HasPrefix(k, prefix) {
				for o := range h {
					if seen.add(o) {
						work = append(work, o)
					}
				}
			}
		}
	}
	return seen
}

// sharedReferentOK decides whether a non-fresh referent in the closure of a copy is harmless.
func sharedReferentOK(c *Ctx, ref string) (bool, string) {
	if strings.HasPrefix(ref, "R") {
		return true, "fresh"
	}
	if strings.HasPrefix(ref, "G:") {
		return true, "package-level table (never written after initialisation: EFF-globals)"
	}
	elems := pathElems(ref)
	if len(elems) == 0 {
		return false, "the original object itself"
	}
	last := elems[len(elems)-1]
	if ok, el := traversesConfig(c, ref); ok {
		return true, "frozen configuration (" + el + ", see EFF-config)"
	}
	if ft := elemFieldType(c, last); ft != nil && configTypes[namedOf(ft)] {
		return true, "frozen configuration object (" + last + ", see EFF-config)"
	}
	if last == "*" || last == "[]" {
		return false, "shares elements of the original (" + ref + ")"
	}
	if pos, ok := throughStores(c)[last]; ok {
		return false, fmt.Sprintf("shares the referent of %s, which is stored through at %s", last, c.P.Pos(pos))
	}
	if why, ok := extendedElems(c)[last]; ok {
		return false, fmt.Sprintf("shares the object behind %s, which is written (%s)", last, why)
	}
	return true, "referent of " + last + " is never written anywhere in the module (only replaced)"
}

func init() {
	register(&Rule{
		Name:  "EFF-ext",
		Doc:   "every function outside the module and bitset that module code may call is covered by the reviewed external table",
		Props: []string{"C13", "C14", "C12", "C10"},
		Floor: 15,
		Run: func(c *Ctx, s *core.Sink) {
			e := BuildEff(c)
			seen := map[string]token.Pos{}
			known := map[string]bool{}
			for _, f := range e.Fns {
				if !c.P.InModule(f) {
					continue
				}
				for _, b := range f.Blocks {
					for _, ins := range b.Instrs {
						ci, ok := ins.(ssa.CallInstruction)
						if !ok {
							continue
						}
						for _, callee := range c.P.Callees(f, ci) {
							if e.St[callee] != nil {
								continue
							}
							n := callee.String()
							if _, ok := seen[n]; !ok {
								seen[n] = ci.Pos()
								_, k := e.Ext.lookup(callee)
								known[n] = k
							}
						}
					}
				}
			}
			var names []string
			for n := range seen {
				names = append(names, n)
			}
			sort.Strings(names)
			for _, n := range names {
				if known[n] {
					s.OK("ext/"+n, c.P.Pos(seen[n]), "covered by tables/external.json")
				} else {
					s.Unknown("ext/"+n, c.P.Pos(seen[n]), "external callee not covered by tables/external.json: its effect on arguments is unknown")
				}
			}
		},
	})

	register(&Rule{
		Name:  "EFF-globals",
		Doc:   "no function other than a package initialiser may write memory reachable from a package-level variable",
		Props: []string{"C14", "C10"},
		Floor: 15,
		Run: func(c *Ctx, s *core.Sink) {
			e := BuildEff(c)
			// writers per global
			writers := map[string][]string{}
			for _, f := range e.Fns {
				if !c.P.InModule(f) || isInitializer(f) {
					continue
				}
				sum := e.Sum(f)
				for _, g := range sum.MutGlobals() {
					r := rootOf(g)
					writers[r] = append(writers[r], fmt.Sprintf("%s writes %s at %s", core.FuncName(f), g, c.P.Pos(sum.MutSites[g])))
				}
			}
			var pkgs []*ssa.Package
			for _, n := range []string{"url", "canonicalizer", "errors"} {
				pkgs = append(pkgs, c.P.SSAPkg[n])
			}
			if bp := c.P.SSA.ImportedPackage(core.BitsetPath); bp != nil {
				pkgs = append(pkgs, bp)
			}
			for _, sp := range pkgs {
				var names []string
				for n, m := range sp.Members {
					if _, ok := m.(*ssa.Global); ok && n != "init$guard" {
						names = append(names, n)
					}
				}
				sort.Strings(names)
				for _, n := range names {
					g := sp.Members[n].(*ssa.Global)
					key := "G:" + sp.Pkg.Name() + "/" + n
					props := []string{"C14"}
					tn := namedOf(g.Type())
					if tn == "PercentEncodeSet" || tn == "BitSet" {
						props = []string{"C14", "C10"}
					}
					if w := writers[key]; len(w) > 0 {
						s.Bad("global/"+sp.Pkg.Name()+"."+n, c.P.Pos(g.Pos()), "written after initialisation: "+strings.Join(w, "; "), props...)
					} else {
						s.OK("global/"+sp.Pkg.Name()+"."+n, c.P.Pos(g.Pos()), "no path rooted at this variable is in Mut of any non-initialiser function", props...)
					}
				}
			}
		},
	})

	register(&Rule{
		Name:  "EFF-derive",
		Doc:   "methods deriving a PercentEncodeSet return a fresh set (fresh bitset included) and never write the set they derive from",
		Props: []string{"C10", "C14"},
		Floor: 2,
		Run: func(c *Ctx, s *core.Sink) {
			e := BuildEff(c)
			pes := c.P.Type("url", "PercentEncodeSet")
			if pes == nil {
				s.Unknown("type/PercentEncodeSet", "-", "anchor type url.PercentEncodeSet not found")
				return
			}
			found := 0
			for _, f := range c.P.ExportedAPI() {
				sig := f.Signature
				if sig.Recv() == nil || namedOf(sig.Recv().Type()) != "PercentEncodeSet" {
					continue
				}
				if sig.Results().Len() != 1 || namedOf(sig.Results().At(0).Type()) != "PercentEncodeSet" {
					continue
				}
				found++
				sum := e.Sum(f)
				key := "derive/" + core.FuncName(f)
				if m := sum.MutRootedAt(0); len(m) > 0 {
					s.Bad(key, c.P.Pos(sum.MutSites[m[0]]), "writes the receiver: "+strings.Join(m, ", "))
					continue
				}
				bad := ""
				if len(sum.Ret) == 0 {
					bad = "no result summary"
				} else {
					for r := range closure(sum, unmarkAddr(sum.Ret[0])) {
						if !strings.HasPrefix(r, "R") {
							bad = "result reaches " + r + " (shared with the parent set)"
						}
					}
				}
				s.Check(bad == "", key, c.P.Pos(f.Pos()), "Mut(receiver)=∅ and the result's closure is entirely fresh", bad)
			}
			if found == 0 {
				s.Unknown("derive/none", "-", "no deriving method found on PercentEncodeSet")
			}
		},
	})

	register(&Rule{
		Name:  "EFF-config",
		Doc:   "no exported function or method writes into a parser, parserOptions, profile, PercentEncodeSet or bitset object that existed before the call (configuration is frozen once its constructor returns)",
		Props: []string{"C14"},
		Floor: 40,
		Run: func(c *Ctx, s *core.Sink) {
			e := BuildEff(c)
			for _, f := range c.P.ExportedAPI() {
				sum := e.Sum(f)
				if sum == nil {
					continue
				}
				var bad []string
				var pos token.Pos
				for _, m := range sum.Mut.sorted() {
					if strings.HasPrefix(m, "G:") {
						continue // EFF-globals
					}
					if ok, el := traversesConfig(c, m); ok {
						bad = append(bad, m+" (via "+el+")")
						pos = sum.MutSites[m]
					}
				}
				key := "api/" + core.FuncName(f)
				if len(bad) > 0 {
					s.Bad(key, c.P.Pos(pos), "writes pre-existing configuration: "+strings.Join(bad, ", "))
				} else {
					s.OK(key, c.P.Pos(f.Pos()), "no Mut path traverses a configuration object")
				}
			}
		},
	})

	register(&Rule{
		Name:  "EFF-read",
		Doc:   "the read API (getters, Href/String, ValidationErrors, Clone, (*Url).Parse, Parse/ParseRef of parser and profile, BasicParser w.r.t. its base) writes nothing reachable from the receiver / base",
		Props: []string{"C14", "C13"},
		Floor: 12,
		Run: func(c *Ctx, s *core.Sink) {
			e := BuildEff(c)
			for _, f := range c.P.ExportedAPI() {
				sig := f.Signature
				if sig.Recv() == nil {
					continue
				}
				rn := namedOf(sig.Recv().Type())
				name := f.Name()
				var props []string
				switch {
				case rn == "Url" && strings.HasPrefix(name, "Set"):
					continue
				case rn == "Url" && name == "SearchParams":
					continue // lazily-initialising accessor of a mutable handle: excluded and reported in DESIGN/C14
				case rn == "Url" && (name == "Parse" || name == "Clone"):
					props = []string{"C14", "C13"}
				case rn == "Url":
					props = []string{"C14"}
				case (rn == "parser" || rn == "profile") && (name == "Parse" || name == "ParseRef" || name == "PercentEncodeString" || name == "DecodePercentEncoded" || name == "ToASCII" || name == "NewUrl"):
					props = []string{"C14"}
				case rn == "PercentEncodeSet":
					props = []string{"C14"}
				default:
					continue
				}
				sum := e.Sum(f)
				key := "read/" + core.FuncName(f)
				if m := sum.MutRootedAt(0); len(m) > 0 {
					s.Bad(key, c.P.Pos(sum.MutSites[m[0]]), "writes memory reachable from its receiver: "+strings.Join(m, ", "), props...)
				} else {
					s.OK(key, c.P.Pos(f.Pos()), "Mut contains no path rooted at the receiver", props...)
				}
			}
			// BasicParser never writes its base argument
			for _, recv := range []string{"parser"} {
				bp := c.P.Func("url", recv, "BasicParser")
				if bp == nil {
					s.Unknown("read/BasicParser", "-", "anchor (*parser).BasicParser not found", "C13", "C14")
					continue
				}
				sum := e.Sum(bp)
				if m := sum.MutRootedAt(2); len(m) > 0 {
					s.Bad("read/"+core.FuncName(bp)+"/base", c.P.Pos(sum.MutSites[m[0]]), "writes memory reachable from the base argument: "+strings.Join(m, ", "), "C13", "C14")
				} else {
					s.OK("read/"+core.FuncName(bp)+"/base", c.P.Pos(bp.Pos()), "Mut contains no path rooted at the base argument", "C13", "C14")
				}
			}
			// package-level wrappers
			for _, n := range []string{"Parse", "ParseRef"} {
				f := c.P.Func("url", "", n)
				if f == nil {
					s.Unknown("read/url."+n, "-", "anchor not found", "C14")
					continue
				}
				sum := e.Sum(f)
				if len(sum.Mut) > 0 {
					s.Bad("read/url."+n, c.P.Pos(f.Pos()), "writes pre-existing memory: "+strings.Join(sum.Mut.sorted(), ", "), "C14")
				} else {
					s.OK("read/url."+n, c.P.Pos(f.Pos()), "Mut=∅", "C14")
				}
			}
		},
	})

	register(&Rule{
		Name:  "EFF-clonepure",
		Doc:   "copy functions (clone*, Clone*) only build fresh objects: they write no memory that existed before the call, neither of the value they copy nor of any other argument",
		Props: []string{"C13"},
		Floor: 2,
		Run: func(c *Ctx, s *core.Sink) {
			e := BuildEff(c)
			for _, f := range e.Fns {
				if !c.P.InModule(f) || f.Synthetic != "" {
					continue
				}
				if !strings.HasPrefix(strings.ToLower(f.Name()), "clone") {
					continue
				}
				sum := e.Sum(f)
				key := "clonepure/" + core.FuncName(f)
				if len(sum.Mut) > 0 {
					m := sum.Mut.sorted()
					s.Bad(key, c.P.Pos(sum.MutSites[m[0]]), "a copy function writes pre-existing memory ("+strings.Join(m, ", ")+"): the copy, or the value it is bound to, is no longer a faithful copy of the original")
				} else {
					s.OK(key, c.P.Pos(f.Pos()), "Mut=∅")
				}
			}
		},
	})

	register(&Rule{
		Name:      "EFF-result",
		Doc:       "the result of Clone, of (*Url).Parse and of BasicParser reaches no memory of the original / base except frozen configuration and referents that are never written",
		Props:     []string{"C13", "C12"},
		PropFloor: map[string]int{"C13": 3},
		Floor:     3,
		Run: func(c *Ctx, s *core.Sink) {
			e := BuildEff(c)
			type tgt struct {
				f     *ssa.Function
				param int
				what  string
				rule  string
			}
			var ts []tgt
			if f := c.P.Func("url", "Url", "Clone"); f != nil {
				ts = append(ts, tgt{f, 0, "the original", "deepclone"})
			} else {
				s.Unknown("result/Clone", "-", "anchor (*Url).Clone not found")
			}
			if f := c.P.Func("url", "Url", "Parse"); f != nil {
				ts = append(ts, tgt{f, 0, "the base (receiver)", "result"})
			} else {
				s.Unknown("result/(*Url).Parse", "-", "anchor not found")
			}
			if f := c.P.Func("url", "parser", "BasicParser"); f != nil {
				ts = append(ts, tgt{f, 2, "the base argument", "baseclone"})
			} else {
				s.Unknown("result/BasicParser", "-", "anchor not found")
			}
			for _, t := range ts {
				sum := e.Sum(t.f)
				key := t.rule + "/" + core.FuncName(t.f)
				if len(sum.Ret) == 0 {
					s.Unknown(key, c.P.Pos(t.f.Pos()), "no result summary")
					continue
				}
				pre := fmt.Sprintf("P%d", t.param)
				start := pset{}
				start.addAll(unmarkAddr(sum.Ret[0]))
				if t.rule == "baseclone" {
					// also what the parser stores into the url it was given (setter route) must not reach the base
					for k, h := range sum.Heap {
						if rootOf(k) == "P3" {
							start.addAll(h)
						}
					}
				}
				var bad []string
				n := 0
				for r := range closure(sum, start) {
					if rootOf(r) != pre {
						continue
					}
					n++
					if ok, why := sharedReferentOK(c, r); !ok {
						bad = append(bad, r+": "+why)
					}
				}
				sort.Strings(bad)
				if len(bad) > 0 {
					props := []string{"C13"}
					if strings.Contains(strings.Join(bad, " "), "SearchParams:") {
						props = []string{"C13", "C12"}
					}
					s.Bad(key, c.P.Pos(t.f.Pos()), "result shares mutable state with "+t.what+": "+strings.Join(bad, "; "), props...)
				} else {
					s.OK(key, c.P.Pos(t.f.Pos()), fmt.Sprintf("closure of the result: %d referents rooted at %s, all frozen configuration or never-written", n, t.what))
				}
			}
		},
	})

	register(&Rule{
		Name:  "EFF-backptr",
		Doc:   "every SearchParams stored into Url.searchParams of object o has its url back-pointer referring to o and only o",
		Props: []string{"C12", "C13"},
		Floor: 2,
		Run: func(c *Ctx, s *core.Sink) {
			e := BuildEff(c)
			urlT := c.P.Type("url", "Url")
			spT := c.P.Type("url", "SearchParams")
			fi := core.FieldIndex(urlT, "searchParams")
			if fi < 0 || core.FieldIndex(spT, "url") < 0 {
				s.Unknown("backptr/anchors", "-", "fields Url.searchParams / SearchParams.url not found")
				return
			}
			for _, f := range e.Fns {
				if !c.P.InModule(f) {
					continue
				}
				st := e.St[f]
				n := 0
				for _, b := range f.Blocks {
					for _, ins := range b.Instrs {
						store, ok := ins.(*ssa.Store)
						if !ok {
							continue
						}
						fa, ok := store.Addr.(*ssa.FieldAddr)
						if !ok || fa.Field != fi || namedOf(fa.X.Type()) != "Url" {
							continue
						}
						if isNilConst(store.Val) {
							continue
						}
						n++
						key := fmt.Sprintf("backptr/%s/store#%d", core.FuncName(f), n)
						owners := st.valRoots(fa.X)
						vals := st.valRoots(store.Val)
						var bad []string
						if len(owners) != 1 {
							bad = append(bad, fmt.Sprintf("the URL stored into is not a single object: %v", owners.sorted()))
						}
						for v := range vals {
							// the list the field already holds, stored back (`sp := u.searchParams; if sp == nil { sp = … };
							// u.searchParams = sp`): nothing changes
							self := false
							for o := range owners {
								if v == e.ext1(o, "Url:searchParams") {
									self = true
								}
							}
							if self {
								continue
							}
							var back pset
							loc := e.ext1(v, "SearchParams:url")
							back = st.load(pset{loc: {}})
							if len(back) == 0 {
								bad = append(bad, "list "+v+" has no back-pointer (nil url: mutations write nowhere)")
							}
							for b := range back {
								if !owners.has(b) {
									bad = append(bad, fmt.Sprintf("list %s writes through to %s, not to the URL it is attached to %v", v, b, owners.sorted()))
								}
							}
						}
						if len(vals) == 0 {
							bad = append(bad, "stored value has no known referent")
						}
						sort.Strings(bad)
						if len(bad) > 0 {
							s.Bad(key, c.P.Pos(store.Pos()), strings.Join(bad, "; "))
						} else {
							s.OK(key, c.P.Pos(store.Pos()), fmt.Sprintf("list %v has url → %v", vals.sorted(), owners.sorted()))
						}
					}
				}
			}
		},
	})

	register(&Rule{
		Name:  "EFF-pure",
		Doc:   "the host callbacks installed by the predefined profiles write nothing (neither their URL argument nor captured or package-level state)",
		Props: []string{"C14"},
		Floor: 2,
		Run: func(c *Ctx, s *core.Sink) {
			e := BuildEff(c)
			// the callbacks: function values (literals or named functions) handed to an option constructor by the package
			// initialiser that builds the predefined profiles
			cbs := map[*ssa.Function]bool{}
			for _, f := range e.Fns {
				if core.PkgPathOf(f) != core.ModPath+"/canonicalizer" || !isInitializer(f) {
					continue
				}
				for _, b := range f.Blocks {
					for _, ins := range b.Instrs {
						call, ok := ins.(*ssa.Call)
						if !ok {
							continue
						}
						for _, a := range call.Common().Args {
							switch x := a.(type) {
							case *ssa.Function:
								cbs[x] = true
							case *ssa.MakeClosure:
								if fn, ok := x.Fn.(*ssa.Function); ok {
									cbs[fn] = true
								}
							}
						}
					}
				}
			}
			var fs []*ssa.Function
			for f := range cbs {
				fs = append(fs, f)
			}
			sort.Slice(fs, func(i, j int) bool { return fs[i].String() < fs[j].String() })
			for _, f := range fs {
				sum := e.Sum(f)
				if sum == nil {
					s.Unknown("pure/"+core.FuncName(f), c.P.Pos(f.Pos()), "no effect summary for the callback")
					continue
				}
				key := "pure/" + core.FuncName(f)
				if len(sum.Mut) > 0 {
					s.Bad(key, c.P.Pos(f.Pos()), "profile callback writes "+strings.Join(sum.Mut.sorted(), ", "))
				} else {
					s.OK(key, c.P.Pos(f.Pos()), "Mut=∅")
				}
			}
		},
	})

	register(&Rule{
		Name:  "EFF-determ",
		Doc:   "code reachable from the read API iterates over no map and uses no time, randomness, goroutine, channel or OS facility (results do not depend on the schedule)",
		Props: []string{"C14"},
		Floor: 30,
		Run: func(c *Ctx, s *core.Sink) {
			e := BuildEff(c)
			banned := map[string]bool{"time": true, "math/rand": true, "math/rand/v2": true, "crypto/rand": true, "os": true, "sync/atomic": true, "runtime": true, "net": true, "os/exec": true, "syscall": true}
			for _, f := range e.Fns {
				if !c.P.InModule(f) || isInitializer(f) {
					continue
				}
				var bad []string
				var pos token.Pos
				for _, b := range f.Blocks {
					for _, ins := range b.Instrs {
						switch x := ins.(type) {
						case *ssa.Range:
							if _, ok := x.X.Type().Underlying().(*types.Map); ok {
								bad = append(bad, "iterates over a map (order is random)")
								pos = x.Pos()
							}
						case *ssa.Go:
							bad = append(bad, "starts a goroutine")
							pos = x.Pos()
						case *ssa.Select, *ssa.Send, *ssa.MakeChan:
							bad = append(bad, "uses a channel")
							pos = ins.Pos()
						case *ssa.UnOp:
							if x.Op == token.ARROW {
								bad = append(bad, "receives from a channel")
								pos = x.Pos()
							}
						case ssa.CallInstruction:
							for _, callee := range c.P.Callees(f, x) {
								if pp := core.PkgPathOf(callee); banned[pp] {
									bad = append(bad, "calls "+callee.String())
									pos = x.Pos()
								}
							}
						}
					}
				}
				key := "determ/" + core.FuncName(f)
				if len(bad) > 0 {
					s.Bad(key, c.P.Pos(pos), strings.Join(bad, "; "))
				} else {
					s.OK(key, c.P.Pos(f.Pos()), "no schedule- or environment-dependent construct")
				}
			}
		},
	})
	_ = ast.IsExported
}

// unmarkAddr: result paths marked as addresses ("&P0.f": a pointer into memory that existed before the call) count
// like the memory they point into.
func unmarkAddr(ps pset) pset {
	out := pset{}
	for p := range ps {
		out.add(strings.TrimPrefix(p, "&"))
	}
	return out
}
