package rules

// A flattened view of a function with selected callees inlined (virtually): segments of basic blocks, split at the
// calls that are looked through; a looked-through call leads into the callee's entry and the callee's returns lead to
// the rest of the calling block. Path rules (must-pass-through) run on this graph, so that moving part of a method into
// an unexported helper does not change what they see.

import (
	"go/constant"
	"go/token"
	"go/types"

	"golang.org/x/tools/go/ssa"
)

type fnode struct {
	Fn     *ssa.Function
	Block  *ssa.BasicBlock
	Instrs []ssa.Instruction
	Succs  []*fnode
	If     *ssa.If     // the segment ends with this branch: Succs[0] is the true edge, Succs[1] the false edge
	Ret    *ssa.Return // the segment ends with a return of the root function
	// the segment ends with a return of an inlined callee: the call it returns to and the values it returns
	RetOf   *ssa.Call
	RetVals []ssa.Value
	bind    map[ssa.Value]ssa.Value
}

// Root maps a value of the node's function to the root function's value it stands for.
func (n *fnode) Root(v ssa.Value) ssa.Value {
	for i := 0; i < 8; i++ {
		r, ok := n.bind[v]
		if !ok {
			// a field of a struct the function was handed by value: what the caller put into that field
			if w, ok2 := n.fieldOfStructArg(v); ok2 {
				return w
			}
			return v
		}
		v = r
	}
	return v
}

// fieldOfStructArg: v loads field k of (the spilled copy of) a struct parameter, and the caller passed the value of a
// local struct literal: the value the caller stored into field k of that literal — or the zero value of the field if
// it stored none.
func (n *fnode) fieldOfStructArg(v ssa.Value) (ssa.Value, bool) {
	ld, ok := v.(*ssa.UnOp)
	if !ok || ld.Op != token.MUL {
		return nil, false
	}
	fa, ok := ld.X.(*ssa.FieldAddr)
	if !ok {
		return nil, false
	}
	spill, ok := fa.X.(*ssa.Alloc)
	if !ok {
		return nil, false
	}
	single := func(al *ssa.Alloc) ssa.Value {
		var val ssa.Value
		k := 0
		for _, r := range *al.Referrers() {
			if st, ok := r.(*ssa.Store); ok && st.Addr == ssa.Value(al) {
				val = st.Val
				k++
			}
		}
		if k != 1 {
			return nil
		}
		return val
	}
	pv := single(spill)
	if pv == nil {
		return nil, false
	}
	if _, isP := pv.(*ssa.Parameter); !isP {
		return nil, false
	}
	av, bound := n.bind[pv]
	if !bound {
		return nil, false
	}
	ald, ok := av.(*ssa.UnOp)
	if !ok || ald.Op != token.MUL {
		return nil, false
	}
	lit, ok := ald.X.(*ssa.Alloc)
	if !ok {
		return nil, false
	}
	var w ssa.Value
	k := 0
	for _, r := range *lit.Referrers() {
		switch x := r.(type) {
		case *ssa.FieldAddr:
			for _, r2 := range *x.Referrers() {
				if st, ok := r2.(*ssa.Store); ok && st.Addr == ssa.Value(x) {
					if x.Field == fa.Field {
						w = st.Val
						k++
					}
				} else if _, isLd := r2.(*ssa.UnOp); !isLd {
					return nil, false // the field's address goes elsewhere
				}
			}
		case *ssa.UnOp:
		case *ssa.DebugRef:
		default:
			return nil, false // the literal's address goes elsewhere
		}
	}
	switch k {
	case 1:
		return w, true
	case 0:
		return zeroConstOf(ld.Type()), true
	}
	return nil, false
}

func zeroConstOf(t types.Type) ssa.Value {
	switch u := t.Underlying().(type) {
	case *types.Basic:
		switch {
		case u.Info()&types.IsBoolean != 0:
			return ssa.NewConst(constant.MakeBool(false), t)
		case u.Info()&types.IsString != 0:
			return ssa.NewConst(constant.MakeString(""), t)
		case u.Info()&types.IsNumeric != 0:
			return ssa.NewConst(constant.MakeInt64(0), t)
		}
	}
	return ssa.NewConst(nil, t)
}

type flatGraph struct {
	Entry *fnode
	Nodes []*fnode
}

func flatten(c *Ctx, root *ssa.Function, follow func(*ssa.Function) bool, maxDepth int) *flatGraph {
	g := &flatGraph{}
	var inline func(fn *ssa.Function, bind map[ssa.Value]ssa.Value, depth int, stack map[*ssa.Function]bool, after *fnode, site *ssa.Call) *fnode
	inline = func(fn *ssa.Function, bind map[ssa.Value]ssa.Value, depth int, stack map[*ssa.Function]bool, after *fnode, site *ssa.Call) *fnode {
		first := map[*ssa.BasicBlock]*fnode{}
		last := map[*ssa.BasicBlock]*fnode{}
		for _, b := range fn.Blocks {
			cur := &fnode{Fn: fn, Block: b, bind: bind}
			g.Nodes = append(g.Nodes, cur)
			first[b] = cur
			for _, ins := range b.Instrs {
				cur.Instrs = append(cur.Instrs, ins)
				call, ok := ins.(*ssa.Call)
				if !ok {
					continue
				}
				cl := call.Common().StaticCallee()
				if cl == nil || len(cl.Blocks) == 0 || depth >= maxDepth || stack[cl] || !follow(cl) {
					continue
				}
				// split: the rest of the block continues after the callee returns
				rest := &fnode{Fn: fn, Block: b, bind: bind}
				g.Nodes = append(g.Nodes, rest)
				nb := map[ssa.Value]ssa.Value{}
				for k, v := range bind {
					nb[k] = v
				}
				for i, p := range cl.Params {
					if i < len(call.Common().Args) {
						nb[p] = cur.Root(call.Common().Args[i])
					}
				}
				stack[cl] = true
				entry := inline(cl, nb, depth+1, stack, rest, call)
				delete(stack, cl)
				cur.Succs = []*fnode{entry}
				cur = rest
			}
			last[b] = cur
		}
		for _, b := range fn.Blocks {
			n := last[b]
			switch t := b.Instrs[len(b.Instrs)-1].(type) {
			case *ssa.If:
				n.If = t
				n.Succs = []*fnode{first[b.Succs[0]], first[b.Succs[1]]}
			case *ssa.Return:
				if after != nil {
					n.Succs = []*fnode{after}
					n.RetOf, n.RetVals = site, t.Results
				} else {
					n.Ret = t
				}
			default:
				for _, sc := range b.Succs {
					n.Succs = append(n.Succs, first[sc])
				}
			}
		}
		return first[fn.Blocks[0]]
	}
	g.Entry = inline(root, map[ssa.Value]ssa.Value{}, 0, map[*ssa.Function]bool{root: true}, nil, nil)
	return g
}

// find locates the node and index of an instruction of the root function (first instance).
func (g *flatGraph) find(ins ssa.Instruction) (*fnode, int) {
	for _, n := range g.Nodes {
		for i, x := range n.Instrs {
			if x == ins {
				return n, i
			}
		}
	}
	return nil, -1
}

// mustPassFlat: on the flattened graph, every path from (n, idx) (exclusive) to a return of the root function passes an
// instruction accepted by cut, or leaves through an edge accepted by excuse (or panics).
func mustPassFlat(n *fnode, idx int, cut func(n *fnode, ins ssa.Instruction) bool, excuse func(n *fnode, succ int) bool) (bool, *ssa.Return) {
	seen := map[*fnode]bool{}
	var scan func(n *fnode, from int) (bool, *ssa.Return)
	scan = func(n *fnode, from int) (bool, *ssa.Return) {
		for i := from; i < len(n.Instrs); i++ {
			ins := n.Instrs[i]
			if cut(n, ins) {
				return true, nil
			}
			if _, ok := ins.(*ssa.Panic); ok {
				return true, nil
			}
		}
		if n.Ret != nil {
			return false, n.Ret
		}
		for si, succ := range n.Succs {
			if n.If != nil && excuse != nil && excuse(n, si) {
				continue
			}
			if seen[succ] {
				continue
			}
			seen[succ] = true
			if ok, r := scan(succ, 0); !ok {
				return false, r
			}
		}
		return true, nil
	}
	return scan(n, idx+1)
}

// urlHelpers: the unexported functions of the url package that path rules about Url methods look through.
func urlHelpers(c *Ctx) func(*ssa.Function) bool {
	return func(g *ssa.Function) bool {
		if !c.P.InModule(g) || g.Object() == nil || g.Object().Exported() || g.Parent() != nil {
			return false
		}
		switch namedOf(recvType(g)) {
		case "Url":
			return true
		case "SearchParams":
			// helpers of the list that the reference inventory does not know (clear(), …): init, update and the copy
			// functions are anchors of their own rules and stay calls
			return !knownFunc(c, "url", "SearchParams", g.Name())
		case "":
			// plain functions taking a *Url (newSearchParamsFor(u))
			for _, p := range g.Params {
				if namedOf(p.Type()) == "Url" {
					return true
				}
			}
		}
		return false
	}
}

// ---- path enumeration on the flattened graph (decision DAGs spread over helpers) ----

type flatCond struct {
	V   ssa.Value // resolved to a value of the root function where possible
	Pol bool
}

type flatPath struct {
	Conds []flatCond
	Nodes []*fnode
	Ret   *ssa.Return
	// resolve maps a value met on this path to what it stands for: parameters of inlined helpers to the arguments,
	// phis to the edge the path came in by, calls of inlined helpers to what the helper returned on this path
	phi  map[*ssa.Phi]ssa.Value
	call map[*ssa.Call]ssa.Value
}

func (p *flatPath) Resolve(n *fnode, v ssa.Value) ssa.Value {
	for i := 0; i < 16; i++ {
		v = n.Root(v)
		switch x := v.(type) {
		case *ssa.Phi:
			if r, ok := p.phi[x]; ok {
				v = r
				continue
			}
		case *ssa.Call:
			if r, ok := p.call[x]; ok {
				v = r
				continue
			}
		case *ssa.UnOp:
			if x.Op == token.NOT {
				return v
			}
		}
		break
	}
	return v
}

// enumFlatPaths lists the paths from the entry to the returns of the root function; a branch whose condition resolves
// to a boolean constant on the path is followed one way only. ok=false if there is a loop or too many paths.
func enumFlatPaths(g *flatGraph, limit int) ([]*flatPath, bool) {
	var out []*flatPath
	ok := true
	var rec func(n, from *fnode, cur *flatPath, onPath map[*fnode]bool)
	rec = func(n, from *fnode, cur *flatPath, onPath map[*fnode]bool) {
		if !ok {
			return
		}
		if onPath[n] {
			ok = false
			return
		}
		onPath[n] = true
		defer delete(onPath, n)
		np := &flatPath{Conds: cur.Conds, Nodes: append(append([]*fnode(nil), cur.Nodes...), n), phi: map[*ssa.Phi]ssa.Value{}, call: map[*ssa.Call]ssa.Value{}}
		for k, v := range cur.phi {
			np.phi[k] = v
		}
		for k, v := range cur.call {
			np.call[k] = v
		}
		// phis of a block entered from another block of the same function instance
		if from != nil && from.Block != nil && n.Block != nil && from.Fn == n.Fn && len(n.Instrs) > 0 {
			if _, isPhi := n.Instrs[0].(*ssa.Phi); isPhi {
				for _, ins := range n.Instrs {
					ph, ok := ins.(*ssa.Phi)
					if !ok {
						break
					}
					for i, pr := range n.Block.Preds {
						if pr == from.Block {
							np.phi[ph] = cur.Resolve(from, ph.Edges[i])
						}
					}
				}
			}
		}
		if n.RetOf != nil && len(n.RetVals) == 1 {
			np.call[n.RetOf] = np.Resolve(n, n.RetVals[0])
		}
		if n.Ret != nil {
			np.Ret = n.Ret
			out = append(out, np)
			if len(out) > limit {
				ok = false
			}
			return
		}
		if n.If != nil {
			cv := np.Resolve(n, n.If.Cond)
			if k, isK := constBool(cv); isK {
				if k {
					rec(n.Succs[0], n, np, onPath)
				} else {
					rec(n.Succs[1], n, np, onPath)
				}
				return
			}
			t := *np
			t.Conds = append(append([]flatCond(nil), np.Conds...), flatCond{cv, true})
			rec(n.Succs[0], n, &t, onPath)
			f := *np
			f.Conds = append(append([]flatCond(nil), np.Conds...), flatCond{cv, false})
			rec(n.Succs[1], n, &f, onPath)
			return
		}
		for _, sc := range n.Succs {
			rec(sc, n, np, onPath)
		}
	}
	rec(g.Entry, nil, &flatPath{phi: map[*ssa.Phi]ssa.Value{}, call: map[*ssa.Call]ssa.Value{}}, map[*fnode]bool{})
	return out, ok
}

// knownFunc: the reference inventory (spec/names.json) lists a function of this name.
func knownFunc(c *Ctx, pkg, owner, name string) bool {
	m := c.Memo("knownFuncs", func() interface{} {
		out := map[string]bool{}
		var inv struct {
			Entities []struct {
				Kind, Pkg, Owner, Name string
			} `json:"entities"`
		}
		readSpec(c, "names.json", &inv)
		for _, e := range inv.Entities {
			if e.Kind == "func" {
				out[e.Pkg+"."+e.Owner+"."+e.Name] = true
			}
		}
		return out
	}).(map[string]bool)
	return m[pkg+"."+owner+"."+name]
}
