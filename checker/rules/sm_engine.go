package rules

// SM engine: the parser's state machine as an extracted graph (DESIGN §3.1).
//
// Every case clause of the `switch state` in (*parser).BasicParser is enumerated path by path over the AST under a
// context (state override, base nil / non-nil).  Conditions are evaluated in a three-valued logic with
//   - context atoms (stateOverridden, stateOverride == K, base == nil),
//   - the handler summary (a handler called with the literal failure flag true never returns nil; ERR-shape),
//   - rune-class refinement of the current code point r (EOF, each literal compared in the function, OTHER),
//   - condition correlation (a pure condition re-tested with no intervening write keeps its value).
// Nothing is executed: the walker only records which statements lie on which path.

import (
	"fmt"
	"go/ast"
	"go/constant"
	"go/token"
	"go/types"
	"sort"
	"strings"

	"golang.org/x/tools/go/packages"
	"golang.org/x/tools/go/ssa"
	"golang.org/x/tools/go/types/typeutil"

	"wucheck/core"
)

type tri int8

const (
	triF tri = iota
	triT
	triU
)

type smContext struct {
	Name        string
	Override    string // "" or the State constant's name
	OverrideVal int64
	Base        tri             // triT: base != nil, triF: base == nil
	Fixed       map[string]bool // thorough tier: atoms fixed to a value (e.g. "url.IsSpecialScheme()")
	Entry       string          // initial state
}

type fieldEff struct {
	Args   string // for call effects: the argument list as written
	Field  string // Url field name ("path" also for writes below url.path)
	Kind   string // inherit | null | fresh | value | deref | elem | call:<method>
	Detail string
	Pos    token.Pos
}

type cursorOp struct {
	Name  string
	Class string // advance | rewind | neutral
	Pos   token.Pos
}

type handlerUse struct {
	Site  *handlerSite
	Taken tri // triT: the non-nil branch was taken, triF: nil branch, triU: result not tested on this path
}

type callUse struct {
	Callee *types.Func
	Text   string
	Pos    token.Pos
}

type bufWrite struct {
	Buffer     string // name of the strings.Builder local
	Class      string // raw | lower | encoded | literal | other
	Set        string // encode set expression for Class == encoded
	DigitGuard bool   // the written code point passed ASCIIDigit.Test on this path
	Special    tri    // value of url.IsSpecialScheme()/isSpecialScheme(url.scheme) known on the path
	Pos        token.Pos
}

type smPath struct {
	BufWrites        []bufWrite
	BufferEmptyAtEnd bool
	Ctx, State       string
	Next             string // "" = stay in the state
	NextPos          token.Pos
	Returned         bool
	RetKind          string // ok | fail | nilnil | bad
	RetText          string
	RetPos           token.Pos
	Cursor           []cursorOp
	Effects          []fieldEff
	Handlers         []handlerUse
	BaseDerefs       []token.Pos
	Calls            []callUse
	Assumes          []string
	Undecided        []string
	Inlined          []string // helpers walked in place on this path
	Continue         bool     // a `continue` of the main loop lies on the path
	RClass           []string
}

func (p *smPath) Rewinds() bool {
	for _, c := range p.Cursor {
		if c.Class == "rewind" {
			return true
		}
	}
	return false
}

func (p *smPath) HasCall(name string) bool {
	for _, c := range p.Calls {
		if c.Callee != nil && c.Callee.Name() == name {
			return true
		}
	}
	return false
}

// Disposition returns the net disposition of a Url field at the end of the path (last store wins, later calls appended).
func (p *smPath) Disposition(field string) string {
	d := "untouched"
	for _, e := range p.Effects {
		if e.Field != field {
			continue
		}
		switch {
		case e.Kind == "inherit" || e.Kind == "null" || e.Kind == "fresh" || e.Kind == "value":
			d = e.Kind
		case strings.HasPrefix(e.Kind, "call:"):
			if d == "untouched" {
				d = e.Kind
			} else {
				d += "+" + strings.TrimPrefix(e.Kind, "call:")
			}
		case e.Kind == "deref":
			if d == "untouched" {
				d = "deref"
			}
		case e.Kind == "elem":
			if d == "untouched" {
				d = "elem"
			}
		}
	}
	return d
}

type errVar struct {
	useIdx  int // index into path.Handlers, -1 if not a handler result
	failLit tri
	from    string
}

type pst struct {
	defs      map[types.Object]ast.Expr     // locals defined once by a side-effect-free expression whose inputs were not written since
	snap      map[types.Object]bool         // defs `x := B.String()` that outlive B.Reset(): x stands for what B held when it was reset
	valErr    map[types.Object]types.Object // value variable -> error variable of the same tuple assignment
	boolDefs  map[types.Object]ast.Expr     // local bool variables defined once by an expression
	bufState  map[string]string             // builder name -> empty | nonempty
	setVars   map[types.Object]string       // local *PercentEncodeSet variables -> resolved expression
	strVars   map[types.Object]ast.Expr     // local strings defined by an encode call
	path      smPath
	facts     map[string]bool
	rclass    map[string]bool
	eofSynced bool
	errs      map[types.Object]*errVar
	nonNil    map[types.Object]bool
	urlNil    tri
	done      bool
	brk       string
	inl       []inlFrame // helpers being walked in place (innermost last)
}

func (s *pst) clone() *pst {
	n := &pst{path: s.path, eofSynced: s.eofSynced, urlNil: s.urlNil, done: s.done, brk: s.brk}
	n.inl = append([]inlFrame(nil), s.inl...)
	n.path.Inlined = append([]string(nil), s.path.Inlined...)
	n.path.Cursor = append([]cursorOp(nil), s.path.Cursor...)
	n.path.Effects = append([]fieldEff(nil), s.path.Effects...)
	n.path.Handlers = append([]handlerUse(nil), s.path.Handlers...)
	n.path.BaseDerefs = append([]token.Pos(nil), s.path.BaseDerefs...)
	n.path.Calls = append([]callUse(nil), s.path.Calls...)
	n.path.Assumes = append([]string(nil), s.path.Assumes...)
	n.path.Undecided = append([]string(nil), s.path.Undecided...)
	n.path.BufWrites = append([]bufWrite(nil), s.path.BufWrites...)
	n.bufState = map[string]string{}
	for k, v := range s.bufState {
		n.bufState[k] = v
	}
	n.snap = map[types.Object]bool{}
	for k, v := range s.snap {
		n.snap[k] = v
	}
	n.setVars = map[types.Object]string{}
	for k, v := range s.setVars {
		n.setVars[k] = v
	}
	n.strVars = map[types.Object]ast.Expr{}
	for k, v := range s.strVars {
		n.strVars[k] = v
	}
	n.boolDefs = map[types.Object]ast.Expr{}
	for k, v := range s.boolDefs {
		n.boolDefs[k] = v
	}
	n.valErr = map[types.Object]types.Object{}
	for k, v := range s.valErr {
		n.valErr[k] = v
	}
	n.defs = map[types.Object]ast.Expr{}
	for k, v := range s.defs {
		n.defs[k] = v
	}
	n.facts = make(map[string]bool, len(s.facts))
	for k, v := range s.facts {
		n.facts[k] = v
	}
	n.rclass = make(map[string]bool, len(s.rclass))
	for k, v := range s.rclass {
		n.rclass[k] = v
	}
	n.errs = make(map[types.Object]*errVar, len(s.errs))
	for k, v := range s.errs {
		n.errs[k] = v
	}
	n.nonNil = make(map[types.Object]bool, len(s.nonNil))
	for k, v := range s.nonNil {
		n.nonNil[k] = v
	}
	return n
}

// mentions: p occurs in txt as (the beginning of) an identifier path — not inside a longer identifier
// ("err" does not occur in "stateOverride").
func mentions(txt, p string) bool {
	isId := func(c byte) bool {
		return c == '_' || (c >= '0' && c <= '9') || (c >= 'a' && c <= 'z') || (c >= 'A' && c <= 'Z')
	}
	for from := 0; from < len(txt); {
		i := strings.Index(txt[from:], p)
		if i < 0 {
			return false
		}
		i += from
		okBefore := i == 0 || !isId(txt[i-1])
		okAfter := true
		if len(p) > 0 && isId(p[len(p)-1]) && i+len(p) < len(txt) && isId(txt[i+len(p)]) {
			okAfter = false
		}
		if okBefore && okAfter {
			return true
		}
		from = i + 1
	}
	return false
}

func (s *pst) invalidate(prefixes ...string) {
	for o, d := range s.defs {
		if s.snap[o] {
			continue
		}
		txt := types.ExprString(d)
		for _, p := range prefixes {
			if mentions(txt, p) {
				delete(s.defs, o)
				delete(s.boolDefs, o)
				break
			}
		}
	}
	for k := range s.facts {
		for _, p := range prefixes {
			if mentions(k, p) {
				delete(s.facts, k)
				break
			}
		}
	}
}

type predSummary struct {
	runeParam int      // index of the rune parameter compared with a literal (-1 none)
	runeLit   string   // the literal class
	recvAtoms []string // method names called on the receiver in the conjunction (e.g. IsSpecialScheme)
}

type smAn struct {
	c    *Ctx
	pkg  *packages.Package
	info *types.Info
	fd   *ast.FuncDecl
	fn   *ssa.Function
	em   *errModel
	eff  *Eff

	stateObj, inputObj, urlObj, baseObj, baseUrlObj, ovObj, ovParam, rObj types.Object
	stateNames                                                            map[int64]string
	stateVals                                                             map[string]int64
	clauses                                                               map[string]*ast.CaseClause
	clauseOrder                                                           []string
	loop                                                                  *ast.ForStmt
	sw                                                                    *ast.SwitchStmt
	prologue                                                              []ast.Stmt
	cursorClass                                                           map[string]string
	lits                                                                  []string
	preds                                                                 map[*types.Func]*predSummary
	ctx                                                                   smContext
	problems                                                              []string
	carried                                                               map[types.Object]ast.Expr
	decls                                                                 map[*types.Func]*ast.FuncDecl
	inlMemo                                                               map[*types.Func]*ast.FuncDecl
	hostTypes                                                             map[string]bool
	knownFuncs                                                            map[string]bool
	nfresh                                                                int
	doWhile                                                               bool // the main loop tests the end of input in its header (a `continue` passes the test too)
}

// isDoWhileOnEOF recognises `for v := false; !v; v = X.eof` and `for v := true; v; v = !X.eof` with X the input cursor.
func (a *smAn) isDoWhileOnEOF(fs *ast.ForStmt) bool {
	init, ok := fs.Init.(*ast.AssignStmt)
	if !ok || init.Tok != token.DEFINE || len(init.Lhs) != 1 || len(init.Rhs) != 1 {
		return false
	}
	v, ok := init.Lhs[0].(*ast.Ident)
	if !ok {
		return false
	}
	iv, ok := init.Rhs[0].(*ast.Ident)
	if !ok || (iv.Name != "true" && iv.Name != "false") {
		return false
	}
	startTrue := iv.Name == "true"
	isV := func(e ast.Expr) bool {
		id, ok := ast.Unparen(e).(*ast.Ident)
		return ok && a.obj(id) != nil && a.obj(id) == a.info.Defs[v]
	}
	not := func(e ast.Expr) (ast.Expr, bool) {
		u, ok := ast.Unparen(e).(*ast.UnaryExpr)
		if !ok || u.Op != token.NOT {
			return nil, false
		}
		return u.X, true
	}
	isEOF := func(e ast.Expr) bool {
		sel, ok := ast.Unparen(e).(*ast.SelectorExpr)
		if !ok || sel.Sel.Name != "eof" {
			return false
		}
		tv, ok := a.info.Types[sel.X]
		return ok && namedOf(tv.Type) == "inputString"
	}
	post, ok := fs.Post.(*ast.AssignStmt)
	if !ok || post.Tok != token.ASSIGN || len(post.Lhs) != 1 || len(post.Rhs) != 1 || !isV(post.Lhs[0]) {
		return false
	}
	if startTrue {
		// v; v = !eof
		x, neg := not(post.Rhs[0])
		return isV(fs.Cond) && neg && isEOF(x)
	}
	// !v; v = eof
	c, neg := not(fs.Cond)
	return neg && isV(c) && isEOF(post.Rhs[0])
}

type smModel struct {
	An       *smAn
	Contexts []smContext
	Paths    map[string][]*smPath // by context name; prologue paths have State "<prologue>"
	Reach    map[string][]string
	Problems []string
	NPaths   int
}

func (a *smAn) obj(id *ast.Ident) types.Object {
	if o := a.info.Uses[id]; o != nil {
		return o
	}
	return a.info.Defs[id]
}

func (a *smAn) isIdent(e ast.Expr, o types.Object) bool {
	if o == nil {
		return false
	}
	e = ast.Unparen(e)
	id, ok := e.(*ast.Ident)
	return ok && a.obj(id) == o
}

func isNilIdent(e ast.Expr) bool {
	id, ok := ast.Unparen(e).(*ast.Ident)
	return ok && id.Name == "nil"
}

func (a *smAn) str(e ast.Expr) string { return types.ExprString(a.constLits(e, 0)) }

// constLit: an identifier (or pkg.Name) that names a constant of a predeclared type — `fileScheme` for "file", `maxPort`
// for 65535 — reads as its value; constants of the module's own named types (states, error types) keep their names.
func (a *smAn) constLit(e ast.Expr) (ast.Expr, bool) {
	var id *ast.Ident
	switch x := e.(type) {
	case *ast.Ident:
		id = x
	case *ast.SelectorExpr:
		if _, isPkg := a.info.Uses[identOf(x.X)].(*types.PkgName); isPkg {
			id = x.Sel
		}
	}
	if id == nil || a.info == nil {
		return nil, false
	}
	k, ok := a.info.Uses[id].(*types.Const)
	if !ok || k.Pkg() == nil || !strings.HasPrefix(k.Pkg().Path(), core.ModPath) {
		return nil, false
	}
	if _, isBasic := k.Type().(*types.Basic); !isBasic {
		return nil, false
	}
	switch k.Val().Kind() {
	case constant.String:
		return &ast.BasicLit{Kind: token.STRING, Value: k.Val().ExactString()}, true
	case constant.Int:
		return &ast.BasicLit{Kind: token.INT, Value: k.Val().ExactString()}, true
	}
	return nil, false
}

func identOf(e ast.Expr) *ast.Ident {
	id, _ := e.(*ast.Ident)
	return id
}

// constLits copies e with the constants of constLit written out.
func (a *smAn) constLits(e ast.Expr, depth int) ast.Expr {
	if e == nil || depth > 8 {
		return e
	}
	if l, ok := a.constLit(e); ok {
		return l
	}
	switch x := e.(type) {
	case *ast.ParenExpr:
		return &ast.ParenExpr{X: a.constLits(x.X, depth+1)}
	case *ast.UnaryExpr:
		return &ast.UnaryExpr{Op: x.Op, X: a.constLits(x.X, depth+1)}
	case *ast.StarExpr:
		return &ast.StarExpr{X: a.constLits(x.X, depth+1)}
	case *ast.BinaryExpr:
		return &ast.BinaryExpr{X: a.constLits(x.X, depth+1), Op: x.Op, Y: a.constLits(x.Y, depth+1)}
	case *ast.SelectorExpr:
		return &ast.SelectorExpr{X: a.constLits(x.X, depth+1), Sel: x.Sel}
	case *ast.IndexExpr:
		return &ast.IndexExpr{X: a.constLits(x.X, depth+1), Index: a.constLits(x.Index, depth+1)}
	case *ast.CallExpr:
		n := &ast.CallExpr{Fun: x.Fun, Ellipsis: x.Ellipsis}
		if sel, ok := x.Fun.(*ast.SelectorExpr); ok {
			n.Fun = &ast.SelectorExpr{X: a.constLits(sel.X, depth+1), Sel: sel.Sel}
		}
		for _, arg := range x.Args {
			n.Args = append(n.Args, a.constLits(arg, depth+1))
		}
		return n
	}
	return e
}

// key renders a condition with single-assignment locals replaced by their (still valid) definitions, so that
// `newScheme == "file"` after `newScheme := buffer.String()` reads `buffer.String() == "file"`.
func (a *smAn) key(e ast.Expr, s *pst) string {
	if s == nil || len(s.defs) == 0 {
		return types.ExprString(a.constLits(e, 0))
	}
	return types.ExprString(a.constLits(a.subst(e, s, 0), 0))
}

func (a *smAn) subst(e ast.Expr, s *pst, depth int) ast.Expr {
	if depth > 6 {
		return e
	}
	switch x := e.(type) {
	case *ast.Ident:
		if d, ok := s.defs[a.obj(x)]; ok {
			r := a.subst(d, s, depth+1)
			switch r.(type) {
			case *ast.BinaryExpr, *ast.UnaryExpr:
				return &ast.ParenExpr{X: r}
			}
			return r
		}
		return x
	case *ast.ParenExpr:
		return &ast.ParenExpr{X: a.subst(x.X, s, depth+1)}
	case *ast.UnaryExpr:
		return &ast.UnaryExpr{Op: x.Op, X: a.subst(x.X, s, depth+1)}
	case *ast.StarExpr:
		return &ast.StarExpr{X: a.subst(x.X, s, depth+1)}
	case *ast.BinaryExpr:
		return &ast.BinaryExpr{X: a.subst(x.X, s, depth+1), Op: x.Op, Y: a.subst(x.Y, s, depth+1)}
	case *ast.SelectorExpr:
		return &ast.SelectorExpr{X: a.subst(x.X, s, depth+1), Sel: x.Sel}
	case *ast.CallExpr:
		n := &ast.CallExpr{Fun: x.Fun}
		if sel, ok := x.Fun.(*ast.SelectorExpr); ok {
			n.Fun = &ast.SelectorExpr{X: a.subst(sel.X, s, depth+1), Sel: sel.Sel}
		}
		for _, arg := range x.Args {
			n.Args = append(n.Args, a.subst(arg, s, depth+1))
		}
		return n
	}
	return e
}

func stripParens(s string) string {
	// types.ExprString keeps the parentheses introduced by substitution: "(buffer.String()) == ..." -> drop those around atoms
	for {
		n := strings.NewReplacer("((", "(", "))", ")").Replace(s)
		if n == s {
			break
		}
		s = n
	}
	return s
}

// pureExpr: no call with side effects (module callees with an empty effect summary and table-pure externals are fine).
func (a *smAn) pureExpr(e ast.Expr) bool {
	pure := true
	ast.Inspect(e, func(n ast.Node) bool {
		switch x := n.(type) {
		case *ast.FuncLit:
			pure = false
		case *ast.CallExpr:
			if tv, ok := a.info.Types[x.Fun]; ok && tv.IsType() {
				return true
			}
			if id, ok := x.Fun.(*ast.Ident); ok {
				if _, isB := a.info.Uses[id].(*types.Builtin); isB {
					return true
				}
			}
			callee, _ := typeutil.Callee(a.info, x).(*types.Func)
			if callee == nil {
				pure = false
				return false
			}
			if fnv := a.ssaOf(callee); fnv != nil {
				if sum := a.eff.Sum(fnv); sum != nil {
					if len(sum.Mut) > 0 {
						pure = false
					}
				} else if ent, ok := a.eff.Ext.lookup(fnv); !ok || len(ent.Mutates) > 0 {
					pure = false
				}
			}
			// cursor methods that move or set eof are not pure (caught by Mut above)
		}
		return pure
	})
	return pure
}

// baseOnly: a side-effect-free expression that reads nothing but the base URL (a private copy that is never written),
// the state-override parameter and constants.
func (a *smAn) baseOnly(e ast.Expr) bool {
	if !a.pureExpr(e) {
		return false
	}
	ok := true
	ast.Inspect(e, func(n ast.Node) bool {
		switch x := n.(type) {
		case *ast.SelectorExpr:
			// only the root matters; field and method names are not variables
			ast.Inspect(x.X, func(m ast.Node) bool {
				if id, isId := m.(*ast.Ident); isId {
					if o := a.obj(id); o != a.baseObj && o != a.ovParam {
						if _, isVar := o.(*types.Var); isVar {
							if v := o.(*types.Var); !v.IsField() {
								ok = false
							}
						}
					}
				}
				return ok
			})
			return false
		case *ast.Ident:
			o := a.obj(x)
			if o == nil || o == a.baseObj || o == a.ovParam {
				return true
			}
			switch o.(type) {
			case *types.Const, *types.Nil, *types.Builtin, *types.TypeName, *types.Func, *types.PkgName:
				return true
			}
			ok = false
		}
		return ok
	})
	return ok
}

// rootIdent returns the object at the root of a selector chain x.a.b / x.a.b().
func (a *smAn) rootObj(e ast.Expr) types.Object {
	for {
		switch x := ast.Unparen(e).(type) {
		case *ast.SelectorExpr:
			e = x.X
		case *ast.IndexExpr:
			e = x.X
		case *ast.StarExpr:
			e = x.X
		case *ast.CallExpr:
			e = x.Fun
		case *ast.Ident:
			return a.obj(x)
		default:
			return nil
		}
	}
}

// urlField returns the field name if e is url.<f> (selector directly on the url object).
func (a *smAn) urlField(e ast.Expr) (string, bool) {
	sel, ok := ast.Unparen(e).(*ast.SelectorExpr)
	if !ok || !a.isIdent(sel.X, a.urlObj) {
		return "", false
	}
	if _, isVar := a.info.Uses[sel.Sel].(*types.Var); !isVar {
		return "", false
	}
	return sel.Sel.Name, true
}

func (a *smAn) baseField(e ast.Expr) (string, bool) {
	sel, ok := ast.Unparen(e).(*ast.SelectorExpr)
	if !ok || !a.isIdent(sel.X, a.baseObj) {
		return "", false
	}
	return sel.Sel.Name, true
}

// ---------- anchors ----------

func buildSMAn(c *Ctx) (*smAn, error) {
	a := &smAn{c: c, stateNames: map[int64]string{}, stateVals: map[string]int64{}, clauses: map[string]*ast.CaseClause{}, cursorClass: map[string]string{}, preds: map[*types.Func]*predSummary{}, inlMemo: map[*types.Func]*ast.FuncDecl{}}
	a.fn = c.P.Func("url", "parser", "BasicParser")
	if a.fn == nil {
		return nil, fmt.Errorf("anchor (*parser).BasicParser not found")
	}
	a.fd = c.P.Decl(a.fn)
	if a.fd == nil {
		return nil, fmt.Errorf("syntax of BasicParser not found")
	}
	a.pkg = c.P.ByName["url"]
	a.info = a.pkg.TypesInfo
	a.em = buildErrModel(c)
	a.eff = BuildEff(c)
	stateT := c.P.Type("url", "State")
	if stateT == nil {
		return nil, fmt.Errorf("type State not found")
	}
	sc := a.pkg.Types.Scope()
	for _, n := range sc.Names() {
		if k, ok := sc.Lookup(n).(*types.Const); ok && types.Identical(k.Type(), stateT) {
			v, _ := constant.Int64Val(k.Val())
			a.stateNames[v] = n
			a.stateVals[n] = v
		}
	}
	urlT := c.P.Type("url", "Url")
	isT := c.P.Type("url", "inputString")
	// parameters
	var urlParams []types.Object
	for _, fl := range a.fd.Type.Params.List {
		for _, nm := range fl.Names {
			o := a.info.Defs[nm]
			switch {
			case types.Identical(o.Type(), stateT):
				a.ovParam = o
			case types.Identical(o.Type(), types.NewPointer(urlT)):
				urlParams = append(urlParams, o)
			}
		}
	}
	if a.ovParam == nil || len(urlParams) != 2 {
		return nil, fmt.Errorf("BasicParser: expected one State and two *Url parameters")
	}
	// the url parameter is the one assigned a composite literal when nil
	ast.Inspect(a.fd.Body, func(n ast.Node) bool {
		as, ok := n.(*ast.AssignStmt)
		if !ok || len(as.Lhs) != 1 || len(as.Rhs) != 1 {
			return true
		}
		id, ok := as.Lhs[0].(*ast.Ident)
		if !ok {
			return true
		}
		o := a.obj(id)
		if u, ok := as.Rhs[0].(*ast.UnaryExpr); ok && u.Op == token.AND {
			if _, isLit := u.X.(*ast.CompositeLit); isLit {
				for _, up := range urlParams {
					if o == up {
						a.urlObj = o
					}
				}
			}
		}
		// stateOverridden := stateOverride > NoState
		if be, ok := as.Rhs[0].(*ast.BinaryExpr); ok && be.Op == token.GTR && a.isIdent(be.X, a.ovParam) {
			if tv, ok := a.info.Types[be.Y]; ok && tv.Value != nil {
				if v, _ := constant.Int64Val(tv.Value); v == 0 {
					a.ovObj = o
				}
			}
		}
		return true
	})
	if a.urlObj == nil && len(a.fd.Body.List) > 0 {
		// … or the *Url parameter handed back by the final `return X, nil`
		if r, ok := a.fd.Body.List[len(a.fd.Body.List)-1].(*ast.ReturnStmt); ok && len(r.Results) == 2 && isNilIdent(r.Results[1]) {
			if id, ok := ast.Unparen(r.Results[0]).(*ast.Ident); ok {
				for _, up := range urlParams {
					if a.obj(id) == up {
						a.urlObj = up
					}
				}
			}
		}
	}
	for _, up := range urlParams {
		if up != a.urlObj {
			a.baseUrlObj = up
		}
	}
	// base: the local variable of type *Url that receives (a copy of) the base argument, however it is declared; other
	// local *Url variables (a helper's result) are not anchors
	var locals []types.Object
	fromBase := map[types.Object]bool{}
	mentionsBase := func(e ast.Node) bool {
		found := false
		ast.Inspect(e, func(n ast.Node) bool {
			if id, ok := n.(*ast.Ident); ok && a.baseUrlObj != nil && a.info.Uses[id] == a.baseUrlObj {
				found = true
			}
			return !found
		})
		return found
	}
	ast.Inspect(a.fd.Body, func(n ast.Node) bool {
		switch x := n.(type) {
		case *ast.Ident:
			o := a.info.Defs[x]
			if o == nil || !types.Identical(o.Type(), types.NewPointer(urlT)) {
				return true
			}
			for _, up := range urlParams {
				if o == up {
					return true
				}
			}
			locals = append(locals, o)
		case *ast.AssignStmt:
			if len(x.Lhs) == len(x.Rhs) {
				for i, l := range x.Lhs {
					if id, ok := l.(*ast.Ident); ok && mentionsBase(x.Rhs[i]) {
						fromBase[a.obj(id)] = true
					}
				}
			}
		case *ast.ValueSpec:
			if len(x.Names) == len(x.Values) {
				for i, nm := range x.Names {
					if mentionsBase(x.Values[i]) {
						fromBase[a.info.Defs[nm]] = true
					}
				}
			}
		}
		return true
	})
	var cands []types.Object
	for _, o := range locals {
		if fromBase[o] {
			cands = append(cands, o)
		}
	}
	switch {
	case len(cands) == 1:
		a.baseObj = cands[0]
	case len(cands) == 0 && len(locals) == 1:
		a.baseObj = locals[0]
	case len(locals) > 0:
		a.problems = append(a.problems, "cannot tell which local *Url variable of BasicParser holds the base")
	}
	for _, up := range urlParams {
		if up != a.urlObj {
			a.baseUrlObj = up
		}
	}
	if a.urlObj == nil || a.ovObj == nil || a.baseObj == nil {
		return nil, fmt.Errorf("BasicParser: url / stateOverridden / base anchors not found (url=%v overridden=%v base=%v)", a.urlObj != nil, a.ovObj != nil, a.baseObj != nil)
	}
	// main loop: the for statement whose body contains a switch on a State-typed local
	for i, st := range a.fd.Body.List {
		fs, ok := st.(*ast.ForStmt)
		if !ok {
			continue
		}
		doWhile := false
		if fs.Cond != nil || fs.Init != nil || fs.Post != nil {
			// `for done := false; !done; done = input.eof` (or `more := true; more; more = !input.eof`): the body runs
			// once, then again as long as the end of the input has not been reached - the same loop as
			// `for { …; if input.eof { break } }`, except that a `continue` also passes the end-of-input test
			if !a.isDoWhileOnEOF(fs) {
				continue
			}
			doWhile = true
		}
		for _, bs := range fs.Body.List {
			if sw, ok := bs.(*ast.SwitchStmt); ok && sw.Tag != nil {
				if id, ok := sw.Tag.(*ast.Ident); ok && types.Identical(a.obj(id).Type(), stateT) {
					a.loop, a.sw, a.stateObj = fs, sw, a.obj(id)
					a.doWhile = doWhile
					a.prologue = a.fd.Body.List[:i]
					// after the loop: a single `return url, nil`
					rest := a.fd.Body.List[i+1:]
					if len(rest) != 1 {
						a.problems = append(a.problems, "statements after the main loop are not a single return")
					} else if r, ok := rest[0].(*ast.ReturnStmt); !ok || len(r.Results) != 2 || !a.isIdent(r.Results[0], a.urlObj) || !isNilIdent(r.Results[1]) {
						a.problems = append(a.problems, "the statement after the main loop is not `return url, nil`")
					}
				}
			}
		}
	}
	if a.loop == nil {
		return nil, fmt.Errorf("BasicParser: main loop with a switch on the state variable not found")
	}
	// loop head: r := input.nextCodePoint(); loop tail: if input.eof { break }
	body := a.loop.Body.List
	if a.doWhile {
		if len(body) != 2 {
			a.problems = append(a.problems, fmt.Sprintf("main loop body has %d statements, expected [advance, switch]", len(body)))
		}
	} else if len(body) != 3 {
		a.problems = append(a.problems, fmt.Sprintf("main loop body has %d statements, expected [advance, switch, eof-exit]", len(body)))
	}
	if as, ok := body[0].(*ast.AssignStmt); ok && len(as.Lhs) == 1 && len(as.Rhs) == 1 {
		if call, ok := as.Rhs[0].(*ast.CallExpr); ok {
			if sel, ok := call.Fun.(*ast.SelectorExpr); ok {
				if id, ok := sel.X.(*ast.Ident); ok && types.Identical(a.obj(id).Type(), types.NewPointer(isT)) {
					a.inputObj = a.obj(id)
					a.rObj = a.obj(as.Lhs[0].(*ast.Ident))
				}
			}
		}
	}
	if a.inputObj == nil {
		return nil, fmt.Errorf("BasicParser: loop head `r := input.nextCodePoint()` not found")
	}
	tailOK := a.doWhile
	if ifs, ok := body[len(body)-1].(*ast.IfStmt); ok && ifs.Else == nil && ifs.Init == nil && len(ifs.Body.List) == 1 {
		if sel, ok := ifs.Cond.(*ast.SelectorExpr); ok && a.isIdent(sel.X, a.inputObj) && sel.Sel.Name == "eof" {
			if br, ok := ifs.Body.List[0].(*ast.BranchStmt); ok && br.Tok == token.BREAK && br.Label == nil {
				tailOK = true
			}
		}
	}
	if !tailOK {
		a.problems = append(a.problems, "main loop does not end with `if input.eof { break }`")
	}
	// clauses
	for _, cs := range a.sw.Body.List {
		cc := cs.(*ast.CaseClause)
		if cc.List == nil {
			a.problems = append(a.problems, "state switch has a default clause")
			continue
		}
		for _, e := range cc.List {
			tv := a.info.Types[e]
			if tv.Value == nil {
				a.problems = append(a.problems, "non-constant case expression in the state switch")
				continue
			}
			v, _ := constant.Int64Val(tv.Value)
			n := a.stateNames[v]
			a.clauses[n] = cc
			a.clauseOrder = append(a.clauseOrder, n)
		}
	}
	// cursor methods: classify by what they store into .pointer
	for _, mn := range []string{} {
		_ = mn
	}
	ms := c.P.SSA.MethodSets.MethodSet(types.NewPointer(isT))
	for i := 0; i < ms.Len(); i++ {
		f := c.P.SSA.MethodValue(ms.At(i))
		if f == nil || len(f.Blocks) == 0 {
			continue
		}
		cls := "neutral"
		for _, b := range f.Blocks {
			for _, ins := range b.Instrs {
				st, ok := ins.(*ssa.Store)
				if !ok {
					continue
				}
				fa, ok := st.Addr.(*ssa.FieldAddr)
				if !ok || fieldElem(fa.X.Type(), fa.Field) != "inputString:pointer" {
					continue
				}
				adv := false
				if bo, ok := st.Val.(*ssa.BinOp); ok && bo.Op == token.ADD {
					if k, ok := bo.Y.(*ssa.Const); ok && k.Value != nil {
						if v, _ := constant.Int64Val(k.Value); v == 1 {
							if ld, ok := bo.X.(*ssa.UnOp); ok {
								if fa2, ok := ld.X.(*ssa.FieldAddr); ok && fa2.Field == fa.Field {
									adv = true
								}
							}
						}
					}
				}
				if adv && cls == "neutral" {
					cls = "advance"
				} else if !adv {
					cls = "rewind"
				}
			}
		}
		a.cursorClass[f.Name()] = cls
	}
	// rune literals compared with r anywhere in the function
	seen := map[string]bool{}
	ast.Inspect(a.fd.Body, func(n ast.Node) bool {
		be, ok := n.(*ast.BinaryExpr)
		if !ok || (be.Op != token.EQL && be.Op != token.NEQ) {
			return true
		}
		for _, pr := range [][2]ast.Expr{{be.X, be.Y}, {be.Y, be.X}} {
			if a.isIdent(pr[0], a.rObj) {
				if l, ok := a.runeLit(pr[1]); ok && !seen[l] {
					seen[l] = true
					a.lits = append(a.lits, l)
				}
			}
		}
		return true
	})
	sort.Strings(a.lits)
	return a, nil
}

func (a *smAn) runeLit(e ast.Expr) (string, bool) {
	tv, ok := a.info.Types[e]
	if !ok || tv.Value == nil || tv.Value.Kind() != constant.Int {
		return "", false
	}
	v, _ := constant.Int64Val(tv.Value)
	return fmt.Sprintf("%q", rune(v)), true
}

func (a *smAn) allClasses() map[string]bool {
	m := map[string]bool{"EOF": true, "OTHER": true}
	for _, l := range a.lits {
		m[l] = true
	}
	return m
}

// predicate summaries: methods of *Url with a rune parameter whose result is a conjunction containing `param == lit`
func (a *smAn) predOf(f *types.Func) *predSummary {
	if p, ok := a.preds[f]; ok {
		return p
	}
	a.preds[f] = nil
	fd := a.c.P.DeclOfObj(f)
	if fd == nil || fd.Body == nil {
		return nil
	}
	// body: optional `x := expr` definitions, then `return boolexpr`
	defs := map[types.Object]ast.Expr{}
	var ret ast.Expr
	for _, st := range fd.Body.List {
		switch x := st.(type) {
		case *ast.AssignStmt:
			if x.Tok != token.DEFINE || len(x.Lhs) != 1 || len(x.Rhs) != 1 {
				return nil
			}
			defs[a.info.Defs[x.Lhs[0].(*ast.Ident)]] = x.Rhs[0]
		case *ast.ReturnStmt:
			if len(x.Results) != 1 {
				return nil
			}
			ret = x.Results[0]
		default:
			return nil
		}
	}
	if ret == nil {
		return nil
	}
	var conj []ast.Expr
	var flat func(e ast.Expr)
	flat = func(e ast.Expr) {
		e = ast.Unparen(e)
		if be, ok := e.(*ast.BinaryExpr); ok && be.Op == token.LAND {
			flat(be.X)
			flat(be.Y)
			return
		}
		if id, ok := e.(*ast.Ident); ok {
			if d, ok := defs[a.info.Uses[id]]; ok {
				flat(d)
				return
			}
		}
		conj = append(conj, e)
	}
	flat(ret)
	ps := &predSummary{runeParam: -1}
	sig := f.Type().(*types.Signature)
	for _, e := range conj {
		if be, ok := e.(*ast.BinaryExpr); ok && be.Op == token.EQL {
			for _, pr := range [][2]ast.Expr{{be.X, be.Y}, {be.Y, be.X}} {
				if id, ok := pr[0].(*ast.Ident); ok {
					for i := 0; i < sig.Params().Len(); i++ {
						if a.info.Uses[id] == sig.Params().At(i) {
							if l, ok := a.runeLit(pr[1]); ok {
								ps.runeParam, ps.runeLit = i, l
							}
						}
					}
				}
			}
			continue
		}
		if call, ok := e.(*ast.CallExpr); ok && len(call.Args) == 0 {
			if sel, ok := call.Fun.(*ast.SelectorExpr); ok {
				if id, ok := sel.X.(*ast.Ident); ok && sig.Recv() != nil && a.info.Uses[id] == sig.Recv() {
					ps.recvAtoms = append(ps.recvAtoms, sel.Sel.Name)
					continue
				}
			}
		}
		return nil // a conjunct we do not understand: no summary
	}
	if ps.runeParam < 0 {
		return nil
	}
	a.preds[f] = ps
	return ps
}

// ---------- expression scanning (side effects, derefs) ----------

func (a *smAn) scan(e ast.Node, s *pst) {
	if e == nil {
		return
	}
	ast.Inspect(e, func(n ast.Node) bool {
		switch x := n.(type) {
		case *ast.FuncLit:
			s.path.Undecided = append(s.path.Undecided, "function literal inside the state machine")
			return false
		case *ast.SelectorExpr:
			if a.isIdent(x.X, a.baseObj) {
				s.path.BaseDerefs = append(s.path.BaseDerefs, x.Pos())
			}
		case *ast.CallExpr:
			a.call(x, s)
		}
		return true
	})
}

// scanBool scans a right-hand side, honouring short-circuit evaluation: the right operand of && / || is not
// evaluated (so its dereferences and calls do not happen) when the left operand is decided in this context.
func (a *smAn) scanBool(e ast.Expr, s *pst) {
	be, ok := ast.Unparen(e).(*ast.BinaryExpr)
	if !ok || (be.Op != token.LAND && be.Op != token.LOR) {
		a.scan(e, s)
		return
	}
	a.scanBool(be.X, s)
	res := a.evalBool(be.X, s)
	decided := len(res) > 0
	for _, r := range res {
		if r.v != (be.Op == token.LOR) {
			decided = false
		}
	}
	if decided {
		return
	}
	a.scanBool(be.Y, s)
}

func (a *smAn) call(call *ast.CallExpr, s *pst) {
	callee, _ := typeutil.Callee(a.info, call).(*types.Func)
	text := a.str(call.Fun)
	if callee == nil {
		// conversion or builtin
		return
	}
	s.path.Calls = append(s.path.Calls, callUse{Callee: callee, Text: text, Pos: call.Pos()})
	var recv ast.Expr
	if sel, ok := call.Fun.(*ast.SelectorExpr); ok {
		if _, isPkg := a.info.Uses[rootIdentOf(sel.X)].(*types.PkgName); !isPkg || rootIdentOf(sel.X) == nil {
			recv = sel.X
		}
	}
	// the cursor handed to a function: whatever was known about its position is gone
	for _, arg := range call.Args {
		if a.isIdent(ast.Unparen(arg), a.inputObj) {
			s.eofSynced = false
			s.invalidate("input.")
		}
	}
	// main cursor operations
	if recv != nil && a.isIdent(recv, a.inputObj) {
		cls := a.cursorClass[callee.Name()]
		if cls == "" {
			cls = "neutral"
		}
		s.path.Cursor = append(s.path.Cursor, cursorOp{Name: callee.Name(), Class: cls, Pos: call.Pos()})
		if cls != "neutral" {
			s.eofSynced = false
			s.invalidate("input.")
		}
		if m := a.eff.Sum(a.ssaOf(callee)); m != nil && len(m.Mut) > 0 {
			s.invalidate("input.")
			// a helper that may set eof (getCurrentAsByte) desynchronises too
			for p := range m.Mut {
				if strings.Contains(p, "inputString:eof") && cls == "neutral" {
					s.eofSynced = false
				}
			}
		}
		return
	}
	// strings.Builder locals: buffer discipline
	if recv != nil {
		if id, ok := ast.Unparen(recv).(*ast.Ident); ok {
			if o := a.obj(id); o != nil && o.Type().String() == "strings.Builder" {
				switch callee.Name() {
				case "Reset":
					s.bufState[id.Name] = "empty"
					// `segment := buffer.String(); buffer.Reset(); … isX(segment)`: nothing was written between the
					// definition and the reset (a write would have dropped the definition), so the local stands for what
					// the builder held at the end - which is what a test of buffer.String() before the reset reads
					for o, d := range s.defs {
						if types.ExprString(d) == id.Name+".String()" {
							if s.snap == nil {
								s.snap = map[types.Object]bool{}
							}
							s.snap[o] = true
						}
					}
				case "WriteRune", "WriteString", "WriteByte", "Write":
					s.bufState[id.Name] = "nonempty"
					w := bufWrite{Buffer: id.Name, Class: "other", Pos: call.Pos(), Special: triU}
					if len(call.Args) == 1 {
						w.Class, w.Set = a.classify(call.Args[0], s)
						if a.isIdent(call.Args[0], a.rObj) {
							for k, v := range s.facts {
								if v && strings.HasPrefix(k, "ASCIIDigit.Test(") {
									w.DigitGuard = true
								}
							}
						}
					}
					for k, v := range s.facts {
						if strings.Contains(k, "pecialScheme(") {
							if v {
								w.Special = triT
							} else {
								w.Special = triF
							}
						}
					}
					s.path.BufWrites = append(s.path.BufWrites, w)
				}
			}
		}
	}
	// an encoder of the module that writes into a builder it is handed: enc(&buffer, r, set)
	if callee.Pkg() == a.pkg.Types {
		sig := callee.Type().(*types.Signature)
		bi, si, ri := -1, -1, -1
		for i := 0; i < sig.Params().Len() && i < len(call.Args); i++ {
			pt := sig.Params().At(i).Type()
			switch {
			case pt.String() == "*strings.Builder":
				bi = i
			case namedOf(pt) == "PercentEncodeSet":
				si = i
			case types.Identical(pt, types.Typ[types.Rune]) || types.Identical(pt, types.Typ[types.Byte]):
				ri = i
			}
		}
		if bi >= 0 && si >= 0 && ri >= 0 {
			arg := ast.Unparen(call.Args[bi])
			if u, ok := arg.(*ast.UnaryExpr); ok && u.Op == token.AND {
				arg = ast.Unparen(u.X)
			}
			if id, ok := arg.(*ast.Ident); ok {
				if o := a.obj(id); o != nil && (o.Type().String() == "strings.Builder" || o.Type().String() == "*strings.Builder") {
					s.bufState[id.Name] = "nonempty"
					w := bufWrite{Buffer: id.Name, Class: "other", Pos: call.Pos(), Special: triU}
					w.Class, w.Set = "encoded", a.resolveSet(call.Args[si], s)
					for k, v := range s.facts {
						if strings.Contains(k, "pecialScheme(") {
							if v {
								w.Special = triT
							} else {
								w.Special = triF
							}
						}
					}
					s.path.BufWrites = append(s.path.BufWrites, w)
				}
			}
		}
	}
	// handler calls are recorded where their result is bound (assign); a bare call is recorded untested
	if fnv := a.ssaOf(callee); fnv != nil {
		if h := a.em.Handlers[fnv]; h != nil {
			for _, st := range a.em.Sites {
				if st.Call.Pos() == call.Lparen || st.Call.Pos() == call.Pos() {
					s.path.Handlers = append(s.path.Handlers, handlerUse{Site: st, Taken: triU})
				}
			}
		}
	}
	// effects on url through the callee's summary
	a.calleeEffects(call, callee, recv, s)
}

// classify describes the value written to a builder: raw code point, lower-cased, percent-encoded with a set, literal.
func (a *smAn) classify(e ast.Expr, s *pst) (string, string) {
	e = ast.Unparen(e)
	if tv, ok := a.info.Types[e]; ok && tv.Value != nil {
		return "literal", ""
	}
	switch x := e.(type) {
	case *ast.Ident:
		if a.obj(x) == a.rObj {
			return "raw", ""
		}
		if d, ok := s.strVars[a.obj(x)]; ok {
			return a.classify(d, s)
		}
	case *ast.CallExpr:
		callee, _ := typeutil.Callee(a.info, x).(*types.Func)
		if callee == nil {
			return "other", ""
		}
		switch {
		case callee.FullName() == "unicode.ToLower" && len(x.Args) == 1 && a.isIdent(x.Args[0], a.rObj):
			return "lower", ""
		case strings.HasPrefix(callee.Name(), "percentEncode") && len(x.Args) == 2:
			return "encoded", a.resolveSet(x.Args[1], s)
		}
	}
	return "other", ""
}

func (a *smAn) resolveSet(e ast.Expr, s *pst) string {
	e = ast.Unparen(e)
	if id, ok := e.(*ast.Ident); ok {
		if v, ok := s.setVars[a.obj(id)]; ok {
			return v
		}
	}
	// a set selector: a function of the module with one set parameter that hands back that set, or a Set(…)
	// extension of it (the '%' of the single-percent option) - it names the set it was given
	if call, ok := e.(*ast.CallExpr); ok {
		if callee, _ := typeutil.Callee(a.info, call).(*types.Func); callee != nil && callee.Pkg() == a.pkg.Types {
			sig := callee.Type().(*types.Signature)
			if sig.Results().Len() == 1 && namedOf(sig.Results().At(0).Type()) == "PercentEncodeSet" {
				idx, n := -1, 0
				for i := 0; i < sig.Params().Len(); i++ {
					if namedOf(sig.Params().At(i).Type()) == "PercentEncodeSet" {
						idx = i
						n++
					}
				}
				if fd := a.declOf(callee); fd != nil && fd.Body != nil && n == 1 && idx < len(call.Args) {
					param := sig.Params().At(idx)
					all, any := true, false
					ast.Inspect(fd.Body, func(nd ast.Node) bool {
						if _, isLit := nd.(*ast.FuncLit); isLit {
							all = false
							return false
						}
						r, ok := nd.(*ast.ReturnStmt)
						if !ok || len(r.Results) != 1 {
							return true
						}
						any = true
						x := ast.Unparen(r.Results[0])
						if c2, ok := x.(*ast.CallExpr); ok {
							if sel, ok := c2.Fun.(*ast.SelectorExpr); ok && sel.Sel.Name == "Set" {
								x = ast.Unparen(sel.X)
							}
						}
						if id, ok := x.(*ast.Ident); !ok || a.info.Uses[id] != types.Object(param) {
							all = false
						}
						return true
					})
					if all && any {
						return a.resolveSet(call.Args[idx], s)
					}
				}
			}
		}
	}
	return a.str(e)
}

func (a *smAn) argText(call *ast.CallExpr) string {
	var parts []string
	for _, x := range call.Args {
		parts = append(parts, a.str(x))
	}
	return strings.Join(parts, ", ")
}

func rootIdentOf(e ast.Expr) *ast.Ident {
	for {
		switch x := ast.Unparen(e).(type) {
		case *ast.Ident:
			return x
		case *ast.SelectorExpr:
			e = x.X
		case *ast.CallExpr:
			e = x.Fun
		case *ast.IndexExpr:
			e = x.X
		case *ast.StarExpr:
			e = x.X
		default:
			return nil
		}
	}
}

func (a *smAn) ssaOf(f *types.Func) *ssa.Function {
	if f == nil {
		return nil
	}
	return a.c.P.SSA.FuncValue(f)
}

func (a *smAn) calleeEffects(call *ast.CallExpr, callee *types.Func, recv ast.Expr, s *pst) {
	fnv := a.ssaOf(callee)
	var sum *effSummary
	if fnv != nil {
		sum = a.eff.Sum(fnv)
	}
	// actuals in SSA parameter order
	var actuals []ast.Expr
	if recv != nil && callee.Type().(*types.Signature).Recv() != nil {
		actuals = append(actuals, recv)
	}
	actuals = append(actuals, call.Args...)
	if sum == nil {
		// external: consult the table for receiver mutation (strings.Builder etc.)
		if fnv != nil {
			if ent, ok := a.eff.Ext.lookup(fnv); ok {
				for _, i := range ent.Mutates {
					if i < len(actuals) {
						s.invalidate(a.str(actuals[i]) + ".")
					}
				}
			}
		}
		return
	}
	done := map[string]bool{}
	for _, m := range sum.Mut.sorted() {
		root := rootOf(m)
		if !strings.HasPrefix(root, "P") {
			continue
		}
		var idx int
		fmt.Sscanf(root[1:], "%d", &idx)
		if idx >= len(actuals) {
			continue
		}
		act := ast.Unparen(actuals[idx])
		if u, ok := act.(*ast.UnaryExpr); ok && u.Op == token.AND {
			act = u.X
		}
		elems := pathElems(m)
		if !a.isIdent(act, a.urlObj) {
			s.invalidate(a.str(act) + ".")
		}
		switch {
		case a.isIdent(act, a.urlObj):
			if len(elems) > 0 && strings.HasPrefix(elems[0], "Url:") {
				f := strings.TrimPrefix(elems[0], "Url:")
				if done[f] {
					continue
				}
				done[f] = true
				s.path.Effects = append(s.path.Effects, fieldEff{Field: f, Kind: "call:" + callee.Name(), Detail: m, Pos: call.Pos(), Args: a.argText(call)})
				s.invalidate("url." + f)
				if f == "scheme" {
					s.invalidate("Special")
				}
			}
		default:
			if f, ok := a.urlField(act); ok {
				if done[f] {
					continue
				}
				done[f] = true
				s.path.Effects = append(s.path.Effects, fieldEff{Field: f, Kind: "call:" + callee.Name(), Detail: m, Pos: call.Pos(), Args: a.argText(call)})
			} else if a.rootObj(act) == a.baseObj && a.baseObj != nil {
				if done["<base>"] {
					continue
				}
				done["<base>"] = true
				// writes below base (the private clone): harmless, but remember for diagnostics
				s.path.Effects = append(s.path.Effects, fieldEff{Field: "<base>", Kind: "call:" + callee.Name(), Detail: m, Pos: call.Pos()})
			}
		}
	}
}

// ---------- conditions ----------

type vs struct {
	s *pst
	v bool
}

func (a *smAn) evalBool(e ast.Expr, s *pst) []vs {
	e = ast.Unparen(e)
	switch x := e.(type) {
	case *ast.UnaryExpr:
		if x.Op == token.NOT {
			r := a.evalBool(x.X, s)
			for i := range r {
				r[i].v = !r[i].v
			}
			return r
		}
	case *ast.BinaryExpr:
		if (x.Op == token.EQL || x.Op == token.NEQ) && a.isBoolExpr(x.X) && a.isBoolExpr(x.Y) {
			var out []vs
			for _, l := range a.evalBool(x.X, s) {
				for _, r := range a.evalBool(x.Y, l.s) {
					out = append(out, vs{r.s, (l.v == r.v) == (x.Op == token.EQL)})
				}
			}
			return out
		}
		switch x.Op {
		case token.LAND:
			var out []vs
			for _, l := range a.evalBool(x.X, s) {
				if !l.v {
					out = append(out, l)
				} else {
					out = append(out, a.evalBool(x.Y, l.s)...)
				}
			}
			return out
		case token.LOR:
			var out []vs
			for _, l := range a.evalBool(x.X, s) {
				if l.v {
					out = append(out, l)
				} else {
					out = append(out, a.evalBool(x.Y, l.s)...)
				}
			}
			return out
		}
	}
	return a.atom(e, s)
}

func (a *smAn) isBoolExpr(e ast.Expr) bool {
	if tv, ok := a.info.Types[e]; ok && tv.Type != nil {
		if tv.Value != nil {
			return false // constants true/false compared: leave to the generic path
		}
		b, ok := tv.Type.Underlying().(*types.Basic)
		return ok && b.Kind() == types.Bool
	}
	return false
}

func (a *smAn) fork(key string, s *pst) []vs {
	if v, ok := a.ctx.Fixed[key]; ok {
		return []vs{{s, v}}
	}
	if v, ok := s.facts[key]; ok {
		return []vs{{s, v}}
	}
	t, f := s.clone(), s.clone()
	t.facts[key] = true
	f.facts[key] = false
	t.path.Assumes = append(t.path.Assumes, key)
	f.path.Assumes = append(f.path.Assumes, "!("+key+")")
	return []vs{{t, true}, {f, false}}
}

func (a *smAn) atom(e ast.Expr, s *pst) []vs {
	s = s.clone()
	// a boolean constant (what a predicate helper walked in place answered)
	if tv, ok := a.info.Types[e]; ok && tv.Value != nil && tv.Value.Kind() == constant.Bool {
		return []vs{{s, constant.BoolVal(tv.Value)}}
	}
	if id, ok := e.(*ast.Ident); ok && (id.Name == "true" || id.Name == "false") && a.obj(id) == types.Universe.Lookup(id.Name) {
		return []vs{{s, id.Name == "true"}}
	}
	// a predicate helper of the state machine: its body is walked and its answer evaluated
	if call, ok := e.(*ast.CallExpr); ok {
		if fd := a.inlineTarget(call, len(s.inl)); fd != nil {
			if callee, _ := typeutil.Callee(a.info, call).(*types.Func); callee != nil {
				sig := callee.Type().(*types.Signature)
				if sig.Results().Len() == 1 && types.Identical(sig.Results().At(0).Type().Underlying(), types.Typ[types.Bool]) {
					id := a.freshVar(types.Typ[types.Bool], call.Pos())
					if out, ok := a.inlineCall(call, []ast.Expr{id}, token.DEFINE, s); ok {
						var res []vs
						for _, o := range out {
							if o.done || o.brk != "" {
								continue
							}
							res = append(res, a.evalBool(id, o)...)
						}
						return res
					}
				}
			}
		}
	}
	// context atoms
	if a.isIdent(e, a.ovObj) {
		return []vs{{s, a.ctx.Override != ""}}
	}
	if id, ok := e.(*ast.Ident); ok {
		if d, ok := s.boolDefs[a.obj(id)]; ok {
			return a.evalBool(d, s)
		}
	}
	// comparisons decided by constants: two constants (a helper's answer carried in a local), or the state override
	// parameter against a constant (its value is fixed by the context)
	if be, ok := e.(*ast.BinaryExpr); ok {
		switch be.Op {
		case token.EQL, token.NEQ, token.LSS, token.LEQ, token.GTR, token.GEQ:
			xs, ys := ast.Unparen(a.subst(be.X, s, 0)), ast.Unparen(a.subst(be.Y, s, 0))
			cv := func(e ast.Expr) (int64, bool) {
				if a.isIdent(e, a.ovParam) {
					return a.ctx.OverrideVal, true
				}
				if a.isIdent(e, a.stateObj) && s.path.State != "<prologue>" {
					// the state variable holds the state being walked, or what this path assigned to it
					name := s.path.State
					if s.path.Next != "" && s.path.Next != "?" {
						name = s.path.Next
					}
					if v, ok := a.stateVals[name]; ok {
						return v, true
					}
				}
				if tv, ok := a.info.Types[e]; ok && tv.Value != nil && tv.Value.Kind() == constant.Int {
					v, ok := constant.Int64Val(tv.Value)
					return v, ok
				}
				return 0, false
			}
			if l, ok1 := cv(xs); ok1 {
				if r, ok2 := cv(ys); ok2 {
					var v bool
					switch be.Op {
					case token.EQL:
						v = l == r
					case token.NEQ:
						v = l != r
					case token.LSS:
						v = l < r
					case token.LEQ:
						v = l <= r
					case token.GTR:
						v = l > r
					case token.GEQ:
						v = l >= r
					}
					return []vs{{s, v}}
				}
			}
			// nil against nil / against the url (a helper's *Url answer)
			if be.Op == token.EQL || be.Op == token.NEQ {
				if isNilIdent(xs) && isNilIdent(ys) {
					return []vs{{s, be.Op == token.EQL}}
				}
			}
		}
	}
	if be, ok := e.(*ast.BinaryExpr); ok && (be.Op == token.EQL || be.Op == token.NEQ) {
		eq := be.Op == token.EQL
		for _, pr := range [][2]ast.Expr{{be.X, be.Y}, {be.Y, be.X}} {
			x, y := pr[0], pr[1]
			// stateOverride == K
			if a.isIdent(x, a.ovParam) {
				if tv, ok := a.info.Types[y]; ok && tv.Value != nil {
					v, _ := constant.Int64Val(tv.Value)
					return []vs{{s, (v == a.ctx.OverrideVal) == eq}}
				}
			}
			// base == nil
			if a.isIdent(x, a.baseObj) && isNilIdent(y) {
				if a.ctx.Base != triU {
					return []vs{{s, (a.ctx.Base == triF) == eq}}
				}
			}
			// baseUrl == nil (prologue)
			if a.isIdent(x, a.baseUrlObj) && isNilIdent(y) {
				if a.ctx.Base != triU {
					return []vs{{s, (a.ctx.Base == triF) == eq}}
				}
			}
			// url == nil (prologue)
			if a.isIdent(x, a.urlObj) && isNilIdent(y) {
				switch s.urlNil {
				case triT:
					return []vs{{s, eq}}
				case triF:
					return []vs{{s, !eq}}
				}
				t, f := s.clone(), s.clone()
				t.urlNil, f.urlNil = triT, triF
				return []vs{{t, eq}, {f, !eq}}
			}
			// err != nil
			if id, ok := ast.Unparen(x).(*ast.Ident); ok && isNilIdent(y) {
				if v, known := s.nonNil[a.obj(id)]; known && a.obj(id) != nil {
					// already tested on this path (or a copy of a tested value handed back by a helper)
					return []vs{{s, v != eq}}
				}
				if ev := s.errs[a.obj(id)]; ev != nil {
					o := a.obj(id)
					var out []vs
					if ev.failLit != triT {
						// may be nil
						n := s.clone()
						if ev.useIdx >= 0 {
							n.path.Handlers[ev.useIdx].Taken = triF
						}
						n.nonNil[o] = false
						out = append(out, vs{n, eq})
					}
					n := s.clone()
					if ev.useIdx >= 0 {
						n.path.Handlers[ev.useIdx].Taken = triT
					}
					n.nonNil[o] = true
					out = append(out, vs{n, !eq})
					return out
				}
			}
			// r == 'c'
			if a.isIdent(x, a.rObj) {
				if l, ok := a.runeLit(y); ok {
					var out []vs
					if s.rclass[l] {
						t := s.clone()
						t.rclass = map[string]bool{l: true}
						out = append(out, vs{t, eq})
					}
					f := s.clone()
					delete(f.rclass, l)
					if len(f.rclass) > 0 {
						out = append(out, vs{f, !eq})
					}
					return out
				}
			}
		}
		// generic comparison: normalise != to ==
		a.scan(e, s)
		key := a.key(be.X, s) + " == " + a.key(be.Y, s)
		r := a.fork(key, s)
		if !eq {
			for i := range r {
				r[i].v = !r[i].v
			}
		}
		return r
	}
	// input.eof
	if sel, ok := e.(*ast.SelectorExpr); ok && a.isIdent(sel.X, a.inputObj) && sel.Sel.Name == "eof" {
		if s.eofSynced {
			var out []vs
			if s.rclass["EOF"] {
				t := s.clone()
				t.rclass = map[string]bool{"EOF": true}
				out = append(out, vs{t, true})
			}
			f := s.clone()
			delete(f.rclass, "EOF")
			if len(f.rclass) > 0 {
				out = append(out, vs{f, false})
			}
			return out
		}
		return a.fork("input.eof", s)
	}
	// predicate calls with a summary
	if call, ok := e.(*ast.CallExpr); ok {
		if callee, _ := typeutil.Callee(a.info, call).(*types.Func); callee != nil {
			if ps := a.predOf(callee); ps != nil && ps.runeParam < len(call.Args) && a.isIdent(call.Args[ps.runeParam], a.rObj) {
				sel, _ := call.Fun.(*ast.SelectorExpr)
				a.scan(e, s)
				var recvKeys []string
				if sel != nil {
					for _, m := range ps.recvAtoms {
						recvKeys = append(recvKeys, a.key(sel.X, s)+"."+m+"()")
					}
				}
				var out []vs
				// true: r == lit and every receiver atom true
				if s.rclass[ps.runeLit] {
					t := s.clone()
					feasible := true
					for _, k := range recvKeys {
						if v, ok := a.ctx.Fixed[k]; ok && !v {
							feasible = false
						}
						if v, ok := t.facts[k]; ok && !v {
							feasible = false
						}
						if _, known := t.facts[k]; !known {
							t.path.Assumes = append(t.path.Assumes, k)
						}
						t.facts[k] = true
					}
					if feasible {
						t.rclass = map[string]bool{ps.runeLit: true}
						t.path.Assumes = append(t.path.Assumes, a.key(e, s))
						out = append(out, vs{t, true})
					}
				}
				// false: r != lit, or some receiver atom false
				f := s.clone()
				allTrue := len(recvKeys) > 0
				for _, k := range recvKeys {
					v, ok := f.facts[k]
					if fv, fok := a.ctx.Fixed[k]; fok {
						v, ok = fv, true
					}
					if !ok || !v {
						allTrue = false
					}
				}
				if allTrue {
					delete(f.rclass, ps.runeLit)
				}
				if len(f.rclass) > 0 {
					f.path.Assumes = append(f.path.Assumes, "!("+a.key(e, s)+")")
					out = append(out, vs{f, false})
				}
				return out
			}
		}
	}
	a.scan(e, s)
	return a.fork(a.key(e, s), s)
}

// ---------- statements ----------

func (a *smAn) walk(stmts []ast.Stmt, in []*pst) []*pst {
	cur := in
	for _, st := range stmts {
		var next []*pst
		for _, s := range cur {
			if s.done || s.brk != "" {
				next = append(next, s)
				continue
			}
			next = append(next, a.stmt(st, s)...)
		}
		cur = next
		if len(cur) > 200000 {
			panic("SM: path explosion")
		}
	}
	return cur
}

func (a *smAn) stmt(st ast.Stmt, s *pst) []*pst {
	switch x := st.(type) {
	case *ast.BlockStmt:
		return a.walk(x.List, []*pst{s})
	case *ast.ExprStmt:
		if call, ok := ast.Unparen(x.X).(*ast.CallExpr); ok {
			if out, ok := a.inlineCall(call, nil, token.ASSIGN, s); ok {
				return out
			}
		}
		if ne, pre, ok := a.hoist(x.X, s); ok {
			var out []*pst
			for _, p0 := range pre {
				if p0.done || p0.brk != "" {
					out = append(out, p0)
					continue
				}
				out = append(out, a.stmt(&ast.ExprStmt{X: ne}, p0)...)
			}
			return out
		}
		n := s.clone()
		a.scan(x.X, n)
		return []*pst{n}
	case *ast.AssignStmt:
		if len(x.Rhs) == 1 {
			if call, ok := ast.Unparen(x.Rhs[0]).(*ast.CallExpr); ok {
				if out, ok := a.inlineCall(call, x.Lhs, x.Tok, s); ok {
					return out
				}
			}
		}
		for i, r := range x.Rhs {
			if ne, pre, ok := a.hoist(r, s); ok {
				nr := append([]ast.Expr(nil), x.Rhs...)
				nr[i] = ne
				var out []*pst
				for _, p0 := range pre {
					if p0.done || p0.brk != "" {
						out = append(out, p0)
						continue
					}
					out = append(out, a.stmt(&ast.AssignStmt{Lhs: x.Lhs, TokPos: x.TokPos, Tok: x.Tok, Rhs: nr}, p0)...)
				}
				return out
			}
		}
		n := s.clone()
		a.assign(x, n)
		return []*pst{n}
	case *ast.DeclStmt:
		n := s.clone()
		a.scan(x, n)
		return []*pst{n}
	case *ast.IncDecStmt:
		n := s.clone()
		n.invalidate(a.str(x.X))
		return []*pst{n}
	case *ast.ReturnStmt:
		if len(s.inl) > 0 {
			return []*pst{a.inlineReturn(x, s)}
		}
		n := s.clone()
		for _, r := range x.Results {
			a.scan(r, n)
		}
		a.ret(x, n)
		return []*pst{n}
	case *ast.BranchStmt:
		n := s.clone()
		switch x.Tok {
		case token.BREAK:
			n.brk = "break"
		case token.CONTINUE:
			n.brk = "continue"
		case token.FALLTHROUGH:
			n.brk = "fallthrough"
		default:
			n.path.Undecided = append(n.path.Undecided, "goto in the state machine")
		}
		return []*pst{n}
	case *ast.IfStmt:
		cur := []*pst{s.clone()}
		if x.Init != nil {
			cur = a.stmt(x.Init, cur[0])
		}
		var out []*pst
		for _, c0 := range cur {
			for _, b := range a.evalBool(x.Cond, c0) {
				if b.v {
					out = append(out, a.walk(x.Body.List, []*pst{b.s})...)
				} else if x.Else != nil {
					out = append(out, a.stmt(x.Else, b.s)...)
				} else {
					out = append(out, b.s)
				}
			}
		}
		return out
	case *ast.ForStmt:
		// an inner loop: zero or one abstract iteration (the recorded flags are monotone)
		n := s.clone()
		if x.Init != nil {
			a.scan(x.Init, n)
		}
		var out []*pst
		conds := []vs{{n, true}}
		if x.Cond != nil {
			conds = a.evalBool(x.Cond, n)
		}
		for _, cnd := range conds {
			if !cnd.v {
				out = append(out, cnd.s)
				continue
			}
			for _, b := range a.walk(x.Body.List, []*pst{cnd.s}) {
				if b.brk == "break" || b.brk == "continue" {
					b.brk = ""
				}
				// after the abstract iteration every fact about the loop's variables is unknown
				b.facts = map[string]bool{}
				out = append(out, b)
			}
		}
		return out
	case *ast.EmptyStmt:
		return []*pst{s}
	case *ast.SwitchStmt:
		// an expression switch is the if / else-if chain of its cases, in order (default last)
		cur := []*pst{s.clone()}
		if x.Init != nil {
			cur = a.stmt(x.Init, cur[0])
		}
		var clauses []*ast.CaseClause
		var def *ast.CaseClause
		for _, c0 := range x.Body.List {
			cc := c0.(*ast.CaseClause)
			if cc.List == nil {
				def = cc
			} else {
				clauses = append(clauses, cc)
			}
		}
		var out []*pst
		pending := cur
		for _, cc := range clauses {
			// condition: OR over the case expressions (tag == e, or e itself for a tagless switch)
			var cond ast.Expr
			for _, e := range cc.List {
				var one ast.Expr = e
				if x.Tag != nil {
					one = &ast.BinaryExpr{X: x.Tag, Op: token.EQL, Y: e}
					// the synthesised comparison needs type information only for its operands, which exist
				}
				if cond == nil {
					cond = one
				} else {
					cond = &ast.BinaryExpr{X: cond, Op: token.LOR, Y: one}
				}
			}
			var next []*pst
			for _, p0 := range pending {
				for _, b := range a.evalBool(cond, p0) {
					if b.v {
						out = append(out, a.walkCase(cc.Body, b.s)...)
					} else {
						next = append(next, b.s)
					}
				}
			}
			pending = next
		}
		for _, p0 := range pending {
			if def != nil {
				out = append(out, a.walkCase(def.Body, p0)...)
			} else {
				out = append(out, p0)
			}
		}
		return out
	case *ast.RangeStmt:
		// like an inner loop: zero or one abstract iteration
		n := s.clone()
		a.scan(x.X, n)
		out := []*pst{n.clone()}
		for _, b := range a.walk(x.Body.List, []*pst{n.clone()}) {
			if b.brk == "break" || b.brk == "continue" {
				b.brk = ""
			}
			b.facts = map[string]bool{}
			out = append(out, b)
		}
		return out
	case *ast.LabeledStmt:
		n := s.clone()
		n.path.Undecided = append(n.path.Undecided, "labeled statement in the state machine")
		return []*pst{n}
	}
	n := s.clone()
	n.path.Undecided = append(n.path.Undecided, fmt.Sprintf("unhandled statement %T at %s", st, a.c.P.Pos(st.Pos())))
	return []*pst{n}
}

// walkCase walks the body of a case of an inner switch: `break` leaves the switch, `fallthrough` is not modelled.
func (a *smAn) walkCase(body []ast.Stmt, s *pst) []*pst {
	var out []*pst
	for _, b := range a.walk(body, []*pst{s}) {
		switch b.brk {
		case "break":
			b.brk = ""
		case "fallthrough":
			b.brk = ""
			b.path.Undecided = append(b.path.Undecided, "fallthrough inside a nested switch")
		}
		out = append(out, b)
	}
	return out
}

func (a *smAn) ret(x *ast.ReturnStmt, s *pst) {
	s.done = true
	s.path.Returned = true
	s.path.RetPos = x.Pos()
	var parts []string
	for _, r := range x.Results {
		parts = append(parts, a.str(r))
	}
	s.path.RetText = strings.Join(parts, ", ")
	if len(x.Results) != 2 {
		s.path.RetKind = "bad"
		return
	}
	// locals that merely carry the outcome of a helper stand for what they were given
	r0, r1 := ast.Unparen(a.subst(x.Results[0], s, 0)), ast.Unparen(a.subst(x.Results[1], s, 0))
	switch {
	case isNilIdent(r1) && a.isIdent(r0, a.urlObj):
		if s.urlNil == triF {
			s.path.RetKind = "ok"
		} else {
			s.path.RetKind = "bad"
			s.path.RetText += " (url not known to be non-nil)"
		}
	case isNilIdent(r1) && isNilIdent(r0):
		s.path.RetKind = "nilnil"
	case isNilIdent(r1):
		s.path.RetKind = "bad"
	default:
		id, ok := ast.Unparen(r1).(*ast.Ident)
		if ok && s.nonNil[a.obj(id)] {
			s.path.RetKind = "fail"
		} else {
			s.path.RetKind = "bad"
			s.path.RetText += " (error not known to be non-nil)"
		}
	}
}

func (a *smAn) assign(x *ast.AssignStmt, s *pst) {
	// right-hand sides: calls, derefs
	for _, r := range x.Rhs {
		before := len(s.path.Handlers)
		a.scanBool(r, s)
		// bind error variables
		if call, ok := ast.Unparen(r).(*ast.CallExpr); ok && len(x.Rhs) == 1 {
			callee, _ := typeutil.Callee(a.info, call).(*types.Func)
			if callee != nil {
				sig := callee.Type().(*types.Signature)
				et := types.Universe.Lookup("error").Type()
				for i := 0; i < sig.Results().Len() && i < len(x.Lhs); i++ {
					if !types.Identical(sig.Results().At(i).Type(), et) {
						continue
					}
					id, ok := x.Lhs[i].(*ast.Ident)
					if !ok || id.Name == "_" {
						continue
					}
					ev := &errVar{useIdx: -1, failLit: triU, from: callee.Name()}
					if fnv := a.ssaOf(callee); fnv != nil && a.em.Handlers[fnv] != nil && len(s.path.Handlers) > before {
						ev.useIdx = len(s.path.Handlers) - 1
						st := s.path.Handlers[ev.useIdx].Site
						if st.FailKnown && st.Failure {
							ev.failLit = triT
						} else if st.FailKnown {
							ev.failLit = triF
						}
					}
					s.errs[a.obj(id)] = ev
					delete(s.nonNil, a.obj(id))
					for j, l2 := range x.Lhs {
						if j == i {
							continue
						}
						if id2, ok := l2.(*ast.Ident); ok && id2.Name != "_" {
							s.valErr[a.obj(id2)] = a.obj(id)
						}
					}
				}
			}
		}
	}
	// an error (or nil) handed on to another variable keeps what is known about it
	if len(x.Rhs) == len(x.Lhs) {
		type carry struct {
			ev     *errVar
			nn, kn bool
		}
		var cs []*carry
		for _, r := range x.Rhs {
			var cy *carry
			rr := ast.Unparen(r)
			if isNilIdent(rr) {
				cy = &carry{nn: false, kn: true}
			} else if id, ok := rr.(*ast.Ident); ok {
				if o := a.obj(id); o != nil && types.Identical(o.Type(), types.Universe.Lookup("error").Type()) {
					cy = &carry{ev: s.errs[o]}
					cy.nn, cy.kn = s.nonNil[o]
				}
			}
			cs = append(cs, cy)
		}
		defer func() {
			for i, l := range x.Lhs {
				id, ok := ast.Unparen(l).(*ast.Ident)
				if !ok || id.Name == "_" || cs[i] == nil {
					continue
				}
				o := a.obj(id)
				if o == nil || !types.Identical(o.Type(), types.Universe.Lookup("error").Type()) {
					continue
				}
				if cs[i].ev != nil {
					s.errs[o] = cs[i].ev
				} else {
					delete(s.errs, o)
				}
				if cs[i].kn {
					s.nonNil[o] = cs[i].nn
				} else {
					delete(s.nonNil, o)
				}
			}
		}()
	}
	for i, l := range x.Lhs {
		var r ast.Expr
		if len(x.Rhs) == len(x.Lhs) {
			r = x.Rhs[i]
		}
		l = ast.Unparen(l)
		// index / star expressions on the left evaluate their operands
		switch lx := l.(type) {
		case *ast.Ident:
			o := a.obj(lx)
			if o == nil {
				continue
			}
			if o == a.stateObj {
				s.path.NextPos = x.Pos()
				if r != nil {
					r = ast.Unparen(a.subst(r, s, 0))
					if a.isIdent(r, a.stateObj) {
						// state = state (a helper answering "stay"): no transition
						s.path.NextPos = token.NoPos
						continue
					}
					if tv, ok := a.info.Types[r]; ok && tv.Value != nil {
						v, _ := constant.Int64Val(tv.Value)
						s.path.Next = a.stateNames[v]
						if s.path.Next == s.path.State {
							// the state it is in already (a helper answering "stay" by naming the state): no transition
							s.path.Next = ""
							s.path.NextPos = token.NoPos
						}
					} else if a.isIdent(r, a.ovParam) {
						s.path.Next = a.ctx.Override
					} else {
						s.path.Next = "?"
						s.path.Undecided = append(s.path.Undecided, "state assigned a non-constant value: "+a.str(r))
					}
				}
				continue
			}
			if r != nil && namedOf(o.Type()) == "PercentEncodeSet" {
				s.setVars[o] = a.resolveSet(r, s)
			}
			// (a definition that reads the cursor - `atEnd := input.eof || …` - holds until the cursor is moved or handed
			// to a function: invalidate("input.") drops it then)
			if r != nil && x.Tok == token.DEFINE && o != a.ovObj && len(x.Lhs) == len(x.Rhs) && a.pureExpr(r) {
				s.defs[o] = r
				if types.Identical(o.Type().Underlying(), types.Typ[types.Bool]) {
					s.boolDefs[o] = r
				}
			} else {
				delete(s.boolDefs, o)
				delete(s.defs, o)
			}
			if r != nil && types.Identical(o.Type(), types.Typ[types.String]) {
				if call, ok := ast.Unparen(r).(*ast.CallExpr); ok {
					if cl, _ := typeutil.Callee(a.info, call).(*types.Func); cl != nil && strings.HasPrefix(cl.Name(), "percentEncode") {
						s.strVars[o] = r
					}
				}
			}
			if o == a.urlObj {
				if r != nil && a.isIdent(ast.Unparen(a.subst(r, s, 0)), a.urlObj) {
					continue // url = url (handed back by a helper): nothing changes
				}
				if u, ok := ast.Unparen(r).(*ast.UnaryExpr); ok && u.Op == token.AND {
					s.urlNil = triF
				} else {
					s.urlNil = triU
				}
				continue
			}
			if o == a.inputObj || o == a.rObj || o == a.baseObj {
				if x.Tok != token.DEFINE && (o == a.inputObj || o == a.rObj) {
					// re-assignment of the cursor or of r inside a clause is outside the model
					if !(o == a.rObj && a.isLoopHead(x)) {
						s.path.Undecided = append(s.path.Undecided, "assignment to "+lx.Name+" inside the state machine")
					}
				}
				continue
			}
			s.invalidate(lx.Name)
		case *ast.SelectorExpr:
			if f, ok := a.urlField(lx); ok {
				kind, detail := "value", ""
				if r != nil {
					rr := ast.Unparen(r)
					switch {
					case isNilIdent(rr):
						kind = "null"
					default:
						if bf, ok := a.baseField(rr); ok {
							if bf == f {
								kind = "inherit"
							} else {
								kind, detail = "value", "from base."+bf
							}
						} else if call, ok := rr.(*ast.CallExpr); ok {
							if id, ok := call.Fun.(*ast.Ident); ok && id.Name == "new" {
								kind = "fresh"
							}
							// a write-free copy function applied to base's component: still the base's component
							var operand ast.Expr
							if sel, ok := call.Fun.(*ast.SelectorExpr); ok && len(call.Args) == 0 {
								operand = sel.X
							} else if len(call.Args) == 1 {
								operand = call.Args[0]
							}
							if operand != nil {
								if bf, ok := a.baseField(operand); ok && bf == f {
									if cl, _ := typeutil.Callee(a.info, call).(*types.Func); cl != nil {
										if sum := a.eff.Sum(a.ssaOf(cl)); sum != nil && len(sum.Mut) == 0 {
											kind, detail = "inherit", "copy by "+cl.Name()
										}
									}
								}
							}
						}
					}
					if detail == "" {
						detail = a.str(rr)
					}
					// validate-then-commit: &v where v came out of a call together with an error
					if u, ok := rr.(*ast.UnaryExpr); ok && u.Op == token.AND {
						if vid, ok := ast.Unparen(u.X).(*ast.Ident); ok {
							if eo, ok := s.valErr[a.obj(vid)]; ok {
								if nn, tested := s.nonNil[eo]; tested && !nn {
									detail += " [validated]"
								} else {
									detail += " [unvalidated]"
								}
							}
						}
					}
				}
				s.path.Effects = append(s.path.Effects, fieldEff{Field: f, Kind: kind, Detail: detail, Pos: x.Pos()})
				s.invalidate("url." + f)
				if f == "scheme" {
					s.invalidate("Special")
				}
				continue
			}
			a.scan(lx.X, s)
			if a.rootObj(lx) == a.urlObj {
				if f, ok := a.firstUrlField(lx); ok {
					s.path.Effects = append(s.path.Effects, fieldEff{Field: f, Kind: "elem", Detail: a.str(lx), Pos: x.Pos()})
				}
			}
			s.invalidate(a.str(lx))
		case *ast.StarExpr:
			a.scan(lx.X, s)
			if f, ok := a.urlField(lx.X); ok {
				s.path.Effects = append(s.path.Effects, fieldEff{Field: f, Kind: "deref", Detail: a.str(lx), Pos: x.Pos()})
			}
			s.invalidate(a.str(lx.X))
		case *ast.IndexExpr:
			a.scan(lx.X, s)
			a.scan(lx.Index, s)
			if a.rootObj(lx) == a.urlObj {
				if f, ok := a.firstUrlField(lx); ok {
					s.path.Effects = append(s.path.Effects, fieldEff{Field: f, Kind: "elem", Detail: a.str(lx), Pos: x.Pos()})
				}
			}
			s.invalidate(a.str(lx.X))
		default:
			s.path.Undecided = append(s.path.Undecided, "unhandled assignment target "+a.str(l))
		}
	}
}

// mentionsCursorState: expressions over the cursor (input.eof, remaining…) change with every cursor move; they are
// not substituted.
func (a *smAn) mentionsCursorState(e ast.Expr) bool {
	found := false
	ast.Inspect(e, func(n ast.Node) bool {
		if id, ok := n.(*ast.Ident); ok && a.obj(id) == a.inputObj {
			found = true
		}
		return !found
	})
	return found
}

func (a *smAn) isLoopHead(x *ast.AssignStmt) bool {
	return len(a.loop.Body.List) > 0 && a.loop.Body.List[0] == ast.Stmt(x)
}

// firstUrlField: for url.f.g[...]... returns f.
func (a *smAn) firstUrlField(e ast.Expr) (string, bool) {
	for {
		e = ast.Unparen(e)
		if f, ok := a.urlField(e); ok {
			return f, true
		}
		switch x := e.(type) {
		case *ast.SelectorExpr:
			e = x.X
		case *ast.IndexExpr:
			e = x.X
		case *ast.StarExpr:
			e = x.X
		default:
			return "", false
		}
	}
}

// ---------- driver ----------

func (a *smAn) clauseBody(state string) []ast.Stmt {
	cc := a.clauses[state]
	if cc == nil {
		return nil
	}
	body := cc.Body
	// follow fallthrough chains
	for len(body) > 0 {
		br, ok := body[len(body)-1].(*ast.BranchStmt)
		if !ok || br.Tok != token.FALLTHROUGH {
			break
		}
		// next clause in source order
		var next *ast.CaseClause
		for i, cs := range a.sw.Body.List {
			if cs == ast.Stmt(cc) && i+1 < len(a.sw.Body.List) {
				next = a.sw.Body.List[i+1].(*ast.CaseClause)
			}
		}
		if next == nil {
			break
		}
		body = append(append([]ast.Stmt(nil), body[:len(body)-1]...), next.Body...)
		cc = next
	}
	return body
}

func (a *smAn) newState(state string) *pst {
	return &pst{defs: map[types.Object]ast.Expr{}, valErr: map[types.Object]types.Object{}, boolDefs: map[types.Object]ast.Expr{}, bufState: map[string]string{}, setVars: map[types.Object]string{}, strVars: map[types.Object]ast.Expr{}, path: smPath{Ctx: a.ctx.Name, State: state}, facts: map[string]bool{}, rclass: a.allClasses(), eofSynced: true,
		errs: map[types.Object]*errVar{}, nonNil: map[types.Object]bool{}, urlNil: triF}
}

func (a *smAn) explore(ctx smContext) (paths []*smPath, reach []string) {
	a.ctx = ctx
	// prologue
	p0 := a.newState("<prologue>")
	p0.eofSynced = false
	if ctx.Override == "" {
		p0.urlNil = triT // the API's parse entry points pass url == nil
	} else {
		p0.urlNil = triF
	}
	entry := map[string]bool{}
	// definitions made before the loop that only read the (private, never written) base and constants hold in every state
	var carried map[types.Object]ast.Expr
	for _, s := range a.walk(a.prologue, []*pst{p0}) {
		s.path.RClass = nil
		pp := s.path
		paths = append(paths, &pp)
		if !s.done {
			if s.urlNil != triF {
				pp.Undecided = append(pp.Undecided, "url may be nil when the main loop is entered")
			}
			entry[s.path.Next] = true
			here := map[types.Object]ast.Expr{}
			for o, d := range s.defs {
				if a.baseOnly(d) {
					here[o] = d
				}
			}
			if carried == nil {
				carried = here
			} else {
				for o, d := range carried {
					if d2, ok := here[o]; !ok || types.ExprString(d2) != types.ExprString(d) {
						delete(carried, o)
					}
				}
			}
		}
	}
	// … and only for variables the loop never assigns (nor takes the address of)
	if a.loop != nil {
		ast.Inspect(a.loop, func(n ast.Node) bool {
			drop := func(e ast.Expr) {
				if id, ok := e.(*ast.Ident); ok {
					if o := a.obj(id); o != nil {
						delete(carried, o)
					}
				}
			}
			switch x := n.(type) {
			case *ast.AssignStmt:
				for _, l := range x.Lhs {
					drop(l)
				}
			case *ast.IncDecStmt:
				drop(x.X)
			case *ast.UnaryExpr:
				if x.Op == token.AND {
					drop(x.X)
				}
			case *ast.RangeStmt:
				if x.Key != nil {
					drop(x.Key)
				}
				if x.Value != nil {
					drop(x.Value)
				}
			}
			return true
		})
	}
	a.carried = carried
	var work []string
	for e := range entry {
		work = append(work, e)
	}
	sort.Strings(work)
	seen := map[string]bool{}
	for len(work) > 0 {
		st := work[0]
		work = work[1:]
		if seen[st] {
			continue
		}
		seen[st] = true
		reach = append(reach, st)
		body := a.clauseBody(st)
		if a.clauses[st] == nil {
			paths = append(paths, &smPath{Ctx: ctx.Name, State: st, Undecided: []string{"state " + st + " has no case clause"}})
			continue
		}
		st0 := a.newState(st)
		for o, d := range a.carried {
			st0.defs[o] = d
			if types.Identical(o.Type().Underlying(), types.Typ[types.Bool]) {
				st0.boolDefs[o] = d
			}
		}
		for _, s := range a.walk(body, []*pst{st0}) {
			if s.brk == "continue" && s.rclass["EOF"] && !a.doWhile {
				// a `continue` while the code point may be EOF skips the loop's eof exit (otherwise the next round
				// starts by advancing the cursor, like any other)
				s.path.Continue = true
			}
			s.path.BufferEmptyAtEnd = s.bufState["buffer"] == "empty"
			for k := range s.rclass {
				s.path.RClass = append(s.path.RClass, k)
			}
			sort.Strings(s.path.RClass)
			pp := s.path
			paths = append(paths, &pp)
			if !s.done && pp.Next != "" && pp.Next != "?" && !seen[pp.Next] {
				work = append(work, pp.Next)
			}
		}
	}
	return paths, reach
}

// BuildSM extracts the state machine under every context.
func BuildSM(c *Ctx) *smModel {
	return c.Memo("sm", func() interface{} {
		m := &smModel{Paths: map[string][]*smPath{}, Reach: map[string][]string{}}
		a, err := buildSMAn(c)
		if err != nil {
			m.Problems = append(m.Problems, err.Error())
			return m
		}
		m.An = a
		m.Problems = append(m.Problems, a.problems...)
		m.Contexts = []smContext{
			{Name: "parse/nobase", Base: triF},
			{Name: "parse/base", Base: triT},
		}
		for _, n := range []string{"StateSchemeStart", "StateHost", "StateHostname", "StatePort", "StatePathStart", "StateQuery", "StateFragment"} {
			v, ok := a.stateVals[n]
			if !ok {
				m.Problems = append(m.Problems, "state constant "+n+" not found")
				continue
			}
			m.Contexts = append(m.Contexts, smContext{Name: "override/" + n, Override: n, OverrideVal: v, Base: triF})
		}
		if c.Deep {
			// finer contexts: the scheme class fixed on/off
			var extra []smContext
			for _, cx := range m.Contexts {
				for _, sp := range []bool{true, false} {
					n := cx
					n.Name = fmt.Sprintf("%s/special=%v", cx.Name, sp)
					n.Fixed = map[string]bool{"url.IsSpecialScheme()": sp}
					extra = append(extra, n)
				}
			}
			m.Contexts = append(m.Contexts, extra...)
		}
		for _, cx := range m.Contexts {
			ps, reach := a.explore(cx)
			m.Paths[cx.Name] = ps
			m.Reach[cx.Name] = reach
			m.NPaths += len(ps)
		}
		c.P.Stats["sm_contexts"] = len(m.Contexts)
		c.P.Stats["sm_paths"] = m.NPaths
		c.P.Stats["sm_states"] = len(a.clauseOrder)
		return m
	}).(*smModel)
}

// ownerClause: the case clause whose statements run for a state (after following fallthrough).
func (a *smAn) ownerClause(state string) *ast.CaseClause {
	cc := a.clauses[state]
	for cc != nil && len(cc.Body) > 0 {
		br, ok := cc.Body[len(cc.Body)-1].(*ast.BranchStmt)
		if !ok || br.Tok != token.FALLTHROUGH {
			break
		}
		var next *ast.CaseClause
		for i, cs := range a.sw.Body.List {
			if cs == ast.Stmt(cc) && i+1 < len(a.sw.Body.List) {
				next = a.sw.Body.List[i+1].(*ast.CaseClause)
			}
		}
		if next == nil {
			break
		}
		cc = next
	}
	return cc
}

// groupOf: the states that run the same clause body ("StateHost+StateHostname"), independent of whether the source
// writes `case A: fallthrough; case B:` or `case A, B:`.
func (a *smAn) groupOf(state string) string {
	own := a.ownerClause(state)
	var names []string
	seen := map[string]bool{}
	for _, n := range a.clauseOrder {
		if a.ownerClause(n) == own && !seen[n] {
			seen[n] = true
			names = append(names, n)
		}
	}
	sort.Strings(names)
	return strings.Join(names, "+")
}

// groupAt: the clause group whose statements contain pos.
func (a *smAn) groupAt(pos token.Pos) string {
	for _, n := range a.clauseOrder {
		cc := a.ownerClause(n)
		if cc != nil && cc.Pos() <= pos && pos < cc.End() {
			return a.groupOf(n)
		}
	}
	return ""
}

// clauseOf returns the name of the state clause containing pos ("" if outside the switch).
func (a *smAn) clauseOf(pos token.Pos) string {
	for _, n := range a.clauseOrder {
		cc := a.clauses[n]
		if cc.Pos() <= pos && pos < cc.End() {
			// with `case A: fallthrough; case B:` both names map to distinct clauses; pick the one containing pos
			return n
		}
	}
	return ""
}

var _ = core.FuncName
