package rules

// TAB-thresholds: for which values of a counter the host parsers reject.
//
// The number parsers decide "failure" by comparing a handful of counters with constants: more than four IPv4 parts,
// a ninth IPv6 piece, a fifth dotted number, a part above 255, a leading zero. SM-failpoints establishes that these
// failure points exist and abort; this rule decides *for which values they are reached*.
//
// For a function and a variable (named as in the source: `pieceIdx`, `len(parts)`), every test `X op constant` on an
// SSA value X of that name is an anchor. For each probe value v the CFG is pruned as if X == v (tests on the same
// SSA value only; every other condition stays open) and the rule asks whether control can get from the anchor to a
// return, or to the point where X gets its next value, without passing a rejection (a handler call with the constant
// failure flag `true`; for a predicate: `return false`). Values for which it cannot are the anchor's rejected set.
// Only values with which the anchor can be reached from the first test of X count. The family of non-empty rejected
// sets must equal the standard's (spec/thresholds.json). A variable the code no longer has: not decided (inventory).

import (
	"fmt"
	"go/ast"
	"go/token"
	"go/types"
	"sort"
	"strings"

	"golang.org/x/tools/go/ssa"

	"wucheck/core"
)

type thrTest struct {
	blk  *ssa.BasicBlock
	x    ssa.Value
	op   token.Token // X op K
	k    int64
	name string
	pos  token.Pos
}

// cmpOperandText finds the source text of the non-constant operand of the comparison at pos.
func cmpOperandText(f *ssa.Function, pos token.Pos) string {
	syn := f.Syntax()
	if syn == nil || !pos.IsValid() {
		return ""
	}
	out := ""
	ast.Inspect(syn, func(n ast.Node) bool {
		be, ok := n.(*ast.BinaryExpr)
		if !ok || be.OpPos != pos {
			return out == ""
		}
		x, y := ast.Unparen(be.X), ast.Unparen(be.Y)
		if _, isLit := x.(*ast.BasicLit); isLit {
			x = y
		}
		if ue, ok := x.(*ast.UnaryExpr); ok {
			if _, isLit := ue.X.(*ast.BasicLit); isLit {
				x = y
			}
		}
		out = types.ExprString(x)
		return false
	})
	return out
}

// referenceFuncs: the functions the reference inventory (spec/names.json) knows, as pkg.Owner.Name.
func referenceFuncs(c *Ctx) map[string]bool {
	return c.Memo("referenceFuncs", func() interface{} {
		m := map[string]bool{}
		var inv struct {
			Entities []struct {
				Kind, Pkg, Owner, Name string
			} `json:"entities"`
		}
		readSpec(c, "names.json", &inv)
		for _, e := range inv.Entities {
			if e.Kind == "func" {
				m[e.Pkg+"."+e.Owner+"."+e.Name] = true
			}
		}
		return m
	}).(map[string]bool)
}

// newHelpersOf: module functions reachable from f through static calls that the reference inventory does not know
// (helpers a refactoring introduced).
func newHelpersOf(c *Ctx, f *ssa.Function) []*ssa.Function {
	known := referenceFuncs(c)
	seen := map[*ssa.Function]bool{f: true}
	var out []*ssa.Function
	work := []*ssa.Function{f}
	for len(work) > 0 {
		g := work[0]
		work = work[1:]
		for _, b := range g.Blocks {
			for _, ins := range b.Instrs {
				call, ok := ins.(*ssa.Call)
				if !ok {
					continue
				}
				cl := call.Common().StaticCallee()
				if cl == nil || seen[cl] || !c.P.InModule(cl) || len(cl.Blocks) == 0 || cl.Pkg == nil {
					continue
				}
				if known[cl.Pkg.Pkg.Name()+"."+namedOf(recvType(cl))+"."+cl.Name()] {
					continue
				}
				seen[cl] = true
				out = append(out, cl)
				work = append(work, cl)
			}
		}
	}
	return out
}

func evalCmp(v int64, op token.Token, k int64) bool {
	switch op {
	case token.EQL:
		return v == k
	case token.NEQ:
		return v != k
	case token.LSS:
		return v < k
	case token.LEQ:
		return v <= k
	case token.GTR:
		return v > k
	case token.GEQ:
		return v >= k
	}
	return false
}

func init() {
	register(&Rule{
		Name:  "TAB-thresholds",
		Doc:   "the values of their counters for which the IPv4 / IPv6 number parsers (and the IPv4 recogniser of the accessors) reject are the standard's: per function and variable, the family of value sets for which control cannot get past a test of the variable without a rejection equals the table (CFG pruned per probe value; every other condition open)",
		Props: []string{"C07", "C08", "C19", "C04", "C01"},
		Floor: 6,
		Run: func(c *Ctx, s *core.Sink) {
			var spec struct {
				Entries []struct {
					Pkg, Recv, Func string
					Kind            string // handler | false
					Var             string
					Probe           []int64
					Fails           [][]int64
					First           [][]int64 // the subset of Fails that must hold at a first (undominated) test of the variable
					Props           []string
					Spec            string
				} `json:"entries"`
			}
			readSpec(c, "thresholds.json", &spec)
			em := buildErrModel(c)
			for _, e := range spec.Entries {
				f := c.P.Func(e.Pkg, e.Recv, e.Func)
				key := fmt.Sprintf("thresholds/%s.%s/%s", e.Recv, e.Func, e.Var)
				if e.Recv == "" {
					key = fmt.Sprintf("thresholds/%s/%s", e.Func, e.Var)
				}
				inventory := func(why string) {
					s.Obs = append(s.Obs, core.Obligation{Rule: s.Rule, Construct: key, Pos: "-", Verdict: core.Discharged, Fact: "inventory: not decided (" + why + ")", Props: e.Props, Trivial: true})
				}
				if f == nil || len(f.Blocks) == 0 {
					inventory("the function is not there")
					continue
				}
				helpers := newHelpersOf(c, f)
				family := map[string]*thrTest{}
				topFamily := map[string]bool{}
				nTests := 0
				var firstPos token.Pos
				var done []*thrAn
				for _, g := range append([]*ssa.Function{f}, helpers...) {
					g := g
					// a value is feasible for a parameter when some call site analysed so far can pass it
					pf := func(p *ssa.Parameter, v int64) bool {
						idx := -1
						for i, q := range g.Params {
							if q == p {
								idx = i
							}
						}
						sites, ok := 0, false
						for _, an := range done {
							for _, b := range an.fn.Blocks {
								for _, ins := range b.Instrs {
									call, isCall := ins.(*ssa.Call)
									if !isCall || call.Common().StaticCallee() != g || idx < 0 || idx >= len(call.Common().Args) {
										continue
									}
									sites++
									a := stripConv(call.Common().Args[idx])
									if !an.hasTests(a) || an.feasibleAt(a, v, b) {
										ok = true
									}
								}
							}
						}
						return ok || sites == 0
					}
					an := thresholdFamily(c, em, g, e.Var, e.Kind, e.Probe, family, topFamily, pf)
					done = append(done, an)
					nTests += an.n
					if !firstPos.IsValid() {
						firstPos = an.pos
					}
				}
				if nTests == 0 {
					inventory("no test of " + e.Var + " against a constant")
					continue
				}
				want := map[string]bool{}
				for _, fs := range e.Fails {
					var l []string
					for _, v := range fs {
						l = append(l, fmt.Sprint(v))
					}
					want[strings.Join(l, ",")] = true
				}
				var missing, extra []string
				for k := range want {
					if family[k] == nil {
						missing = append(missing, "{"+k+"}")
					}
				}
				pos := c.P.Pos(firstPos)
				for k, t := range family {
					if !want[k] {
						extra = append(extra, "{"+k+"}")
						pos = c.P.Pos(t.pos)
					}
				}
				for _, fs := range e.First {
					var l []string
					for _, v := range fs {
						l = append(l, fmt.Sprint(v))
					}
					k := strings.Join(l, ",")
					if family[k] != nil && !topFamily[k] {
						missing = append(missing, "{"+k+"} at the first test of the variable (it holds only behind another test that lets these values pass)")
					}
				}
				sort.Strings(missing)
				sort.Strings(extra)
				if len(missing) == 0 && len(extra) == 0 {
					var ks []string
					for k := range want {
						ks = append(ks, "{"+k+"}")
					}
					sort.Strings(ks)
					s.OK(key, pos, fmt.Sprintf("%d tests of %s; rejected for %s (probes %v) - %s", nTests, e.Var, strings.Join(ks, " and "), e.Probe, e.Spec), e.Props...)
				} else if len(extra) == 0 && len(helpers) > 0 {
					// part of the function now lives in helpers where the variable may go by another name
					inventory(fmt.Sprintf("no test of %s rejects for %s, but the function has new helpers (%d) that may hold the test under another name", e.Var, strings.Join(missing, ", "), len(helpers)))
				} else {
					msg := fmt.Sprintf("%s: among the probe values %v", e.Var, e.Probe)
					if len(missing) > 0 {
						msg += "; the standard rejects for " + strings.Join(missing, ", ") + " but no test of the variable does"
					}
					if len(extra) > 0 {
						msg += "; the code rejects for " + strings.Join(extra, ", ") + ", which the standard does not"
					}
					s.Bad(key, pos, msg+" ("+e.Spec+")", e.Props...)
				}
			}
		},
	})
}

// thresholdFamily adds to family the non-empty rejected sets of the tests of the variable in g.
type thrAn struct {
	fn         *ssa.Function
	n          int
	pos        token.Pos
	hasTests   func(x ssa.Value) bool
	feasibleAt func(x ssa.Value, v int64, blk *ssa.BasicBlock) bool
}

func thresholdFamily(c *Ctx, em *errModel, f *ssa.Function, varName, kind string, probe []int64, family map[string]*thrTest, topFamily map[string]bool, paramFeasible func(p *ssa.Parameter, v int64) bool) *thrAn {
	ff := Facts(c, f)
	// tests of the variable
	var tests []*thrTest
	for _, b := range f.Blocks {
		iff, ok := lastIf(b)
		if !ok || !ff.Reachable(b) {
			continue
		}
		bo, ok := iff.Cond.(*ssa.BinOp)
		if !ok {
			continue
		}
		op := bo.Op
		x, y := bo.X, bo.Y
		if _, isK := x.(*ssa.Const); isK {
			x, y = y, x
			op = mirror(op)
		}
		k, isK := constInt(y)
		if !isK {
			continue
		}
		switch op {
		case token.EQL, token.NEQ, token.LSS, token.LEQ, token.GTR, token.GEQ:
		default:
			continue
		}
		if _, _, isInt := intTypeInfo(x.Type()); !isInt {
			continue
		}
		name := cmpOperandText(f, bo.Pos())
		if name != varName {
			continue
		}
		tests = append(tests, &thrTest{blk: b, x: stripConv(x), op: op, k: k, name: name, pos: bo.Pos()})
	}
	if len(tests) == 0 {
		return &thrAn{fn: f, hasTests: func(ssa.Value) bool { return false }, feasibleAt: func(ssa.Value, int64, *ssa.BasicBlock) bool { return true }}
	}
	// rejections
	reject := map[*ssa.BasicBlock]bool{}
	for _, b := range f.Blocks {
		for _, ins := range b.Instrs {
			switch x := ins.(type) {
			case *ssa.Call:
				if kind == "handler" {
					if h := em.Handlers[x.Common().StaticCallee()]; h != nil {
						if fl, known := h.failureAt(x); known && fl {
							reject[b] = true
						}
					}
				}
			case *ssa.Return:
				if kind == "false" && len(x.Results) == 1 {
					if v, ok := constBool(x.Results[0]); ok && !v {
						reject[b] = true
					}
				}
			}
		}
	}
	// successors of b when X (the SSA value x) is v
	succs := func(b *ssa.BasicBlock, x ssa.Value, v int64) []*ssa.BasicBlock {
		var out []*ssa.BasicBlock
		take := -1
		for _, t := range tests {
			if t.blk == b && t.x == x {
				take = 1
				if evalCmp(v, t.op, t.k) {
					take = 0
				}
			}
		}
		for i, sc := range b.Succs {
			if !ff.feasible[b][i] {
				continue
			}
			if take >= 0 && i != take {
				continue
			}
			out = append(out, sc)
		}
		return out
	}
	defBlock := func(x ssa.Value) *ssa.BasicBlock {
		if in, ok := x.(ssa.Instruction); ok {
			return in.Block()
		}
		return nil
	}
	// reach(from, x, v, stopAtReject): blocks reachable from `from`
	reach := func(from *ssa.BasicBlock, x ssa.Value, v int64, avoidReject bool) (map[*ssa.BasicBlock]bool, bool) {
		seen := map[*ssa.BasicBlock]bool{}
		escaped := false
		var walk func(b *ssa.BasicBlock, first bool)
		walk = func(b *ssa.BasicBlock, first bool) {
			if !first {
				if b == defBlock(x) {
					escaped = true // X gets its next value
					return
				}
			}
			if seen[b] {
				return
			}
			seen[b] = true
			if avoidReject && reject[b] {
				return
			}
			if _, isRet := b.Instrs[len(b.Instrs)-1].(*ssa.Return); isRet {
				escaped = true
				return
			}
			for _, sc := range succs(b, x, v) {
				walk(sc, false)
			}
		}
		walk(from, true)
		return seen, escaped
	}
	// per SSA value: topmost tests and feasibility of the others
	byX := map[ssa.Value][]*thrTest{}
	for _, t := range tests {
		byX[t.x] = append(byX[t.x], t)
	}
	topsOf := func(x ssa.Value) []*thrTest {
		ts := byX[x]
		var tops []*thrTest
		for _, t := range ts {
			top := true
			for _, o := range ts {
				if o != t && ff.Dominates(o.blk, t.blk) {
					top = false
				}
			}
			if top {
				tops = append(tops, t)
			}
		}
		return tops
	}
	// feasibleAt: with X == v, can control reach blk (from the first tests of X; for a parameter, from a call site
	// that can pass v)?
	feasibleAt := func(x ssa.Value, v int64, blk *ssa.BasicBlock) bool {
		if p, ok := x.(*ssa.Parameter); ok && paramFeasible != nil && !paramFeasible(p, v) {
			return false
		}
		for _, tp := range topsOf(x) {
			if tp.blk == blk {
				return true
			}
			if seen, _ := reach(tp.blk, x, v, false); seen[blk] {
				return true
			}
		}
		return len(byX[x]) == 0
	}
	for x, ts := range byX {
		for _, t := range ts {
			var rej []string
			for _, v := range probe {
				if !feasibleAt(x, v, t.blk) {
					continue
				}
				if _, esc := reach(t.blk, x, v, true); !esc {
					rej = append(rej, fmt.Sprint(v))
				}
			}
			if len(rej) > 0 {
				k := strings.Join(rej, ",")
				if family[k] == nil {
					family[k] = t
				}
				for _, tp := range topsOf(x) {
					if tp == t {
						topFamily[k] = true
					}
				}
			}
		}
	}
	return &thrAn{fn: f, n: len(tests), pos: tests[0].pos, hasTests: func(x ssa.Value) bool { return len(byX[x]) > 0 }, feasibleAt: feasibleAt}
}
