package rules

// OPT-effect: an option that is switched on reaches the place where it acts.
//
// OPT-bij shows that every option constructor sets its own field, OPT-consumers that a relaxing option is read only
// where its trigger holds. What neither says is that the consumer still *does* the option's work. Two structural
// clauses of that, for the options whose work is visible in the shape of the code:
//   - a callback option (a func-typed field with a result) is called somewhere through the field, and the call's
//     answer is used: stored, returned, merged or passed on;
//   - percent-encode-single-percent-sign: on the arm taken only when the option is on, the set handed to the encoder
//     is a Set(…) of the component's set that contains '%' (0x25).

import (
	"fmt"
	"go/types"

	"golang.org/x/tools/go/ssa"

	"wucheck/core"
)

// variadicConsts returns the integer constants of a variadic argument built in place (new [n]T; stores; slice).
func variadicConsts(v ssa.Value) ([]int64, bool) {
	sl, ok := v.(*ssa.Slice)
	if !ok {
		return nil, false
	}
	al, ok := sl.X.(*ssa.Alloc)
	if !ok {
		return nil, false
	}
	var out []int64
	for _, r := range *al.Referrers() {
		ia, ok := r.(*ssa.IndexAddr)
		if !ok {
			continue
		}
		for _, r2 := range *ia.Referrers() {
			if st, ok := r2.(*ssa.Store); ok {
				k, isK := constInt(stripConv(st.Val))
				if !isK {
					return nil, false
				}
				out = append(out, k)
			}
		}
	}
	return out, true
}

func valueUsed(v ssa.Value) bool {
	refs := v.Referrers()
	if refs == nil {
		return false
	}
	for _, r := range *refs {
		if _, isDbg := r.(*ssa.DebugRef); !isDbg {
			return true
		}
	}
	return false
}

func init() {
	register(&Rule{
		Name:  "OPT-effect",
		Doc:   "an option that is on reaches the place where it acts: every callback option (func-typed field with a result) is called through its field somewhere and the answer is used; on the arm taken only when percent-encode-single-percent-sign is on, the set handed to the encoder is a Set(…) of the component's set that contains '%'",
		Props: []string{"C16"},
		Floor: 3,
		Run: func(c *Ctx, s *core.Sink) {
			// callback fields of the options struct
			var optStruct *types.Struct
			if pk := c.P.ByName["url"]; pk != nil {
				if tn, ok := pk.Types.Scope().Lookup("parserOptions").(*types.TypeName); ok {
					optStruct, _ = tn.Type().Underlying().(*types.Struct)
				}
			}
			if optStruct == nil {
				s.Unknown("effect/anchor", "-", "the options struct was not found")
				return
			}
			called := map[string]bool{}
			used := map[string]bool{}
			pos := map[string]string{}
			for _, f := range c.P.ModFns {
				for _, b := range f.Blocks {
					for _, ins := range b.Instrs {
						call, ok := ins.(*ssa.Call)
						if !ok || call.Common().IsInvoke() {
							continue
						}
						if o := optLoad(call.Common().Value); o != "" {
							called[o] = true
							pos[o] = c.P.Pos(call.Pos())
							if valueUsed(call) {
								used[o] = true
							}
						}
					}
				}
			}
			for i := 0; i < optStruct.NumFields(); i++ {
				fld := optStruct.Field(i)
				sig, ok := fld.Type().Underlying().(*types.Signature)
				if !ok || sig.Results().Len() == 0 {
					continue
				}
				key := "effect/callback/" + fld.Name()
				switch {
				case !called[fld.Name()]:
					s.Bad(key, c.P.Pos(fld.Pos()), "the callback option is never called: setting it has no effect")
				case !used[fld.Name()]:
					s.Bad(key, pos[fld.Name()], "the callback is called but its answer is dropped: setting the option has no effect on the result")
				default:
					s.OK(key, pos[fld.Name()], "called through the option field; the answer is used")
				}
			}
			// percent-encode-single-percent-sign
			n := 0
			for _, f := range c.P.ModFns {
				if isInitializer(f) || f.Parent() != nil {
					continue
				}
				for _, b := range f.Blocks {
					iff, ok := lastIf(b)
					if !ok {
						continue
					}
					facts := normFact(iff.Cond, true)
					if len(facts) != 1 || optLoad(facts[0].Cond) != "percentEncodeSinglePercentSign" {
						continue
					}
					on := b.Succs[0]
					if !facts[0].Val {
						on = b.Succs[1]
					}
					n++
					key := fmt.Sprintf("effect/percentEncodeSinglePercentSign/%s#%d", core.FuncName(f), n)
					if len(on.Preds) != 1 {
						s.Unknown(key, c.P.Pos(iff.Cond.Pos()), "the arm taken when the option is on is shared with other paths")
						continue
					}
					// blocks only reached with the option on
					verdict, where := "", c.P.Pos(iff.Cond.Pos())
					for _, ob := range f.Blocks {
						if !on.Dominates(ob) {
							continue
						}
						for _, ins := range ob.Instrs {
							call, ok := ins.(*ssa.Call)
							if !ok {
								continue
							}
							cl := call.Common().StaticCallee()
							if cl == nil || cl.Name() != "Set" || namedOf(recvType(cl)) != "PercentEncodeSet" || len(call.Common().Args) != 2 {
								continue
							}
							ks, ok := variadicConsts(call.Common().Args[1])
							if !ok {
								continue
							}
							has := false
							for _, k := range ks {
								if k == '%' {
									has = true
								}
							}
							passed := false
							seenV := map[ssa.Value]bool{}
							var follow func(v ssa.Value)
							follow = func(v ssa.Value) {
								if seenV[v] {
									return
								}
								seenV[v] = true
								for _, r := range *v.Referrers() {
									if c2, ok := r.(*ssa.Call); ok && c2.Common().StaticCallee() != nil && c.P.InModule(c2.Common().StaticCallee()) {
										passed = true
									}
									// a set selector hands the extended set back to its caller, which encodes with it
									if _, isRet := r.(*ssa.Return); isRet && f.Signature.Results().Len() > 0 && namedOf(f.Signature.Results().At(0).Type()) == "PercentEncodeSet" {
										passed = true
									}
									// kept in a variable first (`tr = tr.Set('%')`, built once and reused): the choice between it
									// and the plain set is what the encoder is handed
									if phi, ok := r.(*ssa.Phi); ok {
										follow(phi)
									}
								}
							}
							follow(call)
							where = c.P.Pos(call.Pos())
							switch {
							case has && passed:
								verdict = "ok"
							case verdict == "":
								verdict = fmt.Sprintf("the set built on the option's arm adds %v, not '%%' (0x25)", ks)
								if has {
									verdict = "the set with '%' added is not handed to an encoder"
								}
							}
						}
					}
					switch verdict {
					case "ok":
						s.OK(key, where, "on the option's arm the encoder gets the component's set with '%' added")
					case "":
						s.Bad(key, where, "on the arm taken when the option is on no set with '%' added is built: a lone '%' is not encoded and the option has no effect")
					default:
						s.Bad(key, where, verdict)
					}
				}
			}
		},
	})
}
