package rules

// ERR engine: validation-error discipline (DESIGN §3.3).

import (
	"fmt"
	"go/constant"
	"go/token"
	"go/types"
	"sort"
	"strings"

	"golang.org/x/tools/go/ssa"

	"wucheck/core"
)

// handlerInfo describes one of the error handlers of package url.
type handlerInfo struct {
	Fn        *ssa.Function
	UrlIdx    int // parameter index of *Url — or, when UrlField ≥ 0, of the object that carries it (`r reporter` with r.url)
	UrlField  int // -1, or the index of the *Url field of the carrier parameter
	TypeIdx   int // parameter index of errors.ErrorType
	FailIdx   int // parameter index of the failure flag; -1 when the flag is the constant FailConst (a wrapper for failures only)
	FailConst bool
	ErrResult int // index of the handler's answer among the results (a wrapper may return zero values beside it)
	// the constructor call stands in ViaCore, an unexported function only the handlers call, which is handed what the
	// handler knows in a struct (`p.report(u, validationIssue{errorType: t, failure: f})`)
	ViaCore  *ssa.Function
	DescrIdx int // -1 if none
	CauseIdx int // -1 if none
	Ctor     *ssa.Function
	CtorCall *ssa.Call
	// the decision (record? return?) may live in a helper shared by the handlers: `return p.report(u, e, failure)`
	Core                                *ssa.Function
	CoreCall                            *ssa.Call
	CoreUrlIdx, CoreErrIdx, CoreFailIdx int
	// a thin wrapper: `return p.handle(u, t, failure, "", nil)` - its own parameters handed on to the handler Forward
	Forward     *handlerInfo
	ForwardCall *ssa.Call
}

// body returns the function holding the handler's decision and, in it, the values standing for the URL, the
// constructed error and the failure flag.
func (h *handlerInfo) body() (fn *ssa.Function, url, e, fail ssa.Value) {
	if h.Core != nil {
		return h.Core, h.Core.Params[h.CoreUrlIdx], h.Core.Params[h.CoreErrIdx], h.Core.Params[h.CoreFailIdx]
	}
	return h.Fn, h.Fn.Params[h.UrlIdx], h.CtorCall, h.Fn.Params[h.FailIdx]
}

// failureAt: the failure flag of this call of the handler, when it is a constant (of the call, or of the wrapper).
func (h *handlerInfo) failureAt(call *ssa.Call) (bool, bool) {
	if h.FailIdx < 0 {
		return h.FailConst, true
	}
	if h.FailIdx >= len(call.Common().Args) {
		return false, false
	}
	return constBool(call.Common().Args[h.FailIdx])
}

// isURL: v (brought into the handler's own frame by resolve) is the URL the handler reports into — its *Url parameter,
// or the *Url field of the object that carries it, read through a pointer, a struct value or the spilled copy of one.
func (h *handlerInfo) isURL(v ssa.Value, resolve func(ssa.Value) ssa.Value) bool {
	carrier := ssa.Value(h.Fn.Params[h.UrlIdx])
	v = resolve(v)
	if h.UrlField < 0 {
		return v == carrier
	}
	var isCarrier func(x ssa.Value, depth int) bool
	isCarrier = func(x ssa.Value, depth int) bool {
		if depth > 6 {
			return false
		}
		x = resolve(x)
		if x == carrier {
			return true
		}
		switch y := x.(type) {
		case *ssa.UnOp:
			if y.Op == token.MUL {
				return isCarrier(y.X, depth+1)
			}
		case *ssa.Alloc:
			// a spilled copy: exactly one store, of the carrier
			var val ssa.Value
			n := 0
			for _, r := range *y.Referrers() {
				if st, ok := r.(*ssa.Store); ok && st.Addr == ssa.Value(y) {
					val = st.Val
					n++
				}
			}
			return n == 1 && isCarrier(val, depth+1)
		}
		return false
	}
	switch x := v.(type) {
	case *ssa.UnOp:
		if x.Op == token.MUL {
			if fa, ok := x.X.(*ssa.FieldAddr); ok && fa.Field == h.UrlField && namedOf(fa.X.Type()) == namedOf(carrier.Type()) {
				return isCarrier(fa.X, 0)
			}
		}
	case *ssa.Field:
		if x.Field == h.UrlField && namedOf(x.X.Type()) == namedOf(carrier.Type()) {
			return isCarrier(x.X, 0)
		}
	}
	return false
}

func typePkgPath(t types.Type) string {
	for {
		switch x := t.(type) {
		case *types.Pointer:
			t = x.Elem()
			continue
		case *types.Named:
			if x.Obj().Pkg() != nil {
				return x.Obj().Pkg().Path()
			}
		}
		return ""
	}
}

// handlerSite is one call of a handler.
type handlerSite struct {
	Caller    *ssa.Function
	Call      *ssa.Call
	H         *handlerInfo
	TypeName  string // name of the ErrorType constant ("" if not a declared constant)
	TypeVal   string
	Failure   bool
	FailKnown bool
	Ordinal   int // among sites with the same caller and type, in source order
	Key       string
}

type errModel struct {
	Ctors     map[*ssa.Function]bool
	Handlers  map[*ssa.Function]*handlerInfo
	Cores     map[*ssa.Function]bool // shared decision helpers of the handlers
	Sites     []*handlerSite
	TypeNames map[string]string // constant value -> name
	Problems  []string
}

func errTypeNames(c *Ctx) map[string]string {
	m := map[string]string{}
	pk := c.P.ByName["errors"].Types
	et, _ := pk.Scope().Lookup("ErrorType").(*types.TypeName)
	if et == nil {
		return m
	}
	for _, n := range pk.Scope().Names() {
		if k, ok := pk.Scope().Lookup(n).(*types.Const); ok && types.Identical(k.Type(), et.Type()) {
			m[constant.StringVal(k.Val())] = n
		}
	}
	return m
}

func buildErrModel(c *Ctx) *errModel {
	return c.Memo("errModel", func() interface{} {
		m := &errModel{Ctors: map[*ssa.Function]bool{}, Handlers: map[*ssa.Function]*handlerInfo{}, TypeNames: errTypeNames(c)}
		// constructors: exported functions of package errors whose every return is a fresh *ValidationError — allocated in
		// place, or by a function of the package all of whose returns are fresh allocations (a shared maker)
		ep := c.P.SSAPkg["errors"]
		for _, mem := range ep.Members {
			f, ok := mem.(*ssa.Function)
			if !ok || len(f.Blocks) == 0 || f.Object() == nil || !f.Object().Exported() {
				continue
			}
			if f.Signature.Results().Len() != 1 || !types.Identical(f.Signature.Results().At(0).Type(), types.Universe.Lookup("error").Type()) {
				continue
			}
			if _, ok := ctorAlloc(f); ok {
				m.Ctors[f] = true
			}
		}
		// handlers: functions of package url that call a constructor
		pendingCores := map[*ssa.Function]*handlerInfo{}
		var viaCores []*ssa.Function
		for _, f := range c.P.ModFns {
			if core.PkgPathOf(f) != core.ModPath+"/url" {
				continue
			}
			for _, b := range f.Blocks {
				for _, ins := range b.Instrs {
					call, ok := ins.(*ssa.Call)
					if !ok {
						continue
					}
					callee := call.Common().StaticCallee()
					if callee == nil || !m.Ctors[callee] {
						continue
					}
					h := &handlerInfo{Fn: f, UrlIdx: -1, UrlField: -1, TypeIdx: -1, FailIdx: -1, DescrIdx: -1, CauseIdx: -1, Ctor: callee, CtorCall: call}
					for i, p := range f.Params {
						switch {
						case namedOf(p.Type()) == "Url":
							h.UrlIdx = i
							h.UrlField = -1
						case namedOf(p.Type()) == "ErrorType":
							h.TypeIdx = i
						case types.Identical(p.Type().Underlying(), types.Typ[types.Bool]):
							h.FailIdx = i
						case types.Identical(p.Type(), types.Typ[types.String]):
							h.DescrIdx = i
						case types.Identical(p.Type(), types.Universe.Lookup("error").Type()):
							h.CauseIdx = i
						}
					}
					if h.UrlIdx < 0 {
						// the URL may travel in an object of the module that the handler is a method of or is handed:
						// a struct (or pointer to one) with exactly one field of type *Url
						for i, p := range f.Params {
							if st, ok := structOf(p.Type()); ok && strings.HasPrefix(typePkgPath(p.Type()), core.ModPath) {
								fi, n := -1, 0
								for k := 0; k < st.NumFields(); k++ {
									if _, isPtr := st.Field(k).Type().(*types.Pointer); isPtr && namedOf(st.Field(k).Type()) == "Url" {
										fi = k
										n++
									}
								}
								if n == 1 && h.UrlIdx < 0 {
									h.UrlIdx, h.UrlField = i, fi
								}
							}
						}
					}
					if h.UrlIdx >= 0 && (h.TypeIdx < 0 || h.FailIdx < 0) && f.Object() != nil && !f.Object().Exported() {
						pendingCores[f] = h // perhaps the shared core of handlers that hand it a struct (resolved below)
						continue
					}
					if h.UrlIdx < 0 || h.TypeIdx < 0 || h.FailIdx < 0 {
						m.Problems = append(m.Problems, fmt.Sprintf("%s calls an error constructor but does not have the handler signature (url, errorType, failure)", core.FuncName(f)))
						continue
					}
					if m.Handlers[f] != nil {
						m.Problems = append(m.Problems, fmt.Sprintf("%s calls more than one error constructor", core.FuncName(f)))
					}
					m.Handlers[f] = h
				}
			}
		}
		// a function that calls a constructor without having the handler signature is the shared core of the handlers if
		// every call of it stands in a function that has the signature and does nothing else
		{
			ix := sitesOf(c)
			var pcs []*ssa.Function
			for f := range pendingCores {
				pcs = append(pcs, f)
			}
			sortFns(pcs)
			for _, core0 := range pcs {
				ph := pendingCores[core0]
				var made []*handlerInfo
				ok := !ix.taken[core0] && len(ix.sites[core0]) > 0
				for _, cs := range ix.sites[core0] {
					g := cs.Fn
					h := &handlerInfo{Fn: g, UrlIdx: -1, UrlField: -1, TypeIdx: -1, FailIdx: -1, DescrIdx: -1, CauseIdx: -1, Ctor: ph.Ctor, CtorCall: ph.CtorCall, ViaCore: core0}
					for i, p := range g.Params {
						switch {
						case namedOf(p.Type()) == "Url":
							h.UrlIdx = i
						case namedOf(p.Type()) == "ErrorType":
							h.TypeIdx = i
						case types.Identical(p.Type().Underlying(), types.Typ[types.Bool]):
							h.FailIdx = i
						case types.Identical(p.Type(), types.Typ[types.String]):
							h.DescrIdx = i
						case types.Identical(p.Type(), types.Universe.Lookup("error").Type()):
							h.CauseIdx = i
						}
					}
					// nothing but the call of the core, whose answer is returned
					calls := 0
					for _, b := range g.Blocks {
						for _, ins := range b.Instrs {
							switch x := ins.(type) {
							case *ssa.Call:
								calls++
								if x != cs.Call {
									ok = false
								}
							case *ssa.If, *ssa.MapUpdate, *ssa.Go, *ssa.Defer:
								ok = false
							case *ssa.Return:
								if len(x.Results) != 1 || x.Results[0] != ssa.Value(cs.Call) {
									ok = false
								}
							}
						}
					}
					if h.UrlIdx < 0 || h.TypeIdx < 0 || h.FailIdx < 0 || calls != 1 || m.Handlers[g] != nil {
						ok = false
					}
					made = append(made, h)
				}
				if !ok {
					m.Problems = append(m.Problems, fmt.Sprintf("%s calls an error constructor but does not have the handler signature (url, errorType, failure)", core.FuncName(core0)))
					continue
				}
				for _, h := range made {
					m.Handlers[h.Fn] = h
				}
				viaCores = append(viaCores, core0)
			}
		}
		// thin wrappers of a handler: their own (url, errorType, failure[, descr][, cause]) parameters handed on unchanged,
		// constants for what they do not have, the handler's answer returned as it is. A call of the wrapper is a call
		// of the handler.
		for changed := true; changed; {
			changed = false
			for _, g := range c.P.ModFns {
				if m.Handlers[g] != nil || core.PkgPathOf(g) != core.ModPath+"/url" || g.Parent() != nil || len(g.Blocks) == 0 {
					continue
				}
				var hc *ssa.Call
				n, other := 0, false
				for _, b := range g.Blocks {
					for _, ins := range b.Instrs {
						switch x := ins.(type) {
						case *ssa.Call:
							if m.Handlers[x.Common().StaticCallee()] != nil {
								hc = x
								n++
							} else {
								other = true
							}
						case *ssa.Store:
							// the spilled copy of a struct parameter (value receiver) is not an effect
							if al, isAl := x.Addr.(*ssa.Alloc); isAl && !al.Heap {
								if _, isP := x.Val.(*ssa.Parameter); isP {
									continue
								}
							}
							other = true
						case *ssa.MapUpdate, *ssa.Go, *ssa.Defer, *ssa.If:
							other = true
						}
					}
				}
				if n != 1 || other {
					continue
				}
				h := m.Handlers[hc.Common().StaticCallee()]
				idxOf := func(v ssa.Value) int {
					for i, p := range g.Params {
						if ssa.Value(p) == v {
							return i
						}
					}
					return -1
				}
				args := hc.Common().Args
				uIdx, uField := idxOf(args[h.UrlIdx]), h.UrlField
				if uIdx < 0 && h.UrlField < 0 {
					// the URL handed on is the *Url field of an object the wrapper is handed (or is a method of)
					for i, q := range g.Params {
						st, ok := structOf(q.Type())
						if !ok {
							continue
						}
						for k := 0; k < st.NumFields(); k++ {
							probe := &handlerInfo{Fn: g, UrlIdx: i, UrlField: k}
							if namedOf(st.Field(k).Type()) == "Url" && probe.isURL(args[h.UrlIdx], func(v ssa.Value) ssa.Value { return v }) {
								uIdx, uField = i, k
							}
						}
					}
				}
				fIdx, fConst := -1, false
				if h.FailIdx >= 0 {
					fIdx = idxOf(args[h.FailIdx])
					if fIdx < 0 {
						if k, isK := constBool(args[h.FailIdx]); isK {
							fConst = k
							fIdx = -2 // a constant
						}
					}
				} else {
					fConst, fIdx = h.FailConst, -2
				}
				w := &handlerInfo{Fn: g, UrlField: uField, UrlIdx: uIdx, TypeIdx: idxOf(args[h.TypeIdx]), FailIdx: fIdx, FailConst: fConst, DescrIdx: -1, CauseIdx: -1, Ctor: h.Ctor, CtorCall: h.CtorCall, Forward: h, ForwardCall: hc}
				if w.UrlIdx < 0 || w.TypeIdx < 0 || w.FailIdx == -1 {
					continue
				}
				if w.FailIdx == -2 {
					w.FailIdx = -1
				}
				okRest := true
				if h.DescrIdx >= 0 {
					if i := idxOf(args[h.DescrIdx]); i >= 0 {
						w.DescrIdx = i
					} else if k, isK := constString(args[h.DescrIdx]); !isK || k != "" {
						okRest = false
					}
				}
				if h.CauseIdx >= 0 {
					if i := idxOf(args[h.CauseIdx]); i >= 0 {
						w.CauseIdx = i
					} else if !isNilConst(args[h.CauseIdx]) {
						okRest = false
					}
				}
				// every return hands back the handler's answer — beside constants (zero values) only, and always at the
				// same place
				errAt := -1
				for _, b := range g.Blocks {
					if r, isRet := b.Instrs[len(b.Instrs)-1].(*ssa.Return); isRet {
						at := -1
						for i, rv := range r.Results {
							if rv == ssa.Value(hc) {
								if at >= 0 {
									okRest = false
								}
								at = i
							} else if _, isK := rv.(*ssa.Const); !isK {
								okRest = false
							}
						}
						if at < 0 || (errAt >= 0 && errAt != at) {
							okRest = false
						}
						errAt = at
					}
				}
				if h.ErrResult != 0 {
					okRest = false // a wrapper of a tuple-returning wrapper: not followed
				}
				w.ErrResult = errAt
				if !okRest {
					continue
				}
				m.Handlers[g] = w
				changed = true
			}
		}
		// helpers of the handlers: unexported functions of the package that are called (transitively) by handlers only —
		// a shared core (`return p.report(u, e, failure)`), a recording helper, a predicate on the options. ERR-shape reads
		// the handlers with these inlined; ERR-ni counts them as part of the handlers.
		m.Cores = map[*ssa.Function]bool{}
		for _, vc := range viaCores {
			m.Cores[vc] = true
		}
		{
			ix := sitesOf(c)
			for changed := true; changed; {
				changed = false
				for _, g := range c.P.ModFns {
					if m.Cores[g] || m.Handlers[g] != nil || m.Ctors[g] || g.Parent() != nil || len(g.Blocks) == 0 || core.PkgPathOf(g) != core.ModPath+"/url" {
						continue
					}
					if g.Object() == nil || g.Object().Exported() || ix.taken[g] || len(ix.sites[g]) == 0 {
						continue
					}
					all := true
					for _, cs := range ix.sites[g] {
						if m.Handlers[cs.Fn] == nil && !m.Cores[cs.Fn] {
							all = false
						}
					}
					if all {
						m.Cores[g] = true
						changed = true
					}
				}
			}
		}
		// call sites
		count := map[string]int{}
		for _, f := range c.P.ModFns {
			var calls []*ssa.Call
			for _, b := range f.Blocks {
				for _, ins := range b.Instrs {
					if call, ok := ins.(*ssa.Call); ok {
						if h := m.Handlers[call.Common().StaticCallee()]; h != nil {
							if w := m.Handlers[f]; w != nil && w.ForwardCall == call {
								continue // the wrapper's own forwarding call is not a site: the calls of the wrapper are
							}
							calls = append(calls, call)
						}
					}
				}
			}
			sort.Slice(calls, func(i, j int) bool { return calls[i].Pos() < calls[j].Pos() })
			for _, call := range calls {
				h := m.Handlers[call.Common().StaticCallee()]
				s := &handlerSite{Caller: f, Call: call, H: h}
				if k, ok := call.Common().Args[h.TypeIdx].(*ssa.Const); ok && k.Value != nil && k.Value.Kind() == constant.String {
					s.TypeVal = constant.StringVal(k.Value)
					s.TypeName = m.TypeNames[s.TypeVal]
				}
				s.Failure, s.FailKnown = h.failureAt(call)
				tn := s.TypeName
				if tn == "" {
					tn = "?"
				}
				ck := core.FuncName(f) + "/" + tn
				count[ck]++
				s.Ordinal = count[ck]
				s.Key = fmt.Sprintf("%s#%d", ck, s.Ordinal)
				m.Sites = append(m.Sites, s)
			}
		}
		return m
	}).(*errModel)
}

// freshVE: v is a freshly allocated *ValidationError: the allocation itself, or the result of a module function all of
// whose returns are such. Returns the allocation and, when it was made by a maker function, the call to it.
func freshVE(v ssa.Value, depth int) (*ssa.Alloc, *ssa.Call, bool) {
	switch x := v.(type) {
	case *ssa.Alloc:
		if x.Heap && namedOf(x.Type()) == "ValidationError" {
			return x, nil, true
		}
	case *ssa.Call:
		g := x.Common().StaticCallee()
		if g == nil || len(g.Blocks) == 0 || depth > 1 {
			return nil, nil, false
		}
		// a finisher: a function every return of which hands back one of its own parameters (`return (&T{…}).done()`)
		if i := returnsOwnParam(g); i >= 0 && i < len(x.Common().Args) {
			if a, mk, ok := freshVE(x.Common().Args[i], depth+1); ok {
				return a, mk, true
			}
			return nil, nil, false
		}
		var al *ssa.Alloc
		n := 0
		for _, b := range g.Blocks {
			r, ok := b.Instrs[len(b.Instrs)-1].(*ssa.Return)
			if !ok {
				continue
			}
			n++
			if len(r.Results) != 1 {
				return nil, nil, false
			}
			a, _, ok := freshVE(r.Results[0], depth+1)
			if !ok {
				return nil, nil, false
			}
			al = a
		}
		if n == 0 {
			return nil, nil, false
		}
		return al, x, true
	}
	return nil, nil, false
}

// returnsOwnParam: the index of the parameter that every return of g hands back unchanged, or -1.
func returnsOwnParam(g *ssa.Function) int {
	idx := -1
	for _, b := range g.Blocks {
		r, ok := b.Instrs[len(b.Instrs)-1].(*ssa.Return)
		if !ok {
			continue
		}
		if len(r.Results) != 1 {
			return -1
		}
		p, ok := r.Results[0].(*ssa.Parameter)
		if !ok {
			return -1
		}
		i := -1
		for k, q := range g.Params {
			if q == p {
				i = k
			}
		}
		if i < 0 || (idx >= 0 && idx != i) {
			return -1
		}
		idx = i
	}
	return idx
}

// ctorAlloc: every return of f is error(fresh *ValidationError); returns the allocation (and maker call) of one of them.
type ctorInfo struct {
	Alloc *ssa.Alloc
	Maker *ssa.Call
}

func ctorAlloc(f *ssa.Function) (ctorInfo, bool) {
	var ci ctorInfo
	n := 0
	for _, b := range f.Blocks {
		r, ok := b.Instrs[len(b.Instrs)-1].(*ssa.Return)
		if !ok {
			continue
		}
		n++
		if len(r.Results) != 1 {
			return ci, false
		}
		mi, ok := r.Results[0].(*ssa.MakeInterface)
		if !ok {
			return ci, false
		}
		a, mk, ok := freshVE(mi.X, 0)
		if !ok {
			return ci, false
		}
		ci = ctorInfo{a, mk}
	}
	return ci, n > 0
}

// ctorFieldSources: for a constructor, which of its own parameters ends up in which field of the error (through the
// maker function when there is one).
func ctorFieldSources(f *ssa.Function) map[string]string {
	ci, ok := ctorAlloc(f)
	if !ok {
		return nil
	}
	stored := map[string]ssa.Value{}
	for _, r := range *ci.Alloc.Referrers() {
		fa, ok := r.(*ssa.FieldAddr)
		if !ok {
			continue
		}
		fld := strings.TrimPrefix(fieldElem(fa.X.Type(), fa.Field), "ValidationError:")
		for _, r2 := range *fa.Referrers() {
			if st, ok := r2.(*ssa.Store); ok && st.Addr == ssa.Value(fa) {
				stored[fld] = st.Val
			}
		}
	}
	out := map[string]string{}
	// functional options: the constructor hands the maker closures built by option constructors
	// (`newValidationError(t, url, failure, withDescr(descr), withCause(err))`); the maker applies every element of its
	// variadic parameter to the fresh object, and each closure stores one of its captured values into one field
	if ci.Maker != nil {
		if g := ci.Maker.Common().StaticCallee(); g != nil && g.Signature.Variadic() && appliesEveryOption(g, ci.Alloc) {
			for _, b := range f.Blocks {
				for _, ins := range b.Instrs {
					call, ok := ins.(*ssa.Call)
					if !ok || call == ci.Maker {
						continue
					}
					oc := call.Common().StaticCallee()
					if oc == nil || len(oc.Blocks) == 0 {
						continue
					}
					if _, isFn := call.Type().Underlying().(*types.Signature); !isFn {
						continue
					}
					for fld, pi := range optionStores(oc) {
						if pi < len(call.Common().Args) {
							if p, ok := call.Common().Args[pi].(*ssa.Parameter); ok && p.Parent() == f {
								out[fld] = p.Name()
							} else {
								out[fld] = "<" + call.Common().Args[pi].String() + ">"
							}
						}
					}
				}
			}
		}
	}
	for fld, v := range stored {
		if _, set := out[fld]; set {
			continue
		}
		if ci.Maker != nil {
			// v is a value of the maker: a parameter of it stands for the argument at the call
			if p, ok := v.(*ssa.Parameter); ok {
				g := ci.Maker.Common().StaticCallee()
				for i, q := range g.Params {
					if q == p && i < len(ci.Maker.Common().Args) {
						v = ci.Maker.Common().Args[i]
					}
				}
			}
		}
		if p, ok := v.(*ssa.Parameter); ok && p.Parent() == f {
			out[fld] = p.Name()
		} else {
			out[fld] = "<" + v.String() + ">"
		}
	}
	return out
}

// onlyCalledFrom: an unexported method that is never used as a value and whose every caller is one of the listed
// methods of the same type (or, one level up, such a helper again).
func onlyCalledFrom(c *Ctx, f *ssa.Function, listed map[string]bool, depth int) bool {
	ix := sitesOf(c)
	if depth > 2 || f.Parent() != nil || ix.taken[f] || len(ix.sites[f]) == 0 || (f.Object() != nil && f.Object().Exported()) {
		return false
	}
	for _, cs := range ix.sites[f] {
		g := cs.Fn
		if namedOf(recvType(g)) != namedOf(recvType(f)) {
			return false
		}
		if listed[g.Name()] {
			continue
		}
		if !onlyCalledFrom(c, g, listed, depth+1) {
			return false
		}
	}
	return true
}

// appendsExactly: append(s, v) with exactly the one element v.
func appendsExactly(call *ssa.Call, v ssa.Value) bool {
	return appendsExactlyR(call, v, func(x ssa.Value) ssa.Value { return x })
}

func appendsExactlyR(call *ssa.Call, v ssa.Value, resolve func(ssa.Value) ssa.Value) bool {
	if len(call.Common().Args) != 2 {
		return false
	}
	sl, ok := call.Common().Args[1].(*ssa.Slice)
	if !ok {
		return false
	}
	al, ok := sl.X.(*ssa.Alloc)
	if !ok {
		return false
	}
	if arr, ok := al.Type().Underlying().(*types.Pointer).Elem().Underlying().(*types.Array); !ok || arr.Len() != 1 {
		return false
	}
	stores := 0
	good := false
	for _, r := range *al.Referrers() {
		ia, ok := r.(*ssa.IndexAddr)
		if !ok {
			continue
		}
		for _, r2 := range *ia.Referrers() {
			if st, ok := r2.(*ssa.Store); ok {
				stores++
				if resolve(st.Val) == v {
					good = true
				}
			}
		}
	}
	return stores == 1 && good
}

// ---- tiny CFG path enumeration with branch atoms (for ERR-shape) ----

type branchAtom struct {
	V   ssa.Value
	Pol bool
}

type cfgPath struct {
	Conds  []branchAtom
	Blocks []*ssa.BasicBlock
	Ret    *ssa.Return
}

func enumPaths(f *ssa.Function, limit int) ([]cfgPath, bool) {
	var out []cfgPath
	ok := true
	var rec func(b *ssa.BasicBlock, conds []branchAtom, blocks []*ssa.BasicBlock, seen map[*ssa.BasicBlock]bool)
	rec = func(b *ssa.BasicBlock, conds []branchAtom, blocks []*ssa.BasicBlock, seen map[*ssa.BasicBlock]bool) {
		if !ok {
			return
		}
		if seen[b] {
			ok = false // loop: not a decision DAG
			return
		}
		seen[b] = true
		defer delete(seen, b)
		blocks = append(append([]*ssa.BasicBlock(nil), blocks...), b)
		last := b.Instrs[len(b.Instrs)-1]
		switch x := last.(type) {
		case *ssa.Return:
			out = append(out, cfgPath{Conds: append([]branchAtom(nil), conds...), Blocks: blocks, Ret: x})
			if len(out) > limit {
				ok = false
			}
		case *ssa.If:
			rec(b.Succs[0], append(append([]branchAtom(nil), conds...), branchAtom{x.Cond, true}), blocks, seen)
			rec(b.Succs[1], append(append([]branchAtom(nil), conds...), branchAtom{x.Cond, false}), blocks, seen)
		case *ssa.Jump:
			rec(b.Succs[0], conds, blocks, seen)
		default:
			ok = false
		}
	}
	rec(f.Blocks[0], nil, nil, map[*ssa.BasicBlock]bool{})
	return out, ok
}

// optLoad recognises a load of p.opts.<field> (or of any parserOptions field through any pointer) and returns the field name.
func optLoad(v ssa.Value) string {
	u, ok := v.(*ssa.UnOp)
	if !ok || u.Op != token.MUL {
		return ""
	}
	fa, ok := u.X.(*ssa.FieldAddr)
	if !ok {
		return ""
	}
	if namedOf(fa.X.Type()) != "parserOptions" {
		return ""
	}
	return strings.TrimPrefix(fieldElem(fa.X.Type(), fa.Field), "parserOptions:")
}

func init() {
	register(&Rule{
		Name:  "ERR-shape",
		Doc:   "each handler builds e from exactly its errorType, u.inputUrl, failure (and descr/cause) arguments, records e iff reporting is on, returns e iff failure ∨ fail-on-validation-error and nil otherwise (truth table over all 8 flag combinations); e is a non-nil *ValidationError",
		Props: []string{"C15"},
		Floor: 3,
		Run: func(c *Ctx, s *core.Sink) {
			m := buildErrModel(c)
			e := BuildEff(c)
			for _, p := range m.Problems {
				s.Unknown("model", "-", p)
			}
			var hs []*handlerInfo
			for _, h := range m.Handlers {
				hs = append(hs, h)
			}
			sort.Slice(hs, func(i, j int) bool { return hs[i].Fn.Name() < hs[j].Fn.Name() })
			for _, h := range hs {
				key := "handler/" + core.FuncName(h.Fn)
				pos := c.P.Pos(h.Fn.Pos())
				if h.Forward != nil {
					s.OK(key+"/wiring", pos, "hands its own url, errorType, failure (descr/cause) on to "+h.Forward.Fn.Name()+" unchanged (constants for what it does not have)")
					s.OK(key+"/table", pos, "returns the answer of "+h.Forward.Fn.Name()+", whose table is checked")
					continue
				}
				// (1) constructor argument wiring (read in the handler's own frame: a core that is handed a struct is looked
				// through field by field)
				var bad []string
				rootOfArg := func(v ssa.Value) ssa.Value { return v }
				if h.ViaCore != nil {
					fg0 := flatten(c, h.Fn, func(g *ssa.Function) bool { return g == h.ViaCore }, 1)
					for _, nd := range fg0.Nodes {
						for _, ins := range nd.Instrs {
							if ins == ssa.Instruction(h.CtorCall) {
								nn := nd
								rootOfArg = func(v ssa.Value) ssa.Value { return nn.Root(v) }
							}
						}
					}
				}
				for i, cp := range h.Ctor.Params {
					arg := rootOfArg(h.CtorCall.Common().Args[i])
					switch {
					case namedOf(cp.Type()) == "ErrorType":
						if arg != ssa.Value(h.Fn.Params[h.TypeIdx]) {
							bad = append(bad, "error type passed to the constructor is not the handler's errorType argument")
						}
					case types.Identical(cp.Type().Underlying(), types.Typ[types.Bool]):
						if arg != ssa.Value(h.Fn.Params[h.FailIdx]) {
							bad = append(bad, "failure passed to the constructor is not the handler's failure argument")
						}
					case types.Identical(cp.Type(), types.Universe.Lookup("error").Type()):
						if h.CauseIdx < 0 && h.ViaCore != nil && isNilConst(arg) {
							break // the handler has no cause: the core is handed none
						}
						if h.CauseIdx < 0 || arg != ssa.Value(h.Fn.Params[h.CauseIdx]) {
							bad = append(bad, "cause passed to the constructor is not the handler's cause argument")
						}
					case cp.Name() == "url":
						ok := false
						if u, isU := arg.(*ssa.UnOp); isU && u.Op == token.MUL {
							if fa, isF := u.X.(*ssa.FieldAddr); isF && h.isURL(fa.X, rootOfArg) && fieldElem(fa.X.Type(), fa.Field) == "Url:inputUrl" {
								ok = true
							}
						}
						if !ok {
							bad = append(bad, "url passed to the constructor is not u.inputUrl")
						}
					case cp.Name() == "descr":
						if k, isK := constString(arg); h.DescrIdx < 0 && h.ViaCore != nil && isK && k == "" {
							break // the handler has no description: the core is handed the empty one
						}
						if h.DescrIdx < 0 || arg != ssa.Value(h.Fn.Params[h.DescrIdx]) {
							bad = append(bad, "description passed to the constructor is not the handler's descr argument")
						}
					default:
						bad = append(bad, "constructor parameter "+cp.Name()+" not understood")
					}
				}
				s.Check(len(bad) == 0, key+"/wiring", pos, "constructor receives errorType, u.inputUrl, failure (descr/cause) unchanged", strings.Join(bad, "; "))

				// (2) truth table, read off the handler with its unexported helpers inlined (the decision may be spread over a
				// shared core, a recording helper and a predicate on the options)
				eVal, failVal := ssa.Value(h.CtorCall), ssa.Value(h.Fn.Params[h.FailIdx])
				fg := flatten(c, h.Fn, func(g *ssa.Function) bool { return m.Cores[g] }, 3)
				paths, ok := enumFlatPaths(fg, 128)
				if !ok {
					s.Unknown(key+"/table", pos, "handler body is not a small decision DAG")
					continue
				}
				type atomKind int
				const (
					aF atomKind = iota
					aR
					aO
				)
				classify := func(v ssa.Value) (atomKind, bool, bool) { // kind, negated, ok
					neg := false
					for {
						if u, isU := v.(*ssa.UnOp); isU && u.Op == token.NOT {
							neg = !neg
							v = u.X
							continue
						}
						break
					}
					if v == failVal {
						return aF, neg, true
					}
					switch optLoad(v) {
					case "reportValidationErrors":
						return aR, neg, true
					case "failOnValidationError":
						return aO, neg, true
					}
					return 0, false, false
				}
				undec := ""
				tableOK := true
				var tableBad []string
				for mask := 0; mask < 8; mask++ {
					val := map[atomKind]bool{aF: mask&1 != 0, aR: mask&2 != 0, aO: mask&4 != 0}
					var feasible []*flatPath
					for _, p := range paths {
						f := true
						for _, a := range p.Conds {
							k, neg, ok := classify(a.V)
							if !ok {
								undec = "branch on a value that is neither failure, reportValidationErrors nor failOnValidationError"
								continue
							}
							if (val[k] != neg) != a.Pol {
								f = false
							}
						}
						if f {
							feasible = append(feasible, p)
						}
					}
					if len(feasible) != 1 {
						tableOK = false
						tableBad = append(tableBad, fmt.Sprintf("flags F=%v R=%v O=%v select %d paths", val[aF], val[aR], val[aO], len(feasible)))
						continue
					}
					p := feasible[0]
					last := p.Nodes[len(p.Nodes)-1]
					// returned value
					res := p.Resolve(last, p.Ret.Results[0])
					retE := false
					switch x := res.(type) {
					case *ssa.Const:
						retE = !x.IsNil()
					default:
						retE = res == eVal
					}
					if _, isC := res.(*ssa.Const); !isC && res != eVal {
						tableOK = false
						tableBad = append(tableBad, "returns a value that is neither nil nor the constructed error")
					}
					// append on the path?
					appended := false
					for _, n := range p.Nodes {
						for _, ins := range n.Instrs {
							if st, isS := ins.(*ssa.Store); isS {
								if fa, isF := st.Addr.(*ssa.FieldAddr); isF && fieldElem(fa.X.Type(), fa.Field) == "Url:validationErrors" && h.isURL(fa.X, func(nn *fnode) func(ssa.Value) ssa.Value {
									return func(v ssa.Value) ssa.Value { return p.Resolve(nn, v) }
								}(n)) {
									// value must be append(load same field, e)
									if call, isCall := st.Val.(*ssa.Call); isCall {
										if bi, isB := call.Common().Value.(*ssa.Builtin); isB && bi.Name() == "append" {
											appended = true
											nn := n
											if !appendsExactlyR(call, eVal, func(v ssa.Value) ssa.Value { return p.Resolve(nn, v) }) {
												tableOK = false
												tableBad = append(tableBad, "what is recorded is not (only) the constructed error")
											}
										}
									}
								}
							}
						}
					}
					wantE := val[aF] || val[aO]
					if retE != wantE {
						tableOK = false
						tableBad = append(tableBad, fmt.Sprintf("F=%v O=%v: returns error=%v, want %v", val[aF], val[aO], retE, wantE))
					}
					if appended != val[aR] {
						tableOK = false
						tableBad = append(tableBad, fmt.Sprintf("R=%v: records=%v", val[aR], appended))
					}
				}
				if undec != "" {
					s.Unknown(key+"/table", pos, undec)
				} else {
					s.Check(tableOK, key+"/table", pos, "8/8 flag combinations: returns e iff failure∨failOn, records iff reporting", strings.Join(uniq(tableBad), "; "))
				}
				// (3) sole effect
				sum := e.Sum(h.Fn)
				var extra []string
				for _, mu := range sum.Mut.sorted() {
					if strings.HasPrefix(mu, fmt.Sprintf("P%d.Url:validationErrors", h.UrlIdx)) {
						continue
					}
					if h.UrlField >= 0 && strings.HasPrefix(mu, fmt.Sprintf("P%d.%s.Url:validationErrors", h.UrlIdx, fieldElem(h.Fn.Params[h.UrlIdx].Type(), h.UrlField))) {
						continue
					}
					extra = append(extra, mu)
				}
				s.Check(len(extra) == 0, key+"/effect", pos, "the only memory written is u.validationErrors", "handler also writes "+strings.Join(extra, ", "))
			}
			// constructors return a fresh non-nil *ValidationError
			var cs []*ssa.Function
			for f := range m.Ctors {
				cs = append(cs, f)
			}
			sort.Slice(cs, func(i, j int) bool { return cs[i].Name() < cs[j].Name() })
			for _, f := range cs {
				_, ok := ctorAlloc(f)
				s.Check(ok, "ctor/"+core.FuncName(f)+"/nonnil", c.P.Pos(f.Pos()), "every return is a freshly allocated *ValidationError", "may return something other than a fresh *ValidationError")
			}
		},
	})

	register(&Rule{
		Name:  "ERR-access",
		Doc:   "in package errors each constructor stores every parameter into the field of the same meaning and each accessor returns exactly that field (writer's and reader's tables agree)",
		Props: []string{"C15"},
		Floor: 5,
		Run: func(c *Ctx, s *core.Sink) {
			m := buildErrModel(c)
			paramField := map[string]string{"errorType": "errorType", "url": "url", "failure": "failure", "descr": "descr", "err": "cause", "cause": "cause"}
			var cs []*ssa.Function
			for f := range m.Ctors {
				cs = append(cs, f)
			}
			sort.Slice(cs, func(i, j int) bool { return cs[i].Name() < cs[j].Name() })
			for _, f := range cs {
				stored := ctorFieldSources(f) // field -> param
				for _, p := range f.Params {
					want, ok := paramField[p.Name()]
					key := "ctor/" + core.FuncName(f) + "/" + p.Name()
					if !ok {
						s.Unknown(key, c.P.Pos(f.Pos()), "parameter not in the reviewed parameter→field table")
						continue
					}
					s.Check(stored[want] == p.Name(), key, c.P.Pos(f.Pos()), "stored into field "+want, fmt.Sprintf("field %s receives %q", want, stored[want]))
				}
			}
			accessor := map[string]string{"Type": "errorType", "Url": "url", "Failure": "failure", "Description": "descr", "Unwrap": "cause"}
			var names []string
			for n := range accessor {
				names = append(names, n)
			}
			sort.Strings(names)
			for _, n := range names {
				f := c.P.Func("errors", "ValidationError", n)
				key := "accessor/" + n
				if f == nil {
					s.Unknown(key, "-", "accessor not found")
					continue
				}
				ok := len(f.Blocks) == 1
				got := ""
				if ok {
					r, isR := f.Blocks[0].Instrs[len(f.Blocks[0].Instrs)-1].(*ssa.Return)
					ok = isR && len(r.Results) == 1
					if ok {
						if u, isU := r.Results[0].(*ssa.UnOp); isU && u.Op == token.MUL {
							if fa, isF := u.X.(*ssa.FieldAddr); isF && fa.X == ssa.Value(f.Params[0]) {
								got = strings.TrimPrefix(fieldElem(fa.X.Type(), fa.Field), "ValidationError:")
							}
						}
					}
				}
				s.Check(got == accessor[n], key, c.P.Pos(f.Pos()), "returns field "+accessor[n], "returns "+got+", want field "+accessor[n])
			}
			// package-level helpers call the accessor of the same name and default as documented
			for _, n := range []string{"Type", "Url", "Failure", "Description"} {
				f := c.P.Func("errors", "", n)
				key := "helper/" + n
				if f == nil {
					s.Unknown(key, "-", "helper not found")
					continue
				}
				found := false
				for _, b := range f.Blocks {
					for _, ins := range b.Instrs {
						if call, ok := ins.(*ssa.Call); ok && call.Common().IsInvoke() && call.Common().Method.Name() == n {
							found = true
						}
					}
				}
				s.Check(found, key, c.P.Pos(f.Pos()), "dispatches to the method of the same name", "does not call the "+n+"() method of the error")
			}
		},
	})

	register(&Rule{
		Name:  "ERR-ni",
		Doc:   "reportValidationErrors and failOnValidationError are read only inside the handlers (whose truth table is checked by ERR-shape); Url.validationErrors is touched only by the handlers and returned by ValidationErrors()",
		Props: []string{"C15"},
		Floor: 3,
		Run: func(c *Ctx, s *core.Sink) {
			m := buildErrModel(c)
			counts := map[string]int{}
			for _, f := range c.P.ModFns {
				for _, b := range f.Blocks {
					for _, ins := range b.Instrs {
						fa, ok := ins.(*ssa.FieldAddr)
						if !ok {
							continue
						}
						el := fieldElem(fa.X.Type(), fa.Field)
						switch el {
						case "parserOptions:reportValidationErrors", "parserOptions:failOnValidationError":
							counts[el]++
							key := fmt.Sprintf("use/%s/%s#%d", core.FuncName(f), el, counts[el])
							if isInitializer(f) || f.Parent() != nil && strings.HasPrefix(f.Parent().Name(), "With") {
								// the option constructor's closure writes it
								// stored to, or its address handed to the helper that stores to it (what the option does to
								// the field is decided by OPT-bij's evaluation of the constructor)
								onlyStore := true
								for _, r := range *fa.Referrers() {
									switch y := r.(type) {
									case *ssa.Store:
										if y.Addr != ssa.Value(fa) {
											onlyStore = false
										}
									case *ssa.Return:
									default:
										onlyStore = false
									}
								}
								s.Check(onlyStore, key, c.P.Pos(fa.Pos()), "written by its option constructor", "option closure reads the flag")
								continue
							}
							s.Check(m.Handlers[f] != nil || m.Cores[f], key, c.P.Pos(fa.Pos()), "read inside a handler", "diagnostics option is consulted outside the error handlers: it can influence the parse result")
						case "Url:validationErrors":
							counts[el]++
							key := fmt.Sprintf("use/%s/%s#%d", core.FuncName(f), el, counts[el])
							if m.Handlers[f] != nil || m.Cores[f] {
								s.OK(key, c.P.Pos(fa.Pos()), "handler's append")
								continue
							}
							// accessor: only loaded and returned
							ok := true
							for _, r := range *fa.Referrers() {
								// a copy that starts without recorded errors: nil stored into a URL allocated here
								if st, isSt := r.(*ssa.Store); isSt && st.Addr == ssa.Value(fa) && isNilConst(st.Val) {
									if _, fresh := fa.X.(*ssa.Alloc); fresh {
										continue
									}
								}
								u, isU := r.(*ssa.UnOp)
								if !isU {
									ok = false
									continue
								}
								for _, r2 := range *u.Referrers() {
									if _, isR := r2.(*ssa.Return); !isR {
										ok = false
									}
								}
							}
							s.Check(ok, key, c.P.Pos(fa.Pos()), "returned by an accessor", "recorded validation errors are read or written outside the handlers and the accessor")
						}
					}
				}
			}
		},
	})

	register(&Rule{
		Name:  "ERR-callsite",
		Doc:   "the error result of every call to a handler, or to a function whose error derives from one, aborts the caller: it is returned in the error slot on the branch where it is non-nil, or passed on as the cause of another handler call; never dropped or reduced to a boolean (the setters' `_, _ =` calls are the listed exception)",
		Props: []string{"C15"},
		Floor: 30,
		Run: func(c *Ctx, s *core.Sink) {
			m := buildErrModel(c)
			D := errDeriving(c, m)
			setterOK := map[string]bool{"SetProtocol": true, "SetHost": true, "SetHostname": true, "SetPort": true, "SetPathname": true, "SetSearch": true, "SetHash": true}
			count := map[string]int{}
			for _, f := range c.P.ModFns {
				pp := core.PkgPathOf(f)
				if pp != core.ModPath+"/url" && pp != core.ModPath+"/canonicalizer" {
					continue
				}
				for _, b := range f.Blocks {
					for _, ins := range b.Instrs {
						call, ok := ins.(*ssa.Call)
						if !ok {
							continue
						}
						var callee *ssa.Function
						for _, cl := range c.P.Callees(f, call) {
							if D[cl] {
								callee = cl
							}
						}
						if callee == nil {
							continue
						}
						// synthetic wrappers just forward
						if f.Synthetic != "" {
							continue
						}
						var key string
						if h := m.Handlers[callee]; h != nil {
							for _, st := range m.Sites {
								if st.Call == call {
									key = "site/" + st.Key
								}
							}
						} else {
							ck := core.FuncName(f) + "/call:" + callee.Name()
							count[ck]++
							key = fmt.Sprintf("site/%s#%d", ck, count[ck])
						}
						pos := c.P.Pos(call.Pos())
						errVals := errorValuesOf(call)
						used := false
						for _, v := range errVals {
							for _, r := range *v.Referrers() {
								if _, dbg := r.(*ssa.DebugRef); !dbg {
									used = true
								}
							}
						}
						if !used {
							if namedOf(recvType(f)) == "Url" && (setterOK[f.Name()] || onlyCalledFrom(c, f, setterOK, 0)) {
								s.OK(key, pos, "setter semantics: the API setter deliberately ignores the parser's result (listed exception)")
							} else {
								s.Bad(key, pos, "error result is dropped")
							}
							continue
						}
						if pp == core.ModPath+"/canonicalizer" && callee.Name() == "Parse" && namedOf(recvType(f)) == "profile" && !isUrlParse(callee) && hasRetry(f) {
							// the default-scheme retry idiom: governed by OPT-retry
							s.OK(key, pos, "default-scheme retry site: decided by OPT-retry")
							continue
						}
						verdict, fact := checkErrUse(f, errVals, m)
						switch verdict {
						case core.Discharged:
							s.OK(key, pos, fact)
						case core.Violated:
							s.Bad(key, pos, fact)
						default:
							s.Unknown(key, pos, fact)
						}
					}
				}
			}
		},
	})

	register(&Rule{
		Name:  "ERR-origin",
		Doc:   "every value that can reach the error result of BasicParser (directly or through the callees it propagates) is the result of a handler call, hence a typed *ValidationError; every handler call passes a non-empty ErrorType constant declared in errors/codes.go",
		Props: []string{"C15"},
		Floor: 30,
		Run: func(c *Ctx, s *core.Sink) {
			m := buildErrModel(c)
			for _, st := range m.Sites {
				key := "type/" + st.Key
				pos := c.P.Pos(st.Call.Pos())
				switch {
				case st.TypeVal == "":
					s.Bad(key, pos, "error type argument is not a non-empty constant")
				case st.TypeName == "":
					s.Bad(key, pos, "error type "+fmt.Sprintf("%q", st.TypeVal)+" is not a constant declared in package errors")
				default:
					s.OK(key, pos, "errors."+st.TypeName)
				}
			}
			bp := c.P.Func("url", "parser", "BasicParser")
			if bp == nil {
				s.Unknown("origin/BasicParser", "-", "anchor not found")
				return
			}
			// backward closure over functions whose error result flows into BasicParser's
			seen := map[*ssa.Function]bool{}
			work := []*ssa.Function{bp}
			for len(work) > 0 {
				f := work[0]
				work = work[1:]
				if seen[f] {
					continue
				}
				seen[f] = true
				ei := errResultIndex(f)
				if ei < 0 {
					continue
				}
				n := 0
				for _, b := range f.Blocks {
					r, ok := b.Instrs[len(b.Instrs)-1].(*ssa.Return)
					if !ok {
						continue
					}
					n++
					key := fmt.Sprintf("origin/%s/return#%d", core.FuncName(f), n)
					srcs := valueSources(r.Results[ei])
					var bad []string
					var facts []string
					for _, v := range srcs {
						switch x := v.(type) {
						case *ssa.Const:
							if x.IsNil() {
								facts = append(facts, "nil")
								continue
							}
							bad = append(bad, "non-nil constant")
						case *ssa.Call:
							callee := x.Common().StaticCallee()
							if callee != nil && m.Handlers[callee] != nil {
								facts = append(facts, "handler "+callee.Name())
								continue
							}
							if callee != nil && c.P.InModule(callee) && errResultIndex(callee) >= 0 {
								facts = append(facts, "propagates "+callee.Name())
								work = append(work, callee)
								continue
							}
							bad = append(bad, "raw error from "+x.Common().String())
						default:
							bad = append(bad, "value of unknown origin "+v.String())
						}
					}
					sort.Strings(facts)
					s.Check(len(bad) == 0, key, c.P.Pos(r.Pos()), strings.Join(uniq(facts), ", "), "an untyped error can reach the result of a parse: "+strings.Join(bad, "; "))
				}
			}
		},
	})

	register(&Rule{
		Name:  "ERR-xpkg",
		Doc:   "the error type the canonicalizer's default-scheme retry compares against is emitted at exactly one handler site, failure-flagged, inside BasicParser",
		Props: []string{"C15", "C16"},
		Floor: 2,
		Run: func(c *Ctx, s *core.Sink) {
			m := buildErrModel(c)
			// constants compared with errors.Type(err) in the canonicalizer
			cmp := map[string]token.Pos{}
			for _, f := range c.P.ModFns {
				if core.PkgPathOf(f) != core.ModPath+"/canonicalizer" {
					continue
				}
				for _, b := range f.Blocks {
					for _, ins := range b.Instrs {
						bo, ok := ins.(*ssa.BinOp)
						if !ok || (bo.Op != token.EQL && bo.Op != token.NEQ) {
							continue
						}
						for _, pair := range [][2]ssa.Value{{bo.X, bo.Y}, {bo.Y, bo.X}} {
							call, isCall := pair[0].(*ssa.Call)
							k, isK := pair[1].(*ssa.Const)
							if isCall && isK && call.Common().StaticCallee() != nil && call.Common().StaticCallee().Name() == "Type" && core.PkgPathOf(call.Common().StaticCallee()) == core.ModPath+"/errors" && k.Value != nil && k.Value.Kind() == constant.String {
								cmp[constant.StringVal(k.Value)] = bo.Pos()
							}
						}
					}
				}
			}
			if len(cmp) == 0 {
				s.Unknown("xpkg/none", "-", "no comparison of errors.Type(err) with a constant found in the canonicalizer")
			}
			for val, pos := range cmp {
				name := m.TypeNames[val]
				var sites []*handlerSite
				for _, st := range m.Sites {
					if st.TypeVal == val {
						sites = append(sites, st)
					}
				}
				key := "xpkg/" + name
				s.OK(key+"/compared", c.P.Pos(pos), "canonicalizer compares errors.Type(err) with errors."+name)
				badSite := ""
				var badPos token.Pos
				inMachine := func(st *handlerSite) bool {
					_, ok := BuildSM(c).SiteInMachine(c, st.Caller, st.Call)
					return ok
				}
				for _, st := range sites {
					switch {
					case !st.FailKnown || !st.Failure:
						badSite, badPos = "a site emitting errors."+name+" is not failure-flagged", st.Call.Pos()
					case st.Caller.Name() != "BasicParser" && !inMachine(st):
						badSite, badPos = "errors."+name+" is emitted outside BasicParser", st.Call.Pos()
					}
				}
				switch {
				case len(sites) == 0:
					s.Bad(key+"/emitted", c.P.Pos(pos), fmt.Sprintf("errors.%s is compared with but never emitted", name))
				case badSite != "":
					s.Bad(key+"/emitted", c.P.Pos(badPos), badSite)
				default:
					s.OK(key+"/emitted", c.P.Pos(sites[0].Call.Pos()), fmt.Sprintf("%d failure-flagged site(s), all in the state machine", len(sites)))
				}
			}
		},
	})
}

func uniq(in []string) []string {
	var out []string
	for i, s := range in {
		if i == 0 || s != in[i-1] {
			out = append(out, s)
		}
	}
	return out
}

func recvType(f *ssa.Function) types.Type {
	if f.Signature.Recv() != nil {
		return f.Signature.Recv().Type()
	}
	return types.Typ[types.Invalid]
}

func isUrlParse(f *ssa.Function) bool {
	return namedOf(recvType(f)) == "Url"
}

func errResultIndex(f *ssa.Function) int {
	res := f.Signature.Results()
	et := types.Universe.Lookup("error").Type()
	for i := res.Len() - 1; i >= 0; i-- {
		if types.Identical(res.At(i).Type(), et) {
			return i
		}
	}
	return -1
}

// errorValuesOf returns the SSA values holding the error result of a call (empty if it is discarded).
func errorValuesOf(call *ssa.Call) []ssa.Value {
	et := types.Universe.Lookup("error").Type()
	if tup, ok := call.Type().(*types.Tuple); ok {
		var out []ssa.Value
		for _, r := range *call.Referrers() {
			if ex, ok := r.(*ssa.Extract); ok && types.Identical(tup.At(ex.Index).Type(), et) {
				out = append(out, ex)
			}
		}
		return out
	}
	if types.Identical(call.Type(), et) {
		if len(*call.Referrers()) == 0 {
			return nil
		}
		return []ssa.Value{call}
	}
	return nil
}

// valueSources follows phis to the defining values.
func valueSources(v ssa.Value) []ssa.Value {
	var out []ssa.Value
	seen := map[ssa.Value]bool{}
	var rec func(v ssa.Value)
	rec = func(v ssa.Value) {
		if seen[v] {
			return
		}
		seen[v] = true
		switch x := v.(type) {
		case *ssa.Phi:
			for _, e := range x.Edges {
				rec(e)
			}
		case *ssa.Extract:
			rec(x.Tuple)
		case *ssa.ChangeInterface:
			rec(x.X)
		default:
			out = append(out, v)
		}
	}
	rec(v)
	return out
}

// errDeriving computes D: handlers and every module function whose error result may come from a D call.
func errDeriving(c *Ctx, m *errModel) map[*ssa.Function]bool {
	return c.Memo("errDeriving", func() interface{} {
		D := map[*ssa.Function]bool{}
		for f := range m.Handlers {
			D[f] = true
		}
		fns := make([]*ssa.Function, 0)
		for f := range c.P.AllFns {
			if c.P.InModule(f) && len(f.Blocks) > 0 {
				fns = append(fns, f)
			}
		}
		for changed := true; changed; {
			changed = false
			for _, f := range fns {
				if D[f] {
					continue
				}
				ei := errResultIndex(f)
				if ei < 0 {
					continue
				}
				for _, b := range f.Blocks {
					r, ok := b.Instrs[len(b.Instrs)-1].(*ssa.Return)
					if !ok {
						continue
					}
					for _, v := range valueSources(r.Results[ei]) {
						if call, ok := v.(*ssa.Call); ok {
							for _, cl := range c.P.Callees(f, call) {
								if D[cl] && !D[f] {
									D[f] = true
									changed = true
								}
							}
						}
					}
				}
			}
		}
		return D
	}).(map[*ssa.Function]bool)
}

// checkErrUse decides whether every use of the error values aborts the function when the error is non-nil.
func checkErrUse(f *ssa.Function, errVals []ssa.Value, m *errModel) (string, string) {
	ei := errResultIndex(f)
	// alias set: the values plus phis they flow into
	alias := map[ssa.Value]bool{}
	var work []ssa.Value
	for _, v := range errVals {
		alias[v] = true
		work = append(work, v)
	}
	var facts []string
	tested, returned, wrapped := false, false, false
	for len(work) > 0 {
		v := work[0]
		work = work[1:]
		refs := v.Referrers()
		if refs == nil {
			continue
		}
		for _, r := range *refs {
			switch x := r.(type) {
			case *ssa.DebugRef:
			case *ssa.Phi:
				if !alias[x] {
					alias[x] = true
					work = append(work, x)
				}
			case *ssa.ChangeInterface:
				if !alias[x] {
					alias[x] = true
					work = append(work, x)
				}
			case *ssa.Return:
				if ei >= 0 && ei < len(x.Results) && alias[x.Results[ei]] {
					returned = true
				} else {
					return core.Violated, "error value is returned outside the error slot"
				}
			case *ssa.BinOp:
				other := x.Y
				if other == v {
					other = x.X
				}
				if !isNilConst(other) || (x.Op != token.NEQ && x.Op != token.EQL) {
					return core.Violated, "error value is compared with something other than nil"
				}
				// find the If consuming this test
				for _, r2 := range *x.Referrers() {
					iff, ok := r2.(*ssa.If)
					if !ok {
						return core.Undecided, "nil test of the error does not feed a branch directly"
					}
					nonNil := iff.Block().Succs[0]
					if x.Op == token.EQL {
						nonNil = iff.Block().Succs[1]
					}
					ret, ok := nonNil.Instrs[len(nonNil.Instrs)-1].(*ssa.Return)
					if !ok && len(nonNil.Preds) == 1 {
						// the non-nil branch branches again (`if failure { return "", err }; return input, err`): every way
						// through it must end in a return that carries the error
						allRet, carries := true, true
						seenB := map[*ssa.BasicBlock]bool{}
						var walk func(b *ssa.BasicBlock)
						walk = func(b *ssa.BasicBlock) {
							if seenB[b] {
								return
							}
							seenB[b] = true
							if b != nonNil && !nonNil.Dominates(b) {
								allRet = false
								return
							}
							if r, isRet := b.Instrs[len(b.Instrs)-1].(*ssa.Return); isRet {
								if ei < 0 || !aliasOrPhiOf(r.Results[ei], alias) {
									carries = false
								}
								return
							}
							for _, ins := range b.Instrs {
								switch ins.(type) {
								case *ssa.Call, *ssa.Store, *ssa.Panic, *ssa.Go, *ssa.Defer:
									allRet = false // it does something on the way: not the plain abort idiom
								}
							}
							for _, sc := range b.Succs {
								walk(sc)
							}
						}
						walk(nonNil)
						if allRet && carries && len(seenB) > 1 {
							tested = true
							continue
						}
					}
					if !ok {
						// accepted idiom: the non-nil branch hands the error as cause to a failure-flagged handler call
						// (that call site is an obligation of its own and must abort)
						wrappedHere := false
						for _, ins := range nonNil.Instrs {
							if call, isCall := ins.(*ssa.Call); isCall {
								if h := m.Handlers[call.Common().StaticCallee()]; h != nil && h.CauseIdx >= 0 && alias[call.Common().Args[h.CauseIdx]] {
									if fl, known := h.failureAt(call); known && fl {
										wrappedHere = true
									}
								}
							}
						}
						if wrappedHere {
							tested = true
							continue
						}
						return core.Violated, "the non-nil branch of the error test does not return: the parse continues after a failure"
					}
					if ei < 0 || !aliasOrPhiOf(ret.Results[ei], alias) {
						return core.Violated, "the non-nil branch returns without the error"
					}
					tested = true
				}
			case *ssa.Call:
				callee := x.Common().StaticCallee()
				if h := m.Handlers[callee]; h != nil && h.CauseIdx >= 0 && x.Common().Args[h.CauseIdx] == v {
					wrapped = true
					continue
				}
				return core.Violated, "error value is passed to " + x.Common().String() + " (reduced to something else than an abort)"
			case *ssa.MakeInterface, *ssa.Store, *ssa.TypeAssert:
				return core.Undecided, "error value escapes into " + r.String()
			default:
				return core.Undecided, "unrecognised use of the error value: " + r.String()
			}
		}
	}
	if tested {
		facts = append(facts, "non-nil branch returns it")
	}
	if returned && !tested {
		facts = append(facts, "returned unconditionally")
	}
	if wrapped {
		facts = append(facts, "passed as cause to a handler")
	}
	if !tested && !returned && !wrapped {
		return core.Violated, "error value is never examined"
	}
	return core.Discharged, strings.Join(facts, "; ")
}

func aliasOrPhiOf(v ssa.Value, alias map[ssa.Value]bool) bool {
	if alias[v] {
		return true
	}
	for _, s := range valueSources(v) {
		if alias[s] {
			return true
		}
	}
	// a merge of error values one of which is ours (`return nil, err` behind several tests of err)
	seen := map[ssa.Value]bool{}
	var rec func(v ssa.Value) bool
	rec = func(v ssa.Value) bool {
		if alias[v] {
			return true
		}
		if seen[v] {
			return false
		}
		seen[v] = true
		switch x := v.(type) {
		case *ssa.Phi:
			for _, e := range x.Edges {
				if rec(e) {
					return true
				}
			}
		case *ssa.ChangeInterface:
			return rec(x.X)
		}
		return false
	}
	return rec(v)
}

// hasRetry: the function re-parses a concatenated text (the default-scheme retry idiom, governed by OPT-retry).
func hasRetry(f *ssa.Function) bool {
	for _, b := range f.Blocks {
		for _, ins := range b.Instrs {
			if call, ok := ins.(*ssa.Call); ok && call.Common().IsInvoke() && call.Common().Method.Name() == "Parse" {
				if bo, ok := call.Common().Args[0].(*ssa.BinOp); ok && bo.Op == token.ADD {
					return true
				}
			}
		}
	}
	return false
}

// appliesEveryOption: the maker calls every element of its variadic (last) parameter with the fresh object as the
// only argument, in a range loop over that parameter.
func appliesEveryOption(g *ssa.Function, alloc *ssa.Alloc) bool {
	if len(g.Params) == 0 {
		return false
	}
	vp := g.Params[len(g.Params)-1]
	for _, b := range g.Blocks {
		for _, ins := range b.Instrs {
			call, ok := ins.(*ssa.Call)
			if !ok || call.Common().StaticCallee() != nil || call.Common().IsInvoke() || len(call.Common().Args) != 1 {
				continue
			}
			if call.Common().Args[0] != ssa.Value(alloc) {
				continue
			}
			ld, ok := call.Common().Value.(*ssa.UnOp)
			if !ok || ld.Op != token.MUL {
				continue
			}
			ia, ok := ld.X.(*ssa.IndexAddr)
			if !ok || ia.X != ssa.Value(vp) {
				continue
			}
			// the index is the key of the range loop over the parameter
			if bo, ok := ia.Index.(*ssa.BinOp); ok && bo.Op == token.ADD {
				if phi, ok := bo.X.(*ssa.Phi); ok && phi.Comment == "rangeindex" {
					return true
				}
			}
		}
	}
	return false
}

// optionStores: for an option constructor (a function every return of which is one closure literal), the fields of the
// closure's first parameter that the closure stores a captured parameter of the constructor into: field -> index of
// that parameter.
func optionStores(oc *ssa.Function) map[string]int {
	out := map[string]int{}
	for _, b := range oc.Blocks {
		r, ok := b.Instrs[len(b.Instrs)-1].(*ssa.Return)
		if !ok {
			continue
		}
		if len(r.Results) != 1 {
			return nil
		}
		rv := r.Results[0]
		if ct, isCT := rv.(*ssa.ChangeType); isCT {
			rv = ct.X // func literal converted to the named option type
		}
		mc, ok := rv.(*ssa.MakeClosure)
		if !ok {
			return nil
		}
		fn, ok := mc.Fn.(*ssa.Function)
		if !ok || len(fn.Params) == 0 {
			return nil
		}
		for _, cb := range fn.Blocks {
			for _, ins := range cb.Instrs {
				st, ok := ins.(*ssa.Store)
				if !ok {
					continue
				}
				fa, ok := st.Addr.(*ssa.FieldAddr)
				if !ok || fa.X != ssa.Value(fn.Params[0]) {
					continue
				}
				// the stored value: a captured variable (the free variable holds the parameter, or its address)
				v := st.Val
				if ld, ok := v.(*ssa.UnOp); ok && ld.Op == token.MUL {
					v = ld.X
				}
				fv, ok := v.(*ssa.FreeVar)
				if !ok {
					continue
				}
				for i, x := range fn.FreeVars {
					if x != fv || i >= len(mc.Bindings) {
						continue
					}
					bv := mc.Bindings[i]
					// a captured parameter may be spilled into a cell first
					if al, ok := bv.(*ssa.Alloc); ok {
						for _, rr := range *al.Referrers() {
							if s2, ok := rr.(*ssa.Store); ok && s2.Addr == ssa.Value(al) {
								bv = s2.Val
							}
						}
					}
					for pi, p := range oc.Params {
						if ssa.Value(p) == bv {
							out[strings.TrimPrefix(fieldElem(fa.X.Type(), fa.Field), "ValidationError:")] = pi
						}
					}
				}
			}
		}
	}
	return out
}
