package rules

import (
	"fmt"
	"strings"

	"wucheck/core"
)

// Debug prints engine internals (diagnostic only).
func Debug(c *Ctx, what string) {
	switch what {
	case "eff":
		e := BuildEff(c)
		fmt.Println("rounds:", e.Rounds, "functions:", len(e.Fns))
		for _, f := range e.Fns {
			if !c.P.InModule(f) {
				continue
			}
			s := e.Sum(f)
			fmt.Printf("%-60s Mut=%v\n", core.FuncName(f), s.Mut.sorted())
			for i, r := range s.Ret {
				if len(r) > 0 {
					fmt.Printf("%-60s   Ret[%d]=%v\n", "", i, r.sorted())
				}
			}
			var ks []string
			for k := range s.Heap {
				ks = append(ks, k)
			}
			sortStrings(ks)
			for _, k := range ks {
				if len(s.Heap[k]) > 0 {
					fmt.Printf("%-60s   %s -> %v\n", "", k, s.Heap[k].sorted())
				}
			}
			for u := range s.Unknown {
				fmt.Printf("%-60s   UNKNOWN %s\n", "", u)
			}
		}
	case "sm":
		m := BuildSM(c)
		fmt.Println("problems:", m.Problems)
		if m.An != nil {
			fmt.Println("cursor classes:", m.An.cursorClass)
			fmt.Println("rune literals:", m.An.lits)
		}
		for _, cx := range m.Contexts {
			fmt.Printf("=== context %s reach=%v\n", cx.Name, m.Reach[cx.Name])
			agg := map[string]int{}
			var keys []string
			for _, p := range m.Paths[cx.Name] {
				nx := p.Next
				if p.Returned {
					nx = "RETURN(" + p.RetKind + ": " + p.RetText + ")"
				} else if nx == "" {
					nx = "stay"
				}
				var eff []string
				for _, f := range []string{"scheme", "username", "password", "host", "port", "decodedPort", "path", "query", "fragment"} {
					if d := p.Disposition(f); d != "untouched" {
						eff = append(eff, f+"="+d)
					}
				}
				var cur []string
				for _, co := range p.Cursor {
					if co.Class != "neutral" {
						cur = append(cur, co.Name)
					}
				}
				var hs []string
				for _, h := range p.Handlers {
					if h.Site.Failure {
						hs = append(hs, fmt.Sprintf("%s!%d", h.Site.TypeName, h.Taken))
					}
				}
				k := fmt.Sprintf("  [%-34s] -> %-60s cur=%v eff=%v fail=%v base=%d r=%v und=%v", p.State, nx, cur, eff, hs, len(p.BaseDerefs), p.RClass, p.Undecided)
				if agg[k] == 0 {
					keys = append(keys, k)
				}
				agg[k]++
			}
			sortStrings(keys)
			for _, k := range keys {
				fmt.Printf("%s (x%d)\n", k, agg[k])
			}
		}
	case "smt":
		m := BuildSM(c)
		for _, cx := range m.Contexts {
			fmt.Printf("=== context %s\n", cx.Name)
			T := smTransitions(m, cx.Name)
			var sts []string
			for st := range T {
				sts = append(sts, st)
			}
			sortStrings(sts)
			for _, st := range sts {
				by := map[string][]string{}
				for cl, outs := range T[st] {
					var set []string
					for o := range outs {
						set = append(set, o)
					}
					sortStrings(set)
					k := strings.Join(set, " ")
					by[k] = append(by[k], cl)
				}
				var ks []string
				for k := range by {
					ks = append(ks, k)
				}
				sortStrings(ks)
				for _, k := range ks {
					sortStrings(by[k])
					fmt.Printf("  %-36s %-45s -> %s\n", st, strings.Join(by[k], " "), k)
				}
			}
		}
	default:
		fmt.Println("unknown debug target", what, "(eff)")
	}
	_ = strings.Join
}
