package rules

import (
	"fmt"
	"strings"

	"wucheck/core"
)

// Debug prints engine internals (diagnostic only).
func Debug(c *Ctx, what string) {
	switch what {
	case "eff":
		e := BuildEff(c)
		fmt.Println("rounds:", e.Rounds, "functions:", len(e.Fns))
		for _, f := range e.Fns {
			if !c.P.InModule(f) {
				continue
			}
			s := e.Sum(f)
			fmt.Printf("%-60s Mut=%v\n", core.FuncName(f), s.Mut.sorted())
			for i, r := range s.Ret {
				if len(r) > 0 {
					fmt.Printf("%-60s   Ret[%d]=%v\n", "", i, r.sorted())
				}
			}
			var ks []string
			for k := range s.Heap {
				ks = append(ks, k)
			}
			sortStrings(ks)
			for _, k := range ks {
				if len(s.Heap[k]) > 0 {
					fmt.Printf("%-60s   %s -> %v\n", "", k, s.Heap[k].sorted())
				}
			}
			for u := range s.Unknown {
				fmt.Printf("%-60s   UNKNOWN %s\n", "", u)
			}
		}
	default:
		fmt.Println("unknown debug target", what, "(eff)")
	}
	_ = strings.Join
}
