package rules

// The canonicalizer rules OPT-canon, OPT-retry and FLOW-canon, written over expanded calls so that steps moved into
// helper methods of the profile are read through.

import (
	"fmt"
	"go/token"
	"go/types"
	"sort"
	"strings"

	"golang.org/x/tools/go/ssa"

	"wucheck/core"
)

func inCanonicalizer(f *ssa.Function) bool {
	return core.PkgPathOf(f) == core.ModPath+"/canonicalizer"
}

func canonSteps(c *Ctx) (*ssa.Function, ssa.Value, []xcall) {
	f := c.P.Func("canonicalizer", "profile", "Canonicalize")
	if f == nil {
		return nil, nil, nil
	}
	de := c.P.Func("canonicalizer", "", "decodeEncode")
	xs := expandCalls(c, f, func(cl *ssa.Function) bool {
		return inCanonicalizer(cl) && cl != de && cl.Name() != "Parse" && cl.Name() != "ParseRef"
	}, 3)
	return f, ssa.Value(f.Params[1]), xs
}

func init() {
	register(&Rule{
		Name:  "OPT-canon",
		Doc:   "in Canonicalize (helpers of the profile included) each post-processing step is the unconditional setter call with the constant \"\" under exactly its own flag (remove-port, remove-user-info, remove-fragment) or sort under exactly its sort-query value; every side-effecting call is control-dependent on a profile field whose zero value disables it (the fragment row also serves C18: an empty fragment disappears only if the removal does not look at the fragment first)",
		Props: []string{"C16", "C18"},
		Floor: 4,
		Run: func(c *Ctx, s *core.Sink) {
			f, u, xs := canonSteps(c)
			if f == nil {
				s.Unknown("canon/anchor", "-", "(*profile).Canonicalize not found", "C16")
				return
			}
			e := BuildEff(c)
			sortVal := map[string]string{}
			for _, n := range []string{"NoSort", "SortKeys", "SortParameter"} {
				if k, ok := c.P.ByName["canonicalizer"].Types.Scope().Lookup(n).(*types.Const); ok {
					sortVal[n] = k.Val().ExactString()
				}
			}
			expect := map[string][]string{
				"SetPort":      {"profile.removePort"},
				"SetUsername":  {"profile.removeUserInfo"},
				"SetPassword":  {"profile.removeUserInfo"},
				"Sort":         {"profile.sortQuery==" + sortVal["SortKeys"]},
				"SortAbsolute": {"profile.sortQuery==" + sortVal["SortParameter"]},
			}
			seen := map[string]int{}
			for _, x := range xs {
				call := x.Call
				cl := call.Common().StaticCallee()
				if cl == nil || inCanonicalizer(cl) {
					continue // helpers are expanded, not judged
				}
				sum := e.Sum(cl)
				if sum == nil || len(sum.Mut) == 0 {
					continue
				}
				name := cl.Name()
				descs := factDescs(x.Facts)
				var pos []string
				for _, d := range descs {
					if strings.HasPrefix(d, "profile.sortQuery!=") {
						continue
					}
					pos = append(pos, d)
				}
				seen[name]++
				key := fmt.Sprintf("canon/%s#%d", name, seen[name])
				p := c.P.Pos(call.Pos())
				isConstEmpty := func() bool {
					if len(call.Common().Args) < 2 {
						return true
					}
					v, ok := constString(call.Common().Args[1])
					return ok && v == ""
				}
				if name == "SetHash" && isConstEmpty() {
					expectOne(s, key, p, pos, []string{"profile.removeFragment"}, "SetHash(\"\")", "C16", "C18")
					continue
				}
				if want, ok := expect[name]; ok {
					if !isConstEmpty() {
						s.Bad(key, p, name+" is not called with the constant \"\"", "C16")
						continue
					}
					recv := x.Root(call.Common().Args[0])
					okRecv := recv == u
					if rc, ok := recv.(*ssa.Call); ok && rc.Common().StaticCallee() != nil && rc.Common().StaticCallee().Name() == "SearchParams" && x.Root(rc.Common().Args[0]) == u {
						okRecv = true
					}
					if !okRecv {
						s.Bad(key, p, name+" is not applied to the URL being canonicalized", "C16")
						continue
					}
					expectOne(s, key, p, pos, want, name, "C16")
					continue
				}
				under := false
				for _, d := range pos {
					if !strings.HasPrefix(d, "profile.") {
						continue
					}
					switch {
					case strings.Contains(d, "=="):
						k := d[strings.Index(d, "==")+2:]
						if k != "0" && k != `""` && k != "false" && k != "nil" {
							under = true
						}
					case strings.Contains(d, "!="):
						k := d[strings.Index(d, "!=")+2:]
						if k == "0" || k == `""` || k == "false" || k == "nil" {
							under = true
						}
					default:
						under = true
					}
				}
				s.Check(under, key, p, "side effect only under "+strings.Join(pos, " ∧ "), "a profile built without options would still execute "+name+" (conditions: "+strings.Join(descs, " ∧ ")+")", "C16")
			}
			for name := range expect {
				if seen[name] == 0 {
					s.Bad("canon/"+name+"#1", c.P.Pos(f.Pos()), "Canonicalize never calls "+name+": the option that needs it has no effect", "C16")
				}
			}
		},
	})

	register(&Rule{
		Name:  "OPT-canonref",
		Doc:   "profile.ParseRef parses the reference on its own - without the base - only where the base string is known to be empty: every call (helpers included) that hands the reference parameter to a Parse is dominated by rawUrl == \"\"; otherwise the profile would not resolve like the parser it wraps",
		Props: []string{"C16"},
		Floor: 1,
		Run: func(c *Ctx, s *core.Sink) {
			f := c.P.Func("canonicalizer", "profile", "ParseRef")
			if f == nil || len(f.Params) < 3 {
				s.Unknown("canonref/(*profile).ParseRef", "-", "not found")
				return
			}
			base, ref := ssa.Value(f.Params[1]), ssa.Value(f.Params[2])
			xs := expandCalls(c, f, func(cl *ssa.Function) bool {
				return inCanonicalizer(cl) && namedOf(recvType(cl)) == "profile" && cl.Name() != "Parse" && cl.Name() != "ParseRef" && cl.Name() != "Canonicalize"
			}, 3)
			n := 0
			for i := range xs {
				x := &xs[i]
				com := x.Call.Common()
				name := ""
				var text ssa.Value
				switch {
				case com.IsInvoke() && com.Method.Name() == "Parse" && len(com.Args) == 1:
					name, text = "Parser.Parse", com.Args[0]
				case com.StaticCallee() != nil && com.StaticCallee().Name() == "Parse" && namedOf(recvType(com.StaticCallee())) == "profile" && len(com.Args) == 2:
					name, text = "profile.Parse", com.Args[1]
				default:
					continue
				}
				if x.Root(text) != ref {
					continue
				}
				n++
				key := fmt.Sprintf("canonref/(*profile).ParseRef/%s#%d", name, n)
				empty := false
				for _, fa := range x.Facts {
					bo, ok := fa.Cond.(*ssa.BinOp)
					if !ok {
						continue
					}
					rel, ok := relOf(bo.Op, fa.Val)
					if !ok {
						continue
					}
					for _, pr := range [][2]ssa.Value{{bo.X, bo.Y}, {bo.Y, bo.X}} {
						if k, isK := constString(pr[1]); isK && k == "" && rel == token.EQL && x.Root(pr[0]) == base {
							empty = true
						}
						if k, isK := constInt(pr[1]); isK && k == 0 && (rel == token.EQL || (rel == token.LEQ && pr[1] == bo.Y)) {
							if a, isLen := lenArg(pr[0]); isLen && x.Root(a) == base {
								empty = true
							}
						}
					}
				}
				s.Check(empty, key, c.P.Pos(x.Call.Pos()), "the reference is parsed on its own only where the base string is empty", "the reference is parsed without the base although the base string is not known to be empty: ParseRef(base, ref) would ignore its base")
			}
			if n == 0 {
				s.OK("canonref/(*profile).ParseRef", c.P.Pos(f.Pos()), "the reference is never parsed without the base")
			}
		},
	})

	register(&Rule{
		Name:  "OPT-retry",
		Doc:   "in profile.Parse and profile.ParseRef (helpers included) the default-scheme retry re-parses defaultScheme + \"://\" + input under exactly (err ≠ nil) ∧ (error type = missing scheme) ∧ (defaultScheme ≠ \"\")",
		Props: []string{"C16"},
		Floor: 2,
		Run: func(c *Ctx, s *core.Sink) {
			for _, n := range []string{"Parse", "ParseRef"} {
				f := c.P.Func("canonicalizer", "profile", n)
				key := "retry/(*profile)." + n
				if f == nil {
					s.Unknown(key, "-", "not found")
					continue
				}
				input := ssa.Value(f.Params[1])
				recv := ssa.Value(f.Params[0])
				xs := expandCalls(c, f, func(cl *ssa.Function) bool {
					return inCanonicalizer(cl) && namedOf(recvType(cl)) == "profile" && cl.Name() != "Parse" && cl.Name() != "ParseRef" && cl.Name() != "Canonicalize"
				}, 3)
				var retry *xcall
				for i := range xs {
					call := xs[i].Call
					if !call.Common().IsInvoke() || call.Common().Method.Name() != "Parse" {
						continue
					}
					if bo, ok := call.Common().Args[0].(*ssa.BinOp); ok && bo.Op == token.ADD {
						retry = &xs[i]
					}
				}
				if retry == nil {
					s.Bad(key, c.P.Pos(f.Pos()), "no retry with a default scheme found")
					continue
				}
				var bad []string
				outer, _ := retry.Call.Common().Args[0].(*ssa.BinOp)
				inner, ok := outer.X.(*ssa.BinOp)
				if !ok || inner.Op != token.ADD || retry.Root(outer.Y) != input {
					bad = append(bad, "the retried text is not defaultScheme + \"://\" + input")
				} else {
					if sep, ok := constString(inner.Y); !ok || sep != "://" {
						bad = append(bad, fmt.Sprintf("separator %v, want \"://\"", inner.Y))
					}
					x, ok := loadOfField(inner.X, "profile:defaultScheme")
					if !ok {
						// the field may live in a struct the profile holds by value
						if ld, isLd := inner.X.(*ssa.UnOp); isLd && ld.Op == token.MUL {
							if fa, isFa := ld.X.(*ssa.FieldAddr); isFa {
								if fld, isP := profileFieldOf(fa); isP && fld == "defaultScheme" {
									root := fa.X
									for {
										up, isUp := root.(*ssa.FieldAddr)
										if !isUp {
											break
										}
										root = up.X
									}
									x, ok = root, true
								}
							}
						}
					}
					if !ok || retry.Root(x) != recv {
						bad = append(bad, "the prefix is not the profile's defaultScheme")
					}
				}
				var descs []string
				for _, d := range factDescs(retry.Facts) {
					if strings.HasPrefix(d, "param:") {
						continue
					}
					descs = append(descs, d)
				}
				want := []string{"Type()==" + fmt.Sprintf("%q", missingSchemeValue(c)), "err!=nil", `profile.defaultScheme!=""`}
				sort.Strings(want)
				if strings.Join(descs, " ∧ ") != strings.Join(want, " ∧ ") {
					bad = append(bad, fmt.Sprintf("guard is %v, want %v", descs, want))
				}
				s.Check(len(bad) == 0, key, c.P.Pos(retry.Call.Pos()), "retry guarded by "+strings.Join(want, " ∧ "), strings.Join(bad, "; "))
			}
		},
	})

	register(&Rule{
		Name:  "FLOW-canon",
		Doc:   "with repeated percent-decoding on, hostname, pathname, every pair name, every pair value and the fragment are each replaced by decodeEncode(current value) under nothing but the option and 'component is non-empty', before any sort / remove step; decodeEncode is encode(decode-until-unchanged(s))",
		Props: []string{"C18"},
		Floor: 4,
		Run: func(c *Ctx, s *core.Sink) {
			f, u, xs := canonSteps(c)
			de := c.P.Func("canonicalizer", "", "decodeEncode")
			if f == nil || de == nil {
				s.Unknown("canon/anchor", "-", "Canonicalize / decodeEncode not found")
				return
			}
			isDE := func(v ssa.Value) (*ssa.Call, bool) {
				call, ok := v.(*ssa.Call)
				return call, ok && call.Common().StaticCallee() == de
			}
			getterOf := func(x *xcall, v ssa.Value) string {
				if call, ok := v.(*ssa.Call); ok {
					if cl := call.Common().StaticCallee(); cl != nil {
						if cl.String() == "strings.TrimPrefix" {
							if inner, ok := call.Common().Args[0].(*ssa.Call); ok {
								if icl := inner.Common().StaticCallee(); icl != nil && namedOf(recvType(icl)) == "Url" && x.Root(inner.Common().Args[0]) == u {
									return icl.Name()
								}
							}
						}
						if namedOf(recvType(cl)) == "Url" && x.Root(call.Common().Args[0]) == u {
							return cl.Name()
						}
					}
				}
				return ""
			}
			var decodeCalls, laterCalls []xcall
			type comp struct{ setter, getter string }
			for _, cp := range []comp{{"SetHostname", "Hostname"}, {"SetPathname", "Pathname"}, {"SetHash", "Hash"}} {
				key := "canon/" + cp.getter
				var site *xcall
				for i := range xs {
					call := xs[i].Call
					if cl := call.Common().StaticCallee(); cl != nil && cl.Name() == cp.setter && len(call.Common().Args) == 2 {
						if _, ok := isDE(call.Common().Args[1]); ok {
							site = &xs[i]
						}
					}
				}
				if site == nil {
					s.Bad(key, c.P.Pos(f.Pos()), "the "+strings.ToLower(cp.getter)+" is never replaced by its decoded-and-re-encoded form")
					continue
				}
				decodeCalls = append(decodeCalls, *site)
				dc, _ := isDE(site.Call.Common().Args[1])
				var bad []string
				if site.Root(site.Call.Common().Args[0]) != u {
					bad = append(bad, "setter applied to another URL")
				}
				// Hash() and Fragment() differ by the leading '#' only, which the setter strips: either names the component
				same := map[string]string{"Fragment": "Hash"}
				canonG := func(g string) string {
					if c, ok := same[g]; ok {
						return c
					}
					return g
				}
				if g := getterOf(site, dc.Common().Args[0]); canonG(g) != cp.getter {
					bad = append(bad, fmt.Sprintf("decodes %s(), want %s()", g, cp.getter))
				}
				descs := factDescs(site.Facts)
				for i, d := range descs {
					for alt, cn := range same {
						if strings.HasPrefix(d, alt+"()") {
							descs[i] = cn + strings.TrimPrefix(d, alt)
						}
					}
				}
				sort.Strings(descs)
				want := []string{cp.getter + `()!=""`, "profile.repeatedPercentDecoding"}
				sort.Strings(want)
				if strings.Join(descs, " ∧ ") != strings.Join(want, " ∧ ") {
					bad = append(bad, fmt.Sprintf("guarded by %v, want exactly %v", descs, want))
				}
				s.Check(len(bad) == 0, key, c.P.Pos(site.Call.Pos()), cp.setter+"(decodeEncode("+cp.getter+"())) under "+strings.Join(want, " ∧ "), strings.Join(bad, "; "))
			}
			var it *xcall
			for i := range xs {
				if cl := xs[i].Call.Common().StaticCallee(); cl != nil && cl.Name() == "Iterate" && namedOf(recvType(cl)) == "SearchParams" {
					it = &xs[i]
				}
			}
			if it == nil {
				s.Bad("canon/pairs", c.P.Pos(f.Pos()), "query parameters are never decoded and re-encoded")
			} else {
				decodeCalls = append(decodeCalls, *it)
				descs := factDescs(it.Facts)
				// Search() is "" exactly when Query() is (nil or empty query): either test names the same condition
				for i, d := range descs {
					if strings.HasPrefix(d, "Query()") {
						descs[i] = "Search" + strings.TrimPrefix(d, "Query")
					}
				}
				sort.Strings(descs)
				want := []string{`Search()!=""`, "profile.repeatedPercentDecoding"}
				sort.Strings(want)
				recvOK := false
				if rc, ok := it.Call.Common().Args[0].(*ssa.Call); ok && rc.Common().StaticCallee() != nil && rc.Common().StaticCallee().Name() == "SearchParams" && it.Root(rc.Common().Args[0]) == u {
					recvOK = true
				}
				s.Check(recvOK && strings.Join(descs, " ∧ ") == strings.Join(want, " ∧ "), "canon/pairs/guard", c.P.Pos(it.Call.Pos()), "u.SearchParams().Iterate under "+strings.Join(want, " ∧ "), fmt.Sprintf("iterates %v under %v, want u.SearchParams() under %v", it.Call.Common().Args[0], descs, want))
				var cl *ssa.Function
				if mc, ok := it.Call.Common().Args[1].(*ssa.MakeClosure); ok {
					cl = mc.Fn.(*ssa.Function)
				} else if fn, ok := it.Call.Common().Args[1].(*ssa.Function); ok {
					cl = fn
				}
				for _, fld := range []string{"Name", "Value"} {
					key := "canon/pairs/" + fld
					okF := false
					if cl != nil && len(cl.Blocks) == 1 {
						for _, ins := range cl.Blocks[0].Instrs {
							st, ok := ins.(*ssa.Store)
							if !ok {
								continue
							}
							fa, ok := fieldAddrOf(st.Addr, "NameValuePair:"+fld)
							if !ok || fa.X != ssa.Value(cl.Params[0]) {
								continue
							}
							if dc, ok := isDE(st.Val); ok {
								if x, ok := loadOfField(dc.Common().Args[0], "NameValuePair:"+fld); ok && x == ssa.Value(cl.Params[0]) {
									okF = true
								}
							}
						}
					}
					s.Check(okF, key, c.P.Pos(it.Call.Pos()), "pair."+fld+" = decodeEncode(pair."+fld+")", "pair."+fld+" is not unconditionally replaced by decodeEncode(pair."+fld+")")
				}
			}
			// order
			for _, x := range xs {
				cl := x.Call.Common().StaticCallee()
				if cl == nil {
					continue
				}
				switch cl.Name() {
				case "Sort", "SortAbsolute", "SetPort", "SetUsername", "SetPassword":
					if !inCanonicalizer(cl) {
						laterCalls = append(laterCalls, x)
					}
				case "SetHash":
					if len(x.Call.Common().Args) == 2 {
						if _, ok := isDE(x.Call.Common().Args[1]); !ok {
							laterCalls = append(laterCalls, x)
						}
					}
				}
			}
			orderBad := ""
			for _, lc := range laterCalls {
				for _, dc := range decodeCalls {
					if mayPrecede(lc, dc) {
						orderBad = fmt.Sprintf("%s (at %s) can run before the repeated decoding of a component (at %s): equivalent spellings are compared / removed before they are normalised", lc.Call.Common().StaticCallee().Name(), c.P.Pos(lc.Call.Pos()), c.P.Pos(dc.Call.Pos()))
					}
				}
			}
			s.Check(orderBad == "", "canon/order", c.P.Pos(f.Pos()), "every sort / remove step comes after all repeated decoding", orderBad)
			// decodeEncode = percentEncode(repeatedDecode(s), tr)
			okDE := false
			for _, b := range de.Blocks {
				if r, ok := b.Instrs[len(b.Instrs)-1].(*ssa.Return); ok {
					if enc, ok := r.Results[0].(*ssa.Call); ok && enc.Common().StaticCallee() != nil && enc.Common().StaticCallee().Name() == "percentEncode" {
						if dec, ok := enc.Common().Args[0].(*ssa.Call); ok && dec.Common().StaticCallee() != nil && dec.Common().StaticCallee().Name() == "repeatedDecode" && dec.Common().Args[0] == ssa.Value(de.Params[0]) && enc.Common().Args[1] == ssa.Value(de.Params[1]) {
							okDE = true
						}
					}
				}
			}
			s.Check(okDE, "canon/decodeEncode", c.P.Pos(de.Pos()), "percentEncode(repeatedDecode(s), tr)", "decodeEncode is not percentEncode(repeatedDecode(s), tr)")
			// repeatedDecode: leaves its loop only when a pass changed nothing, and returns that fixpoint
			rd := c.P.Func("canonicalizer", "", "repeatedDecode")
			if rd == nil {
				s.Unknown("canon/repeatedDecode", "-", "not found")
			} else {
				loops := loopsOf(rd)
				flagExit := false
				okRD := false
				why := "no decode-until-unchanged loop"
				if len(loops) == 1 {
					l := loops[0]
					exits := 0
					okRD = true
					flagExit = false
					for b := range l.Blocks {
						for si, succ := range b.Succs {
							if l.Blocks[succ] {
								continue
							}
							exits++
							iff, ok := lastIf(b)
							if !ok {
								okRD, why = false, "a loop exit is not a comparison"
								continue
							}
							// the pass itself reports whether it changed anything: `decoded, changed := decodePercentEncoded(s)`.
							// Whether that flag is right is the pass's business and is not decided here.
							if fs := normFact(iff.Cond, true); len(fs) == 1 {
								if ex, isEx := fs[0].Cond.(*ssa.Extract); isEx {
									if dc, isCall := ex.Tuple.(*ssa.Call); isCall && dc.Common().StaticCallee() != nil && dc.Common().StaticCallee().Name() == "decodePercentEncoded" {
										flagExit = true
										continue
									}
								}
							}
							bo, ok := iff.Cond.(*ssa.BinOp)
							if !ok || !(bo.Op == token.EQL && si == 0 || bo.Op == token.NEQ && si == 1) {
								okRD, why = false, "the loop does not exit on equality"
								continue
							}
							match := false
							var isPassOf func(x, y ssa.Value, depth int) bool
							isPassOf = func(x, y ssa.Value, depth int) bool {
								if dc, ok := x.(*ssa.Call); ok && dc.Common().StaticCallee() != nil && dc.Common().StaticCallee().Name() == "decodePercentEncoded" && dc.Common().Args[0] == y {
									return true
								}
								// the pass and its input are both carried round the loop: edge by edge
								px, okx := x.(*ssa.Phi)
								py, oky := y.(*ssa.Phi)
								if okx && oky && px.Block() == py.Block() && depth < 2 {
									for i := range px.Edges {
										if !isPassOf(px.Edges[i], py.Edges[i], depth+1) {
											return false
										}
									}
									return len(px.Edges) > 0
								}
								return false
							}
							for _, pr := range [][2]ssa.Value{{bo.X, bo.Y}, {bo.Y, bo.X}} {
								if isPassOf(pr[0], pr[1], 0) {
									match = true
								}
							}
							if !match {
								okRD, why = false, "the exit does not compare a decoding pass with its input"
							}
						}
					}
					if exits == 0 {
						okRD, why = false, "the loop has no exit"
					}
				}
				if okRD && flagExit {
					s.Obs = append(s.Obs, core.Obligation{Rule: s.Rule, Construct: "canon/repeatedDecode", Pos: c.P.Pos(rd.Pos()), Verdict: core.Discharged, Fact: "inventory: not decided (the loop ends on a 'changed' flag reported by the decoding pass, not on a comparison of the pass with its input)", Props: s.Props, Trivial: true})
				} else {
					s.Check(okRD, "canon/repeatedDecode", c.P.Pos(rd.Pos()), "loops until decodePercentEncoded(s) == s", why)
				}
			}
		},
	})
}
