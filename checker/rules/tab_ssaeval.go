package rules

// Constant evaluation of the package initialisers on the SSA form.
//
// The tables of the module (bit sets, percent-encode sets, scheme maps) are built by package-level initialisers and
// init functions from constants only: no input reaches them. The AST evaluator of tab_engine.go follows the shapes
// the code base uses; this evaluator is its form-independent fallback: it folds the synthetic package initialiser of
// go/ssa instruction by instruction, with concrete values (integers, booleans, strings, slices, structs, maps,
// pointers, bit sets as a built-in type). Loops, helpers, variadics and method chains need no special support - they
// are just instructions. A value it cannot compute is "unknown"; unknown spreads, a branch on it makes the function
// that contains the branch give up, and every object that function could have written is unknown from then on.
// Functions that contain anything outside the instruction set are not entered at all (their result is unknown and
// what they are handed becomes unknown).

import (
	"fmt"
	"go/constant"
	"go/token"
	"go/types"
	"os"
	"strings"
	"unicode/utf8"

	"golang.org/x/tools/go/ssa"

	"wucheck/core"
)

type seKind int

const (
	seUnknown seKind = iota
	seInt
	seBool
	seStr
	sePtr    // obj (+ idx: field or element; idx < 0: the object itself)
	seSlice  // obj (kind array), lo, hi
	seStruct // value copy: fields
	seMapV   // obj (kind map)
	seNil
	seTuple
	seIter // string range iterator: obj (cell holding position), s
)

type seVal struct {
	k      seKind
	i      int64
	b      bool
	s      string
	obj    *seObj
	idx    int
	lo, hi int
	fields []seVal
}

type seObj struct {
	kind    string // cell | struct | array | bitset | map
	vals    []seVal
	bits    map[int64]bool
	m       map[string]seVal
	unknown bool
	t       types.Type
}

type seEval struct {
	c       *Ctx
	globals map[*ssa.Global]*seObj
	steps   int
	okFn    map[*ssa.Function]int // 0 unknown, 1 evaluable, 2 not
	notes   []string
	allObjs []*seObj
}

var seUnk = seVal{}

func (e *seEval) newObj(kind string, n int, t types.Type) *seObj {
	o := &seObj{kind: kind, t: t}
	if n > 0 {
		o.vals = make([]seVal, n)
	}
	if kind == "bitset" {
		o.bits = map[int64]bool{}
	}
	if kind == "map" {
		o.m = map[string]seVal{}
	}
	e.allObjs = append(e.allObjs, o)
	return o
}

func (e *seEval) zero(t types.Type) seVal {
	switch u := t.Underlying().(type) {
	case *types.Basic:
		switch {
		case u.Info()&types.IsInteger != 0:
			return seVal{k: seInt}
		case u.Info()&types.IsBoolean != 0:
			return seVal{k: seBool}
		case u.Info()&types.IsString != 0:
			return seVal{k: seStr}
		}
	case *types.Pointer, *types.Map, *types.Interface, *types.Signature, *types.Chan:
		return seVal{k: seNil}
	case *types.Slice:
		return seVal{k: seSlice}
	case *types.Struct:
		if namedOf(t) == "BitSet" {
			return seUnk
		}
		fs := make([]seVal, u.NumFields())
		for i := range fs {
			fs[i] = e.zero(u.Field(i).Type())
		}
		return seVal{k: seStruct, fields: fs}
	case *types.Array:
		return seUnk
	}
	return seUnk
}

func truncInt(v int64, t types.Type) int64 {
	b, ok := t.Underlying().(*types.Basic)
	if !ok {
		return v
	}
	switch b.Kind() {
	case types.Uint8:
		return int64(uint8(v))
	case types.Int8:
		return int64(int8(v))
	case types.Uint16:
		return int64(uint16(v))
	case types.Int16:
		return int64(int16(v))
	case types.Uint32:
		return int64(uint32(v))
	case types.Int32:
		return int64(int32(v))
	}
	return v
}

// evaluable: every instruction of f (and of the module functions it calls) is in the instruction set.
func (e *seEval) evaluable(f *ssa.Function, depth int) bool {
	if f == nil || len(f.Blocks) == 0 {
		return false
	}
	if v := e.okFn[f]; v != 0 {
		return v == 1
	}
	e.okFn[f] = 1 // recursion guard (optimistic)
	ok := true
	for _, b := range f.Blocks {
		for _, ins := range b.Instrs {
			switch x := ins.(type) {
			case *ssa.Alloc, *ssa.Store, *ssa.UnOp, *ssa.BinOp, *ssa.FieldAddr, *ssa.Field, *ssa.IndexAddr, *ssa.Index, *ssa.Phi, *ssa.If, *ssa.Jump, *ssa.Return,
				*ssa.Convert, *ssa.ChangeType, *ssa.Slice, *ssa.MakeSlice, *ssa.MakeMap, *ssa.MapUpdate, *ssa.Lookup, *ssa.Extract, *ssa.DebugRef, *ssa.Range, *ssa.Next:
				if u, isU := ins.(*ssa.UnOp); isU && u.Op == token.ARROW {
					ok = false
				}
			case *ssa.Call:
				com := x.Common()
				if com.IsInvoke() {
					ok = false
					break
				}
				if _, isB := com.Value.(*ssa.Builtin); isB {
					break
				}
				cl := com.StaticCallee()
				if cl == nil {
					ok = false
					break
				}
				if isBitsetFn(cl) {
					break
				}
				if (!e.c.P.InModule(cl) && !inModPkg(cl.Pkg)) || depth > 6 || !e.evaluable(cl, depth+1) {
					ok = false
				}
			default:
				ok = false
			}
			if !ok {
				if os.Getenv("WUDEBUG") == "tab" {
					fmt.Fprintf(os.Stderr, "not evaluable: %s because of %T %s\n", f.Name(), ins, ins.String())
				}
				break
			}
		}
		if !ok {
			break
		}
	}
	if ok {
		e.okFn[f] = 1
	} else {
		e.okFn[f] = 2
	}
	return ok
}

func inModPkg(p *ssa.Package) bool {
	return p != nil && p.Pkg != nil && strings.HasPrefix(p.Pkg.Path(), core.ModPath)
}

func isBitsetFn(f *ssa.Function) bool {
	if f.Pkg == nil || f.Pkg.Pkg.Name() != "bitset" {
		return false
	}
	switch f.Name() {
	case "New", "Set", "Clear", "Test", "Clone", "SetTo", "InPlaceUnion", "InPlaceDifference", "InPlaceIntersection", "Union", "Difference", "Intersection":
		return true
	}
	return false
}

type seFrame struct {
	env  map[ssa.Value]seVal
	gave bool // gave up
}

func (e *seEval) val(fr *seFrame, v ssa.Value) seVal {
	if x, ok := fr.env[v]; ok {
		return x
	}
	switch x := v.(type) {
	case *ssa.Const:
		if x.Value == nil {
			if _, isSl := x.Type().Underlying().(*types.Slice); isSl {
				return seVal{k: seSlice}
			}
			if b, isB := x.Type().Underlying().(*types.Basic); isB && b.Info()&types.IsString != 0 {
				return seVal{k: seStr}
			}
			return e.zeroOrNil(x.Type())
		}
		switch x.Value.Kind() {
		case constant.Int:
			if n, ok := constant.Int64Val(x.Value); ok {
				return seVal{k: seInt, i: n}
			}
			if n, ok := constant.Uint64Val(x.Value); ok {
				return seVal{k: seInt, i: int64(n)}
			}
		case constant.Bool:
			return seVal{k: seBool, b: constant.BoolVal(x.Value)}
		case constant.String:
			return seVal{k: seStr, s: constant.StringVal(x.Value)}
		}
	case *ssa.Global:
		o := e.globals[x]
		if o == nil {
			// a package variable of a struct type of the module is an object with fields, as a local one is
			if et := x.Type().Underlying().(*types.Pointer).Elem(); inModPkg(x.Pkg) && namedOf(et) != "BitSet" {
				if st, isSt := et.Underlying().(*types.Struct); isSt {
					o = e.newObj("struct", st.NumFields(), et)
					for i := range o.vals {
						o.vals[i] = e.zero(st.Field(i).Type())
					}
					e.globals[x] = o
					return seVal{k: sePtr, obj: o, idx: -1}
				}
				if at, isArr := et.Underlying().(*types.Array); isArr && at.Len() <= 4096 {
					o = e.newObj("array", int(at.Len()), et)
					for i := range o.vals {
						o.vals[i] = e.zero(at.Elem())
					}
					e.globals[x] = o
					return seVal{k: sePtr, obj: o, idx: -1}
				}
			}
			o = e.newObj("cell", 1, x.Type())
			o.vals[0] = seUnk
			if inModPkg(x.Pkg) {
				o.vals[0] = e.zero(x.Type().Underlying().(*types.Pointer).Elem())
			}
			e.globals[x] = o
		}
		if o.kind == "struct" || o.kind == "array" {
			return seVal{k: sePtr, obj: o, idx: -1}
		}
		return seVal{k: sePtr, obj: o, idx: 0}
	}
	return seUnk
}

func (e *seEval) zeroOrNil(t types.Type) seVal {
	z := e.zero(t)
	if z.k == seUnknown {
		return seVal{k: seNil}
	}
	return z
}

// load / store through a pointer value
func (e *seEval) load(p seVal) seVal {
	if p.k != sePtr || p.obj == nil || p.obj.unknown {
		return seUnk
	}
	switch p.obj.kind {
	case "cell", "array":
		if p.idx >= 0 && p.idx < len(p.obj.vals) {
			return p.obj.vals[p.idx]
		}
	case "struct":
		if p.idx < 0 {
			return seVal{k: seStruct, fields: append([]seVal(nil), p.obj.vals...)}
		}
		if p.idx < len(p.obj.vals) {
			return p.obj.vals[p.idx]
		}
	}
	return seUnk
}

func (e *seEval) store(p, v seVal) {
	if p.k != sePtr || p.obj == nil {
		return
	}
	switch p.obj.kind {
	case "cell", "array":
		if p.idx >= 0 && p.idx < len(p.obj.vals) {
			p.obj.vals[p.idx] = v
			return
		}
	case "struct":
		if p.idx < 0 {
			if v.k == seStruct && len(v.fields) == len(p.obj.vals) {
				copy(p.obj.vals, v.fields)
				return
			}
		} else if p.idx < len(p.obj.vals) {
			p.obj.vals[p.idx] = v
			return
		}
	}
	p.obj.unknown = true
}

func (e *seEval) taint(v seVal, seen map[*seObj]bool) {
	var o *seObj
	switch v.k {
	case sePtr, seSlice, seMapV:
		o = v.obj
	case seStruct:
		for _, f := range v.fields {
			e.taint(f, seen)
		}
	}
	if o == nil || seen[o] {
		return
	}
	seen[o] = true
	o.unknown = true
	for _, x := range o.vals {
		e.taint(x, seen)
	}
	for _, x := range o.m {
		e.taint(x, seen)
	}
}

func (e *seEval) call(f *ssa.Function, args []seVal, depth int) seVal {
	giveUp := func() seVal {
		// what the function may write through its arguments is unknown from here on; the effect summary says which
		// arguments those are (an option constructor only captures the set it is given)
		var sum *effSummary
		if eff := BuildEff(e.c); eff != nil {
			sum = eff.Sum(f)
		}
		for i, a := range args {
			if sum != nil {
				writes := false
				for m := range sum.Mut {
					if rootOf(m) == fmt.Sprintf("P%d", i) {
						writes = true
					}
				}
				if len(sum.Unknown) > 0 {
					writes = true
				}
				if !writes {
					continue
				}
			}
			e.taint(a, map[*seObj]bool{})
		}
		return seUnk
	}
	if depth > 12 || !e.evaluable(f, 0) {
		if os.Getenv("WUDEBUG") == "tab" {
			fmt.Fprintf(os.Stderr, "not entered: %s\n", f.Name())
		}
		return giveUp()
	}
	if os.Getenv("WUDEBUG") == "tab" {
		fmt.Fprintf(os.Stderr, "enter %s\n", f.Name())
	}
	fr := &seFrame{env: map[ssa.Value]seVal{}}
	for i, p := range f.Params {
		if i < len(args) {
			fr.env[p] = args[i]
		}
	}
	var written []*seObj
	b := f.Blocks[0]
	var prev *ssa.BasicBlock
	abort := func(why string) seVal {
		e.notes = append(e.notes, f.Name()+": "+why)
		if os.Getenv("WUDEBUG") == "tab" {
			fmt.Fprintf(os.Stderr, "gave up in %s: %s\n", f.Name(), why)
		}
		for _, o := range written {
			o.unknown = true
		}
		return giveUp()
	}
	for {
		e.steps++
		if e.steps > 3000000 {
			return abort("step limit")
		}
		if prev != nil {
			upd := map[ssa.Value]seVal{}
			for _, ins := range b.Instrs {
				p, ok := ins.(*ssa.Phi)
				if !ok {
					break
				}
				for i, pr := range b.Preds {
					if pr == prev {
						upd[p] = e.val(fr, p.Edges[i])
					}
				}
			}
			for k, v := range upd {
				fr.env[k] = v
			}
		}
		var next *ssa.BasicBlock
		for _, ins := range b.Instrs {
			switch x := ins.(type) {
			case *ssa.Phi, *ssa.DebugRef:
			case *ssa.Alloc:
				pt := x.Type().Underlying().(*types.Pointer).Elem()
				switch u := pt.Underlying().(type) {
				case *types.Struct:
					if namedOf(pt) == "BitSet" {
						o := e.newObj("bitset", 0, pt)
						fr.env[x] = seVal{k: sePtr, obj: o, idx: -1}
						break
					}
					o := e.newObj("struct", u.NumFields(), pt)
					for i := range o.vals {
						o.vals[i] = e.zero(u.Field(i).Type())
					}
					fr.env[x] = seVal{k: sePtr, obj: o, idx: -1}
				case *types.Array:
					o := e.newObj("array", int(u.Len()), pt)
					for i := range o.vals {
						o.vals[i] = e.zero(u.Elem())
					}
					fr.env[x] = seVal{k: sePtr, obj: o, idx: -1}
				default:
					o := e.newObj("cell", 1, pt)
					o.vals[0] = e.zero(pt)
					fr.env[x] = seVal{k: sePtr, obj: o, idx: 0}
				}
			case *ssa.Store:
				a := e.val(fr, x.Addr)
				if a.k != sePtr {
					return abort("store through an unknown pointer")
				}
				written = append(written, a.obj)
				e.store(a, e.val(fr, x.Val))
			case *ssa.UnOp:
				in := e.val(fr, x.X)
				switch x.Op {
				case token.MUL:
					fr.env[x] = e.load(in)
				case token.NOT:
					if in.k == seBool {
						fr.env[x] = seVal{k: seBool, b: !in.b}
					} else {
						fr.env[x] = seUnk
					}
				case token.SUB:
					if in.k == seInt {
						fr.env[x] = seVal{k: seInt, i: truncInt(-in.i, x.Type())}
					} else {
						fr.env[x] = seUnk
					}
				case token.XOR:
					if in.k == seInt {
						fr.env[x] = seVal{k: seInt, i: truncInt(^in.i, x.Type())}
					} else {
						fr.env[x] = seUnk
					}
				default:
					fr.env[x] = seUnk
				}
			case *ssa.BinOp:
				fr.env[x] = seBinop(x.Op, e.val(fr, x.X), e.val(fr, x.Y), x.Type())
			case *ssa.FieldAddr:
				p := e.val(fr, x.X)
				if p.k == sePtr && p.obj.kind == "struct" && p.idx < 0 {
					fr.env[x] = seVal{k: sePtr, obj: p.obj, idx: x.Field}
				} else {
					fr.env[x] = seUnk
				}
			case *ssa.Field:
				sv := e.val(fr, x.X)
				if sv.k == seStruct && x.Field < len(sv.fields) {
					fr.env[x] = sv.fields[x.Field]
				} else {
					fr.env[x] = seUnk
				}
			case *ssa.IndexAddr:
				base, idx := e.val(fr, x.X), e.val(fr, x.Index)
				if idx.k != seInt {
					fr.env[x] = seUnk
					break
				}
				switch {
				case base.k == seSlice && base.obj != nil:
					if idx.i < 0 || int(idx.i) >= base.hi-base.lo {
						return abort("index out of range")
					}
					fr.env[x] = seVal{k: sePtr, obj: base.obj, idx: base.lo + int(idx.i)}
				case base.k == sePtr && base.obj.kind == "array" && base.idx < 0:
					if idx.i < 0 || int(idx.i) >= len(base.obj.vals) {
						return abort("index out of range")
					}
					fr.env[x] = seVal{k: sePtr, obj: base.obj, idx: int(idx.i)}
				default:
					fr.env[x] = seUnk
				}
			case *ssa.Index:
				base, idx := e.val(fr, x.X), e.val(fr, x.Index)
				if base.k == seStr && idx.k == seInt {
					if idx.i < 0 || int(idx.i) >= len(base.s) {
						return abort("string index out of range")
					}
					fr.env[x] = seVal{k: seInt, i: int64(base.s[idx.i])}
				} else {
					fr.env[x] = seUnk
				}
			case *ssa.Lookup:
				base, idx := e.val(fr, x.X), e.val(fr, x.Index)
				switch {
				case base.k == seStr && idx.k == seInt && !x.CommaOk:
					if idx.i < 0 || int(idx.i) >= len(base.s) {
						return abort("string index out of range")
					}
					fr.env[x] = seVal{k: seInt, i: int64(base.s[idx.i])}
				case base.k == seMapV && base.obj != nil && !base.obj.unknown && idx.k == seStr:
					v, ok := base.obj.m[idx.s]
					if !ok {
						v = e.zero(x.X.Type().Underlying().(*types.Map).Elem())
					}
					if x.CommaOk {
						fr.env[x] = seVal{k: seTuple, fields: []seVal{v, {k: seBool, b: ok}}}
					} else {
						fr.env[x] = v
					}
				default:
					fr.env[x] = seUnk
				}
			case *ssa.Convert:
				in := e.val(fr, x.X)
				fr.env[x] = e.convert(in, x.X.Type(), x.Type())
			case *ssa.ChangeType:
				fr.env[x] = e.val(fr, x.X)
			case *ssa.MakeSlice:
				n, cp := e.val(fr, x.Len), e.val(fr, x.Cap)
				if n.k != seInt || cp.k != seInt || cp.i > 1<<20 || n.i > cp.i {
					fr.env[x] = seUnk
					break
				}
				el := x.Type().Underlying().(*types.Slice).Elem()
				o := e.newObj("array", int(cp.i), el)
				for i := range o.vals {
					o.vals[i] = e.zero(el)
				}
				fr.env[x] = seVal{k: seSlice, obj: o, lo: 0, hi: int(n.i)}
			case *ssa.Slice:
				in := e.val(fr, x.X)
				lo, hi := 0, -1
				if x.Low != nil {
					l := e.val(fr, x.Low)
					if l.k != seInt {
						fr.env[x] = seUnk
						break
					}
					lo = int(l.i)
				}
				if x.High != nil {
					h := e.val(fr, x.High)
					if h.k != seInt {
						fr.env[x] = seUnk
						break
					}
					hi = int(h.i)
				}
				switch {
				case in.k == seStr:
					if hi < 0 {
						hi = len(in.s)
					}
					if lo < 0 || lo > hi || hi > len(in.s) {
						return abort("slice bounds out of range")
					}
					fr.env[x] = seVal{k: seStr, s: in.s[lo:hi]}
				case in.k == seSlice:
					n := in.hi - in.lo
					if hi < 0 {
						hi = n
					}
					capn := 0
					if in.obj != nil {
						capn = len(in.obj.vals) - in.lo
					}
					if lo < 0 || lo > hi || hi > capn {
						return abort("slice bounds out of range")
					}
					fr.env[x] = seVal{k: seSlice, obj: in.obj, lo: in.lo + lo, hi: in.lo + hi}
				case in.k == sePtr && in.obj.kind == "array" && in.idx < 0:
					if hi < 0 {
						hi = len(in.obj.vals)
					}
					if lo < 0 || lo > hi || hi > len(in.obj.vals) {
						return abort("slice bounds out of range")
					}
					fr.env[x] = seVal{k: seSlice, obj: in.obj, lo: lo, hi: hi}
				default:
					fr.env[x] = seUnk
				}
			case *ssa.MakeMap:
				o := e.newObj("map", 0, x.Type())
				fr.env[x] = seVal{k: seMapV, obj: o}
			case *ssa.MapUpdate:
				m, k, v := e.val(fr, x.Map), e.val(fr, x.Key), e.val(fr, x.Value)
				if m.k != seMapV || m.obj == nil {
					return abort("update of an unknown map")
				}
				written = append(written, m.obj)
				if k.k != seStr {
					m.obj.unknown = true
					break
				}
				m.obj.m[k.s] = v
			case *ssa.Range:
				in := e.val(fr, x.X)
				if in.k != seStr {
					return abort("range over something else than a string")
				}
				o := e.newObj("cell", 1, nil)
				o.vals[0] = seVal{k: seInt}
				fr.env[x] = seVal{k: seIter, obj: o, s: in.s}
			case *ssa.Next:
				it := e.val(fr, x.Iter)
				if it.k != seIter {
					return abort("next on an unknown iterator")
				}
				pos := int(it.obj.vals[0].i)
				if pos >= len(it.s) {
					fr.env[x] = seVal{k: seTuple, fields: []seVal{{k: seBool}, {k: seInt}, {k: seInt}}}
					break
				}
				r, w := utf8.DecodeRuneInString(it.s[pos:])
				it.obj.vals[0] = seVal{k: seInt, i: int64(pos + w)}
				fr.env[x] = seVal{k: seTuple, fields: []seVal{{k: seBool, b: true}, {k: seInt, i: int64(pos)}, {k: seInt, i: int64(r)}}}
			case *ssa.Extract:
				t := e.val(fr, x.Tuple)
				if t.k == seTuple && x.Index < len(t.fields) {
					fr.env[x] = t.fields[x.Index]
				} else {
					fr.env[x] = seUnk
				}
			case *ssa.Call:
				r, ok := e.doCall(fr, x, depth, &written)
				if !ok {
					return abort("call " + x.Common().String())
				}
				fr.env[x] = r
			case *ssa.If:
				cnd := e.val(fr, x.Cond)
				if cnd.k != seBool {
					return abort("branch on an unknown value")
				}
				if cnd.b {
					next = b.Succs[0]
				} else {
					next = b.Succs[1]
				}
			case *ssa.Jump:
				next = b.Succs[0]
			case *ssa.Return:
				switch len(x.Results) {
				case 0:
					return seVal{k: seNil}
				case 1:
					return e.val(fr, x.Results[0])
				}
				var fs []seVal
				for _, r := range x.Results {
					fs = append(fs, e.val(fr, r))
				}
				return seVal{k: seTuple, fields: fs}
			default:
				return abort(fmt.Sprintf("instruction %T", ins))
			}
		}
		if next == nil {
			return abort("fell off a block")
		}
		prev, b = b, next
	}
}

func (e *seEval) convert(in seVal, from, to types.Type) seVal {
	tb, _ := to.Underlying().(*types.Basic)
	fb, _ := from.Underlying().(*types.Basic)
	switch {
	case in.k == seInt && tb != nil && tb.Info()&types.IsInteger != 0:
		return seVal{k: seInt, i: truncInt(in.i, to)}
	case in.k == seInt && tb != nil && tb.Info()&types.IsString != 0:
		return seVal{k: seStr, s: string(rune(in.i))}
	case in.k == seStr && tb != nil && tb.Info()&types.IsString != 0:
		return in
	case in.k == seStr && fb != nil:
		if sl, ok := to.Underlying().(*types.Slice); ok {
			el, _ := sl.Elem().Underlying().(*types.Basic)
			if el != nil && el.Kind() == types.Uint8 {
				o := e.newObj("array", len(in.s), sl.Elem())
				for i := 0; i < len(in.s); i++ {
					o.vals[i] = seVal{k: seInt, i: int64(in.s[i])}
				}
				return seVal{k: seSlice, obj: o, lo: 0, hi: len(in.s)}
			}
			if el != nil && el.Kind() == types.Int32 {
				rs := []rune(in.s)
				o := e.newObj("array", len(rs), sl.Elem())
				for i, r := range rs {
					o.vals[i] = seVal{k: seInt, i: int64(r)}
				}
				return seVal{k: seSlice, obj: o, lo: 0, hi: len(rs)}
			}
		}
	}
	return seUnk
}

func seBinop(op token.Token, l, r seVal, t types.Type) seVal {
	switch {
	case l.k == seInt && r.k == seInt:
		var v int64
		switch op {
		case token.ADD:
			v = l.i + r.i
		case token.SUB:
			v = l.i - r.i
		case token.MUL:
			v = l.i * r.i
		case token.QUO:
			if r.i == 0 {
				return seUnk
			}
			v = l.i / r.i
		case token.REM:
			if r.i == 0 {
				return seUnk
			}
			v = l.i % r.i
		case token.AND:
			v = l.i & r.i
		case token.OR:
			v = l.i | r.i
		case token.XOR:
			v = l.i ^ r.i
		case token.SHL:
			if r.i < 0 || r.i > 62 {
				return seUnk
			}
			v = l.i << uint(r.i)
		case token.SHR:
			if r.i < 0 || r.i > 62 {
				return seUnk
			}
			v = l.i >> uint(r.i)
		case token.AND_NOT:
			v = l.i &^ r.i
		case token.EQL:
			return seVal{k: seBool, b: l.i == r.i}
		case token.NEQ:
			return seVal{k: seBool, b: l.i != r.i}
		case token.LSS:
			return seVal{k: seBool, b: l.i < r.i}
		case token.LEQ:
			return seVal{k: seBool, b: l.i <= r.i}
		case token.GTR:
			return seVal{k: seBool, b: l.i > r.i}
		case token.GEQ:
			return seVal{k: seBool, b: l.i >= r.i}
		default:
			return seUnk
		}
		return seVal{k: seInt, i: truncInt(v, t)}
	case l.k == seBool && r.k == seBool:
		switch op {
		case token.EQL:
			return seVal{k: seBool, b: l.b == r.b}
		case token.NEQ:
			return seVal{k: seBool, b: l.b != r.b}
		case token.AND:
			return seVal{k: seBool, b: l.b && r.b}
		case token.OR:
			return seVal{k: seBool, b: l.b || r.b}
		}
	case l.k == seStr && r.k == seStr:
		switch op {
		case token.ADD:
			return seVal{k: seStr, s: l.s + r.s}
		case token.EQL:
			return seVal{k: seBool, b: l.s == r.s}
		case token.NEQ:
			return seVal{k: seBool, b: l.s != r.s}
		case token.LSS:
			return seVal{k: seBool, b: l.s < r.s}
		}
	case (l.k == seNil || l.k == sePtr || l.k == seMapV) && (r.k == seNil || r.k == sePtr || r.k == seMapV) && (l.k == seNil || r.k == seNil):
		eq := l.k == seNil && r.k == seNil
		switch op {
		case token.EQL:
			return seVal{k: seBool, b: eq}
		case token.NEQ:
			return seVal{k: seBool, b: !eq}
		}
	}
	return seUnk
}

func (e *seEval) doCall(fr *seFrame, call *ssa.Call, depth int, written *[]*seObj) (seVal, bool) {
	com := call.Common()
	var args []seVal
	for _, a := range com.Args {
		args = append(args, e.val(fr, a))
	}
	if bi, ok := com.Value.(*ssa.Builtin); ok {
		switch bi.Name() {
		case "len", "cap":
			a := args[0]
			switch a.k {
			case seStr:
				return seVal{k: seInt, i: int64(len(a.s))}, true
			case seSlice:
				if bi.Name() == "cap" && a.obj != nil {
					return seVal{k: seInt, i: int64(len(a.obj.vals) - a.lo)}, true
				}
				return seVal{k: seInt, i: int64(a.hi - a.lo)}, true
			case seMapV:
				if a.obj != nil && !a.obj.unknown {
					return seVal{k: seInt, i: int64(len(a.obj.m))}, true
				}
			}
			return seUnk, true
		case "append":
			dst, src := args[0], args[1]
			var add []seVal
			switch src.k {
			case seSlice:
				if src.obj != nil {
					if src.obj.unknown {
						return seUnk, true
					}
					add = append(add, src.obj.vals[src.lo:src.hi]...)
				}
			case seStr:
				for i := 0; i < len(src.s); i++ {
					add = append(add, seVal{k: seInt, i: int64(src.s[i])})
				}
			default:
				return seUnk, true
			}
			if dst.k != seSlice {
				return seUnk, true
			}
			var cur []seVal
			if dst.obj != nil {
				if dst.obj.unknown {
					return seUnk, true
				}
				cur = dst.obj.vals[dst.lo:dst.hi]
			}
			// in place when the capacity allows (aliasing as in Go), else a new backing array
			if dst.obj != nil && dst.hi+len(add) <= len(dst.obj.vals) {
				copy(dst.obj.vals[dst.hi:], add)
				*written = append(*written, dst.obj)
				return seVal{k: seSlice, obj: dst.obj, lo: dst.lo, hi: dst.hi + len(add)}, true
			}
			o := e.newObj("array", len(cur)+len(add), nil)
			copy(o.vals, cur)
			copy(o.vals[len(cur):], add)
			return seVal{k: seSlice, obj: o, lo: 0, hi: len(o.vals)}, true
		case "copy":
			dst, src := args[0], args[1]
			if dst.k != seSlice || dst.obj == nil {
				return seUnk, true
			}
			var from []seVal
			switch src.k {
			case seSlice:
				if src.obj != nil {
					from = append(from, src.obj.vals[src.lo:src.hi]...)
				}
			case seStr:
				for i := 0; i < len(src.s); i++ {
					from = append(from, seVal{k: seInt, i: int64(src.s[i])})
				}
			default:
				dst.obj.unknown = true
				return seUnk, true
			}
			n := copy(dst.obj.vals[dst.lo:dst.hi], from)
			*written = append(*written, dst.obj)
			return seVal{k: seInt, i: int64(n)}, true
		}
		return seUnk, false
	}
	cl := com.StaticCallee()
	if cl == nil {
		return seUnk, false
	}
	if isBitsetFn(cl) {
		switch cl.Name() {
		case "New":
			o := e.newObj("bitset", 0, nil)
			return seVal{k: sePtr, obj: o, idx: -1}, true
		case "Set", "Clear", "SetTo":
			b := args[0]
			if b.k != sePtr || b.obj == nil || b.obj.kind != "bitset" {
				return seUnk, true
			}
			*written = append(*written, b.obj)
			if args[1].k != seInt {
				if os.Getenv("WUDEBUG") == "tab" {
					fmt.Fprintf(os.Stderr, "Set with non-int arg kind=%d in %s: %s\n", args[1].k, call.Parent().Name(), call.String())
				}
				b.obj.unknown = true
				return b, true
			}
			on := cl.Name() == "Set"
			if cl.Name() == "SetTo" {
				if args[2].k != seBool {
					b.obj.unknown = true
					return b, true
				}
				on = args[2].b
			}
			if on {
				b.obj.bits[args[1].i] = true
			} else {
				delete(b.obj.bits, args[1].i)
			}
			return b, true
		case "Test":
			b := args[0]
			if b.k != sePtr || b.obj == nil || b.obj.kind != "bitset" || b.obj.unknown || args[1].k != seInt {
				return seUnk, true
			}
			return seVal{k: seBool, b: b.obj.bits[args[1].i]}, true
		case "InPlaceUnion", "InPlaceDifference", "InPlaceIntersection", "Union", "Difference", "Intersection":
			a, o := args[0], args[1]
			if a.k != sePtr || a.obj == nil || a.obj.kind != "bitset" {
				return seUnk, true
			}
			inPlace := strings.HasPrefix(cl.Name(), "InPlace")
			if o.k != sePtr || o.obj == nil || o.obj.kind != "bitset" || o.obj.unknown || a.obj.unknown {
				if inPlace {
					a.obj.unknown = true
					return seVal{k: seNil}, true
				}
				return seUnk, true
			}
			res := map[int64]bool{}
			switch strings.TrimPrefix(cl.Name(), "InPlace") {
			case "Union":
				for k := range a.obj.bits {
					res[k] = true
				}
				for k := range o.obj.bits {
					res[k] = true
				}
			case "Difference":
				for k := range a.obj.bits {
					if !o.obj.bits[k] {
						res[k] = true
					}
				}
			case "Intersection":
				for k := range a.obj.bits {
					if o.obj.bits[k] {
						res[k] = true
					}
				}
			}
			if inPlace {
				*written = append(*written, a.obj)
				a.obj.bits = res
				return seVal{k: seNil}, true
			}
			n := e.newObj("bitset", 0, nil)
			n.bits = res
			return seVal{k: sePtr, obj: n, idx: -1}, true
		case "Clone":
			b := args[0]
			if b.k != sePtr || b.obj == nil || b.obj.kind != "bitset" {
				return seUnk, true
			}
			o := e.newObj("bitset", 0, nil)
			o.unknown = b.obj.unknown
			for k := range b.obj.bits {
				o.bits[k] = true
			}
			return seVal{k: sePtr, obj: o, idx: -1}, true
		}
	}
	if !e.c.P.InModule(cl) && !inModPkg(cl.Pkg) {
		for _, a := range args {
			e.taint(a, map[*seObj]bool{})
		}
		return seUnk, true
	}
	return e.call(cl, args, depth+1), true
}

// seTables folds the initialisers of the module's packages and returns what the table globals hold.
func seTables(c *Ctx) map[types.Object]interface{} {
	return c.Memo("seTables", func() interface{} {
		out := map[types.Object]interface{}{}
		e := &seEval{c: c, globals: map[*ssa.Global]*seObj{}, okFn: map[*ssa.Function]int{}}
		for _, name := range []string{"errors", "url", "canonicalizer"} {
			sp := c.P.SSAPkg[name]
			if sp == nil {
				continue
			}
			initf := sp.Func("init")
			if initf == nil {
				continue
			}
			e.runInit(initf)
		}
		for g, o := range e.globals {
			if g.Pkg == nil || !inModPkg(g.Pkg) || g.Object() == nil {
				continue
			}
			if o.kind == "array" {
				// an array of integers: kept by variable for the rules that fold expressions over it
				if !o.unknown {
					var xs []int64
					ok := true
					for _, v := range o.vals {
						if v.k != seInt {
							ok = false
						}
						xs = append(xs, v.i)
					}
					if ok {
						seIntArrays(c)[g.String()] = xs
					}
				}
				continue
			}
			if o.kind == "struct" {
				// not a table itself; the tables its fields hold are kept by (variable, field)
				if st, ok := g.Type().Underlying().(*types.Pointer).Elem().Underlying().(*types.Struct); ok && !o.unknown {
					for i := 0; i < st.NumFields() && i < len(o.vals); i++ {
						ft := st.Field(i).Type()
						if pt, isP := ft.Underlying().(*types.Pointer); isP {
							ft = pt.Elem()
						}
						if tv := e.toTable(o.vals[i], ft); tv != nil {
							seFieldTabs(c)[fmt.Sprintf("%s.%d", g.String(), i)] = tv
						}
					}
				}
				continue
			}
			v := o.vals[0]
			if o.unknown {
				v = seUnk
			}
			if os.Getenv("WUDEBUG") == "tab" {
				u := false
				if v.obj != nil {
					u = v.obj.unknown
				}
				fmt.Fprintf(os.Stderr, "GLOBAL %s kind=%d objunknown=%v cellunknown=%v\n", g.Name(), v.k, u, o.unknown)
			}
			if tv := e.toTable(v, g.Type().Underlying().(*types.Pointer).Elem()); tv != nil {
				out[g.Object()] = tv
			}
		}
		return out
	}).(map[types.Object]interface{})
}

// runInit walks the synthetic initialiser: initialisers of other packages are skipped, everything else is folded.
func (e *seEval) runInit(f *ssa.Function) {
	fr := &seFrame{env: map[ssa.Value]seVal{}}
	var written []*seObj
	for _, b := range f.Blocks {
		// init: the guard block, the body, the return - a straight line of blocks in order
		for _, ins := range b.Instrs {
			switch x := ins.(type) {
			case *ssa.Call:
				cl := x.Common().StaticCallee()
				if cl != nil && cl.Name() == "init" && cl.Pkg != nil && cl.Pkg != f.Pkg {
					continue // another package's initialiser
				}
				r, ok := e.doCall(fr, x, 0, &written)
				if !ok {
					r = seUnk
					for _, a := range x.Common().Args {
						e.taint(e.val(fr, a), map[*seObj]bool{})
					}
				}
				fr.env[x] = r
			case *ssa.Store:
				a := e.val(fr, x.Addr)
				if a.k == sePtr {
					e.store(a, e.val(fr, x.Val))
				}
			case *ssa.UnOp:
				if x.Op == token.MUL {
					fr.env[x] = e.load(e.val(fr, x.X))
				} else {
					fr.env[x] = seUnk
				}
			case *ssa.If, *ssa.Jump, *ssa.Return:
			case *ssa.Alloc, *ssa.BinOp, *ssa.FieldAddr, *ssa.IndexAddr, *ssa.Slice, *ssa.MakeMap, *ssa.MapUpdate, *ssa.MakeSlice, *ssa.Convert, *ssa.ChangeType, *ssa.Extract, *ssa.Lookup:
				// the same transfer functions as inside a function: run the single instruction
				e.stepInit(fr, ins, &written)
			default:
				if v, ok := ins.(ssa.Value); ok {
					fr.env[v] = seUnk
				}
			}
		}
	}
}

// stepInit executes one straight-line instruction of the initialiser by wrapping it in a one-instruction run.
func (e *seEval) stepInit(fr *seFrame, ins ssa.Instruction, written *[]*seObj) {
	switch x := ins.(type) {
	case *ssa.Alloc:
		pt := x.Type().Underlying().(*types.Pointer).Elem()
		switch u := pt.Underlying().(type) {
		case *types.Struct:
			if namedOf(pt) == "BitSet" {
				fr.env[x] = seVal{k: sePtr, obj: e.newObj("bitset", 0, pt), idx: -1}
				return
			}
			o := e.newObj("struct", u.NumFields(), pt)
			for i := range o.vals {
				o.vals[i] = e.zero(u.Field(i).Type())
			}
			fr.env[x] = seVal{k: sePtr, obj: o, idx: -1}
		case *types.Array:
			o := e.newObj("array", int(u.Len()), pt)
			for i := range o.vals {
				o.vals[i] = e.zero(u.Elem())
			}
			fr.env[x] = seVal{k: sePtr, obj: o, idx: -1}
		default:
			o := e.newObj("cell", 1, pt)
			o.vals[0] = e.zero(pt)
			fr.env[x] = seVal{k: sePtr, obj: o, idx: 0}
		}
	case *ssa.BinOp:
		fr.env[x] = seBinop(x.Op, e.val(fr, x.X), e.val(fr, x.Y), x.Type())
	case *ssa.FieldAddr:
		p := e.val(fr, x.X)
		if p.k == sePtr && p.obj.kind == "struct" && p.idx < 0 {
			fr.env[x] = seVal{k: sePtr, obj: p.obj, idx: x.Field}
		} else {
			fr.env[x] = seUnk
		}
	case *ssa.IndexAddr:
		base, idx := e.val(fr, x.X), e.val(fr, x.Index)
		switch {
		case idx.k != seInt:
			fr.env[x] = seUnk
		case base.k == seSlice && base.obj != nil && idx.i >= 0 && int(idx.i) < base.hi-base.lo:
			fr.env[x] = seVal{k: sePtr, obj: base.obj, idx: base.lo + int(idx.i)}
		case base.k == sePtr && base.obj.kind == "array" && base.idx < 0 && idx.i >= 0 && int(idx.i) < len(base.obj.vals):
			fr.env[x] = seVal{k: sePtr, obj: base.obj, idx: int(idx.i)}
		default:
			fr.env[x] = seUnk
		}
	case *ssa.Slice:
		in := e.val(fr, x.X)
		if in.k == sePtr && in.obj.kind == "array" && in.idx < 0 && x.Low == nil && x.High == nil {
			fr.env[x] = seVal{k: seSlice, obj: in.obj, lo: 0, hi: len(in.obj.vals)}
		} else if in.k == seSlice && x.Low == nil && x.High == nil {
			fr.env[x] = in
		} else {
			fr.env[x] = seUnk
		}
	case *ssa.MakeMap:
		fr.env[x] = seVal{k: seMapV, obj: e.newObj("map", 0, x.Type())}
	case *ssa.MapUpdate:
		m, k, v := e.val(fr, x.Map), e.val(fr, x.Key), e.val(fr, x.Value)
		if m.k == seMapV && m.obj != nil {
			if k.k == seStr {
				m.obj.m[k.s] = v
			} else {
				m.obj.unknown = true
			}
		}
	case *ssa.MakeSlice:
		fr.env[x] = seUnk
	case *ssa.Convert:
		fr.env[x] = e.convert(e.val(fr, x.X), x.X.Type(), x.Type())
	case *ssa.ChangeType:
		fr.env[x] = e.val(fr, x.X)
	case *ssa.Extract:
		t := e.val(fr, x.Tuple)
		if t.k == seTuple && x.Index < len(t.fields) {
			fr.env[x] = t.fields[x.Index]
		} else {
			fr.env[x] = seUnk
		}
	case *ssa.Lookup:
		fr.env[x] = seUnk
	}
}

// toTable converts a folded value into the table values the TAB rules read.
func (e *seEval) toTable(v seVal, t types.Type) interface{} {
	switch {
	case namedOf(t) == "BitSet":
		if v.k == sePtr && v.obj != nil && v.obj.kind == "bitset" && !v.obj.unknown {
			b := &tvBitset{bits: map[int64]bool{}}
			for k := range v.obj.bits {
				b.bits[k] = true
			}
			return b
		}
	case namedOf(t) == "PercentEncodeSet":
		if v.k == sePtr && v.obj != nil && v.obj.kind == "struct" && !v.obj.unknown {
			st, ok := v.obj.t.Underlying().(*types.Struct)
			if !ok {
				return nil
			}
			p := &tvPES{allBelow: -1}
			for i := 0; i < st.NumFields(); i++ {
				fv := v.obj.vals[i]
				switch {
				case fv.k == seInt:
					p.allBelow = fv.i
				case fv.k == sePtr && fv.obj != nil && fv.obj.kind == "bitset" && !fv.obj.unknown:
					p.bs = &tvBitset{bits: map[int64]bool{}}
					for k := range fv.obj.bits {
						p.bs.bits[k] = true
					}
				}
			}
			if p.allBelow >= 0 && p.bs != nil && st.NumFields() == 2 {
				return p
			}
		}
	default:
		if _, isMap := t.Underlying().(*types.Map); isMap && v.k == seMapV && v.obj != nil && !v.obj.unknown {
			m := tvMap{}
			for k, x := range v.obj.m {
				if x.k != seStr {
					return nil
				}
				m[k] = x.s
			}
			return m
		}
	}
	return nil
}

// ---- membership predicates on the SSA form ----

// predDenotationSSA computes {x : f(recv, x) is true} for a method of PercentEncodeSet with one rune / byte parameter
// by pushing the set of still possible argument values through the CFG: a comparison of the argument with a constant
// or with a field of the receiver splits the set, a bit-set test of the receiver's set intersects it, a call of a
// sibling method on the same argument is its denotation. The form of the code (if chains, switches, boolean
// expressions kept as values) does not matter. Anything else: error.
func predDenotationSSA(c *Ctx, f *ssa.Function, p *tvPES, depth int) (iset, error) {
	if f == nil || len(f.Blocks) == 0 || len(f.Params) != 2 || depth > 3 {
		return nil, fmt.Errorf("predicate not analysable on SSA")
	}
	recv, param := f.Params[0], f.Params[1]
	domMax := int64(maxCP)
	if b, ok := param.Type().Underlying().(*types.Basic); ok && b.Kind() == types.Uint8 {
		domMax = 255
	}
	bits := func() iset {
		var pts []int64
		for k := range p.bs.bits {
			pts = append(pts, k)
		}
		return isetPoints(pts...)
	}()
	// isArg: v is the argument, possibly converted between integer types that hold the domain
	var isArg func(v ssa.Value) bool
	isArg = func(v ssa.Value) bool {
		if v == ssa.Value(param) {
			return true
		}
		if cv, ok := v.(*ssa.Convert); ok {
			if b, ok := cv.Type().Underlying().(*types.Basic); ok && b.Info()&types.IsInteger != 0 {
				switch b.Kind() {
				case types.Uint8, types.Int8, types.Int16, types.Uint16:
					if domMax > 255 {
						return false // would truncate
					}
				}
				return isArg(cv.X)
			}
		}
		return false
	}
	num := func(v ssa.Value) (int64, bool) {
		if k, ok := constInt(v); ok {
			return k, true
		}
		for {
			cv, ok := v.(*ssa.Convert)
			if !ok {
				break
			}
			v = cv.X
		}
		if ld, ok := v.(*ssa.UnOp); ok && ld.Op == token.MUL {
			if fa, ok := ld.X.(*ssa.FieldAddr); ok && fa.X == ssa.Value(recv) {
				if b, ok := ld.Type().Underlying().(*types.Basic); ok && b.Info()&types.IsInteger != 0 {
					return p.allBelow, true
				}
			}
		}
		return 0, false
	}
	isRecvBits := func(v ssa.Value) bool {
		ld, ok := v.(*ssa.UnOp)
		if !ok || ld.Op != token.MUL {
			return false
		}
		fa, ok := ld.X.(*ssa.FieldAddr)
		return ok && fa.X == ssa.Value(recv) && namedOf(ld.Type()) == "BitSet"
	}
	// trueSet: the subset of cur for which the boolean v is true (prev / blk resolve merges)
	var trueSet func(v ssa.Value, cur iset, prev, blk *ssa.BasicBlock, d int) (iset, error)
	trueSet = func(v ssa.Value, cur iset, prev, blk *ssa.BasicBlock, d int) (iset, error) {
		if d > 10 {
			return nil, fmt.Errorf("condition too deep")
		}
		switch x := v.(type) {
		case *ssa.Const:
			if b, ok := constBool(x); ok {
				if b {
					return cur, nil
				}
				return nil, nil
			}
		case *ssa.UnOp:
			if x.Op == token.NOT {
				t, err := trueSet(x.X, cur, prev, blk, d+1)
				if err != nil {
					return nil, err
				}
				return cur.minus(t), nil
			}
		case *ssa.BinOp:
			l, r, op := x.X, x.Y, x.Op
			if !isArg(l) {
				l, r = r, l
				op = mirror(op)
			}
			if isArg(l) {
				if k, ok := num(r); ok {
					var s iset
					switch op {
					case token.LSS:
						s = isetRange(0, k-1)
					case token.LEQ:
						s = isetRange(0, k)
					case token.GTR:
						s = isetRange(k+1, maxCP)
					case token.GEQ:
						s = isetRange(k, maxCP)
					case token.EQL:
						s = isetPoints(k)
					case token.NEQ:
						s = isetPoints(k).complement(maxCP)
					default:
						return nil, fmt.Errorf("operator %s on the argument", op)
					}
					return cur.intersect(s), nil
				}
			}
			return nil, fmt.Errorf("comparison %s not on the argument and a constant", x.String())
		case *ssa.Phi:
			if x.Block() == blk && prev != nil {
				for i, pb := range blk.Preds {
					if pb == prev {
						return trueSet(x.Edges[i], cur, nil, nil, d+1)
					}
				}
			}
			return nil, fmt.Errorf("merged boolean outside its block")
		case *ssa.Call:
			com := x.Common()
			cl := com.StaticCallee()
			if cl == nil {
				return nil, fmt.Errorf("dynamic call in predicate")
			}
			if cl.Name() == "Test" && len(com.Args) == 2 && isRecvBits(com.Args[0]) && isArg(com.Args[1]) {
				return cur.intersect(bits), nil
			}
			if c.P.InModule(cl) && len(com.Args) == 2 && com.Args[0] == ssa.Value(recv) && isArg(com.Args[1]) && namedOf(recvType(cl)) == "PercentEncodeSet" {
				t, err := predDenotationSSA(c, cl, p, depth+1)
				if err != nil {
					return nil, err
				}
				return cur.intersect(t), nil
			}
			return nil, fmt.Errorf("call of %s in predicate", cl.Name())
		}
		return nil, fmt.Errorf("condition %s not understood", v.String())
	}
	result := iset(nil)
	type item struct {
		b, prev *ssa.BasicBlock
		cur     iset
	}
	work := []item{{f.Blocks[0], nil, isetRange(0, domMax)}}
	steps := 0
	for len(work) > 0 {
		it := work[len(work)-1]
		work = work[:len(work)-1]
		steps++
		if steps > 500 {
			return nil, fmt.Errorf("predicate has too many paths (a loop?)")
		}
		if len(it.cur) == 0 {
			continue
		}
		// only condition computations may stand in the blocks
		for _, ins := range it.b.Instrs {
			switch x := ins.(type) {
			case *ssa.Phi, *ssa.DebugRef, *ssa.BinOp, *ssa.UnOp, *ssa.Convert, *ssa.FieldAddr, *ssa.If, *ssa.Jump, *ssa.Return:
			case *ssa.Call:
				_ = x // judged where its value is used
			default:
				return nil, fmt.Errorf("instruction %T in predicate", ins)
			}
		}
		switch t := it.b.Instrs[len(it.b.Instrs)-1].(type) {
		case *ssa.If:
			ts, err := trueSet(t.Cond, it.cur, it.prev, it.b, 0)
			if err != nil {
				return nil, err
			}
			work = append(work, item{it.b.Succs[0], it.b, ts}, item{it.b.Succs[1], it.b, it.cur.minus(ts)})
		case *ssa.Jump:
			work = append(work, item{it.b.Succs[0], it.b, it.cur})
		case *ssa.Return:
			if len(t.Results) != 1 {
				return nil, fmt.Errorf("predicate returns %d values", len(t.Results))
			}
			ts, err := trueSet(t.Results[0], it.cur, it.prev, it.b, 0)
			if err != nil {
				return nil, err
			}
			result = result.union(ts)
		default:
			return nil, fmt.Errorf("terminator %T in predicate", t)
		}
	}
	return result.clip(domMax), nil
}

// seFieldTabs: tables held in fields of struct-typed package variables, keyed "<global>.<field index>" (filled by
// seTables).
func seFieldTabs(c *Ctx) map[string]interface{} {
	return c.Memo("seFieldTabs", func() interface{} { return map[string]interface{}{} }).(map[string]interface{})
}

// curCtx: the analysis context of the rule that is running (set by the rule runner), for helpers without a context
// parameter.
var curCtx *Ctx

// digitTableByContent: a table read from a field of a struct-typed package variable is named after the digit table
// of the same content ({0-9}, {0-7}, hex digits), if it is one.
func digitTableByContent(v ssa.Value) (string, bool) {
	if curCtx == nil {
		return "", false
	}
	ld, ok := v.(*ssa.UnOp)
	if !ok || ld.Op != token.MUL {
		return "", false
	}
	fa, ok := ld.X.(*ssa.FieldAddr)
	if !ok {
		return "", false
	}
	g, ok := fa.X.(*ssa.Global)
	if !ok {
		return "", false
	}
	seTables(curCtx)
	tv, ok := seFieldTabs(curCtx)[fmt.Sprintf("%s.%d", g.String(), fa.Field)].(*tvBitset)
	if !ok {
		return "", false
	}
	got := tv.iset()
	hex := isetRange('0', '9').union(isetRange('A', 'F')).union(isetRange('a', 'f'))
	switch {
	case got.equal(isetRange('0', '9')):
		return "ASCIIDigit", true
	case got.equal(isetRange('0', '7')):
		return "asciiOctalDigit", true
	case got.equal(hex):
		return "ASCIIHexDigit", true
	}
	return "", false
}

// seIntArrays: package-level arrays of integers as the SSA fold of the initialisers left them, keyed by the global's
// name (filled by seTables).
func seIntArrays(c *Ctx) map[string][]int64 {
	return c.Memo("seIntArrays", func() interface{} { return map[string][]int64{} }).(map[string][]int64)
}
