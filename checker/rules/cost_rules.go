package rules

// COST engine: absence of the two super-linear mechanisms the C20 anchors name (DESIGN §3.8).

import (
	"fmt"
	"go/token"
	"go/types"
	"sort"
	"strings"

	"golang.org/x/tools/go/ssa"

	"wucheck/core"
)

type ssaLoop struct {
	Header       *ssa.BasicBlock
	Blocks       map[*ssa.BasicBlock]bool
	ConstBounded bool
	BoundFacts   string
}

// loopsOf finds the natural loops of a function (back edges to a dominating header; loops sharing a header are merged).
func loopsOf(f *ssa.Function) []*ssaLoop {
	byHeader := map[*ssa.BasicBlock]*ssaLoop{}
	var order []*ssa.BasicBlock
	for _, b := range f.Blocks {
		for _, succ := range b.Succs {
			if succ.Dominates(b) {
				l := byHeader[succ]
				if l == nil {
					l = &ssaLoop{Header: succ, Blocks: map[*ssa.BasicBlock]bool{succ: true}}
					byHeader[succ] = l
					order = append(order, succ)
				}
				// blocks that reach b without passing the header
				work := []*ssa.BasicBlock{b}
				for len(work) > 0 {
					x := work[len(work)-1]
					work = work[:len(work)-1]
					if l.Blocks[x] {
						continue
					}
					l.Blocks[x] = true
					work = append(work, x.Preds...)
				}
			}
		}
	}
	var out []*ssaLoop
	for _, h := range order {
		l := byHeader[h]
		l.ConstBounded, l.BoundFacts = constBounded(l)
		out = append(out, l)
	}
	return out
}

func stripConv(v ssa.Value) ssa.Value {
	for {
		switch x := v.(type) {
		case *ssa.Convert:
			v = x.X
		case *ssa.ChangeType:
			v = x.X
		default:
			return v
		}
	}
}

// constBounded: some exit test of the loop compares a header phi that moves by a constant step with a constant.
func constBounded(l *ssaLoop) (bool, string) {
	for b := range l.Blocks {
		iff, ok := b.Instrs[len(b.Instrs)-1].(*ssa.If)
		if !ok {
			continue
		}
		exits := !l.Blocks[b.Succs[0]] || !l.Blocks[b.Succs[1]]
		if !exits {
			continue
		}
		bo, ok := iff.Cond.(*ssa.BinOp)
		if !ok {
			continue
		}
		switch bo.Op {
		case token.LSS, token.LEQ, token.GTR, token.GEQ, token.NEQ:
		default:
			continue
		}
		for _, pr := range [][2]ssa.Value{{bo.X, bo.Y}, {bo.Y, bo.X}} {
			phi, isPhi := stripConv(pr[0]).(*ssa.Phi)
			k, isK := pr[1].(*ssa.Const)
			if !isPhi || !isK || phi.Block() != l.Header {
				continue
			}
			// every in-loop edge value is phi ± const
			ok := true
			for i, e := range phi.Edges {
				if !l.Blocks[l.Header.Preds[i]] {
					if _, isC := e.(*ssa.Const); !isC {
						ok = false
					}
					continue
				}
				step, isBin := e.(*ssa.BinOp)
				if !isBin || (step.Op != token.ADD && step.Op != token.SUB) || stripConv(step.X) != ssa.Value(phi) {
					ok = false
					continue
				}
				if _, isC := step.Y.(*ssa.Const); !isC {
					ok = false
				}
			}
			if ok {
				return true, "counted loop with constant start, step and bound " + k.Value.String()
			}
		}
	}
	// range over a fixed-size array
	for _, ins := range l.Header.Instrs {
		if phi, ok := ins.(*ssa.Phi); ok {
			_ = phi
		}
	}
	return false, ""
}

func inLoops(loops []*ssaLoop, b *ssa.BasicBlock) []*ssaLoop {
	var out []*ssaLoop
	for _, l := range loops {
		if l.Blocks[b] {
			out = append(out, l)
		}
	}
	return out
}

func unboundedLoop(ls []*ssaLoop) *ssaLoop {
	for _, l := range ls {
		if !l.ConstBounded {
			return l
		}
	}
	return nil
}

func isStringy(t types.Type) bool {
	switch u := t.Underlying().(type) {
	case *types.Basic:
		return u.Info()&types.IsString != 0
	case *types.Slice:
		if b, ok := u.Elem().Underlying().(*types.Basic); ok {
			return b.Kind() == types.Byte || b.Kind() == types.Rune || b.Kind() == types.Uint8 || b.Kind() == types.Int32
		}
	}
	return false
}

// linearConvert tells whether a conversion copies a string / byte / rune sequence (cost proportional to its length).
func linearConvert(x *ssa.Convert) bool {
	return isStringy(x.Type()) && isStringy(x.X.Type())
}

func openEndedSlice(v ssa.Value) (*ssa.Slice, bool) {
	sl, ok := v.(*ssa.Slice)
	if !ok || sl.High != nil {
		return nil, false
	}
	if p, ok := sl.X.Type().Underlying().(*types.Pointer); ok {
		if _, isArr := p.Elem().Underlying().(*types.Array); isArr {
			return nil, false // fixed-size array
		}
	}
	return sl, true
}

// linearHelpers: methods of the cursor type whose cost is proportional to the (remaining) input:
// they copy an open-ended slice of the cursor's buffers, or loop up to the cursor position / length.
func linearHelpers(c *Ctx) map[*ssa.Function]string {
	return c.Memo("linearHelpers", func() interface{} {
		out := map[*ssa.Function]string{}
		for _, f := range c.P.ModFns {
			if namedOf(recvType(f)) != "inputString" {
				continue
			}
			loops := loopsOf(f)
			for _, b := range f.Blocks {
				for _, ins := range b.Instrs {
					if cv, ok := ins.(*ssa.Convert); ok && linearConvert(cv) {
						if _, open := openEndedSlice(cv.X); open {
							out[f] = "copies an open-ended slice of the input"
						} else if _, isLoad := cv.X.(*ssa.UnOp); isLoad {
							out[f] = "copies a whole input buffer"
						}
					}
				}
			}
			for _, l := range loops {
				if !l.ConstBounded {
					out[f] = "loops over the input"
				}
			}
		}
		// methods of the URL's own collections whose cost is proportional to a component that grows with the input
		// (serialising the path, the parameter list, the whole URL), and what calls them
		for _, f := range c.P.ModFns {
			switch namedOf(recvType(f)) {
			case "path", "Url", "SearchParams":
			default:
				continue
			}
			if f.Parent() != nil {
				continue
			}
			for _, l := range loopsOf(f) {
				if !l.ConstBounded && loopWalksReceiverField(f, l) {
					out[f] = "walks a URL component whose size grows with the input"
				}
			}
			if copiesReceiverField(f) {
				out[f] = "copies a URL component whose size grows with the input"
			}
		}
		for round := 0; round < 3; round++ {
			for _, f := range c.P.ModFns {
				if _, done := out[f]; done || f.Parent() != nil {
					continue
				}
				switch namedOf(recvType(f)) {
				case "path", "Url", "SearchParams":
				default:
					continue
				}
				for _, b := range f.Blocks {
					for _, ins := range b.Instrs {
						if call, ok := ins.(*ssa.Call); ok {
							if cl := call.Common().StaticCallee(); cl != nil {
								if why, lin := out[cl]; lin && namedOf(recvType(cl)) != "inputString" {
									out[f] = "calls " + cl.Name() + ", which " + why
								}
							}
						}
					}
				}
			}
		}
		return out
	}).(map[*ssa.Function]string)
}

// copiesReceiverField: the function copies (a reslice of) a slice held in a field of its receiver with the builtins
// append(dst, field...) / copy(dst, field), or joins it — work proportional to the component's size.
func copiesReceiverField(f *ssa.Function) bool {
	if len(f.Params) == 0 {
		return false
	}
	recv := ssa.Value(f.Params[0])
	var fromRecv func(v ssa.Value, depth int) bool
	fromRecv = func(v ssa.Value, depth int) bool {
		if depth > 3 {
			return false
		}
		switch x := v.(type) {
		case *ssa.Slice:
			return fromRecv(x.X, depth+1)
		case *ssa.UnOp:
			if x.Op != token.MUL {
				return false
			}
			fa, ok := x.X.(*ssa.FieldAddr)
			if !ok || fa.X != recv {
				return false
			}
			_, isSlice := x.Type().Underlying().(*types.Slice)
			return isSlice
		}
		return false
	}
	for _, b := range f.Blocks {
		for _, ins := range b.Instrs {
			call, ok := ins.(*ssa.Call)
			if !ok {
				continue
			}
			if bi, ok := call.Common().Value.(*ssa.Builtin); ok {
				switch bi.Name() {
				case "append":
					// append(dst, field...) where dst is not the field itself growing by a fresh element
					if len(call.Common().Args) == 2 && fromRecv(call.Common().Args[1], 0) {
						return true
					}
				case "copy":
					if len(call.Common().Args) == 2 && fromRecv(call.Common().Args[1], 0) {
						return true
					}
				}
				continue
			}
			if cl := call.Common().StaticCallee(); cl != nil && cl.String() == "strings.Join" && fromRecv(call.Common().Args[0], 0) {
				return true
			}
		}
	}
	return false
}

// loopWalksReceiverField: the loop indexes (or takes the length of) a slice loaded from a field of the receiver.
func loopWalksReceiverField(f *ssa.Function, l *ssaLoop) bool {
	if len(f.Params) == 0 {
		return false
	}
	recv := ssa.Value(f.Params[0])
	fromRecv := func(v ssa.Value) bool {
		ld, ok := v.(*ssa.UnOp)
		if !ok || ld.Op != token.MUL {
			return false
		}
		fa, ok := ld.X.(*ssa.FieldAddr)
		if !ok {
			return false
		}
		if _, isSlice := ld.Type().Underlying().(*types.Slice); !isSlice {
			return false
		}
		return fa.X == recv
	}
	for b := range l.Blocks {
		for _, ins := range b.Instrs {
			switch x := ins.(type) {
			case *ssa.IndexAddr:
				if fromRecv(x.X) {
					return true
				}
			case *ssa.Call:
				if bi, ok := x.Common().Value.(*ssa.Builtin); ok && bi.Name() == "len" && fromRecv(x.Common().Args[0]) {
					return true
				}
			}
		}
	}
	return false
}

func sameLocation(a, b ssa.Value) bool {
	if a == b {
		return true
	}
	fa, ok1 := a.(*ssa.FieldAddr)
	fb, ok2 := b.(*ssa.FieldAddr)
	if ok1 && ok2 && fa.Field == fb.Field {
		return fa.X == fb.X || sameLoad(fa.X, fb.X)
	}
	return false
}

func sameLoad(a, b ssa.Value) bool {
	ua, ok1 := a.(*ssa.UnOp)
	ub, ok2 := b.(*ssa.UnOp)
	return ok1 && ok2 && ua.Op == token.MUL && ub.Op == token.MUL && sameLocation(ua.X, ub.X)
}

// accumulation describes a string concatenation that feeds itself.
type accumulation struct {
	Op    *ssa.BinOp
	LHS   string
	Field bool
}

func findAccumulations(f *ssa.Function) []accumulation {
	var out []accumulation
	for _, b := range f.Blocks {
		for _, ins := range b.Instrs {
			bo, ok := ins.(*ssa.BinOp)
			if !ok || bo.Op != token.ADD || !isStringy(bo.Type()) {
				continue
			}
			// collect the leaves of the concatenation tree
			var leaves []ssa.Value
			var rec func(v ssa.Value)
			rec = func(v ssa.Value) {
				if x, ok := v.(*ssa.BinOp); ok && x.Op == token.ADD && isStringy(x.Type()) {
					rec(x.X)
					rec(x.Y)
					return
				}
				leaves = append(leaves, v)
			}
			rec(bo.X)
			rec(bo.Y)
			// is the result of this concatenation the final one (not an inner node)?
			inner := false
			for _, r := range *bo.Referrers() {
				if x, ok := r.(*ssa.BinOp); ok && x.Op == token.ADD && isStringy(x.Type()) {
					inner = true
				}
			}
			if inner {
				continue
			}
			// (1) local accumulation: a leaf is a phi that (transitively) receives the result
			for _, lf := range leaves {
				if phi, ok := lf.(*ssa.Phi); ok && phiReceives(phi, bo, map[*ssa.Phi]bool{}) {
					name := phi.Comment
					if name == "" {
						name = phi.Name()
					}
					out = append(out, accumulation{Op: bo, LHS: name})
				}
			}
			// (2) field / variable accumulation: the result is stored where a leaf was loaded from
			for _, r := range *bo.Referrers() {
				st, ok := r.(*ssa.Store)
				if !ok || st.Val != ssa.Value(bo) {
					continue
				}
				for _, lf := range leaves {
					if ld, ok := lf.(*ssa.UnOp); ok && ld.Op == token.MUL && sameLocation(ld.X, st.Addr) {
						name := st.Addr.String()
						if fa, ok := st.Addr.(*ssa.FieldAddr); ok {
							name = fieldElem(fa.X.Type(), fa.Field)
						}
						out = append(out, accumulation{Op: bo, LHS: name, Field: true})
					}
				}
			}
		}
	}
	return out
}

func phiReceives(phi *ssa.Phi, v ssa.Value, seen map[*ssa.Phi]bool) bool {
	if seen[phi] {
		return false
	}
	seen[phi] = true
	for _, e := range phi.Edges {
		if e == v {
			return true
		}
		if p2, ok := e.(*ssa.Phi); ok && phiReceives(p2, v, seen) {
			return true
		}
	}
	return false
}

func init() {
	register(&Rule{
		Name:  "COST-concat",
		Doc:   "no string is accumulated by concatenation (x += e, x = x + e on the same local, field or variable) around a loop that is not constant-bounded; a function that accumulates into a field of its receiver/parameter is not called from such a loop",
		Props: []string{"C20"},
		Floor: 3,
		Run: func(c *Ctx, s *core.Sink) {
			accFns := map[*ssa.Function]accumulation{}
			type site struct {
				f   *ssa.Function
				acc accumulation
			}
			var all []site
			for _, f := range c.P.ModFns {
				if isInitializer(f) {
					continue
				}
				for _, acc := range findAccumulations(f) {
					all = append(all, site{f, acc})
					if acc.Field {
						accFns[f] = acc
					}
				}
			}
			n := map[string]int{}
			for _, st := range all {
				loops := loopsOf(st.f)
				ls := inLoops(loops, st.acc.Op.Block())
				base := fmt.Sprintf("concat/%s/%s", core.FuncName(st.f), st.acc.LHS)
				n[base]++
				key := fmt.Sprintf("%s#%d", base, n[base])
				pos := c.P.Pos(st.acc.Op.Pos())
				switch {
				case len(ls) == 0:
					s.OK(key, pos, "concatenation outside any loop")
				case unboundedLoop(ls) == nil:
					s.OK(key, pos, "inside a constant-bounded loop ("+ls[0].BoundFacts+")")
				default:
					s.Bad(key, pos, "string "+st.acc.LHS+" is rebuilt by concatenation on every iteration of a loop whose trip count depends on the input: quadratic time and allocation")
				}
			}
			// interprocedural level: accumulators called from input-dependent loops
			for _, f := range c.P.ModFns {
				loops := loopsOf(f)
				if len(loops) == 0 {
					continue
				}
				for _, b := range f.Blocks {
					ls := inLoops(loops, b)
					if unboundedLoop(ls) == nil {
						continue
					}
					for _, ins := range b.Instrs {
						call, ok := ins.(ssa.CallInstruction)
						if !ok {
							continue
						}
						for _, callee := range c.P.Callees(f, call) {
							if acc, isAcc := accFns[callee]; isAcc && callee != f {
								s.Bad(fmt.Sprintf("concat/%s/calls:%s", core.FuncName(f), callee.Name()), c.P.Pos(call.Pos()),
									"calls "+core.FuncName(callee)+", which appends to "+acc.LHS+" by concatenation, from a loop whose trip count depends on the input")
							}
						}
					}
				}
			}
			// every string-building loop of the parser uses a builder: count them as positive instances
			for _, f := range c.P.ModFns {
				loops := loopsOf(f)
				cnt := 0
				for _, b := range f.Blocks {
					if unboundedLoop(inLoops(loops, b)) == nil {
						continue
					}
					for _, ins := range b.Instrs {
						if call, ok := ins.(*ssa.Call); ok {
							if cl := call.Common().StaticCallee(); cl != nil && strings.HasPrefix(cl.String(), "(*strings.Builder).Write") {
								cnt++
							}
						}
					}
				}
				if cnt > 0 {
					s.OK("builder/"+core.FuncName(f), c.P.Pos(f.Pos()), fmt.Sprintf("%d strings.Builder writes inside input-dependent loops (amortised O(1) appends)", cnt))
				}
			}
		},
	})

	register(&Rule{
		Name:  "COST-copy",
		Doc:   "no conversion copies an open-ended slice (or a loop-invariant whole string) inside a loop whose trip count depends on the input; cursor helpers that cost O(remaining input) are not called from inner loops (in the main loop: SM-onevisit)",
		Props: []string{"C20"},
		Floor: 5,
		Run: func(c *Ctx, s *core.Sink) {
			helpers := linearHelpers(c)
			var hs []*ssa.Function
			for h := range helpers {
				hs = append(hs, h)
			}
			sort.Slice(hs, func(i, j int) bool { return hs[i].Name() < hs[j].Name() })
			for _, h := range hs {
				s.OK("helper/"+core.FuncName(h), c.P.Pos(h.Pos()), "classified O(remaining input): "+helpers[h])
			}
			bp := c.P.Func("url", "parser", "BasicParser")
			n := map[string]int{}
			for _, f := range c.P.ModFns {
				if isInitializer(f) {
					continue
				}
				loops := loopsOf(f)
				for _, b := range f.Blocks {
					ls := inLoops(loops, b)
					ul := unboundedLoop(ls)
					for _, ins := range b.Instrs {
						switch x := ins.(type) {
						case *ssa.Convert:
							if !linearConvert(x) {
								continue
							}
							base := "copy/" + core.FuncName(f) + "/" + x.Type().String() + "(…)"
							n[base]++
							key := fmt.Sprintf("%s#%d", base, n[base])
							pos := c.P.Pos(x.Pos())
							if ul == nil {
								s.OK(key, pos, "outside input-dependent loops")
								continue
							}
							if _, open := openEndedSlice(x.X); open {
								s.Bad(key, pos, "copies an open-ended slice inside a loop whose trip count depends on the input: O(n) work per iteration")
								continue
							}
							invariant := false
							switch v := x.X.(type) {
							case *ssa.Parameter, *ssa.FreeVar:
								invariant = true
							case *ssa.UnOp:
								if v.Op == token.MUL {
									if _, isFA := v.X.(*ssa.FieldAddr); isFA && !ul.Blocks[v.Block()] {
										invariant = true
									}
								}
							}
							if invariant {
								s.Bad(key, pos, "copies a whole loop-invariant string/slice on every iteration")
							} else {
								s.OK(key, pos, "operand is produced inside the loop or has both bounds (cost charged to the text consumed)")
							}
						case ssa.CallInstruction:
							for _, callee := range c.P.Callees(f, x) {
								why, isH := helpers[callee]
								if !isH {
									continue
								}
								base := "helpercall/" + core.FuncName(f) + "/" + callee.Name()
								n[base]++
								key := fmt.Sprintf("%s#%d", base, n[base])
								pos := c.P.Pos(x.Pos())
								switch {
								case ul == nil:
									s.OK(key, pos, "outside input-dependent loops")
								case f == bp && len(ls) == 1:
									s.OK(key, pos, "inside the main loop only: governed by SM-onevisit")
								case func() bool { ok, _ := searchNextLoop(c, ul); return ok }():
									s.OK(key, pos, "the search helper of a search-next loop: each call resumes behind the previous match, the scans add up to one pass")
								default:
									s.Bad(key, pos, "O(remaining input) helper ("+why+") called from an inner loop whose trip count depends on the input")
								}
							}
						}
					}
				}
			}
		},
	})

	register(&Rule{
		Name:  "COST-cap",
		Doc:   "no full slice expression clips the capacity of a slice that is stored back into a field which is appended to elsewhere (the next append would reallocate and copy the whole slice)",
		Props: []string{"C20"},
		Floor: 1,
		Run: func(c *Ctx, s *core.Sink) {
			appended := map[string]token.Pos{}
			clippedAppend := map[string]token.Pos{}
			clippedIn := map[string]*ssa.Function{}
			for _, f := range c.P.ModFns {
				for _, b := range f.Blocks {
					for _, ins := range b.Instrs {
						if call, ok := ins.(*ssa.Call); ok {
							if bi, ok := call.Common().Value.(*ssa.Builtin); ok && bi.Name() == "append" {
								arg0 := call.Common().Args[0]
								clipped := false
								if sl, ok := arg0.(*ssa.Slice); ok {
									clipped = sl.Max != nil
									arg0 = sl.X
								}
								if ld, ok := arg0.(*ssa.UnOp); ok {
									if fa, ok := ld.X.(*ssa.FieldAddr); ok {
										el := fieldElem(fa.X.Type(), fa.Field)
										appended[el] = call.Pos()
										// append(x.f[:n:n], …) stored back into x.f: grows by reallocating every time
										if clipped {
											for _, r := range *call.Referrers() {
												if st, ok := r.(*ssa.Store); ok {
													if fa2, ok := st.Addr.(*ssa.FieldAddr); ok && fieldElem(fa2.X.Type(), fa2.Field) == el {
														clippedAppend[el] = call.Pos()
														clippedIn[el] = f
													}
												}
											}
										}
									}
								}
							}
						}
					}
				}
			}
			var els []string
			for el := range appended {
				els = append(els, el)
			}
			sort.Strings(els)
			bad := map[string]bool{}
			for _, f := range c.P.ModFns {
				for _, b := range f.Blocks {
					for _, ins := range b.Instrs {
						st, ok := ins.(*ssa.Store)
						if !ok {
							continue
						}
						fa, ok := st.Addr.(*ssa.FieldAddr)
						if !ok {
							continue
						}
						el := fieldElem(fa.X.Type(), fa.Field)
						if _, isApp := appended[el]; !isApp {
							continue
						}
						if sl, ok := st.Val.(*ssa.Slice); ok && sl.Max != nil {
							bad[el] = true
							s.Bad("cap/"+core.FuncName(f)+"/"+el, c.P.Pos(sl.Pos()), "capacity of "+el+" is clipped by a full slice expression although the field is appended to (at "+c.P.Pos(appended[el])+"): every later append reallocates the whole slice")
						}
					}
				}
			}
			for el, p := range clippedAppend {
				bad[el] = true
				s.Bad("cap/"+core.FuncName(clippedIn[el])+"/"+el, c.P.Pos(p), "the field "+el+" grows by append on a capacity-clipped view of itself (x[:n:n]): every append reallocates and copies the whole slice, so building n elements costs n² copies")
			}
			for _, el := range els {
				if !bad[el] {
					s.OK("cap/"+el, c.P.Pos(appended[el]), "appended field; no store clips its capacity")
				}
			}
		},
	})

	register(&Rule{
		Name:  "COST-nested",
		Doc:   "inside a loop over a collection field, no call reaches a function that itself loops over the same collection field (work quadratic in the number of elements)",
		Props: []string{"C20"},
		Floor: 3,
		Run: func(c *Ctx, s *core.Sink) {
			// fields a function loops over (directly)
			loopFields := func(f *ssa.Function) map[string]bool {
				out := map[string]bool{}
				for _, l := range loopsOf(f) {
					if l.ConstBounded {
						continue
					}
					for b := range l.Blocks {
						for _, ins := range b.Instrs {
							ia, ok := ins.(*ssa.IndexAddr)
							if !ok {
								continue
							}
							ld, ok := ia.X.(*ssa.UnOp)
							if !ok {
								continue
							}
							fa, ok := ld.X.(*ssa.FieldAddr)
							if !ok {
								continue
							}
							if t := termOf(ia.Index); t.base != nil {
								if phi, ok := t.base.(*ssa.Phi); ok && phi.Block() == l.Header {
									out[fieldElem(fa.X.Type(), fa.Field)] = true
								}
							}
						}
					}
				}
				return out
			}
			direct := map[*ssa.Function]map[string]bool{}
			for _, f := range c.P.ModFns {
				direct[f] = loopFields(f)
			}
			var trans func(f *ssa.Function, depth int, seen map[*ssa.Function]bool) map[string]string
			trans = func(f *ssa.Function, depth int, seen map[*ssa.Function]bool) map[string]string {
				out := map[string]string{}
				if f == nil || seen[f] || depth > 3 {
					return out
				}
				seen[f] = true
				for el := range direct[f] {
					out[el] = core.FuncName(f)
				}
				for _, b := range f.Blocks {
					for _, ins := range b.Instrs {
						if call, ok := ins.(ssa.CallInstruction); ok {
							if cl := call.Common().StaticCallee(); cl != nil && c.P.InModule(cl) {
								for el, via := range trans(cl, depth+1, seen) {
									if _, ok := out[el]; !ok {
										out[el] = via
									}
								}
							}
						}
					}
				}
				return out
			}
			n := 0
			for _, f := range c.P.ModFns {
				if isInitializer(f) {
					continue
				}
				for _, l := range loopsOf(f) {
					if l.ConstBounded {
						continue
					}
					// fields this loop ranges over
					own := map[string]bool{}
					for b := range l.Blocks {
						for _, ins := range b.Instrs {
							if ia, ok := ins.(*ssa.IndexAddr); ok {
								if ld, ok := ia.X.(*ssa.UnOp); ok {
									if fa, ok := ld.X.(*ssa.FieldAddr); ok {
										if t := termOf(ia.Index); t.base != nil {
											if phi, ok := t.base.(*ssa.Phi); ok && phi.Block() == l.Header {
												own[fieldElem(fa.X.Type(), fa.Field)] = true
											}
										}
									}
								}
							}
						}
					}
					if len(own) == 0 {
						continue
					}
					n++
					var els []string
					for el := range own {
						els = append(els, el)
					}
					sort.Strings(els)
					key := fmt.Sprintf("nested/%s/loop over %s", core.FuncName(f), strings.Join(els, ","))
					// `for i := find(xs, 0); i >= 0; i = find(xs, i+1)`: each call resumes behind the previous match, the scans
					// add up to one pass over the collection
					if ok, why := searchNextLoop(c, l); ok {
						s.OK(key, c.P.Pos(f.Pos()), "search-next loop: "+why+" (the scans add up to one pass)")
						continue
					}
					bad := ""
					var pos token.Pos = f.Pos()
					for b := range l.Blocks {
						for _, ins := range b.Instrs {
							call, ok := ins.(ssa.CallInstruction)
							if !ok {
								continue
							}
							cl := call.Common().StaticCallee()
							if cl == nil || !c.P.InModule(cl) {
								continue
							}
							for el, via := range trans(cl, 0, map[*ssa.Function]bool{}) {
								if own[el] {
									bad = fmt.Sprintf("calls %s, which loops over %s again (in %s), once per element", cl.Name(), el, via)
									pos = call.Pos()
								}
							}
						}
					}
					s.Check(bad == "", key, c.P.Pos(pos), "no call inside the loop iterates over the same collection", bad)
				}
			}
			if n == 0 {
				s.Unknown("nested/none", "-", "no loop over a collection field found")
			}
		},
	})
}
