package rules

import (
	"fmt"
	"go/ast"
	"go/token"
	"go/types"
	"regexp"
	"sort"
	"strings"

	"golang.org/x/tools/go/ssa"

	"wucheck/core"
)

var nullableUrlFields = map[string]bool{"Url:host": true, "Url:port": true, "Url:query": true, "Url:fragment": true, "Url:searchParams": true}

// nullableDeref recognises a dereference of a nullable Url field: returns the field element and the pointer value loaded.
func nullableDeref(ptr ssa.Value) (string, ssa.Value, bool) {
	ld, ok := ptr.(*ssa.UnOp)
	if !ok || ld.Op != token.MUL {
		return "", nil, false
	}
	fa, ok := ld.X.(*ssa.FieldAddr)
	if !ok {
		return "", nil, false
	}
	el := fieldElem(fa.X.Type(), fa.Field)
	if !nullableUrlFields[el] {
		return "", nil, false
	}
	return el, fa.X, true
}

func init() {
	register(&Rule{
		Name:  "PF-nil",
		Doc:   "every dereference of a nullable URL component pointer (host, port, query, fragment) is dominated, on the pruned CFG, by a nil test of the same component with no write to it in between, or is a reviewed invariant (/verif/tables/nil.json); Url.path, Url.parser and SearchParams.url are non-nil by constructor completeness (every store is a fresh object, the receiver, or a copy of the same field of another object)",
		Props: []string{"C02"},
		Floor: 10,
		Run: func(c *Ctx, s *core.Sink) {
			tab := loadReviewed(c, "nil.json")
			n := map[string]int{}
			for _, f := range c.P.ModFns {
				if isInitializer(f) {
					continue
				}
				nn := nonNilAnalysis(c, f)
				ff := Facts(c, f)
				for _, b := range f.Blocks {
					for i, ins := range b.Instrs {
						var ptr ssa.Value
						switch x := ins.(type) {
						case *ssa.UnOp:
							if x.Op == token.MUL {
								ptr = x.X
							}
						case *ssa.Store:
							ptr = x.Addr
						case *ssa.FieldAddr:
							// a field of the object a nullable pointer refers to (the lazily created parameter list)
							if el, _, ok := nullableDeref(x.X); ok && el == "Url:searchParams" {
								ptr = x.X
							}
						case *ssa.Call:
							// a method of the parameter list called on it: every one of them reads its receiver
							if cl := x.Common().StaticCallee(); cl != nil && namedOf(recvType(cl)) == "SearchParams" && len(x.Common().Args) > 0 {
								if el, _, ok := nullableDeref(x.Common().Args[0]); ok && el == "Url:searchParams" {
									ptr = x.Common().Args[0]
								}
							}
						}
						if ptr == nil {
							continue
						}
						el, base, ok := nullableDeref(ptr)
						if !ok {
							continue
						}
						if el == "Url:searchParams" {
							switch ins.(type) {
							case *ssa.FieldAddr, *ssa.Call:
							default:
								continue // the pointer itself is loaded or stored, not what it refers to
							}
						}
						fn := core.FuncName(f)
						expr := "*" + strings.TrimPrefix(el, "Url:")
						bk := "nil/" + fn + "/" + expr
						n[bk]++
						key := fmt.Sprintf("%s#%d", bk, n[bk])
						pos := c.P.Pos(ins.Pos())
						if !ff.Reachable(b) {
							s.OK(key, pos, "unreachable")
							continue
						}
						if nn.at(b, i)[nnKey{base, el}] {
							s.OK(key, pos, "the component is non-nil on every path to this point (nil test, fresh store, or a parser run that stores only non-nil values)")
							continue
						}
						if inv, ok := tab.find(fn, expr); ok {
							s.OK(key, pos, "reviewed invariant: "+inv)
							continue
						}
						s.Unknown(key, pos, "dereference of "+strings.TrimPrefix(el, "Url:")+" which may be nil on some path: possible nil pointer dereference")
					}
				}
			}
			// constructor completeness
			okSources := map[string]func(v ssa.Value) bool{
				"Url:path": func(v ssa.Value) bool {
					switch x := v.(type) {
					case *ssa.Alloc:
						return true
					case *ssa.Call:
						cl := x.Common().StaticCallee()
						return cl != nil && cl.Name() == "clone" && namedOf(recvType(cl)) == "path"
					case *ssa.UnOp:
						_, ok := fieldAddrOf(x.X, "Url:path")
						return ok
					}
					return false
				},
				"Url:parser": func(v ssa.Value) bool {
					switch x := v.(type) {
					case *ssa.Parameter:
						return namedOf(x.Type()) == "parser"
					case *ssa.UnOp:
						_, ok := fieldAddrOf(x.X, "Url:parser")
						return ok
					}
					return false
				},
				"SearchParams:url": func(v ssa.Value) bool {
					switch x := v.(type) {
					case *ssa.Parameter:
						return namedOf(x.Type()) == "Url"
					case *ssa.Alloc:
						return namedOf(x.Type()) == "Url"
					case *ssa.UnOp:
						_, ok := fieldAddrOf(x.X, "SearchParams:url")
						return ok
					}
					return false
				},
			}
			for _, f := range c.P.ModFns {
				for _, b := range f.Blocks {
					for _, ins := range b.Instrs {
						st, ok := ins.(*ssa.Store)
						if !ok {
							continue
						}
						fa, ok := st.Addr.(*ssa.FieldAddr)
						if !ok {
							continue
						}
						el := fieldElem(fa.X.Type(), fa.Field)
						chk, ok := okSources[el]
						if !ok {
							continue
						}
						bk := "ctor/" + core.FuncName(f) + "/" + el
						n[bk]++
						key := fmt.Sprintf("%s#%d", bk, n[bk])
						s.Check(chk(st.Val), key, c.P.Pos(st.Pos()), "stores a fresh object, the receiver, or the same field of another object", "stores a value that may be nil into "+el+" (every later use dereferences it unconditionally)")
					}
				}
			}
			// every heap Url / SearchParams allocation initialises these fields in the allocating function
			for _, f := range c.P.ModFns {
				for _, b := range f.Blocks {
					for _, ins := range b.Instrs {
						al, ok := ins.(*ssa.Alloc)
						if !ok {
							continue
						}
						tn := ""
						if pt, ok := al.Type().Underlying().(*types.Pointer); ok {
							if nt, ok := pt.Elem().(*types.Named); ok {
								tn = nt.Obj().Name()
							}
						}
						if tn != "Url" && tn != "SearchParams" {
							continue
						}
						need := []string{"Url:path", "Url:parser"}
						if tn == "SearchParams" {
							need = []string{"SearchParams:url"}
						}
						var missing []string
						// a whole-struct copy from another object of the same type initialises every field
						wholeCopy := false
						for _, r := range *al.Referrers() {
							if st, ok := r.(*ssa.Store); ok && st.Addr == ssa.Value(al) {
								if ld, ok := st.Val.(*ssa.UnOp); ok && namedOf(ld.X.Type()) == tn {
									wholeCopy = true
								}
							}
						}
						if wholeCopy {
							need = nil
						}
						for _, el := range need {
							found := false
							for _, r := range *al.Referrers() {
								if fa, ok := r.(*ssa.FieldAddr); ok && fieldElem(fa.X.Type(), fa.Field) == el {
									for _, r2 := range *fa.Referrers() {
										if _, ok := r2.(*ssa.Store); ok {
											found = true
										}
									}
								}
							}
							// … or through a phi that merges the new object with an existing one (`if url == nil { url = &Url{…} };
							// url.parser = p`), by a store that dominates every return of the function
							if !found {
								var holds func(v ssa.Value, d int) bool
								holds = func(v ssa.Value, d int) bool {
									if v == ssa.Value(al) {
										return true
									}
									if phi, ok := v.(*ssa.Phi); ok && d < 3 {
										for _, e := range phi.Edges {
											if holds(e, d+1) {
												return true
											}
										}
									}
									return false
								}
								for _, b2 := range f.Blocks {
									for _, in2 := range b2.Instrs {
										st, ok := in2.(*ssa.Store)
										if !ok {
											continue
										}
										fa, ok := st.Addr.(*ssa.FieldAddr)
										if !ok || fieldElem(fa.X.Type(), fa.Field) != el || !holds(fa.X, 0) {
											continue
										}
										domAll := true
										for _, b3 := range f.Blocks {
											if r, isR := b3.Instrs[len(b3.Instrs)-1].(*ssa.Return); isR {
												// returns that hand out no object (nil first result) do not matter
												if len(r.Results) > 0 && isNilConst(r.Results[0]) {
													continue
												}
												if !b2.Dominates(b3) {
													domAll = false
												}
											}
										}
										if domAll {
											found = true
										}
									}
								}
							}
							if !found {
								missing = append(missing, el)
							}
						}
						bk := "alloc/" + core.FuncName(f) + "/" + tn
						n[bk]++
						s.Check(len(missing) == 0, fmt.Sprintf("%s#%d", bk, n[bk]), c.P.Pos(al.Pos()), "initialises "+strings.Join(need, ", ")+map[bool]string{true: "(copy of a whole object)", false: ""}[wholeCopy], "allocates a "+tn+" without initialising "+strings.Join(missing, ", "))
					}
				}
			}
		},
	})

	register(&Rule{
		Name:  "PF-lib",
		Doc:   "module code contains no panic call, no single-result type assertion, no write to a map that is not made in the same function, no integer division or remainder by a non-constant, no shift by a signed non-constant; Must* functions receive only constants that are validated at analysis time",
		Props: []string{"C02"},
		Floor: 5,
		Run: func(c *Ctx, s *core.Sink) {
			n := map[string]int{}
			for _, f := range c.P.ModFns {
				fn := core.FuncName(f)
				for _, b := range f.Blocks {
					for _, ins := range b.Instrs {
						mk := func(kind string) string {
							bk := "lib/" + fn + "/" + kind
							n[bk]++
							return fmt.Sprintf("%s#%d", bk, n[bk])
						}
						pos := c.P.Pos(ins.Pos())
						switch x := ins.(type) {
						case *ssa.Panic:
							s.Bad(mk("panic"), pos, "explicit panic")
						case *ssa.TypeAssert:
							s.Check(x.CommaOk, mk("assert"), pos, "comma-ok type assertion", "single-result type assertion panics on a mismatch")
						case *ssa.MapUpdate:
							_, fresh := x.Map.(*ssa.MakeMap)
							if ld, ok := x.Map.(*ssa.UnOp); ok && !fresh {
								// a map held in a local cell (captured by a closure) that is written once, with make(...)
								var cell ssa.Value = ld.X
								if fv, ok := cell.(*ssa.FreeVar); ok && f.Parent() != nil {
									// the enclosing function's cell
									for _, b2 := range f.Parent().Blocks {
										for _, i2 := range b2.Instrs {
											if mc, ok := i2.(*ssa.MakeClosure); ok && mc.Fn == ssa.Value(f) {
												for k, v := range f.FreeVars {
													if v == fv && k < len(mc.Bindings) {
														cell = mc.Bindings[k]
													}
												}
											}
										}
									}
								}
								if al, ok := cell.(*ssa.Alloc); ok {
									stores, made := 0, 0
									for _, r := range *al.Referrers() {
										if st, ok := r.(*ssa.Store); ok && st.Addr == ssa.Value(al) {
											stores++
											if _, ok := st.Val.(*ssa.MakeMap); ok {
												made++
											}
										}
									}
									fresh = stores == 1 && made == 1
								}
							}
							s.Check(fresh, mk("mapwrite"), pos, "map made in this function", "write to a map that may be nil")
						case *ssa.BinOp:
							switch x.Op {
							case token.QUO, token.REM:
								if isIntType(x.X.Type()) {
									k, isK := constInt(x.Y)
									s.Check(isK && k != 0, mk("div"), pos, "constant non-zero divisor", "integer division by a value that may be zero")
								}
							case token.SHL, token.SHR:
								if _, isK := x.Y.(*ssa.Const); !isK {
									if b, ok := x.Y.Type().Underlying().(*types.Basic); ok && b.Info()&types.IsUnsigned == 0 {
										s.Bad(mk("shift"), pos, "shift by a signed non-constant (panics when negative)")
									}
								}
							}
						case *ssa.SliceToArrayPointer:
							s.Bad(mk("slice2array"), pos, "slice to array-pointer conversion may panic")
						case *ssa.Call:
							cl := x.Common().StaticCallee()
							if cl == nil || !strings.HasPrefix(cl.Name(), "Must") {
								continue
							}
							key := mk(cl.Name())
							allConst := true
							for _, a := range x.Common().Args {
								if _, ok := a.(*ssa.Const); !ok {
									allConst = false
								}
							}
							if !allConst {
								s.Bad(key, pos, cl.String()+" with a non-constant argument may panic")
								continue
							}
							if cl.String() == "regexp.MustCompile" {
								pat, _ := constString(x.Common().Args[0])
								if _, err := regexp.Compile(pat); err != nil {
									s.Bad(key, pos, "regexp.MustCompile panics: "+err.Error())
								} else {
									s.OK(key, pos, fmt.Sprintf("constant pattern %q compiles", pat))
								}
								continue
							}
							s.Unknown(key, pos, cl.String()+": no analysis-time validator for this Must function")
						}
					}
				}
			}
			s.OK("lib/scan", "-", fmt.Sprintf("scanned %d module functions", len(c.P.ModFns)))
		},
	})

	register(&Rule{
		Name:  "PF-rec",
		Doc:   "the call graph restricted to module functions is acyclic (no unbounded stack growth by recursion)",
		Props: []string{"C02"},
		Floor: 1,
		Run: func(c *Ctx, s *core.Sink) {
			adj := map[*ssa.Function][]*ssa.Function{}
			inMod := map[*ssa.Function]bool{}
			for _, f := range c.P.ModFns {
				inMod[f] = true
			}
			edges := 0
			for _, f := range c.P.ModFns {
				seen := map[*ssa.Function]bool{}
				for _, b := range f.Blocks {
					for _, ins := range b.Instrs {
						if ci, ok := ins.(ssa.CallInstruction); ok {
							// structural recursion over an acyclic chain (an error calling Error()/Unwrap() of the cause it
							// wraps): bounded by the length of the chain, not by the input
							structural := false
							if ci.Common().IsInvoke() && len(f.Params) > 0 {
								if _, ok := loadOfAnyField(ci.Common().Value, f.Params[0]); ok && ci.Common().Method.Name() == f.Name() {
									structural = true
								}
							}
							for _, cl := range c.P.Callees(f, ci) {
								if structural && cl == f {
									continue
								}
								if inMod[cl] && !seen[cl] {
									seen[cl] = true
									adj[f] = append(adj[f], cl)
									edges++
								}
							}
						}
					}
				}
			}
			// Tarjan
			index := 0
			idx := map[*ssa.Function]int{}
			low := map[*ssa.Function]int{}
			on := map[*ssa.Function]bool{}
			var stack []*ssa.Function
			var cycles [][]string
			var strong func(v *ssa.Function)
			strong = func(v *ssa.Function) {
				index++
				idx[v], low[v] = index, index
				stack = append(stack, v)
				on[v] = true
				for _, w := range adj[v] {
					if idx[w] == 0 {
						strong(w)
						if low[w] < low[v] {
							low[v] = low[w]
						}
					} else if on[w] && idx[w] < low[v] {
						low[v] = idx[w]
					}
				}
				if low[v] == idx[v] {
					var comp []string
					for {
						w := stack[len(stack)-1]
						stack = stack[:len(stack)-1]
						on[w] = false
						comp = append(comp, core.FuncName(w))
						if w == v {
							break
						}
					}
					self := false
					for _, w := range adj[v] {
						if w == v {
							self = true
						}
					}
					if len(comp) > 1 || self {
						sort.Strings(comp)
						cycles = append(cycles, comp)
					}
				}
			}
			for _, f := range c.P.ModFns {
				if idx[f] == 0 {
					strong(f)
				}
			}
			if len(cycles) == 0 {
				s.OK("rec/acyclic", "-", fmt.Sprintf("%d functions, %d call edges, no cycle", len(c.P.ModFns), edges))
			}
			for _, cy := range cycles {
				s.Bad("rec/cycle/"+cy[0], "-", "recursion: "+strings.Join(cy, " → "))
			}
		},
	})

	register(&Rule{
		Name:  "PF-loops",
		Doc:   "every loop of module code terminates by shape: a range loop, a monotone counted loop with an invariant bound, a cursor loop (every cycle through the header passes an advancing call on its cursor and no rewinding call lies on a cycle), the main loop (SM-rank), or a reviewed entry of /verif/tables/loops.json",
		Props: []string{"C02"},
		Floor: 15,
		Run: func(c *Ctx, s *core.Sink) {
			tab := loadReviewed(c, "loops.json")
			bp := c.P.Func("url", "parser", "BasicParser")
			sm := BuildSM(c)
			for _, f := range c.P.ModFns {
				if isInitializer(f) {
					continue
				}
				loops := loopsOf(f)
				sort.Slice(loops, func(i, j int) bool { return loops[i].Header.Index < loops[j].Header.Index })
				fn := core.FuncName(f)
				for li, l := range loops {
					text, pos := loopSource(c, f, l)
					key := fmt.Sprintf("loops/%s/#%d", fn, li+1)
					if text != "" {
						key = fmt.Sprintf("loops/%s/%s", fn, text)
					}
					p := c.P.Pos(pos)
					cm := l.Header.Comment
					switch {
					case strings.HasPrefix(cm, "rangeindex") || strings.HasPrefix(cm, "rangeiter") || strings.HasPrefix(cm, "rangeint"):
						s.OK(key, p, "range loop ("+cm+")")
						continue
					}
					if f == bp && sm.An != nil && isMainLoop(sm, c, l) {
						s.OK(key, p, "main loop of the state machine: ranking established by SM-rank")
						continue
					}
					if ok, why := countedLoop(l); ok {
						s.OK(key, p, "counted loop: "+why)
						continue
					}
					if ok, why := aiCovered(c, nil, l.Header); ok {
						s.OK(key, p, "every run ends: "+why)
						continue
					}
					if ok, why := searchNextLoop(c, l); ok {
						s.OK(key, p, "search loop: "+why)
						continue
					}
					if ok, why := cutLoop(c, l); ok {
						s.OK(key, p, "cutting loop: "+why)
						continue
					}
					if ok, why := shrinkLoop(c, f, l); ok {
						s.OK(key, p, "shrinking loop: "+why)
						continue
					}
					if ok, why := flagShrinkLoop(c, f, l); ok {
						s.OK(key, p, "flag-or-shrink loop: "+why)
						continue
					}
					if ok, why := cursorLoop(c, f, l); ok {
						s.OK(key, p, "cursor loop: "+why)
						continue
					} else if why != "" {
						if inv, found := tab.find(fn, text); found {
							s.OK(key, p, "reviewed: "+inv)
							continue
						}
						s.Unknown(key, p, "cursor loop that may not make progress: "+why)
						continue
					}
					if inv, found := tab.find(fn, text); found {
						s.OK(key, p, "reviewed: "+inv)
						continue
					}
					if inv, found := tab.find(fn, "*"); found && len(loops) == 1 {
						s.OK(key, p, "reviewed (the only loop of the function): "+inv)
						continue
					}
					s.Unknown(key, p, "loop of an unrecognised shape: termination not established")
				}
			}
		},
	})
}

// loopSource finds the source text of the loop's condition ("for" for condition-less loops) and its position.
func loopSource(c *Ctx, f *ssa.Function, l *ssaLoop) (string, token.Pos) {
	root := f
	for root.Parent() != nil {
		root = root.Parent()
	}
	fd := c.P.Decl(root)
	if fd == nil {
		return "", f.Pos()
	}
	// a position inside the loop header
	var hp token.Pos
	for _, ins := range l.Header.Instrs {
		if _, isPhi := ins.(*ssa.Phi); isPhi {
			continue // a phi carries the position of its variable's declaration
		}
		if ins.Pos().IsValid() {
			hp = ins.Pos()
			break
		}
	}
	if !hp.IsValid() {
		for b := range l.Blocks {
			for _, ins := range b.Instrs {
				if _, isPhi := ins.(*ssa.Phi); isPhi {
					continue
				}
				if ins.Pos().IsValid() && (!hp.IsValid() || ins.Pos() < hp) {
					hp = ins.Pos()
				}
			}
		}
	}
	var best ast.Stmt
	ast.Inspect(fd, func(n ast.Node) bool {
		switch x := n.(type) {
		case *ast.ForStmt:
			if x.Pos() <= hp && hp < x.End() {
				if x.Cond != nil && x.Cond.Pos() <= hp && hp <= x.Cond.End() {
					best = x
				} else if x.Cond == nil && x.Body.Pos() <= hp {
					if best == nil || best.Pos() < x.Pos() {
						best = x
					}
				}
			}
		case *ast.RangeStmt:
			if x.Pos() <= hp && hp < x.Body.Pos() {
				best = x
			}
		}
		return true
	})
	switch x := best.(type) {
	case *ast.ForStmt:
		if x.Cond != nil {
			return "for " + types.ExprString(x.Cond), x.Pos()
		}
		return "for", x.Pos()
	case *ast.RangeStmt:
		return "range " + types.ExprString(x.X), x.Pos()
	}
	return "", hp
}

func isMainLoop(sm *smModel, c *Ctx, l *ssaLoop) bool {
	// the loop whose header position is the main for statement
	for b := range l.Blocks {
		for _, ins := range b.Instrs {
			if _, isPhi := ins.(*ssa.Phi); isPhi {
				continue
			}
			if ins.Pos().IsValid() && (ins.Pos() < sm.An.loop.Pos() || ins.Pos() > sm.An.loop.End()) {
				return false
			}
		}
	}
	// and it contains the loop head call
	heads := []*ssa.BasicBlock{l.Header}
	for _, sc := range l.Header.Succs {
		if l.Blocks[sc] {
			heads = append(heads, sc) // the loop tests its condition first: the head call opens the body
		}
	}
	for _, hb := range heads {
		for _, ins := range hb.Instrs {
			if call, ok := ins.(*ssa.Call); ok {
				// the head call of the machine stands before the state switch (loops inside a state stand in it)
				if cl := call.Common().StaticCallee(); cl != nil && cl.Name() == "nextCodePoint" && call.Pos() < sm.An.sw.Pos() {
					return true
				}
			}
		}
	}
	return false
}

func definedOutside(v ssa.Value, l *ssaLoop) bool {
	switch x := v.(type) {
	case *ssa.Const, *ssa.Parameter, *ssa.FreeVar, *ssa.Global:
		return true
	case *ssa.Call:
		if a, ok := lenArg(x); ok {
			return definedOutside(a, l)
		}
	case *ssa.Field:
		// a field of a struct value that is itself loop-invariant
		return definedOutside(x.X, l)
	case *ssa.UnOp:
		// a field of a local struct variable that is not written inside the loop (and whose address goes nowhere)
		if x.Op == token.MUL {
			if fa, ok := x.X.(*ssa.FieldAddr); ok {
				if al, ok := fa.X.(*ssa.Alloc); ok && !al.Heap {
					okAll := true
					for _, r := range *al.Referrers() {
						switch y := r.(type) {
						case *ssa.Store:
							if y.Addr != ssa.Value(al) || l.Blocks[y.Block()] {
								okAll = false
							}
						case *ssa.FieldAddr:
							for _, r2 := range *y.Referrers() {
								switch z := r2.(type) {
								case *ssa.UnOp:
								case *ssa.Store:
									if l.Blocks[z.Block()] || z.Addr != ssa.Value(y) {
										okAll = false
									}
								default:
									okAll = false
								}
							}
						case *ssa.UnOp, *ssa.DebugRef:
						default:
							okAll = false
						}
					}
					return okAll
				}
				// a field of an object handed in from outside, reloaded in the loop: invariant when the loop writes
				// nothing at all (no store, no call other than length / bit-set style pure builtins)
				if definedOutside(fa.X, l) && loopWritesNothing(l) {
					return true
				}
				// … or when it only stores into elements and locals and calls nothing but builtins: the field (the slice
				// header, its length) stays what it was
				if definedOutside(fa.X, l) && loopKeepsFields(l) {
					return true
				}
			}
		}
	case *ssa.Convert:
		return definedOutside(x.X, l)
	}
	if ins, ok := v.(ssa.Instruction); ok {
		return !l.Blocks[ins.Block()]
	}
	return false
}

// loopKeepsFields: the loop stores only into elements of slices / arrays and into local variables, and calls nothing
// but builtins (append, len, copy, …): no field of any object changes.
func loopKeepsFields(l *ssaLoop) bool {
	for b := range l.Blocks {
		for _, ins := range b.Instrs {
			switch x := ins.(type) {
			case *ssa.Store:
				switch a := x.Addr.(type) {
				case *ssa.IndexAddr:
				case *ssa.Alloc:
					if a.Heap {
						return false
					}
				default:
					return false
				}
			case *ssa.Call:
				if _, ok := x.Common().Value.(*ssa.Builtin); !ok {
					return false
				}
			case *ssa.MapUpdate, *ssa.Send, *ssa.Go, *ssa.Defer:
				return false
			}
		}
	}
	return true
}

// loopWritesNothing: no store, map update, send or call (other than builtins) in the loop.
func loopWritesNothing(l *ssaLoop) bool {
	for b := range l.Blocks {
		for _, ins := range b.Instrs {
			switch x := ins.(type) {
			case *ssa.Store, *ssa.MapUpdate, *ssa.Send, *ssa.Go, *ssa.Defer:
				return false
			case *ssa.Call:
				if _, isB := x.Common().Value.(*ssa.Builtin); !isB {
					return false
				}
			}
		}
	}
	return true
}

// stepOf: the net constant step of a header phi per iteration: +1 / -1 / 0 (unknown).
func stepSign(phi *ssa.Phi, l *ssaLoop) int {
	sign := 0
	for i, e := range phi.Edges {
		if !l.Blocks[phi.Block().Preds[i]] {
			continue
		}
		sgn := edgeSign(e, phi, 0)
		if sgn == 0 {
			return 0
		}
		if sign != 0 && sign != sgn {
			return 0
		}
		sign = sgn
	}
	return sign
}

// edgeSign: +1 if the value is the header phi moved up by at least one on every way it can be computed, -1 if moved
// down by at least one, 0 otherwise. The value may pass through other merges and through counters of inner loops
// (which only add to it: `for i < 7 && … { i++ }` inside `for i := 0; i < 8; i++`).
func edgeSign(e ssa.Value, phi *ssa.Phi, depth int) int {
	lo, hi, ok := stepBounds(e, phi, map[*ssa.Phi]bool{}, 0)
	switch {
	case ok && lo >= 1:
		return 1
	case ok && hi <= -1:
		return -1
	}
	return 0
}

const stepInf = int64(1) << 40

// stepBounds bounds v - phi.
func stepBounds(v ssa.Value, phi *ssa.Phi, visiting map[*ssa.Phi]bool, depth int) (int64, int64, bool) {
	if depth > 8 {
		return 0, 0, false
	}
	t := termOf(v)
	if t.base == nil {
		return 0, 0, false
	}
	if t.base == ssa.Value(phi) {
		return t.k, t.k, true
	}
	p2, ok := t.base.(*ssa.Phi)
	if !ok || visiting[p2] {
		return 0, 0, false
	}
	visiting[p2] = true
	defer delete(visiting, p2)
	lo, hi := stepInf, -stepInf
	selfUp, selfDown := false, false
	for _, e2 := range p2.Edges {
		// the merge fed by itself plus a constant: the counter of an inner loop
		if t2 := termOf(e2); t2.base == ssa.Value(p2) {
			switch {
			case t2.k > 0:
				selfUp = true
			case t2.k < 0:
				selfDown = true
			}
			continue
		}
		l2, h2, ok := stepBounds(e2, phi, visiting, depth+1)
		if !ok {
			return 0, 0, false
		}
		if l2 < lo {
			lo = l2
		}
		if h2 > hi {
			hi = h2
		}
	}
	if lo == stepInf {
		return 0, 0, false
	}
	if selfUp {
		hi = stepInf
	}
	if selfDown {
		lo = -stepInf
	}
	return lo + t.k, hi + t.k, true
}

// searchNextLoop: for i := find(xs, a); i >= 0; i = find(xs, i+k) with k ≥ 1, where find returns a negative constant or an
// index of xs that is not below its start argument (a counted scan from that argument): i strictly increases and stays
// below len(xs), so the loop ends.
func searchNextLoop(c *Ctx, l *ssaLoop) (bool, string) {
	for b := range l.Blocks {
		iff, ok := lastIf(b)
		if !ok {
			continue
		}
		in0, in1 := l.Blocks[b.Succs[0]], l.Blocks[b.Succs[1]]
		if in0 == in1 {
			continue
		}
		bo, ok := iff.Cond.(*ssa.BinOp)
		if !ok {
			continue
		}
		rel, ok := relOf(bo.Op, in0)
		if !ok {
			continue
		}
		phi, isPhi := bo.X.(*ssa.Phi)
		k, isK := constInt(bo.Y)
		if !isPhi || !isK || phi.Block() != l.Header {
			continue
		}
		// continues only while phi ≥ 0
		if !((rel == token.GEQ && k == 0) || (rel == token.GTR && k == -1)) {
			continue
		}
		okAll := true
		n := 0
		for i, e := range phi.Edges {
			if !l.Blocks[l.Header.Preds[i]] {
				continue
			}
			n++
			call, isCall := e.(*ssa.Call)
			if !isCall {
				okAll = false
				break
			}
			if _, ok := indexLikeResult(c, call); !ok {
				if _, okk := indexLikeResultKey(c, call); !okk {
					okAll = false
					break
				}
			}
			from, ok := scanStartParam(c, call.Common().StaticCallee())
			if !ok || from >= len(call.Common().Args) {
				okAll = false
				break
			}
			t := termOf(call.Common().Args[from])
			if t.base != ssa.Value(phi) || t.k < 1 {
				okAll = false
				break
			}
		}
		if okAll && n > 0 {
			return true, phi.Comment + " is the next match after the previous one, or negative: it increases strictly below the length of what is searched"
		}
	}
	return false, ""
}

// cutLoop: `for more := true; more; { part, rest, more = cut(rest, sep) … }` — the loop goes on only while a flag is
// true; on every way round the flag is the "found" result of a call of a cutting function on the rest, and the rest
// becomes that call's "after" result. A cutting function returns found=true only together with s[i+k:] (k ≥ 1, i ≥ 0)
// of its string parameter as "after": every round with found=true shortens the rest by at least one byte.
func cutLoop(c *Ctx, l *ssaLoop) (bool, string) {
	for b := range l.Blocks {
		iff, ok := lastIf(b)
		if !ok {
			continue
		}
		in0, in1 := l.Blocks[b.Succs[0]], l.Blocks[b.Succs[1]]
		if in0 == in1 {
			continue
		}
		var more *ssa.Phi
		for _, nf := range normFact(iff.Cond, in0) {
			if p, isPhi := nf.Cond.(*ssa.Phi); isPhi && nf.Val && p.Block() == l.Header {
				more = p
			}
		}
		if more == nil {
			continue
		}
		okAll, n := true, 0
		why := ""
		for i, e := range more.Edges {
			if !l.Blocks[l.Header.Preds[i]] {
				continue
			}
			n++
			ex, isEx := e.(*ssa.Extract)
			if !isEx {
				okAll = false
				break
			}
			call, isCall := ex.Tuple.(*ssa.Call)
			if !isCall {
				okAll = false
				break
			}
			g := call.Common().StaticCallee()
			ps, ka, ok := cuttingFunction(c, g, ex.Index)
			if !ok || ps >= len(call.Common().Args) {
				okAll = false
				break
			}
			rest, isPhi := call.Common().Args[ps].(*ssa.Phi)
			if !isPhi || rest.Block() != l.Header {
				okAll = false
				break
			}
			// the rest becomes the "after" result of this very call on this way round
			ex2, isEx2 := rest.Edges[i].(*ssa.Extract)
			if !isEx2 || ex2.Tuple != ssa.Value(call) || ex2.Index != ka {
				okAll = false
				break
			}
			why = fmt.Sprintf("%s is true only when %s cut at least one byte off %s, which becomes the rest", more.Comment, g.Name(), rest.Comment)
		}
		if okAll && n > 0 {
			return true, why
		}
	}
	return false, ""
}

// nonNegAt: a dominating test at b shows v ≥ 0 (v ≥ 0, v > -1, not v < 0, or v != -1 for a strings.Index* result).
func nonNegAt(ff *fnFacts, b *ssa.BasicBlock, v ssa.Value) bool {
	for _, fa := range ff.At(b) {
		bo, isB := fa.Cond.(*ssa.BinOp)
		if !isB || bo.X != v {
			continue
		}
		k, isC := constInt(bo.Y)
		if !isC {
			continue
		}
		rel, okR := relOf(bo.Op, fa.Val)
		if !okR {
			continue
		}
		if (rel == token.GEQ && k >= 0) || (rel == token.GTR && k >= -1) {
			return true
		}
		if rel == token.NEQ && k == -1 {
			if call, isCall := v.(*ssa.Call); isCall {
				if cl := call.Common().StaticCallee(); cl != nil && strings.HasPrefix(cl.String(), "strings.Index") {
					return true
				}
			}
		}
	}
	return false
}

// shrinkLoop: a string or slice carried round the loop is, on every way round, a reslice x[i+k:] of itself with k ≥ 1
// and i known to be non-negative there (`rest = rest[dot+1:]` after `dot >= 0`): it loses at least one element per
// round and cannot go below empty.
func shrinkLoop(c *Ctx, f *ssa.Function, l *ssaLoop) (bool, string) {
	ff := Facts(c, f)
	for _, ins := range l.Header.Instrs {
		phi, ok := ins.(*ssa.Phi)
		if !ok {
			break
		}
		switch phi.Type().Underlying().(type) {
		case *types.Slice:
		case *types.Basic:
			if !isStringType(phi.Type()) {
				continue
			}
		default:
			continue
		}
		okAll, n := true, 0
		for i, e := range phi.Edges {
			pred := l.Header.Preds[i]
			if !l.Blocks[pred] {
				continue
			}
			n++
			sl, isSl := e.(*ssa.Slice)
			if !isSl || sl.X != ssa.Value(phi) || sl.High != nil || sl.Low == nil {
				okAll = false
				break
			}
			t := termOf(sl.Low)
			if t.k < 1 || (t.base != nil && !nonNegAt(ff, sl.Block(), t.base)) {
				okAll = false
				break
			}
		}
		if okAll && n > 0 {
			name := phi.Comment
			if name == "" {
				name = phi.Name()
			}
			return true, name + " loses at least one element on every way round the loop"
		}
	}
	return false, ""
}

// flagShrinkLoop: the loop goes on only while a flag is true, and on every way round either the flag is set to false
// (the next test of it leaves the loop) or a string / slice carried round the loop loses at least one element
// (`for more := true; more; { if i := IndexByte(q, '&'); i >= 0 { q = q[i+1:] } else { more = false } … }`).
func flagShrinkLoop(c *Ctx, f *ssa.Function, l *ssaLoop) (bool, string) {
	ff := Facts(c, f)
	var flag *ssa.Phi
	for b := range l.Blocks {
		iff, ok := lastIf(b)
		if !ok {
			continue
		}
		in0, in1 := l.Blocks[b.Succs[0]], l.Blocks[b.Succs[1]]
		if in0 == in1 {
			continue
		}
		for _, nf := range normFact(iff.Cond, in0) {
			if p, isPhi := nf.Cond.(*ssa.Phi); isPhi && nf.Val && p.Block() == l.Header {
				flag = p
			}
		}
	}
	if flag == nil {
		return false, ""
	}
	for _, ins := range l.Header.Instrs {
		rest, ok := ins.(*ssa.Phi)
		if !ok {
			break
		}
		if rest == flag {
			continue
		}
		switch rest.Type().Underlying().(type) {
		case *types.Slice:
		case *types.Basic:
			if !isStringType(rest.Type()) {
				continue
			}
		default:
			continue
		}
		shrinks := func(v ssa.Value) bool {
			sl, isSl := v.(*ssa.Slice)
			if !isSl || sl.X != ssa.Value(rest) || sl.High != nil || sl.Low == nil {
				return false
			}
			t := termOf(sl.Low)
			return t.k >= 1 && (t.base == nil || nonNegAt(ff, sl.Block(), t.base))
		}
		seen := map[*ssa.Phi]bool{}
		var pairOK func(fv, rv ssa.Value) bool
		pairOK = func(fv, rv ssa.Value) bool {
			if k, isK := constBool(fv); isK && !k {
				return true
			}
			if shrinks(rv) {
				return true
			}
			fp, ok1 := fv.(*ssa.Phi)
			rp, ok2 := rv.(*ssa.Phi)
			if !ok1 || !ok2 || fp.Block() != rp.Block() || fp.Block() == l.Header || len(fp.Edges) != len(rp.Edges) {
				return false
			}
			if seen[fp] {
				return true
			}
			seen[fp] = true
			for i := range fp.Edges {
				if !pairOK(fp.Edges[i], rp.Edges[i]) {
					return false
				}
			}
			return true
		}
		okAll, n := true, 0
		for i := range flag.Edges {
			if !l.Blocks[l.Header.Preds[i]] {
				continue
			}
			n++
			if !pairOK(flag.Edges[i], rest.Edges[i]) {
				okAll = false
				break
			}
		}
		if okAll && n > 0 {
			return true, fmt.Sprintf("on every way round either %s becomes false or %s loses at least one element", phiName(flag), phiName(rest))
		}
	}
	return false, ""
}

// cuttingFunction: g returns (…, after, …, found, …) with found (result kf) a constant on every return, and found=true
// only together with after = s[i+k:] for a string parameter s, k ≥ 1 and i known to be non-negative there.
func cuttingFunction(c *Ctx, g *ssa.Function, kf int) (ps, ka int, ok bool) {
	if g == nil || len(g.Blocks) == 0 || !c.P.InModule(g) {
		return 0, 0, false
	}
	type rk struct{ ps, ka int }
	memo := c.Memo(fmt.Sprintf("cuttingFunction:%s:%d", g.String(), kf), func() interface{} {
		ps, ka := -1, -1
		trues := 0
		ff := Facts(c, g)
		for _, b := range g.Blocks {
			ret, isRet := b.Instrs[len(b.Instrs)-1].(*ssa.Return)
			if !isRet {
				continue
			}
			if kf >= len(ret.Results) {
				return rk{-1, -1}
			}
			found, isK := constBool(ret.Results[kf])
			if !isK {
				return rk{-1, -1}
			}
			if !found {
				continue
			}
			trues++
			hit := false
			for ri, r := range ret.Results {
				sl, isSl := r.(*ssa.Slice)
				if !isSl || sl.High != nil || sl.Low == nil {
					continue
				}
				p, isP := sl.X.(*ssa.Parameter)
				if !isP || !isStringType(p.Type()) {
					continue
				}
				t := termOf(sl.Low)
				if t.base == nil || t.k < 1 {
					continue
				}
				// the index is known to be non-negative where the function returns
				if !nonNegAt(ff, b, t.base) {
					continue
				}
				pi := -1
				for j, q := range g.Params {
					if q == p {
						pi = j
					}
				}
				if pi < 0 || (ps >= 0 && (ps != pi || ka != ri)) {
					continue
				}
				ps, ka = pi, ri
				hit = true
			}
			if !hit {
				return rk{-1, -1}
			}
		}
		if trues == 0 {
			return rk{-1, -1}
		}
		return rk{ps, ka}
	}).(rk)
	return memo.ps, memo.ka, memo.ps >= 0
}

// scanStartParam: the int parameter a search function starts scanning from — its non-negative results are values of a
// loop counter that starts at that parameter and only increases.
func scanStartParam(c *Ctx, g *ssa.Function) (int, bool) {
	if g == nil || len(g.Blocks) == 0 {
		return 0, false
	}
	start := -1
	for _, b := range g.Blocks {
		ret, ok := b.Instrs[len(b.Instrs)-1].(*ssa.Return)
		if !ok {
			continue
		}
		if _, isK := constInt(ret.Results[0]); isK {
			continue
		}
		phi, ok := ret.Results[0].(*ssa.Phi)
		if !ok {
			return 0, false
		}
		found := -1
		for i, e := range phi.Edges {
			pred := phi.Block().Preds[i]
			if phi.Block().Dominates(pred) {
				// back edge: counter + positive constant
				if t := termOf(e); t.base != ssa.Value(phi) || t.k < 1 {
					return 0, false
				}
				continue
			}
			p, isP := e.(*ssa.Parameter)
			if !isP {
				return 0, false
			}
			for j, q := range g.Params {
				if q == p {
					found = j
				}
			}
		}
		if found < 0 || (start >= 0 && start != found) {
			return 0, false
		}
		start = found
	}
	return start, start >= 0
}

func countedLoop(l *ssaLoop) (bool, string) {
	for b := range l.Blocks {
		iff, ok := lastIf(b)
		if !ok {
			continue
		}
		in0, in1 := l.Blocks[b.Succs[0]], l.Blocks[b.Succs[1]]
		if in0 == in1 {
			continue
		}
		bo, ok := iff.Cond.(*ssa.BinOp)
		if !ok {
			continue
		}
		op := bo.Op
		if !in0 { // the loop continues on the false edge: continuing condition is the negation
			var okN bool
			op, okN = relOf(op, false)
			if !okN {
				continue
			}
		}
		for _, pr := range []struct {
			a, b ssa.Value
			op   token.Token
		}{{bo.X, bo.Y, op}, {bo.Y, bo.X, mirror(op)}} {
			t := termOf(pr.a)
			phi, isPhi := t.base.(*ssa.Phi)
			if !isPhi || phi.Block() != l.Header {
				continue
			}
			if !definedOutside(pr.b, l) {
				continue
			}
			sg := stepSign(phi, l)
			switch {
			case sg > 0 && (pr.op == token.LSS || pr.op == token.LEQ):
				return true, fmt.Sprintf("%s increases and the loop continues only while it is below an invariant bound", phi.Comment)
			case sg < 0 && (pr.op == token.GTR || pr.op == token.GEQ):
				return true, fmt.Sprintf("%s decreases and the loop continues only while it is above an invariant bound", phi.Comment)
			case sg != 0 && pr.op == token.NEQ:
				// exact hit: constant start and bound on the right side of the step
				bnd, okB := constInt(pr.b)
				var start int64
				okS := false
				for i, e := range phi.Edges {
					if !l.Blocks[phi.Block().Preds[i]] {
						start, okS = constInt(e)
					}
				}
				if okB && okS && ((sg < 0 && start >= bnd) || (sg > 0 && start <= bnd)) {
					// one constant step on every back edge, dividing the distance: the bound is hit exactly
					step := int64(0)
					same := true
					for i, e := range phi.Edges {
						if l.Blocks[phi.Block().Preds[i]] {
							tt := termOf(e)
							if tt.base != ssa.Value(phi) || tt.k == 0 || (step != 0 && tt.k != step) {
								same = false
							}
							step = tt.k
						}
					}
					if same && step != 0 && (bnd-start)%step == 0 {
						return true, fmt.Sprintf("%s moves by %d from %d and hits %d exactly", phi.Comment, step, start, bnd)
					}
				}
			}
		}
	}
	return false, ""
}

// cursorLoop: the loop continues while !c.eof; every cycle through the header advances c; no rewind of c on a cycle.
func cursorLoop(c *Ctx, f *ssa.Function, l *ssaLoop) (bool, string) {
	var cursor ssa.Value
	for b := range l.Blocks {
		iff, ok := lastIf(b)
		if !ok {
			continue
		}
		in0, in1 := l.Blocks[b.Succs[0]], l.Blocks[b.Succs[1]]
		if in0 == in1 {
			continue
		}
		for _, nf := range normFact(iff.Cond, in0) {
			if x, ok := loadOfField(nf.Cond, "inputString:eof"); ok && !nf.Val {
				cursor = x
			}
		}
	}
	if cursor == nil {
		return false, ""
	}
	sm := BuildSM(c)
	cls := map[string]string{}
	if sm.An != nil {
		cls = sm.An.cursorClass
	}
	ff := Facts(c, f)
	adv := map[*ssa.BasicBlock]bool{}
	rew := map[*ssa.BasicBlock]bool{}
	for b := range l.Blocks {
		for _, ins := range b.Instrs {
			call, ok := ins.(*ssa.Call)
			if !ok {
				continue
			}
			cl := call.Common().StaticCallee()
			if cl == nil || namedOf(recvType(cl)) != "inputString" || call.Common().Args[0] != cursor {
				continue
			}
			switch cls[cl.Name()] {
			case "advance":
				adv[b] = true
			case "rewind":
				rew[b] = true
			}
		}
	}
	// reachability inside the loop over feasible edges
	reachHeader := func(from *ssa.BasicBlock, skip map[*ssa.BasicBlock]bool, startSucc bool) bool {
		seen := map[*ssa.BasicBlock]bool{}
		var work []*ssa.BasicBlock
		push := func(b *ssa.BasicBlock) {
			for i, s := range b.Succs {
				if !ff.feasible[b][i] || !l.Blocks[s] {
					continue
				}
				if s == l.Header {
					work = append(work, s)
					continue
				}
				if skip[s] || seen[s] {
					continue
				}
				seen[s] = true
				work = append(work, s)
			}
		}
		push(from)
		for len(work) > 0 {
			b := work[len(work)-1]
			work = work[:len(work)-1]
			if b == l.Header {
				return true
			}
			push(b)
		}
		return false
	}
	// (1) without advancing blocks the header cannot reach itself
	if adv[l.Header] {
		// the header itself advances: fine
	} else if reachHeader(l.Header, adv, true) {
		return false, "a cycle through the loop header does not advance the cursor"
	}
	// (2) no rewinding block can return to the header
	for b := range rew {
		if b == l.Header || reachHeader(b, nil, true) {
			return false, "a path that rewinds the cursor returns to the loop header"
		}
	}
	return true, "every cycle through the header calls an advancing method of the cursor; rewinds lie only on paths that leave the loop"
}

// ---- must-be-non-nil dataflow for the nullable URL components ----

type nnKey struct {
	base ssa.Value
	el   string
}

type nnResult struct {
	c   *Ctx
	f   *ssa.Function
	in  map[*ssa.BasicBlock]map[nnKey]bool
	top map[*ssa.BasicBlock]bool
}

func nnCopy(m map[nnKey]bool) map[nnKey]bool {
	o := make(map[nnKey]bool, len(m))
	for k, v := range m {
		if v {
			o[k] = true
		}
	}
	return o
}

// overrideNullable: which nullable components a BasicParser run under the given state override may set to nil.
func overrideNullable(c *Ctx, override int64) map[string]bool {
	sm := BuildSM(c)
	out := map[string]bool{}
	if sm.An == nil {
		for el := range nullableUrlFields {
			out[el] = true
		}
		return out
	}
	found := false
	for _, cx := range sm.Contexts {
		if cx.OverrideVal != override || (override == 0) != (cx.Override == "") {
			continue
		}
		found = true
		for _, p := range sm.Paths[cx.Name] {
			for _, e := range p.Effects {
				if !nullableUrlFields["Url:"+e.Field] {
					continue
				}
				switch e.Kind {
				case "value", "fresh", "deref":
				default:
					out["Url:"+e.Field] = true
				}
			}
		}
	}
	if !found {
		for el := range nullableUrlFields {
			out[el] = true
		}
	}
	return out
}

func (r *nnResult) transfer(st map[nnKey]bool, ins ssa.Instruction) {
	switch x := ins.(type) {
	case *ssa.Store:
		fa, ok := x.Addr.(*ssa.FieldAddr)
		if !ok {
			return
		}
		el := fieldElem(fa.X.Type(), fa.Field)
		if !nullableUrlFields[el] {
			return
		}
		k := nnKey{fa.X, el}
		switch v := x.Val.(type) {
		case *ssa.Alloc:
			st[k] = true
		case *ssa.Call:
			// the answer of a function every return of which is a fresh object (`cloneFor`, a constructor)
			if g := v.Common().StaticCallee(); g != nil && returnsFreshOnly(g, 0) {
				st[k] = true
			} else {
				delete(st, k)
			}
		case *ssa.UnOp:
			// copy of another component known to be non-nil
			if fa2, ok := v.X.(*ssa.FieldAddr); ok && st[nnKey{fa2.X, fieldElem(fa2.X.Type(), fa2.Field)}] {
				st[k] = true
			} else {
				delete(st, k)
			}
		default:
			delete(st, k)
		}
		// the same field of other bases may alias: a store through another base value kills nothing else (distinct
		// SSA bases are distinct variables; aliasing objects would only make a non-nil claim about the other stale
		// if this store wrote nil)
		if _, isAlloc := x.Val.(*ssa.Alloc); !isAlloc && !st[k] {
			for k2 := range st {
				if nnPlainEl(k2.el) == el && (k2.base != fa.X || k2.el != el) {
					delete(st, k2)
				}
			}
		}
	case ssa.CallInstruction:
		com := x.Common()
		if _, ok := com.Value.(*ssa.Builtin); ok {
			return
		}
		kill := map[string]bool{}
		e := BuildEff(r.c)
		for _, cl := range r.c.P.Callees(r.f, x) {
			if cl.Name() == "BasicParser" && namedOf(recvType(cl)) == "parser" {
				args := com.Args
				if ov, ok := constInt(args[len(args)-1]); ok {
					for el := range overrideNullable(r.c, ov) {
						kill[el] = true
					}
					continue
				}
			}
			// a helper that only forwards one of its parameters as the state override of a BasicParser call
			if j, ok := forwardsOverride(r.c, cl); ok && j < len(com.Args) {
				if ov, ok := constInt(com.Args[j]); ok {
					for el := range overrideNullable(r.c, ov) {
						kill[el] = true
					}
					continue
				}
			}
			sum := e.Sum(cl)
			if sum == nil {
				continue
			}
			for m := range sum.Mut {
				for _, pe := range pathElems(m) {
					if nullableUrlFields[pe] {
						kill[pe] = true
					}
				}
			}
		}
		if com.IsInvoke() && com.Method.Name() == "BasicParser" {
			if ov, ok := constInt(com.Args[len(com.Args)-1]); ok {
				kill = map[string]bool{}
				for el := range overrideNullable(r.c, ov) {
					kill[el] = true
				}
			}
		}
		for k := range st {
			if kill[nnPlainEl(k.el)] {
				delete(st, k)
			}
		}
	}
}

// A conditional fact "if the boolean φ is true, base.el is non-nil" is kept in the same state under the element name
// "cond:<φ>:<el>" (withFragment := !exclude && u.fragment != nil … if withFragment { *u.fragment }): it is killed with
// the component it talks about and becomes a plain fact on the true edge of a branch on φ.
func nnPlainEl(el string) string {
	if strings.HasPrefix(el, "cond:") {
		if i := strings.Index(el[5:], ":"); i >= 0 {
			return el[5+i+1:]
		}
	}
	return el
}

func nnCondEl(phi *ssa.Phi, el string) string { return "cond:" + phi.Name() + ":" + el }

// forwardsOverride: a small module function whose only mutating call is one BasicParser call whose state override is
// one of the function's own parameters; returns that parameter's index.
func forwardsOverride(c *Ctx, f *ssa.Function) (int, bool) {
	if f == nil || len(f.Blocks) == 0 || len(f.Blocks) > 4 || !c.P.InModule(f) {
		return 0, false
	}
	e := BuildEff(c)
	idx, n := -1, 0
	for _, b := range f.Blocks {
		for _, ins := range b.Instrs {
			ci, ok := ins.(ssa.CallInstruction)
			if !ok {
				continue
			}
			com := ci.Common()
			if _, isB := com.Value.(*ssa.Builtin); isB {
				continue
			}
			name := ""
			if cl := com.StaticCallee(); cl != nil {
				name = cl.Name()
			} else if com.IsInvoke() {
				name = com.Method.Name()
			}
			if name == "BasicParser" {
				n++
				p, isP := com.Args[len(com.Args)-1].(*ssa.Parameter)
				if !isP {
					return 0, false
				}
				for i, q := range f.Params {
					if q == p {
						idx = i
					}
				}
				continue
			}
			for _, cl := range c.P.Callees(f, ci) {
				if sum := e.Sum(cl); sum == nil || len(sum.Mut) > 0 {
					return 0, false
				}
			}
		}
	}
	return idx, n == 1 && idx >= 0
}

// nnEntryFacts: what is known non-nil on entry to an unexported function that is only ever called statically — the
// components that are non-nil at every one of its call sites (of the object handed in as the same parameter).
var nnInProgress = map[*ssa.Function]bool{}

func nnEntryFacts(c *Ctx, f *ssa.Function) map[nnKey]bool {
	out := map[nnKey]bool{}
	ix := sitesOf(c)
	if f.Parent() != nil || ix.taken[f] || len(ix.sites[f]) == 0 || (f.Object() != nil && f.Object().Exported()) {
		return out
	}
	if nnInProgress[f] || len(nnInProgress) > 3 {
		return out
	}
	nnInProgress[f] = true
	defer delete(nnInProgress, f)
	first := true
	for _, cs := range ix.sites[f] {
		if nnInProgress[cs.Fn] {
			return map[nnKey]bool{}
		}
		ra := nonNilAnalysis(c, cs.Fn)
		idx := -1
		for i, ins := range cs.Call.Block().Instrs {
			if ins == ssa.Instruction(cs.Call) {
				idx = i
			}
		}
		if idx < 0 || !Facts(c, cs.Fn).Reachable(cs.Call.Block()) {
			continue
		}
		st := ra.at(cs.Call.Block(), idx)
		here := map[nnKey]bool{}
		for i, p := range f.Params {
			if i >= len(cs.Call.Common().Args) {
				continue
			}
			arg := cs.Call.Common().Args[i]
			for k, v := range st {
				if v && k.base == arg {
					here[nnKey{p, k.el}] = true
				}
			}
		}
		if first {
			out, first = here, false
		} else {
			for k := range out {
				if !here[k] {
					delete(out, k)
				}
			}
		}
	}
	if first {
		return map[nnKey]bool{}
	}
	return out
}

func nonNilAnalysis(c *Ctx, f *ssa.Function) *nnResult {
	return c.Memo("nonnil:"+f.String(), func() interface{} {
		r := &nnResult{c: c, f: f, in: map[*ssa.BasicBlock]map[nnKey]bool{}, top: map[*ssa.BasicBlock]bool{}}
		ff := Facts(c, f)
		for _, b := range f.Blocks {
			r.top[b] = true
		}
		if len(f.Blocks) == 0 {
			return r
		}
		r.top[f.Blocks[0]] = false
		r.in[f.Blocks[0]] = nnEntryFacts(c, f)
		out := func(b *ssa.BasicBlock, succIdx int) (map[nnKey]bool, bool) {
			if r.top[b] {
				return nil, false
			}
			st := nnCopy(r.in[b])
			for _, ins := range b.Instrs {
				r.transfer(st, ins)
			}
			if iff, ok := lastIf(b); ok {
				for _, nf := range normFact(iff.Cond, succIdx == 0) {
					if phi, isPhi := nf.Cond.(*ssa.Phi); isPhi && nf.Val {
						pre := "cond:" + phi.Name() + ":"
						for k := range st {
							if strings.HasPrefix(k.el, pre) {
								st[nnKey{k.base, strings.TrimPrefix(k.el, pre)}] = true
							}
						}
					}
					bo, ok := nf.Cond.(*ssa.BinOp)
					if !ok || (bo.Op != token.EQL && bo.Op != token.NEQ) {
						continue
					}
					for _, pr := range [][2]ssa.Value{{bo.X, bo.Y}, {bo.Y, bo.X}} {
						if !isNilConst(pr[1]) {
							continue
						}
						if ld, ok := pr[0].(*ssa.UnOp); ok && ld.Op == token.MUL {
							if fa, ok := ld.X.(*ssa.FieldAddr); ok {
								el := fieldElem(fa.X.Type(), fa.Field)
								if nullableUrlFields[el] && (bo.Op == token.NEQ) == nf.Val {
									st[nnKey{fa.X, el}] = true
								}
							}
						}
					}
				}
			}
			// merged booleans of the successor: what their being true will mean
			if succIdx < len(b.Succs) {
				succ := b.Succs[succIdx]
				pi := -1
				for i, pb := range succ.Preds {
					if pb == b {
						pi = i
					}
				}
				for _, ins := range succ.Instrs {
					phi, ok := ins.(*ssa.Phi)
					if !ok {
						break
					}
					if bt, ok := phi.Type().Underlying().(*types.Basic); !ok || bt.Kind() != types.Bool || pi < 0 {
						continue
					}
					// targets named by the nil tests among the edges
					var targets []nnKey
					for _, e := range phi.Edges {
						if k, ok := nnNilTestTarget(e); ok {
							targets = append(targets, k)
						}
					}
					ev := phi.Edges[pi]
					if kb, isK := constBool(ev); isK && !kb {
						for _, t := range targets {
							st[nnKey{t.base, nnCondEl(phi, t.el)}] = true
						}
					} else if t, ok := nnNilTestTarget(ev); ok && st[t] {
						// (the test's own load sits in b: the component is known non-nil on this edge exactly when the
						// test came out true, which is when the merged boolean takes that value)
						st[nnKey{t.base, nnCondEl(phi, t.el)}] = true
					} else if t, ok := nnNilTestTarget(ev); ok {
						st[nnKey{t.base, nnCondEl(phi, t.el)}] = true
					} else if p2, isPhi := ev.(*ssa.Phi); isPhi {
						pre := "cond:" + p2.Name() + ":"
						for k := range st {
							if strings.HasPrefix(k.el, pre) {
								st[nnKey{k.base, nnCondEl(phi, strings.TrimPrefix(k.el, pre))}] = true
							}
						}
					}
				}
			}
			return st, true
		}
		for changed, rounds := true, 0; changed && rounds < 100; rounds++ {
			changed = false
			for _, b := range f.Blocks {
				if b == f.Blocks[0] || !ff.Reachable(b) {
					continue
				}
				var meet map[nnKey]bool
				have := false
				for _, p := range b.Preds {
					for si, s := range p.Succs {
						if s != b || !ff.feasible[p][si] || !ff.Reachable(p) {
							continue
						}
						o, ok := out(p, si)
						if !ok {
							continue
						}
						if !have {
							meet, have = o, true
						} else {
							for k := range meet {
								if !o[k] {
									delete(meet, k)
								}
							}
						}
					}
				}
				if !have {
					continue
				}
				if r.top[b] || len(meet) != len(r.in[b]) {
					r.top[b] = false
					r.in[b] = meet
					changed = true
				} else {
					for k := range meet {
						if !r.in[b][k] {
							r.in[b] = meet
							changed = true
							break
						}
					}
				}
			}
		}
		return r
	}).(*nnResult)
}

// nnNilTestTarget: v is `base.el != nil` for a nullable component.
func nnNilTestTarget(v ssa.Value) (nnKey, bool) {
	bo, ok := v.(*ssa.BinOp)
	if !ok || bo.Op != token.NEQ {
		return nnKey{}, false
	}
	for _, pr := range [][2]ssa.Value{{bo.X, bo.Y}, {bo.Y, bo.X}} {
		if !isNilConst(pr[1]) {
			continue
		}
		if ld, ok := pr[0].(*ssa.UnOp); ok && ld.Op == token.MUL {
			if fa, ok := ld.X.(*ssa.FieldAddr); ok {
				el := fieldElem(fa.X.Type(), fa.Field)
				if nullableUrlFields[el] {
					return nnKey{fa.X, el}, true
				}
			}
		}
	}
	return nnKey{}, false
}

// at returns the facts holding right before instruction idx of block b.
func (r *nnResult) at(b *ssa.BasicBlock, idx int) map[nnKey]bool {
	if r.top[b] {
		return map[nnKey]bool{}
	}
	st := nnCopy(r.in[b])
	for i := 0; i < idx && i < len(b.Instrs); i++ {
		r.transfer(st, b.Instrs[i])
	}
	return st
}

// loadOfAnyField: v is *(&p.<field>) for the given parameter p.
func loadOfAnyField(v ssa.Value, p *ssa.Parameter) (string, bool) {
	ld, ok := v.(*ssa.UnOp)
	if !ok || ld.Op != token.MUL {
		return "", false
	}
	fa, ok := ld.X.(*ssa.FieldAddr)
	if !ok || fa.X != ssa.Value(p) {
		return "", false
	}
	return fieldElem(fa.X.Type(), fa.Field), true
}

// returnsFreshOnly: every return of g (single pointer result) is an allocation made in g, or the answer of a function
// of which the same holds.
func returnsFreshOnly(g *ssa.Function, depth int) bool {
	if g == nil || len(g.Blocks) == 0 || depth > 2 || g.Signature.Results().Len() != 1 {
		return false
	}
	n := 0
	for _, b := range g.Blocks {
		r, ok := b.Instrs[len(b.Instrs)-1].(*ssa.Return)
		if !ok {
			continue
		}
		n++
		switch v := r.Results[0].(type) {
		case *ssa.Alloc:
		case *ssa.Call:
			if !returnsFreshOnly(v.Common().StaticCallee(), depth+1) {
				return false
			}
		default:
			return false
		}
	}
	return n > 0
}
