package rules

// PF-errnil: a pointer or interface that came with an error (or with an ok flag) is only dereferenced where the
// companion says it is there.
//
//	b, err := p.Parse(raw)       m, ok := err.(failure)
//	…                            …
//	b.Parse(ref)                 m.Failure()
//
// The module's functions return a nil pointer together with a non-nil error (SM-result for the parser; the same
// convention everywhere else), and the value of a failed comma-ok assertion is nil: a method call or field access
// through it panics. The rule finds every such use and requires the branch facts on the way to it to establish
// `err == nil` / `ok` / `v != nil` — per incoming edge when the value is a phi, and through phi pairs
// (`b, err = retry()` inside the error branch keeps b and err in step).

import (
	"fmt"
	"go/token"
	"go/types"

	"golang.org/x/tools/go/ssa"

	"wucheck/core"
)

type companion struct {
	v      ssa.Value
	isErr  bool // companion is an error that must be nil; otherwise a bool that must be true
	source string
}

// neverNil: every return of f yields, at result index k, a value that cannot be nil.
func neverNilResult(f *ssa.Function, k int) bool {
	if len(f.Blocks) == 0 {
		return false
	}
	for _, b := range f.Blocks {
		r, ok := b.Instrs[len(b.Instrs)-1].(*ssa.Return)
		if !ok || k >= len(r.Results) {
			continue
		}
		switch x := r.Results[k].(type) {
		case *ssa.Alloc, *ssa.MakeInterface, *ssa.MakeMap, *ssa.MakeSlice, *ssa.MakeClosure, *ssa.FieldAddr, *ssa.IndexAddr:
		case *ssa.Parameter:
			_ = x // a receiver handed back: as good as the caller's own value
		default:
			return false
		}
	}
	return true
}

func derefable(t types.Type) bool {
	switch t.Underlying().(type) {
	case *types.Pointer, *types.Interface:
		return true
	}
	return false
}

// companionOf finds the error / ok value that tells whether v is there.
func companionOf(c *Ctx, v ssa.Value, depth int) *companion {
	if depth > 6 {
		return nil
	}
	switch x := v.(type) {
	case *ssa.Extract:
		switch t := x.Tuple.(type) {
		case *ssa.Call:
			sig := t.Common().Signature()
			res := sig.Results()
			ei := -1
			for i := 0; i < res.Len(); i++ {
				if types.Identical(res.At(i).Type(), types.Universe.Lookup("error").Type()) {
					ei = i
				}
			}
			if ei < 0 || ei == x.Index {
				return nil
			}
			cls := c.P.Callees(t.Parent(), t)
			if len(cls) == 0 {
				return nil
			}
			never := true
			for _, cl := range cls {
				if !c.P.InModule(cl) {
					return nil // foreign conventions are not ours to state
				}
				if !neverNilResult(cl, x.Index) {
					never = false
				}
			}
			if never {
				return nil
			}
			cl := cls[0]
			for _, r := range *t.Referrers() {
				if e, ok := r.(*ssa.Extract); ok && e.Index == ei {
					return &companion{v: e, isErr: true, source: "the error of " + core.FuncName(cl)}
				}
			}
			return &companion{v: nil, isErr: true, source: "the (discarded) error of " + core.FuncName(cl)}
		case *ssa.TypeAssert:
			if t.CommaOk && x.Index == 0 {
				for _, r := range *t.Referrers() {
					if e, ok := r.(*ssa.Extract); ok && e.Index == 1 {
						return &companion{v: e, source: "the ok of the type assertion"}
					}
				}
				return &companion{v: nil, source: "the (discarded) ok of the type assertion"}
			}
		case *ssa.Lookup:
			if t.CommaOk && x.Index == 0 {
				for _, r := range *t.Referrers() {
					if e, ok := r.(*ssa.Extract); ok && e.Index == 1 {
						return &companion{v: e, source: "the ok of the map lookup"}
					}
				}
			}
		}
	case *ssa.Phi:
		// a phi pair: some phi of the same block merges the companions edge by edge
		var cs []*companion
		for _, e := range x.Edges {
			cp := companionOf(c, e, depth+1)
			if cp == nil || cp.v == nil {
				return nil
			}
			cs = append(cs, cp)
		}
		for _, ins := range x.Block().Instrs {
			p2, ok := ins.(*ssa.Phi)
			if !ok {
				break
			}
			if p2 == x {
				continue
			}
			match := true
			for i := range x.Edges {
				if p2.Edges[i] != cs[i].v {
					match = false
				}
			}
			if match {
				return &companion{v: p2, isErr: cs[0].isErr, source: cs[0].source}
			}
		}
	}
	return nil
}

// factsSay: the facts establish that the companion allows the use, or that v itself is non-nil.
func factsSay(facts []condFact, v ssa.Value, cp *companion) bool {
	for _, f := range facts {
		if bo, ok := f.Cond.(*ssa.BinOp); ok && (bo.Op == token.EQL || bo.Op == token.NEQ) {
			for _, pr := range [][2]ssa.Value{{bo.X, bo.Y}, {bo.Y, bo.X}} {
				if !isNilConst(pr[1]) {
					continue
				}
				isNil := (bo.Op == token.EQL) == f.Val
				if pr[0] == v && !isNil {
					return true
				}
				if cp != nil && cp.isErr && cp.v != nil && pr[0] == cp.v && isNil {
					return true
				}
			}
		}
		if cp != nil && !cp.isErr && cp.v != nil && f.Cond == cp.v && f.Val {
			return true
		}
	}
	return false
}

// edgeFacts: the facts that hold when control passes from p to its successor s.
func edgeFacts(ff *fnFacts, p, s *ssa.BasicBlock) []condFact {
	out := append([]condFact(nil), ff.At(p)...)
	if iff, ok := lastIf(p); ok && len(p.Succs) == 2 && p.Succs[0] != p.Succs[1] {
		for i, sc := range p.Succs {
			if sc == s {
				out = append(out, normFact(iff.Cond, i == 0)...)
			}
		}
	}
	return out
}

// presentAt: is v known to be there under the facts? (nil result: not a value with a companion at all)
func presentAt(c *Ctx, ff *fnFacts, v ssa.Value, facts []condFact, depth int) (known bool, has bool, why string) {
	cp := companionOf(c, v, 0)
	if cp != nil {
		if factsSay(facts, v, cp) {
			return true, true, ""
		}
		if _, isPhi := v.(*ssa.Phi); !isPhi {
			return false, true, cp.source
		}
	}
	if factsSay(facts, v, nil) {
		return true, cp != nil, ""
	}
	if p, ok := v.(*ssa.Phi); ok && depth < 6 {
		any := false
		for i, e := range p.Edges {
			if i >= len(p.Block().Preds) {
				break
			}
			pred := p.Block().Preds[i]
			if !ff.Reachable(pred) {
				continue
			}
			k, h, w := presentAt(c, ff, e, edgeFacts(ff, pred, p.Block()), depth+1)
			if h {
				any = true
				if !k {
					return false, true, w
				}
			}
		}
		if any {
			return true, true, ""
		}
	}
	return true, false, ""
}

func init() {
	register(&Rule{
		Name:  "PF-errnil",
		Doc:   "a pointer or interface obtained together with an error from a function of the module, or as the value of a comma-ok type assertion or map lookup, is dereferenced (method call, field access, load) only where the branch facts establish err == nil / ok / value != nil - per incoming edge for merged values, and through value/error phi pairs",
		Props: []string{"C02"},
		Floor: 5,
		Run: func(c *Ctx, s *core.Sink) {
			for _, f := range c.P.ModFns {
				if len(f.Blocks) == 0 {
					continue
				}
				var ff *fnFacts
				n := map[string]int{}
				for _, b := range f.Blocks {
					for _, ins := range b.Instrs {
						var used ssa.Value
						switch x := ins.(type) {
						case *ssa.Call:
							com := x.Common()
							if com.IsInvoke() {
								used = com.Value
							} else if cl := com.StaticCallee(); cl != nil && cl.Signature.Recv() != nil && len(com.Args) > 0 {
								if _, isPtr := cl.Signature.Recv().Type().Underlying().(*types.Pointer); isPtr {
									used = com.Args[0]
								}
							}
						case *ssa.FieldAddr:
							used = x.X
						case *ssa.UnOp:
							if x.Op == token.MUL {
								used = x.X
							}
						}
						var cands []ssa.Value
						if used != nil {
							cands = append(cands, used)
						}
						// handed to a function of the module that dereferences the parameter without testing it
						if call, ok := ins.(*ssa.Call); ok && !call.Common().IsInvoke() {
							if cl := call.Common().StaticCallee(); cl != nil && c.P.InModule(cl) && len(cl.Blocks) > 0 {
								for i, a := range call.Common().Args {
									if a != used && i < len(cl.Params) && derefable(a.Type()) && derefsParam(cl, cl.Params[i]) {
										cands = append(cands, a)
									}
								}
							}
						}
						for _, used := range cands {
							if !derefable(used.Type()) {
								continue
							}
							switch used.(type) {
							case *ssa.Extract, *ssa.Phi:
							default:
								continue
							}
							if ff == nil {
								ff = Facts(c, f)
							}
							if !ff.Reachable(b) {
								continue
							}
							known, has, why := presentAt(c, ff, used, ff.At(b), 0)
							if !has {
								continue
							}
							base := fmt.Sprintf("errnil/%s/%s", core.FuncName(f), nameOfValue(used))
							n[base]++
							key := fmt.Sprintf("%s#%d", base, n[base])
							if known {
								s.OK(key, c.P.Pos(ins.Pos()), "used only where its companion says it is there")
							} else {
								s.Bad(key, c.P.Pos(ins.Pos()), "the value is used although "+why+" was not checked on this path: nil dereference when the call failed / the assertion did not hold")
							}
						}
					}
				}
			}
		},
	})
}

// derefsParam: the function accesses a field of, loads through or calls a method on the parameter, and never
// compares it with nil.
func derefsParam(f *ssa.Function, p *ssa.Parameter) bool {
	derefs := false
	for _, r := range *p.Referrers() {
		switch x := r.(type) {
		case *ssa.FieldAddr:
			derefs = true
		case *ssa.UnOp:
			if x.Op == token.MUL {
				derefs = true
			}
		case *ssa.Call:
			if x.Common().IsInvoke() && x.Common().Value == ssa.Value(p) {
				derefs = true
			} else if cl := x.Common().StaticCallee(); cl != nil && cl.Signature.Recv() != nil && len(x.Common().Args) > 0 && x.Common().Args[0] == ssa.Value(p) {
				derefs = true
			}
		case *ssa.BinOp:
			if isNilConst(x.X) || isNilConst(x.Y) {
				return false
			}
		}
	}
	return derefs
}

// nameOfValue gives a stable, readable name for the value at a use: the source variable when there is one.
func nameOfValue(v ssa.Value) string {
	switch x := v.(type) {
	case *ssa.Phi:
		if x.Comment != "" {
			return x.Comment
		}
	case *ssa.Extract:
		switch t := x.Tuple.(type) {
		case *ssa.Call:
			if cl := t.Common().StaticCallee(); cl != nil {
				return "result of " + cl.Name()
			}
		case *ssa.TypeAssert:
			return "asserted " + types.TypeString(t.AssertedType, func(*types.Package) string { return "" })
		}
	}
	return "value"
}
