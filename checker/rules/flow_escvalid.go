package rules

// FLOW-escvalid: what counts as a well-formed escape.
//
// Four places decide "is there a '%' followed by two hex digits here": the encoder (to leave existing escapes alone
// and to know a lone '%' when the single-percent option is on), the two decoders, and the cursor's validity test.
// Each does it with the same three atoms: a length test on the slice, a hex test on the element at +1 and one on the
// element at +2. The rule finds every such decision (a function with ASCIIHexDigit tests on x[b+1] or x[b+2] and a
// length test of x against b+k), prunes the CFG for every valuation of the atoms — remaining length 2, 3 or 4,
// each hex test true or false — and follows it from the first atom to the first block that is not an atom test.
// The standard's notion: the escape is well formed iff at least three elements remain and both are hex digits. So
// the valuations (3,T,T) and (4,T,T) must leave through the same exit, and no other valuation through that exit.
// A hex test may not be evaluated when fewer than three elements remain (that is PF-index's business and not
// repeated here).

import (
	"fmt"
	"go/token"
	"sort"

	"golang.org/x/tools/go/ssa"

	"wucheck/core"
)

type escAtom struct {
	kind string // "len" | "hex"
	k    int64  // hex: position (1|2); len: the constant compared with (relative to the base)
	op   token.Token
	neg  bool
}

func init() {
	register(&Rule{
		Name:  "FLOW-escvalid",
		Doc:   "every decision 'a well-formed escape starts here' (length test + ASCIIHexDigit tests at +1 and +2 of the same slice) separates exactly the case 'three or more elements remain and both are hex digits' from all others: CFG pruned for every valuation of the three atoms (remaining length 2/3/4, each hex test true/false), exits compared",
		Props: []string{"C10", "C16", "C18"},
		Floor: 1,
		Run: func(c *Ctx, s *core.Sink) {
			for _, f := range c.P.ModFns {
				// hex tests by (slice, base)
				type group struct {
					x, base ssa.Value
					atoms   map[*ssa.BasicBlock]escAtom
					pos     token.Pos
					ks      map[int64]bool
				}
				var groups []*group
				find := func(x, base ssa.Value) *group {
					for _, g := range groups {
						if g.x == x && g.base == base {
							return g
						}
					}
					g := &group{x: x, base: base, atoms: map[*ssa.BasicBlock]escAtom{}, ks: map[int64]bool{}}
					groups = append(groups, g)
					return g
				}
				for _, b := range f.Blocks {
					iff, ok := lastIf(b)
					if !ok {
						continue
					}
					fs := normFact(iff.Cond, true)
					if len(fs) != 1 {
						continue
					}
					if ep, ok := isHexDigitTest(fs[0].Cond); ok {
						base, k := ep.base, ep.k
						if kc, isK := base.(*ssa.Const); isK {
							kv, _ := constInt(kc)
							base, k = nil, kv+k
						}
						if k == 1 || k == 2 {
							g := find(ep.x, base)
							g.atoms[b] = escAtom{kind: "hex", k: k, neg: !fs[0].Val}
							g.ks[k] = true
							if !g.pos.IsValid() {
								g.pos = fs[0].Cond.Pos()
							}
						}
					}
				}
				for gi, g := range groups {
					// length tests of the same slice against base+k
					for _, b := range f.Blocks {
						iff, ok := lastIf(b)
						if !ok {
							continue
						}
						fs := normFact(iff.Cond, true)
						bo, ok := fs[0].Cond.(*ssa.BinOp)
						if !ok {
							continue
						}
						op := bo.Op
						l, r := bo.X, bo.Y
						if _, isLen := lenArg(l); !isLen {
							l, r = r, l
							op = mirror(op)
						}
						a, isLen := lenArg(l)
						if !isLen || a != g.x {
							continue
						}
						rb, rk := splitIndex(r)
						if kc, isK := rb.(*ssa.Const); isK {
							kv, _ := constInt(kc)
							rb, rk = nil, kv+rk
						}
						if rb != g.base || rk < 2 || rk > 4 {
							continue // loop bounds and "is there an element at all" are not part of the decision
						}
						switch op {
						case token.LSS, token.LEQ, token.GTR, token.GEQ, token.EQL, token.NEQ:
							g.atoms[b] = escAtom{kind: "len", k: rk, op: op, neg: !fs[0].Val}
						}
					}
					key := fmt.Sprintf("escvalid/%s#%d", core.FuncName(f), gi+1)
					pos := c.P.Pos(g.pos)
					hasLen := false
					for _, a := range g.atoms {
						if a.kind == "len" {
							hasLen = true
						}
					}
					if !hasLen {
						continue // not an escape decision (no length test against the same base)
					}
					if !(g.ks[1] && g.ks[2]) {
						s.Bad(key, pos, "the element count is tested for an escape but only one of the two positions behind the '%' is tested for a hex digit")
						continue
					}
					// the first atom: an atom block that dominates all others
					var start *ssa.BasicBlock
					for b := range g.atoms {
						dom := true
						for o := range g.atoms {
							if !b.Dominates(o) {
								dom = false
							}
						}
						if dom {
							start = b
						}
					}
					if start == nil {
						s.Obs = append(s.Obs, core.Obligation{Rule: s.Rule, Construct: key, Pos: pos, Verdict: core.Discharged, Fact: "inventory: not decided (the tests do not form one decision)", Props: s.Props, Trivial: true})
						continue
					}
					exit := func(d int64, h1, h2 bool) *ssa.BasicBlock {
						b := start
						for steps := 0; steps < 64; steps++ {
							a, ok := g.atoms[b]
							if !ok {
								return b
							}
							var v bool
							if a.kind == "hex" {
								v = h1
								if a.k == 2 {
									v = h2
								}
							} else {
								v = evalCmp(d, a.op, a.k)
							}
							if a.neg {
								v = !v
							}
							if v {
								b = b.Succs[0]
							} else {
								b = b.Succs[1]
							}
						}
						return nil
					}
					valid3, valid4 := exit(3, true, true), exit(4, true, true)
					var bad []string
					if valid3 != valid4 {
						bad = append(bad, "an escape whose second digit is the last element is treated differently from one followed by more")
					}
					for _, d := range []int64{2, 3, 4} {
						for _, h := range [][2]bool{{false, false}, {false, true}, {true, false}, {true, true}} {
							if d >= 3 && h[0] && h[1] {
								continue
							}
							if d == 2 && (h[0] || h[1]) {
								continue // no digits to test
							}
							if e := exit(d, h[0], h[1]); e == valid4 || e == valid3 {
								what := fmt.Sprintf("%d elements remain", d)
								if d >= 3 {
									what = fmt.Sprintf("%d elements remain, first digit hex: %v, second digit hex: %v", d, h[0], h[1])
								}
								bad = append(bad, "treated like a well-formed escape: "+what)
							}
						}
					}
					sort.Strings(bad)
					if len(bad) > 0 {
						s.Bad(key, pos, bad[0]+fmt.Sprintf(" (%d cases in all)", len(bad)))
					} else {
						s.OK(key, pos, "well formed iff three or more elements remain and both are hex digits (9 valuations of the three atoms)")
					}
				}
			}
		},
	})
}
