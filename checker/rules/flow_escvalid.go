package rules

// FLOW-escvalid: what counts as a well-formed escape.
//
// Four places decide "is there a '%' followed by two hex digits here": the encoder (to leave existing escapes alone
// and to know a lone '%' when the single-percent option is on), the two decoders, and the cursor's validity test.
// Each does it with the same three atoms: a length test on the slice, a hex test on the element at +1 and one on the
// element at +2. The rule finds every such decision (a function with ASCIIHexDigit tests on x[b+1] or x[b+2] and a
// length test of x against b+k), prunes the CFG for every valuation of the atoms — remaining length 2, 3 or 4,
// each hex test true or false — and follows it from the first atom to the first block that is not an atom test.
// The standard's notion: the escape is well formed iff at least three elements remain and both are hex digits. So
// the valuations (3,T,T) and (4,T,T) must leave through the same exit, and no other valuation through that exit.
// A hex test may not be evaluated when fewer than three elements remain (that is PF-index's business and not
// repeated here).

import (
	"fmt"
	"go/token"
	"sort"

	"golang.org/x/tools/go/ssa"

	"wucheck/core"
)

type escAtom struct {
	kind string // "len" | "hex"
	k    int64  // hex: position (1|2); len: the constant compared with (relative to the base)
	op   token.Token
	neg  bool
}

func init() {
	register(&Rule{
		Name:  "FLOW-escvalid",
		Doc:   "every decision 'a well-formed escape starts here' (length test + ASCIIHexDigit tests at +1 and +2 of the same slice) separates exactly the case 'three or more elements remain and both are hex digits' from all others: CFG pruned for every valuation of the three atoms (remaining length 2/3/4, each hex test true/false), exits compared",
		Props: []string{"C10", "C16", "C18"},
		Floor: 1,
		Run: func(c *Ctx, s *core.Sink) {
			for _, f := range c.P.ModFns {
				// the atoms, as values: hex tests of x[b+1] / x[b+2], length tests of x against b+k
				type group struct {
					x, base ssa.Value
					atoms   map[ssa.Value]escAtom
					pos     token.Pos
					ks      map[int64]bool
				}
				var groups []*group
				find := func(x, base ssa.Value) *group {
					for _, g := range groups {
						if g.x == x && g.base == base {
							return g
						}
					}
					g := &group{x: x, base: base, atoms: map[ssa.Value]escAtom{}, ks: map[int64]bool{}}
					groups = append(groups, g)
					return g
				}
				for _, b := range f.Blocks {
					for _, ins := range b.Instrs {
						call, ok := ins.(*ssa.Call)
						if !ok {
							continue
						}
						if ep, ok := isHexDigitTest(call); ok {
							base, k := ep.base, ep.k
							if kc, isK := base.(*ssa.Const); isK {
								kv, _ := constInt(kc)
								base, k = nil, kv+k
							}
							if k == 1 || k == 2 {
								g := find(ep.x, base)
								g.atoms[call] = escAtom{kind: "hex", k: k}
								g.ks[k] = true
								if !g.pos.IsValid() {
									g.pos = call.Pos()
								}
							}
						}
					}
				}
				for gi, g := range groups {
					for _, b := range f.Blocks {
						for _, ins := range b.Instrs {
							bo, ok := ins.(*ssa.BinOp)
							if !ok {
								continue
							}
							op := bo.Op
							l, r := bo.X, bo.Y
							if _, isLen := lenArg(l); !isLen {
								l, r = r, l
								op = mirror(op)
							}
							a, isLen := lenArg(l)
							if !isLen || a != g.x {
								continue
							}
							rb, rk := splitIndex(r)
							if kc, isK := rb.(*ssa.Const); isK {
								kv, _ := constInt(kc)
								rb, rk = nil, kv+rk
							}
							if rb != g.base || rk < 2 || rk > 4 {
								continue // loop bounds and "is there an element at all" are not part of the decision
							}
							switch op {
							case token.LSS, token.LEQ, token.GTR, token.GEQ, token.EQL, token.NEQ:
								g.atoms[bo] = escAtom{kind: "len", k: rk, op: op}
							}
						}
					}
					key := fmt.Sprintf("escvalid/%s#%d", core.FuncName(f), gi+1)
					pos := c.P.Pos(g.pos)
					hasLen := false
					for _, a := range g.atoms {
						if a.kind == "len" {
							hasLen = true
						}
					}
					if !hasLen {
						continue // not an escape decision (no length test against the same base)
					}
					if !(g.ks[1] && g.ks[2]) {
						s.Bad(key, pos, "the element count is tested for an escape but only one of the two positions behind the '%' is tested for a hex digit")
						continue
					}
					inventory := func(why string) {
						s.Obs = append(s.Obs, core.Obligation{Rule: s.Rule, Construct: key, Pos: pos, Verdict: core.Discharged, Fact: "inventory: not decided (" + why + ")", Props: s.Props, Trivial: true})
					}
					// the first atom: the block of an atom that dominates the blocks of all others
					var start *ssa.BasicBlock
					for v := range g.atoms {
						b := v.(ssa.Instruction).Block()
						dom := true
						for o := range g.atoms {
							if !b.Dominates(o.(ssa.Instruction).Block()) {
								dom = false
							}
						}
						if dom {
							start = b
						}
					}
					if start == nil {
						inventory("the tests do not form one decision")
						continue
					}
					// evaluate a boolean built from the atoms; prev resolves merges
					type valn struct {
						d      int64
						h1, h2 bool
					}
					var eval func(v ssa.Value, prev, cur *ssa.BasicBlock, vl valn, depth int) (bool, bool)
					eval = func(v ssa.Value, prev, cur *ssa.BasicBlock, vl valn, depth int) (bool, bool) {
						if depth > 8 {
							return false, false
						}
						if a, ok := g.atoms[v]; ok {
							if a.kind == "hex" {
								if a.k == 1 {
									return vl.h1, true
								}
								return vl.h2, true
							}
							return evalCmp(vl.d, a.op, a.k), true
						}
						switch x := v.(type) {
						case *ssa.Const:
							return constBool(x)
						case *ssa.UnOp:
							if x.Op == token.NOT {
								r, ok := eval(x.X, prev, cur, vl, depth+1)
								return !r, ok
							}
						case *ssa.Phi:
							if x.Block() == cur && prev != nil {
								for i, p := range cur.Preds {
									if p == prev {
										return eval(x.Edges[i], nil, nil, vl, depth+1)
									}
								}
							}
						}
						return false, false
					}
					// exit: the first block whose branch is not decided by the atoms - or the boolean it returns
					var exitFrom func(vl valn, b, prev *ssa.BasicBlock, free int) string
					exit := func(vl valn) string { return exitFrom(vl, start, nil, 0) }
					exitFrom = func(vl valn, b, prev *ssa.BasicBlock, free int) string {
						first := b
						// where the decision ends: the block, and the booleans it has merged from the atoms (a decision kept
						// as a value: `invalid := r == '%' && (…)`)
						label := func(b, prev *ssa.BasicBlock) string {
							out := fmt.Sprintf("block %d", b.Index)
							for _, ins := range b.Instrs {
								phi, ok := ins.(*ssa.Phi)
								if !ok {
									break
								}
								if r, ok := eval(phi, prev, b, vl, 0); ok {
									out += fmt.Sprintf(" %s=%v", phi.Name(), r)
								}
							}
							return out
						}
						for steps := 0; steps < 64; steps++ {
							switch t := b.Instrs[len(b.Instrs)-1].(type) {
							case *ssa.If:
								r, ok := eval(t.Cond, prev, b, vl, 0)
								if !ok {
									// a test of something else in the middle of the decision (`s[0] == '%'` between the length
									// test and the digit tests): the decision is what follows on either side of it
									if _, isCmp := t.Cond.(*ssa.BinOp); isCmp && free < 2 && (b == start || blockOnlyAtoms(b, g.atoms)) {
										return "[" + exitFrom(vl, b.Succs[0], b, free+1) + " / " + exitFrom(vl, b.Succs[1], b, free+1) + "]"
									}
									return label(b, prev)
								}
								prev = b
								if r {
									b = b.Succs[0]
								} else {
									b = b.Succs[1]
								}
							case *ssa.Jump:
								// only a merge of the decision's own values may lie on the way
								nb := b.Succs[0]
								onlyPhis := true
								for _, ins := range nb.Instrs[:len(nb.Instrs)-1] {
									if _, isPhi := ins.(*ssa.Phi); !isPhi {
										onlyPhis = false
									}
								}
								if !onlyPhis || b != start && len(b.Instrs) > 1 && !blockOnlyAtoms(b, g.atoms) {
									return label(b, prev)
								}
								prev, b = b, nb
							case *ssa.Return:
								if len(t.Results) >= 1 {
									if r, ok := eval(t.Results[0], prev, b, vl, 0); ok {
										return fmt.Sprintf("return %v", r)
									}
								}
								return label(b, prev)
							default:
								return label(b, prev)
							}
							_ = first
							if b != start {
								// a block that does other things than the decision ends it
								if !blockOnlyAtoms(b, g.atoms) {
									if _, isIf := b.Instrs[len(b.Instrs)-1].(*ssa.If); isIf {
										if _, ok := eval(b.Instrs[len(b.Instrs)-1].(*ssa.If).Cond, prev, b, vl, 0); ok {
											continue
										}
									}
									if r, isRet := b.Instrs[len(b.Instrs)-1].(*ssa.Return); isRet && len(r.Results) >= 1 {
										if _, ok := eval(r.Results[0], prev, b, vl, 0); ok {
											continue
										}
									}
									return label(b, prev)
								}
							}
						}
						return "?"
					}
					valid3, valid4 := exit(valn{3, true, true}), exit(valn{4, true, true})
					var bad []string
					if valid3 != valid4 {
						bad = append(bad, "an escape whose second digit is the last element is treated differently from one followed by more")
					}
					for _, d := range []int64{2, 3, 4} {
						for _, h := range [][2]bool{{false, false}, {false, true}, {true, false}, {true, true}} {
							if d >= 3 && h[0] && h[1] {
								continue
							}
							if d == 2 && (h[0] || h[1]) {
								continue // no digits to test
							}
							if e := exit(valn{d, h[0], h[1]}); e == valid4 || e == valid3 {
								what := fmt.Sprintf("%d elements remain", d)
								if d >= 3 {
									what = fmt.Sprintf("%d elements remain, first digit hex: %v, second digit hex: %v", d, h[0], h[1])
								}
								bad = append(bad, "treated like a well-formed escape: "+what)
							}
						}
					}
					sort.Strings(bad)
					if len(bad) > 0 {
						s.Bad(key, pos, bad[0]+fmt.Sprintf(" (%d cases in all)", len(bad)))
					} else {
						s.OK(key, pos, "well formed iff three or more elements remain and both are hex digits (9 valuations of the three atoms)")
					}
				}
			}
		},
	})
}

// blockOnlyAtoms: the block computes nothing but atoms of the decision (and what they need: loads, index
// arithmetic, conversions, the merges of their values).
func blockOnlyAtoms(b *ssa.BasicBlock, atoms map[ssa.Value]escAtom) bool {
	for _, ins := range b.Instrs {
		switch x := ins.(type) {
		case *ssa.If, *ssa.Jump, *ssa.Return, *ssa.Phi, *ssa.DebugRef, *ssa.IndexAddr, *ssa.Index, *ssa.Lookup, *ssa.Convert, *ssa.UnOp, *ssa.BinOp:
		case *ssa.Call:
			if _, ok := atoms[x]; ok {
				continue
			}
			if bi, ok := x.Common().Value.(*ssa.Builtin); ok && bi.Name() == "len" {
				continue
			}
			return false
		default:
			return false
		}
	}
	return true
}
