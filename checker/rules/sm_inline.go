package rules

// Inlining in the state-machine walker: a state (or part of one) moved into an unexported helper that only BasicParser
// uses is walked as if it were written in place. The helper's body is copied with its parameters replaced by the
// arguments (`&x` arguments make `*param` read `x`), its `return`s become assignments to the call's left-hand side and
// the walk continues after the call.

import (
	"go/ast"
	"go/token"
	"go/types"

	"golang.org/x/tools/go/ssa"
	"golang.org/x/tools/go/types/typeutil"
)

type inlFrame struct {
	lhs     []ast.Expr
	tok     token.Token
	results []ast.Expr // named results of the helper (for bare returns)
}

// declOf finds the declaration of a function of the analysed package.
func (a *smAn) declOf(f *types.Func) *ast.FuncDecl {
	if a.decls == nil {
		a.decls = map[*types.Func]*ast.FuncDecl{}
		for _, file := range a.pkg.Syntax {
			for _, d := range file.Decls {
				if fd, ok := d.(*ast.FuncDecl); ok && fd.Body != nil {
					if o, ok := a.info.Defs[fd.Name].(*types.Func); ok {
						a.decls[o] = fd
					}
				}
			}
		}
	}
	return a.decls[f]
}

// hostParserTypes: the error types the failure-point table files under the host parsers.
func (a *smAn) hostParserTypes() map[string]bool {
	if a.hostTypes == nil {
		a.hostTypes = map[string]bool{}
		var spec struct {
			Points []struct {
				Where string `json:"where"`
				Type  string `json:"type"`
			} `json:"points"`
		}
		readSpec(a.c, "failpoints.json", &spec)
		for _, p := range spec.Points {
			if p.Where == "host-parsers" {
				a.hostTypes[p.Type] = true
			}
		}
	}
	return a.hostTypes
}

// inlineTarget decides whether the callee of this call is part of the state machine that merely lives in a helper.
func (a *smAn) inlineTarget(call *ast.CallExpr, depth int) *ast.FuncDecl {
	callee, _ := typeutil.Callee(a.info, call).(*types.Func)
	if callee == nil || callee.Pkg() != a.pkg.Types || callee.Exported() || depth > 2 {
		return nil
	}
	if v, ok := a.inlMemo[callee]; ok {
		return v
	}
	a.inlMemo[callee] = nil // recursion guard
	fd := a.declOf(callee)
	fn := a.ssaOf(callee)
	if fd == nil || fn == nil || fn == a.fn {
		return nil
	}
	sig := callee.Type().(*types.Signature)
	if sig.Variadic() {
		return nil
	}
	if a.em.Handlers[fn] != nil || a.em.Cores[fn] || a.em.Ctors[fn] {
		return nil
	}
	// an encoder that writes into a builder it is handed — enc(&buffer, r, set) — is one encoded write (smAn.call)
	{
		hasB, hasS, hasR := false, false, false
		for i := 0; i < sig.Params().Len(); i++ {
			pt := sig.Params().At(i).Type()
			switch {
			case pt.String() == "*strings.Builder":
				hasB = true
			case namedOf(pt) == "PercentEncodeSet":
				hasS = true
			case types.Identical(pt, types.Typ[types.Rune]) || types.Identical(pt, types.Typ[types.Byte]):
				hasR = true
			}
		}
		if hasB && hasS && hasR && sig.Results().Len() == 0 {
			return nil
		}
	}
	if fn.Signature.Recv() != nil {
		switch namedOf(recvType(fn)) {
		case "parser", "Url":
		default:
			return nil // cursor, path, sets: modelled by their summaries
		}
	}
	// functions of the reviewed tree keep their reviewed treatment (summaries, named anchors of other rules); only
	// helpers the reference inventory does not know are walked in place
	if a.knownFuncs == nil {
		a.knownFuncs = map[string]bool{}
		var inv struct {
			Entities []struct {
				Kind, Pkg, Owner, Name string
			} `json:"entities"`
		}
		readSpec(a.c, "names.json", &inv)
		for _, e := range inv.Entities {
			if e.Kind == "func" {
				a.knownFuncs[e.Pkg+"."+e.Owner+"."+e.Name] = true
			}
		}
	}
	if a.knownFuncs[a.pkg.Name+"."+namedOf(recvType(fn))+"."+callee.Name()] {
		return nil
	}
	// never used as a value (other callers do not matter: walking a helper in place is always faithful; what keeps
	// the walk small is that only helpers the reference inventory does not know are walked)
	ix := sitesOf(a.c)
	if ix.taken[fn] {
		return nil
	}
	nstmts := 0
	ast.Inspect(fd.Body, func(n ast.Node) bool {
		if _, ok := n.(ast.Stmt); ok {
			nstmts++
		}
		return true
	})
	if nstmts > 160 {
		return nil
	}
	// it does something the walker tracks …
	interesting := false
	isNamed := func(t types.Type, name string) bool { return namedOf(t) == name }
	for i := 0; i < sig.Params().Len(); i++ {
		t := sig.Params().At(i).Type()
		if isNamed(t, "State") || isNamed(t, "inputString") || isNamed(t, "Builder") {
			interesting = true
		}
	}
	for i := 0; i < sig.Results().Len(); i++ {
		if isNamed(sig.Results().At(i).Type(), "State") {
			interesting = true
		}
	}
	// a helper that picks the encode set (by scheme class, by option): the component tables read which one
	if sig.Results().Len() == 1 && isNamed(sig.Results().At(0).Type(), "PercentEncodeSet") {
		interesting = true
	}
	// predicates over the URL and helpers that pick an encoder are part of the decisions the rules read
	if sig.Results().Len() == 1 {
		if b, ok := sig.Results().At(0).Type().Underlying().(*types.Basic); ok && (b.Kind() == types.Bool || b.Kind() == types.String) {
			if namedOf(recvType(fn)) == "Url" {
				interesting = true
			}
			for i := 0; i < sig.Params().Len(); i++ {
				if t := sig.Params().At(i).Type(); isNamed(t, "Url") || isNamed(t, "PercentEncodeSet") {
					interesting = true
				}
				// a predicate over a code point: which delimiters end a state
				if bt, ok := sig.Params().At(i).Type().Underlying().(*types.Basic); ok && bt.Kind() == types.Int32 && b.Kind() == types.Bool {
					interesting = true
				}
			}
		}
	}
	hostTypes := a.hostParserTypes()
	for _, st := range a.em.Sites {
		if st.Caller != fn {
			continue
		}
		if hostTypes[st.TypeName] {
			return nil // … but is not a worker of the host parsers (their failure points are filed separately)
		}
		interesting = true
	}
	ast.Inspect(fd.Body, func(n ast.Node) bool {
		switch x := n.(type) {
		case *ast.FuncLit, *ast.GoStmt, *ast.DeferStmt, *ast.SelectStmt, *ast.LabeledStmt:
			interesting = false
			fd = nil
			return false
		case *ast.AssignStmt:
			for _, l := range x.Lhs {
				if sel, ok := ast.Unparen(l).(*ast.SelectorExpr); ok {
					if namedOf(a.typeOf(sel.X)) == "Url" {
						interesting = true
					}
				}
			}
		}
		return true
	})
	if fd == nil || !interesting {
		return nil
	}
	a.inlMemo[callee] = fd
	return fd
}

func (a *smAn) typeOf(e ast.Expr) types.Type {
	if tv, ok := a.info.Types[e]; ok && tv.Type != nil {
		return tv.Type
	}
	if id, ok := e.(*ast.Ident); ok {
		if o := a.obj(id); o != nil {
			return o.Type()
		}
	}
	return types.Typ[types.Invalid]
}

// rewriter copies a helper's body replacing parameter identifiers.
type rewriter struct {
	a      *smAn
	val    map[types.Object]ast.Expr // param -> argument expression
	ptr    map[types.Object]ast.Expr // pointer param bound to &x -> x
	failed bool
}

func (r *rewriter) expr(e ast.Expr) ast.Expr {
	if e == nil {
		return nil
	}
	keep := func(n, old ast.Expr) ast.Expr {
		if tv, ok := r.a.info.Types[old]; ok {
			r.a.info.Types[n] = tv
		}
		return n
	}
	switch x := e.(type) {
	case *ast.Ident:
		o := r.a.obj(x)
		if v, ok := r.ptr[o]; ok {
			return v // the pointer itself stands for the variable (auto-dereferenced method calls, passing it on)
		}
		if v, ok := r.val[o]; ok {
			switch v.(type) {
			case *ast.BinaryExpr, *ast.UnaryExpr:
				return &ast.ParenExpr{X: v}
			}
			return v
		}
		return x
	case *ast.BasicLit:
		return x
	case *ast.ParenExpr:
		return keep(&ast.ParenExpr{X: r.expr(x.X)}, x)
	case *ast.StarExpr:
		if id, ok := ast.Unparen(x.X).(*ast.Ident); ok {
			if v, ok := r.ptr[r.a.obj(id)]; ok {
				return v
			}
		}
		return keep(&ast.StarExpr{X: r.expr(x.X)}, x)
	case *ast.UnaryExpr:
		return keep(&ast.UnaryExpr{Op: x.Op, X: r.expr(x.X)}, x)
	case *ast.BinaryExpr:
		return keep(&ast.BinaryExpr{X: r.expr(x.X), Op: x.Op, Y: r.expr(x.Y)}, x)
	case *ast.SelectorExpr:
		n := &ast.SelectorExpr{X: r.expr(x.X), Sel: x.Sel}
		if sel, ok := r.a.info.Selections[x]; ok {
			r.a.info.Selections[n] = sel
		}
		return keep(n, x)
	case *ast.CallExpr:
		n := &ast.CallExpr{Fun: r.expr(x.Fun), Ellipsis: x.Ellipsis, Lparen: x.Lparen, Rparen: x.Rparen}
		for _, arg := range x.Args {
			n.Args = append(n.Args, r.expr(arg))
		}
		return keep(n, x)
	case *ast.IndexExpr:
		return keep(&ast.IndexExpr{X: r.expr(x.X), Index: r.expr(x.Index)}, x)
	case *ast.SliceExpr:
		return keep(&ast.SliceExpr{X: r.expr(x.X), Low: r.expr(x.Low), High: r.expr(x.High), Max: r.expr(x.Max), Slice3: x.Slice3}, x)
	case *ast.TypeAssertExpr:
		return keep(&ast.TypeAssertExpr{X: r.expr(x.X), Type: x.Type}, x)
	case *ast.KeyValueExpr:
		return &ast.KeyValueExpr{Key: x.Key, Value: r.expr(x.Value)}
	case *ast.CompositeLit:
		n := &ast.CompositeLit{Type: x.Type}
		for _, el := range x.Elts {
			n.Elts = append(n.Elts, r.expr(el))
		}
		return keep(n, x)
	case *ast.ArrayType, *ast.MapType, *ast.FuncType, *ast.InterfaceType, *ast.StructType, *ast.ChanType:
		return x
	}
	r.failed = true
	return e
}

func (r *rewriter) exprs(es []ast.Expr) []ast.Expr {
	var out []ast.Expr
	for _, e := range es {
		out = append(out, r.expr(e))
	}
	return out
}

func (r *rewriter) block(b *ast.BlockStmt) *ast.BlockStmt {
	if b == nil {
		return nil
	}
	n := &ast.BlockStmt{Lbrace: b.Lbrace, Rbrace: b.Rbrace}
	for _, st := range b.List {
		n.List = append(n.List, r.stmt(st))
	}
	return n
}

func (r *rewriter) stmt(st ast.Stmt) ast.Stmt {
	switch x := st.(type) {
	case nil:
		return nil
	case *ast.BlockStmt:
		return r.block(x)
	case *ast.ExprStmt:
		return &ast.ExprStmt{X: r.expr(x.X)}
	case *ast.AssignStmt:
		return &ast.AssignStmt{Lhs: r.exprs(x.Lhs), TokPos: x.TokPos, Tok: x.Tok, Rhs: r.exprs(x.Rhs)}
	case *ast.IncDecStmt:
		return &ast.IncDecStmt{X: r.expr(x.X), TokPos: x.TokPos, Tok: x.Tok}
	case *ast.ReturnStmt:
		return &ast.ReturnStmt{Return: x.Return, Results: r.exprs(x.Results)}
	case *ast.BranchStmt:
		if x.Label != nil {
			r.failed = true
		}
		return x
	case *ast.IfStmt:
		n := &ast.IfStmt{If: x.If, Init: r.stmt(x.Init), Cond: r.expr(x.Cond), Body: r.block(x.Body)}
		if x.Else != nil {
			n.Else = r.stmt(x.Else)
		}
		return n
	case *ast.ForStmt:
		return &ast.ForStmt{For: x.For, Init: r.stmt(x.Init), Cond: r.expr(x.Cond), Post: r.stmt(x.Post), Body: r.block(x.Body)}
	case *ast.RangeStmt:
		return &ast.RangeStmt{For: x.For, Key: x.Key, Value: x.Value, TokPos: x.TokPos, Tok: x.Tok, X: r.expr(x.X), Body: r.block(x.Body)}
	case *ast.SwitchStmt:
		n := &ast.SwitchStmt{Switch: x.Switch, Init: r.stmt(x.Init), Tag: r.expr(x.Tag), Body: &ast.BlockStmt{}}
		for _, c := range x.Body.List {
			cc := c.(*ast.CaseClause)
			nc := &ast.CaseClause{Case: cc.Case, List: r.exprs(cc.List), Colon: cc.Colon}
			for _, b := range cc.Body {
				nc.Body = append(nc.Body, r.stmt(b))
			}
			n.Body.List = append(n.Body.List, nc)
		}
		return n
	case *ast.DeclStmt:
		gd, ok := x.Decl.(*ast.GenDecl)
		if !ok || gd.Tok != token.VAR {
			return x
		}
		ng := &ast.GenDecl{TokPos: gd.TokPos, Tok: gd.Tok}
		for _, sp := range gd.Specs {
			vs, ok := sp.(*ast.ValueSpec)
			if !ok {
				r.failed = true
				return x
			}
			ng.Specs = append(ng.Specs, &ast.ValueSpec{Names: vs.Names, Type: vs.Type, Values: r.exprs(vs.Values)})
		}
		return &ast.DeclStmt{Decl: ng}
	case *ast.EmptyStmt:
		return x
	}
	r.failed = true
	return st
}

// inlineCall walks the helper called here in place of the call. ok=false: not a helper of the state machine (the call
// is then treated through its summaries as before).
func (a *smAn) inlineCall(call *ast.CallExpr, lhs []ast.Expr, tok token.Token, s *pst) ([]*pst, bool) {
	fd := a.inlineTarget(call, len(s.inl))
	if fd == nil {
		return nil, false
	}
	rw := &rewriter{a: a, val: map[types.Object]ast.Expr{}, ptr: map[types.Object]ast.Expr{}}
	// receiver
	if fd.Recv != nil && len(fd.Recv.List) == 1 && len(fd.Recv.List[0].Names) == 1 {
		sel, ok := ast.Unparen(call.Fun).(*ast.SelectorExpr)
		if !ok {
			return nil, false
		}
		if _, isId := ast.Unparen(sel.X).(*ast.Ident); !isId {
			return nil, false
		}
		rw.val[a.info.Defs[fd.Recv.List[0].Names[0]]] = sel.X
	}
	// parameters
	i := 0
	for _, fl := range fd.Type.Params.List {
		for _, nm := range fl.Names {
			if i >= len(call.Args) {
				return nil, false
			}
			arg := ast.Unparen(call.Args[i])
			o := a.info.Defs[nm]
			i++
			if nm.Name == "_" || o == nil {
				continue
			}
			if u, ok := arg.(*ast.UnaryExpr); ok && u.Op == token.AND {
				if id, ok := ast.Unparen(u.X).(*ast.Ident); ok {
					rw.ptr[o] = id
					continue
				}
				return nil, false
			}
			if _, ok := arg.(*ast.Ident); ok {
				rw.val[o] = arg
				continue
			}
			if !a.pureExpr(arg) {
				return nil, false
			}
			rw.val[o] = arg
		}
		if len(fl.Names) == 0 {
			i++
		}
	}
	body := rw.block(fd.Body)
	if rw.failed {
		return nil, false
	}
	fr := inlFrame{lhs: lhs, tok: tok}
	if fd.Type.Results != nil {
		for _, fl := range fd.Type.Results.List {
			for _, nm := range fl.Names {
				fr.results = append(fr.results, nm)
			}
		}
	}
	n := s.clone()
	if callee, _ := typeutil.Callee(a.info, call).(*types.Func); callee != nil {
		// the call itself stays visible to rules that ask "is X called on this path"
		n.path.Calls = append(n.path.Calls, callUse{Callee: callee, Text: a.str(call.Fun), Pos: call.Pos()})
	}
	n.inl = append(append([]inlFrame(nil), s.inl...), fr)
	n.path.Inlined = append(append([]string(nil), s.path.Inlined...), fd.Name.Name)
	out := a.walk(body.List, []*pst{n})
	for _, o := range out {
		if o.brk == "inlret" {
			o.brk = ""
		}
		if len(o.inl) > 0 {
			o.inl = o.inl[:len(o.inl)-1]
		}
	}
	return out, true
}

// inlineReturn turns a `return` met inside an inlined helper into the assignment of its results to the call's
// left-hand side; the walk then continues after the call.
func (a *smAn) inlineReturn(x *ast.ReturnStmt, s *pst) *pst {
	n := s.clone()
	fr := n.inl[len(n.inl)-1]
	results := x.Results
	if len(results) == 0 {
		results = fr.results
	}
	switch {
	case len(fr.lhs) > 0 && len(fr.lhs) == len(results):
		a.assign(&ast.AssignStmt{Lhs: fr.lhs, Tok: fr.tok, Rhs: results, TokPos: x.Pos()}, n)
	default:
		for _, r := range results {
			a.scan(r, n)
		}
	}
	n.brk = "inlret"
	return n
}

// IsInlined: f is a helper the walker walks in place (its effects and failure points are part of the state machine).
func (m *smModel) IsInlined(f *ssa.Function) bool {
	if m == nil || m.An == nil || f == nil || f.Object() == nil {
		return false
	}
	o, ok := f.Object().(*types.Func)
	if !ok {
		return false
	}
	return m.An.inlMemo[o] != nil
}

// SiteInMachine: for a call inside the state machine proper it is the call itself; for a call inside an inlined helper
// it is the (single) call site in BasicParser through which the helper is reached.
func (m *smModel) SiteInMachine(c *Ctx, f *ssa.Function, call *ssa.Call) (*ssa.Call, bool) {
	if m == nil || m.An == nil {
		return nil, false
	}
	for depth := 0; depth < 3; depth++ {
		if f == m.An.fn {
			return call, true
		}
		if !m.IsInlined(f) {
			return nil, false
		}
		sites := sitesOf(c).sites[f]
		if len(sites) != 1 {
			return nil, false
		}
		f, call = sites[0].Fn, sites[0].Call
	}
	return nil, false
}

// freshVar makes an identifier for the result of a helper walked in place.
func (a *smAn) freshVar(t types.Type, pos token.Pos) *ast.Ident {
	a.nfresh++
	id := &ast.Ident{NamePos: pos, Name: "inl·" + string(rune('a'+a.nfresh%26)) + string(rune('0'+(a.nfresh/26)%10))}
	a.info.Defs[id] = types.NewVar(pos, a.pkg.Types, id.Name, t)
	return id
}

// hoist: inlinable calls nested inside an expression are walked first, their result standing in a fresh variable:
// buffer.WriteString(p.pick(r, set)) is read as tmp := p.pick(r, set); buffer.WriteString(tmp).
func (a *smAn) hoist(e ast.Expr, s *pst) (ast.Expr, []*pst, bool) {
	var target *ast.CallExpr
	ast.Inspect(e, func(n ast.Node) bool {
		if target != nil {
			return false
		}
		switch x := n.(type) {
		case *ast.FuncLit:
			return false
		case *ast.BinaryExpr:
			if x.Op == token.LAND || x.Op == token.LOR {
				return false // short-circuit operands are not evaluated unconditionally
			}
		case *ast.CallExpr:
			if x != e && a.inlineTarget(x, len(s.inl)) != nil {
				if callee, _ := typeutil.Callee(a.info, x).(*types.Func); callee != nil {
					if sig := callee.Type().(*types.Signature); sig.Results().Len() == 1 {
						target = x
						return false
					}
				}
			}
		}
		return true
	})
	if target == nil {
		return e, nil, false
	}
	callee := typeutil.Callee(a.info, target).(*types.Func)
	id := a.freshVar(callee.Type().(*types.Signature).Results().At(0).Type(), target.Pos())
	out, ok := a.inlineCall(target, []ast.Expr{id}, token.DEFINE, s)
	if !ok {
		return e, nil, false
	}
	rw := &replacer{from: target, to: id, a: a}
	return rw.expr(e), out, true
}

type replacer struct {
	from ast.Expr
	to   ast.Expr
	a    *smAn
}

func (r *replacer) expr(e ast.Expr) ast.Expr {
	if e == nil {
		return nil
	}
	if e == r.from {
		return r.to
	}
	keep := func(n, old ast.Expr) ast.Expr {
		if tv, ok := r.a.info.Types[old]; ok {
			r.a.info.Types[n] = tv
		}
		return n
	}
	switch x := e.(type) {
	case *ast.ParenExpr:
		return keep(&ast.ParenExpr{X: r.expr(x.X)}, x)
	case *ast.StarExpr:
		return keep(&ast.StarExpr{X: r.expr(x.X)}, x)
	case *ast.UnaryExpr:
		return keep(&ast.UnaryExpr{Op: x.Op, X: r.expr(x.X)}, x)
	case *ast.BinaryExpr:
		return keep(&ast.BinaryExpr{X: r.expr(x.X), Op: x.Op, Y: r.expr(x.Y)}, x)
	case *ast.SelectorExpr:
		n := &ast.SelectorExpr{X: r.expr(x.X), Sel: x.Sel}
		if sel, ok := r.a.info.Selections[x]; ok {
			r.a.info.Selections[n] = sel
		}
		return keep(n, x)
	case *ast.CallExpr:
		n := &ast.CallExpr{Fun: r.expr(x.Fun), Ellipsis: x.Ellipsis, Lparen: x.Lparen, Rparen: x.Rparen}
		for _, arg := range x.Args {
			n.Args = append(n.Args, r.expr(arg))
		}
		return keep(n, x)
	case *ast.IndexExpr:
		return keep(&ast.IndexExpr{X: r.expr(x.X), Index: r.expr(x.Index)}, x)
	case *ast.SliceExpr:
		return keep(&ast.SliceExpr{X: r.expr(x.X), Low: r.expr(x.Low), High: r.expr(x.High), Max: r.expr(x.Max), Slice3: x.Slice3}, x)
	}
	return e
}
