package rules

// EFF engine: modular may-mutate / return-closure summaries over SSA (DESIGN §3.2).
//
// Abstract memory is named by access paths:  root{.elem}*  with
//   root  = P<i> (object the i-th parameter refers to) | V<i> (free variable) | G:<pkg>.<name> (global variable)
//         | F@<site> (object allocated in this activation) | U (unknown)
//   elem  = <Type>.<field> | [] (element of slice/array/map) | * (k-limit: anything deeper)
// A pointer-like SSA value maps to the set of paths of the locations it may refer to. The location of a pointer
// field and the object that pointer refers to are deliberately conflated (a write through url.host and a write of
// url.host both read "Url.host").  The analysis is flow-insensitive inside a function and instantiates callee
// summaries per call site; a nil constant actual instantiates a parameter to the empty set.

import (
	"fmt"
	"go/constant"
	"go/token"
	"go/types"
	"sort"
	"strings"

	"golang.org/x/tools/go/ssa"

	"wucheck/core"
)

type pset map[string]struct{}

func (s pset) add(x string) bool {
	if _, ok := s[x]; ok {
		return false
	}
	s[x] = struct{}{}
	return true
}
func (s pset) addAll(o pset) bool {
	ch := false
	for k := range o {
		if s.add(k) {
			ch = true
		}
	}
	return ch
}
func (s pset) has(x string) bool { _, ok := s[x]; return ok }
func (s pset) sorted() []string {
	out := make([]string, 0, len(s))
	for k := range s {
		out = append(out, k)
	}
	sort.Strings(out)
	return out
}

// effSummary is the interprocedural summary of one function.
type effSummary struct {
	Mut  pset            // pre-existing paths (rooted P/V/G) the function may write
	Ret  []pset          // per result: what it may refer to; fresh objects are named R<k>
	Heap map[string]pset // edges added: from R<k>... paths and from pre-existing paths to stored referents
	// MutSites remembers one position per Mut entry for diagnostics.
	MutSites map[string]token.Pos
	// Unknown callees (external, not in the table) seen in this function.
	Unknown map[string]token.Pos
}

type effFn struct {
	fn    *ssa.Function
	roots map[ssa.Value]pset
	heap  map[string]pset
	sum   *effSummary
	fresh map[string]bool // fresh roots created in this function (for naming)
}

// Eff is the whole-program result.
type Eff struct {
	P      *core.Prog
	Depth  int
	Fns    []*ssa.Function
	St     map[*ssa.Function]*effFn
	Rounds int
	Ext    *extTable
}

func isFreshPath(p string) bool { return strings.HasPrefix(p, "F@") || strings.HasPrefix(p, "R") }
func isPrePath(p string) bool {
	return strings.HasPrefix(p, "P") || strings.HasPrefix(p, "V") || strings.HasPrefix(p, "G:")
}

func rootOf(p string) string {
	if i := strings.Index(p, "."); i >= 0 {
		return p[:i]
	}
	return p
}

func pathElems(p string) []string {
	toks := strings.Split(p, ".")
	return toks[1:]
}

func (e *Eff) ext1(p, elem string) string {
	if p == "U" || strings.HasSuffix(p, ".*") {
		return p
	}
	if len(pathElems(p)) >= e.Depth {
		return p + ".*"
	}
	return p + "." + elem
}

func (e *Eff) ext(o pset, elem string) pset {
	r := pset{}
	for k := range o {
		r.add(e.ext1(k, elem))
	}
	return r
}

func fieldElem(t types.Type, i int) string {
	if p, ok := t.Underlying().(*types.Pointer); ok {
		t = p.Elem()
	}
	name := "struct"
	if n, ok := t.(*types.Named); ok {
		name = n.Obj().Name()
	}
	if s, ok := t.Underlying().(*types.Struct); ok && i < s.NumFields() {
		return name + ":" + s.Field(i).Name()
	}
	return fmt.Sprintf("%s:#%d", name, i)
}

// pointerLike tells whether values of type t can refer to mutable memory.
func pointerLike(t types.Type) bool {
	return pointerLikeRec(t, 0)
}

func pointerLikeRec(t types.Type, d int) bool {
	if d > 6 {
		return true
	}
	switch u := t.Underlying().(type) {
	case *types.Pointer, *types.Slice, *types.Map, *types.Chan, *types.Signature, *types.Interface:
		return true
	case *types.Struct:
		for i := 0; i < u.NumFields(); i++ {
			if pointerLikeRec(u.Field(i).Type(), d+1) {
				return true
			}
		}
		return false
	case *types.Array:
		return pointerLikeRec(u.Elem(), d+1)
	case *types.Tuple:
		for i := 0; i < u.Len(); i++ {
			if pointerLikeRec(u.At(i).Type(), d+1) {
				return true
			}
		}
		return false
	}
	return false
}

func (st *effFn) rootsOf(v ssa.Value) pset {
	if r, ok := st.roots[v]; ok {
		return r
	}
	r := pset{}
	st.roots[v] = r
	return r
}

func (st *effFn) site(v ssa.Value) string {
	s := "F@" + v.Name()
	st.fresh[s] = true
	return s
}

func (st *effFn) heapOf(k string) pset {
	h := st.heap[k]
	if h == nil {
		h = pset{}
		st.heap[k] = h
	}
	return h
}

// load returns what is stored at the locations locs.
func (st *effFn) load(locs pset) pset {
	r := pset{}
	for a := range locs {
		if h, ok := st.heap[a]; ok {
			r.addAll(h)
		}
		if !isFreshPath(a) {
			r.add(a) // pre-existing memory: the path itself names what was there on entry
		}
	}
	return r
}

func (st *effFn) mut(path string, pos token.Pos) bool {
	if !isPrePath(path) {
		return false
	}
	if st.sum.Mut.add(path) {
		st.sum.MutSites[path] = pos
		return true
	}
	return false
}

// store records *locs = vals.
func (st *effFn) store(locs, vals pset, pos token.Pos) bool {
	ch := false
	for a := range locs {
		if a == "U" {
			continue
		}
		ch = st.mut(a, pos) || ch
		if len(vals) > 0 {
			ch = st.heapOf(a).addAll(vals) || ch
		}
	}
	return ch
}

func isNilConst(v ssa.Value) bool {
	c, ok := v.(*ssa.Const)
	return ok && c.Value == nil
}

func (e *Eff) step(st *effFn) bool {
	ch := false
	fn := st.fn
	for i, p := range fn.Params {
		if pointerLike(p.Type()) {
			ch = st.rootsOf(p).add(fmt.Sprintf("P%d", i)) || ch
		}
	}
	for i, fv := range fn.FreeVars {
		ch = st.rootsOf(fv).add(fmt.Sprintf("V%d", i)) || ch
	}
	for _, b := range fn.Blocks {
		for _, ins := range b.Instrs {
			switch x := ins.(type) {
			case *ssa.Alloc:
				ch = st.rootsOf(x).add(st.site(x)) || ch
			case *ssa.MakeSlice:
				ch = st.rootsOf(x).add(st.site(x)) || ch
			case *ssa.MakeMap:
				ch = st.rootsOf(x).add(st.site(x)) || ch
			case *ssa.MakeChan:
				ch = st.rootsOf(x).add(st.site(x)) || ch
			case *ssa.MakeClosure:
				s := st.site(x)
				ch = st.rootsOf(x).add(s) || ch
				for i, bnd := range x.Bindings {
					ch = st.heapOf(fmt.Sprintf("%s.V%d", s, i)).addAll(st.rootsOf(bnd)) || ch
				}
			case *ssa.FieldAddr:
				ch = st.rootsOf(x).addAll(e.ext(st.valRoots(x.X), fieldElem(x.X.Type(), x.Field))) || ch
			case *ssa.IndexAddr:
				ch = st.rootsOf(x).addAll(e.ext(st.valRoots(x.X), "[]")) || ch
			case *ssa.Field:
				if pointerLike(x.Type()) {
					locs := e.ext(st.valRoots(x.X), fieldElem(x.X.Type(), x.Field))
					if isStructVal(x.Type()) {
						ch = st.rootsOf(x).addAll(locs) || ch
					} else {
						ch = st.rootsOf(x).addAll(st.load(locs)) || ch
					}
				}
			case *ssa.Index:
				if pointerLike(x.Type()) {
					locs := e.ext(st.valRoots(x.X), "[]")
					if isStructVal(x.Type()) {
						ch = st.rootsOf(x).addAll(locs) || ch
					} else {
						ch = st.rootsOf(x).addAll(st.load(locs)) || ch
					}
				}
			case *ssa.Lookup:
				if x.CommaOk {
					if tup, ok := x.Type().(*types.Tuple); ok && pointerLike(tup.At(0).Type()) {
						for a := range st.load(e.ext(st.valRoots(x.X), "[]")) {
							ch = st.rootsOf(x).add(a+"#0") || ch
						}
					}
				} else if pointerLike(x.Type()) {
					ch = st.rootsOf(x).addAll(st.load(e.ext(st.valRoots(x.X), "[]"))) || ch
				}
			case *ssa.Next:
				if tup, ok := x.Type().(*types.Tuple); ok && !x.IsString {
					if rg, ok := x.Iter.(*ssa.Range); ok {
						for i := 1; i < tup.Len(); i++ {
							if pointerLike(tup.At(i).Type()) {
								for a := range st.load(e.ext(st.valRoots(rg.X), "[]")) {
									ch = st.rootsOf(x).add(fmt.Sprintf("%s#%d", a, i)) || ch
								}
							}
						}
					}
				}
			case *ssa.UnOp:
				if x.Op == token.MUL && pointerLike(x.Type()) {
					if isStructVal(x.Type()) {
						// a struct value is named by the location it was read from
						ch = st.rootsOf(x).addAll(st.valRoots(x.X)) || ch
					} else {
						ch = st.rootsOf(x).addAll(st.load(st.valRoots(x.X))) || ch
					}
				}
			case *ssa.Phi:
				for i, ed := range x.Edges {
					if nilOnEdge(x, i) {
						continue // `if s != nil { s = &copy }; return s`: on the other way in s is nil and refers to nothing
					}
					ch = st.rootsOf(x).addAll(st.valRoots(ed)) || ch
				}
			case *ssa.Slice:
				ch = st.rootsOf(x).addAll(st.valRoots(x.X)) || ch
			case *ssa.ChangeType:
				ch = st.rootsOf(x).addAll(st.valRoots(x.X)) || ch
			case *ssa.ChangeInterface:
				ch = st.rootsOf(x).addAll(st.valRoots(x.X)) || ch
			case *ssa.MakeInterface:
				ch = st.rootsOf(x).addAll(st.valRoots(x.X)) || ch
			case *ssa.TypeAssert:
				if x.CommaOk {
					for a := range st.valRoots(x.X) {
						ch = st.rootsOf(x).add(a+"#0") || ch
					}
				} else {
					ch = st.rootsOf(x).addAll(st.valRoots(x.X)) || ch
				}
			case *ssa.Extract:
				// tuples: per-index roots are kept under the tuple value with an index suffix
				ch = st.rootsOf(x).addAll(st.tupleRoots(x.Tuple, x.Index)) || ch
			case *ssa.Convert:
				if pointerLike(x.Type()) {
					// string <-> []byte / []rune conversions copy
					ch = st.rootsOf(x).add(st.site(x)) || ch
				}
			case *ssa.SliceToArrayPointer:
				ch = st.rootsOf(x).addAll(st.valRoots(x.X)) || ch
			case *ssa.Store:
				if isStructVal(x.Val.Type()) && pointerLike(x.Val.Type()) {
					locs := st.valRoots(x.Addr)
					for a := range locs {
						ch = st.mut(a, x.Pos()) || ch
					}
					ch = e.copyStructSkipping(st, locs, st.valRoots(x.Val), x.Val.Type(), x.Pos(), overriddenFields(x)) || ch
					break
				}
				var vals pset
				if pointerLike(x.Val.Type()) {
					vals = st.valRoots(x.Val)
				}
				ch = st.store(st.valRoots(x.Addr), vals, x.Pos()) || ch
			case *ssa.MapUpdate:
				var vals pset
				if pointerLike(x.Value.Type()) {
					vals = st.valRoots(x.Value)
				}
				ch = st.store(e.ext(st.valRoots(x.Map), "[]"), vals, x.Pos()) || ch
			case *ssa.Send:
				ch = st.store(e.ext(st.valRoots(x.Chan), "[]"), st.valRoots(x.X), x.Pos()) || ch
			case ssa.CallInstruction:
				ch = e.call(st, x) || ch
			case *ssa.Return:
				for i, r := range x.Results {
					if !pointerLike(r.Type()) {
						continue
					}
					for len(st.sum.Ret) <= i {
						st.sum.Ret = append(st.sum.Ret, pset{})
					}
					vals := st.valRoots(r)
					if isAddressOf(r, 0) {
						// `return &o.f`: the result is the address of memory that existed before the call, not what that
						// memory holds - marked so that the caller does not load through it
						marked := pset{}
						for o := range vals {
							if isPrePath(o) && !strings.HasPrefix(o, "&") {
								marked.add("&" + o)
							} else {
								marked.add(o)
							}
						}
						vals = marked
					}
					ch = e.exportRet(st, vals, st.sum.Ret[i]) || ch
				}
			}
		}
	}
	// export edges added to pre-existing objects
	for k, h := range st.heap {
		if isPrePath(k) {
			dst := st.sum.Heap[k]
			if dst == nil {
				dst = pset{}
				st.sum.Heap[k] = dst
			}
			ch = e.exportRet(st, h, dst) || ch
		}
	}
	return ch
}

// isAddressOf: v is the address of a field or element (possibly merged from several).
func isAddressOf(v ssa.Value, depth int) bool {
	switch x := v.(type) {
	case *ssa.FieldAddr, *ssa.IndexAddr:
		return true
	case *ssa.Phi:
		if depth > 3 || len(x.Edges) == 0 {
			return false
		}
		for _, e := range x.Edges {
			if !isAddressOf(e, depth+1) {
				return false
			}
		}
		return true
	}
	return false
}

func isStructVal(t types.Type) bool {
	switch t.Underlying().(type) {
	case *types.Struct, *types.Array:
		return true
	}
	return false
}

// copyStructSkipping is copyStruct for a struct, leaving out the top-level fields in skip.
func (e *Eff) copyStructSkipping(st *effFn, dst, src pset, t types.Type, pos token.Pos, skip map[int]bool) bool {
	u, ok := t.Underlying().(*types.Struct)
	if !ok || len(skip) == 0 {
		return e.copyStruct(st, dst, src, t, pos, 0)
	}
	ch := false
	for i := 0; i < u.NumFields(); i++ {
		ft := u.Field(i).Type()
		if !pointerLike(ft) || skip[i] {
			continue
		}
		el := fieldElem(t, i)
		d2, s2 := e.ext(dst, el), e.ext(src, el)
		if isStructVal(ft) {
			ch = e.copyStruct(st, d2, s2, ft, pos, 1) || ch
		} else {
			ch = st.store(d2, st.load(s2), pos) || ch
		}
	}
	return ch
}

// overriddenFields: `*c = *p` into a struct the function has just allocated, followed by stores that replace some of
// the copied fields before the function returns ("shallow copy, then the deep parts"). A field counts as replaced when
// a later store to c.f lies in a block that every return behind the copy passes through, or in the non-nil arm of a
// test `p.f != nil` of the very field it was copied from, that test being passed by every return (if p.f is nil there
// is nothing to share). What the copy put there is dead by the time anybody can see c.
func overriddenFields(cp *ssa.Store) map[int]bool {
	al, ok := cp.Addr.(*ssa.Alloc)
	if !ok {
		return nil
	}
	var srcPtr ssa.Value
	if ld, ok := cp.Val.(*ssa.UnOp); ok && ld.Op == token.MUL {
		srcPtr = ld.X
	}
	f := cp.Parent()
	cb := cp.Block()
	var rets []*ssa.BasicBlock
	for _, b := range f.Blocks {
		if _, ok := b.Instrs[len(b.Instrs)-1].(*ssa.Return); ok && cb.Dominates(b) {
			rets = append(rets, b)
		}
	}
	if len(rets) == 0 {
		return nil
	}
	passedByAll := func(b *ssa.BasicBlock) bool {
		for _, r := range rets {
			if !b.Dominates(r) {
				return false
			}
		}
		return true
	}
	after := func(ins ssa.Instruction) bool {
		b := ins.Block()
		if b == cb {
			for _, x := range cb.Instrs {
				if x == ssa.Instruction(cp) {
					return true
				}
				if x == ins {
					return false
				}
			}
		}
		return cb.Dominates(b)
	}
	// the struct must not leave the function's hands before the replacing store: only field addresses and loads
	var escapes []ssa.Instruction
	for _, r := range *al.Referrers() {
		switch x := r.(type) {
		case *ssa.FieldAddr, *ssa.UnOp, *ssa.DebugRef, *ssa.Return:
		case *ssa.Store:
			if x.Addr != ssa.Value(al) {
				escapes = append(escapes, x) // the pointer itself is stored somewhere
			}
		default:
			escapes = append(escapes, r)
		}
	}
	before := func(a, b ssa.Instruction) bool {
		if a.Block() == b.Block() {
			for _, x := range a.Block().Instrs {
				if x == a {
					return true
				}
				if x == b {
					return false
				}
			}
		}
		return a.Block().Dominates(b.Block())
	}
	out := map[int]bool{}
	for _, r := range *al.Referrers() {
		fa, ok := r.(*ssa.FieldAddr)
		if !ok {
			continue
		}
		for _, r2 := range *fa.Referrers() {
			st, ok := r2.(*ssa.Store)
			if !ok || st.Addr != ssa.Value(fa) || !after(st) {
				continue
			}
			hidden := true
			for _, e := range escapes {
				if !before(st, e) {
					hidden = false // somebody may have seen the struct before the field was replaced
				}
			}
			if !hidden {
				continue
			}
			b := st.Block()
			if passedByAll(b) {
				out[fa.Field] = true
				continue
			}
			// non-nil arm of a test of the source field
			if len(b.Preds) == 1 && srcPtr != nil {
				pb := b.Preds[0]
				if iff, ok := pb.Instrs[len(pb.Instrs)-1].(*ssa.If); ok && passedByAll(pb) {
					if bo, ok := iff.Cond.(*ssa.BinOp); ok && (bo.Op == token.NEQ || bo.Op == token.EQL) {
						for _, pr := range [][2]ssa.Value{{bo.X, bo.Y}, {bo.Y, bo.X}} {
							if !isNilConst(pr[1]) {
								continue
							}
							ld, ok := pr[0].(*ssa.UnOp)
							if !ok || ld.Op != token.MUL {
								continue
							}
							sfa, ok := ld.X.(*ssa.FieldAddr)
							if !ok || sfa.Field != fa.Field || sfa.X != srcPtr {
								continue
							}
							nonNil := pb.Succs[0]
							if bo.Op == token.EQL {
								nonNil = pb.Succs[1]
							}
							if nonNil == b {
								out[fa.Field] = true
							}
						}
					}
				}
			}
		}
	}
	// the deep parts done in a loop over the addresses of the fields:
	//   for _, f := range []**T{&c.a, &c.b} { if *f != nil { v := **f; *f = &v } }
	// every listed field ends up nil (then the copy held nil: nothing shared) or pointing to a new cell
	for _, r := range *al.Referrers() {
		fa, ok := r.(*ssa.FieldAddr)
		if !ok {
			continue
		}
		for _, r2 := range *fa.Referrers() {
			put, ok := r2.(*ssa.Store)
			if !ok || put.Val != ssa.Value(fa) || !after(put) {
				continue
			}
			ea, ok := put.Addr.(*ssa.IndexAddr)
			if !ok {
				continue
			}
			arr, ok := ea.X.(*ssa.Alloc)
			if !ok {
				continue
			}
			// the literal is only filled and sliced
			var sl *ssa.Slice
			okArr := true
			for _, ar := range *arr.Referrers() {
				switch x := ar.(type) {
				case *ssa.IndexAddr:
					for _, ar2 := range *x.Referrers() {
						if st, isSt := ar2.(*ssa.Store); !isSt || st.Addr != ssa.Value(x) {
							okArr = false
						}
					}
				case *ssa.Slice:
					if sl != nil || x.Low != nil || x.High != nil {
						okArr = false
					}
					sl = x
				case *ssa.DebugRef:
				default:
					okArr = false
				}
			}
			if !okArr || sl == nil {
				continue
			}
			// the range loop over it: element pointers loaded from &slice[i]
			for _, sr := range *sl.Referrers() {
				ia, ok := sr.(*ssa.IndexAddr)
				if !ok {
					continue
				}
				body := ia.Block()
				if len(body.Preds) != 1 {
					continue
				}
				header := body.Preds[0]
				if !strings.HasPrefix(header.Comment, "rangeindex") || !passedByAll(header) {
					continue
				}
				for _, ir := range *ia.Referrers() {
					elem, ok := ir.(*ssa.UnOp) // the **T of this round
					if !ok || elem.Op != token.MUL {
						continue
					}
					// if *elem != nil { *elem = new cell }
					iff, ok := body.Instrs[len(body.Instrs)-1].(*ssa.If)
					if !ok {
						continue
					}
					bo, ok := iff.Cond.(*ssa.BinOp)
					if !ok || bo.Op != token.NEQ || !isNilConst(bo.Y) {
						continue
					}
					tl, ok := bo.X.(*ssa.UnOp)
					if !ok || tl.Op != token.MUL || tl.X != ssa.Value(elem) {
						continue
					}
					then := body.Succs[0]
					if len(then.Preds) != 1 || len(then.Succs) != 1 || then.Succs[0] != header || body.Succs[1] != header {
						continue
					}
					replaced := false
					for _, ti := range then.Instrs {
						if st, ok := ti.(*ssa.Store); ok && st.Addr == ssa.Value(elem) {
							if _, fresh := st.Val.(*ssa.Alloc); fresh {
								replaced = true
							}
						}
					}
					// the struct is not seen by anybody before the loop is done
					var done *ssa.BasicBlock
					for _, sc := range header.Succs {
						if sc != body {
							done = sc
						}
					}
					hidden := done != nil
					for _, e := range escapes {
						if done == nil || !(done == e.Block() || done.Dominates(e.Block())) {
							hidden = false
						}
					}
					if replaced && hidden {
						out[fa.Field] = true
					}
				}
			}
		}
	}
	return out
}

// copyStruct models *dst = v for a struct (or array) value v named by the locations src.
func (e *Eff) copyStruct(st *effFn, dst, src pset, t types.Type, pos token.Pos, depth int) bool {
	ch := false
	if depth > 4 {
		return false
	}
	switch u := t.Underlying().(type) {
	case *types.Struct:
		for i := 0; i < u.NumFields(); i++ {
			ft := u.Field(i).Type()
			if !pointerLike(ft) {
				continue
			}
			el := fieldElem(t, i)
			d2, s2 := e.ext(dst, el), e.ext(src, el)
			if isStructVal(ft) {
				ch = e.copyStruct(st, d2, s2, ft, pos, depth+1) || ch
			} else {
				ch = st.store(d2, st.load(s2), pos) || ch
			}
		}
	case *types.Array:
		if pointerLike(u.Elem()) {
			d2, s2 := e.ext(dst, "[]"), e.ext(src, "[]")
			if isStructVal(u.Elem()) {
				ch = e.copyStruct(st, d2, s2, u.Elem(), pos, depth+1) || ch
			} else {
				ch = st.store(d2, st.load(s2), pos) || ch
			}
		}
	}
	return ch
}

// valRoots returns the roots of an operand (globals and constants included).
func (st *effFn) valRoots(v ssa.Value) pset {
	switch x := v.(type) {
	case *ssa.Global:
		r := st.rootsOf(v)
		r.add("G:" + x.Pkg.Pkg.Name() + "/" + x.Name())
		return r
	case *ssa.Const:
		return pset{}
	case *ssa.Function:
		return pset{}
	}
	return st.rootsOf(v)
}

func (st *effFn) tupleRoots(t ssa.Value, idx int) pset {
	key := fmt.Sprintf("#%d", idx)
	r := pset{}
	for a := range st.rootsOf(t) {
		if strings.HasSuffix(a, key) {
			r.add(strings.TrimSuffix(a, key))
		}
	}
	return r
}

// exportRet translates local referents into summary names (fresh objects F@x become Rx), copying the heap edges of
// every fresh object reachable from them.
func (e *Eff) exportRet(st *effFn, vals pset, dst pset) bool {
	ch := false
	var work []string
	seen := map[string]bool{}
	push := func(o string) string {
		name := "R" + o[2:]
		if !seen[o] {
			seen[o] = true
			work = append(work, o)
		}
		return name
	}
	for o := range vals {
		suffix := ""
		if i := strings.Index(o, "#"); i >= 0 {
			o, suffix = o[:i], o[i:]
		}
		if strings.HasPrefix(o, "F@") {
			ch = dst.add(push(o)+suffix) || ch
		} else {
			ch = dst.add(o+suffix) || ch
		}
	}
	for len(work) > 0 {
		local := work[0]
		work = work[1:]
		name := "R" + local[2:]
		prefix := local + "."
		for k, h := range st.heap {
			if k != local && !strings.HasPrefix(k, prefix) {
				continue
			}
			sk := name + k[len(local):]
			d := st.sum.Heap[sk]
			if d == nil {
				d = pset{}
				st.sum.Heap[sk] = d
			}
			for o := range h {
				if strings.HasPrefix(o, "F@") {
					ch = d.add(push(o)) || ch
				} else {
					ch = d.add(o) || ch
				}
			}
		}
	}
	return ch
}

// instantiate maps a callee path to caller paths.
// instantiate maps a callee path to caller paths.  As a location (a Mut entry, the key of a heap edge) the path names
// the memory that is written; as a referent (a value in Ret or on the right of a heap edge) it names the object the
// path refers to.  Between two elements the caller's heap is consulted: a field of an object that is fresh in the
// caller holds whatever the caller stored there.
func (e *Eff) instantiate(st *effFn, path string, args []pset, fnVal pset, siteName string, referent bool) pset {
	r := pset{}
	addr := strings.HasPrefix(path, "&")
	if addr {
		path = path[1:]
	}
	root := rootOf(path)
	elems := pathElems(path)
	var base pset
	switch {
	case strings.HasPrefix(root, "G:"):
		r.add(path)
		return r
	case root == "U":
		r.add("U")
		return r
	case strings.HasPrefix(root, "R"):
		// callee-fresh object: name it after the call site
		base = pset{}
		nm := "F@" + siteName + "/" + root[1:]
		if strings.Count(nm, "/") > 5 {
			nm = "F@" + siteName + "/~"
		}
		base.add(nm)
		st.fresh[nm] = true
	case strings.HasPrefix(root, "P"):
		var idx int
		fmt.Sscanf(root[1:], "%d", &idx)
		if idx < len(args) {
			base = args[idx]
		}
	case strings.HasPrefix(root, "V"):
		base = pset{}
		for a := range fnVal {
			k := a + "." + root
			if h, ok := st.heap[k]; ok {
				base.addAll(h)
			}
			if !isFreshPath(a) {
				base.add(a + "." + root)
			}
		}
	}
	cur := base
	for i, el := range elems {
		if i > 0 {
			cur = st.load(cur)
		}
		if el == "*" {
			n := pset{}
			for k := range cur {
				if strings.HasSuffix(k, ".*") || k == "U" {
					n.add(k)
				} else {
					n.add(k + ".*")
				}
			}
			cur = n
			break
		}
		cur = e.ext(cur, el)
	}
	if referent && len(elems) > 0 && !addr {
		cur = st.load(cur)
	}
	r.addAll(cur)
	return r
}

func (e *Eff) call(st *effFn, ci ssa.CallInstruction) bool {
	ch := false
	com := ci.Common()
	val, _ := ci.(ssa.Value)
	var argv []ssa.Value
	if com.IsInvoke() {
		argv = append([]ssa.Value{com.Value}, com.Args...)
	} else {
		argv = com.Args
	}
	args := make([]pset, len(argv))
	for i, a := range argv {
		if pointerLike(a.Type()) {
			args[i] = st.valRoots(a)
		} else {
			args[i] = pset{}
		}
	}
	if b, ok := com.Value.(*ssa.Builtin); ok {
		switch b.Name() {
		case "append":
			if val != nil {
				r := st.rootsOf(val)
				ch = r.addAll(args[0]) || ch
				ch = r.add(st.site(val)) || ch
				var elems pset
				if len(args) > 1 {
					if sl, ok := argv[1].Type().Underlying().(*types.Slice); ok && pointerLike(sl.Elem()) {
						elems = st.load(e.ext(args[1], "[]"))
					}
				}
				for a := range r {
					// append may write into the existing backing array
					ch = st.store(pset{e.ext1(a, "[]"): {}}, elems, ci.Pos()) || ch
				}
			}
		case "copy":
			var elems pset
			if sl, ok := argv[0].Type().Underlying().(*types.Slice); ok && pointerLike(sl.Elem()) {
				elems = st.load(e.ext(args[1], "[]"))
			}
			ch = st.store(e.ext(args[0], "[]"), elems, ci.Pos()) || ch
		case "delete":
			ch = st.store(e.ext(args[0], "[]"), nil, ci.Pos()) || ch
		case "clear":
			ch = st.store(e.ext(args[0], "[]"), nil, ci.Pos()) || ch
		}
		return ch
	}
	var fnVal pset
	if !com.IsInvoke() {
		if _, isFn := com.Value.(*ssa.Function); !isFn {
			fnVal = st.valRoots(com.Value)
		}
	}
	callees := e.P.Callees(st.fn, ci)
	siteName := ""
	if val != nil {
		siteName = val.Name()
	} else {
		siteName = fmt.Sprintf("c%d", ci.Pos())
	}
	if len(callees) == 0 {
		// no callee known: a function value that nothing in the program flows into (e.g. nil option callback)
		if val != nil && pointerLike(val.Type()) {
			ch = st.rootsOf(val).add("U") || ch
		}
		return ch
	}
	for _, c := range callees {
		cs := e.St[c]
		if cs == nil {
			ch = e.extCall(st, ci, c, args, argv, val) || ch
			continue
		}
		a2 := args
		if !com.IsInvoke() {
			// bound-method closures and ordinary closures: free variables come from the function value
			a2 = args
		}
		for m := range cs.sum.Mut {
			for a := range e.instantiate(st, m, a2, fnVal, siteName, false) {
				pos := ci.Pos()
				if a != "U" {
					if isPrePath(a) {
						ch = st.mut(a, pos) || ch
					}
				}
			}
		}
		// edges the callee added to pre-existing or returned objects
		for k, h := range cs.sum.Heap {
			locs := e.instantiate(st, k, a2, fnVal, siteName, false)
			vals := pset{}
			for o := range h {
				vals.addAll(e.instantiate(st, o, a2, fnVal, siteName, true))
			}
			for l := range locs {
				if l == "U" {
					continue
				}
				ch = st.heapOf(l).addAll(vals) || ch
			}
		}
		if val != nil {
			if tup, ok := val.Type().(*types.Tuple); ok {
				for i := 0; i < tup.Len() && i < len(cs.sum.Ret); i++ {
					for o := range cs.sum.Ret[i] {
						for a := range e.instantiate(st, o, a2, fnVal, siteName, true) {
							ch = st.rootsOf(val).add(fmt.Sprintf("%s#%d", a, i)) || ch
						}
					}
				}
			} else if len(cs.sum.Ret) > 0 && pointerLike(val.Type()) {
				for o := range cs.sum.Ret[0] {
					ch = st.rootsOf(val).addAll(e.instantiate(st, o, a2, fnVal, siteName, true)) || ch
				}
			}
		}
	}
	return ch
}

// extCall applies the external-call table.
func (e *Eff) extCall(st *effFn, ci ssa.CallInstruction, c *ssa.Function, args []pset, argv []ssa.Value, val ssa.Value) bool {
	ch := false
	name := c.String()
	ent, ok := e.Ext.lookup(c)
	if !ok {
		if st.sum.Unknown == nil {
			st.sum.Unknown = map[string]token.Pos{}
		}
		if _, seen := st.sum.Unknown[name]; !seen {
			st.sum.Unknown[name] = ci.Pos()
			ch = true
		}
	}
	if ent.Synchronised {
		// ordered by the memory model: neither the lock word nor the one-time initialiser's writes count as Mut
		if val != nil && pointerLike(val.Type()) {
			ch = st.rootsOf(val).add(st.site(val)) || ch
		}
		return ch
	}
	for _, i := range ent.Mutates {
		if i < len(args) {
			for a := range args[i] {
				ch = st.mut(a, ci.Pos()) || ch
				if ent.Elems {
					ch = st.mut(e.ext1(a, "[]"), ci.Pos()) || ch
				}
			}
		}
	}
	// closures handed to external code are called by it: apply their effects on captured variables
	for i, a := range argv {
		if _, ok := a.Type().Underlying().(*types.Signature); !ok {
			continue
		}
		for _, callee := range e.closureTargets(a) {
			cs := e.St[callee]
			if cs == nil {
				continue
			}
			for m := range cs.sum.Mut {
				if strings.HasPrefix(m, "P") {
					continue // parameters are supplied by the external caller
				}
				for p := range e.instantiate(st, m, nil, args[i], "ext", false) {
					ch = st.mut(p, ci.Pos()) || ch
				}
			}
		}
	}
	if val != nil {
		if tup, ok := val.Type().(*types.Tuple); ok {
			for i := 0; i < tup.Len(); i++ {
				if pointerLike(tup.At(i).Type()) {
					s := st.site(val)
					ch = st.rootsOf(val).add(fmt.Sprintf("%s#%d", s, i)) || ch
				}
			}
		} else if pointerLike(val.Type()) {
			if ent.ReturnsArg >= 0 && ent.ReturnsArg < len(args) {
				ch = st.rootsOf(val).addAll(args[ent.ReturnsArg]) || ch
			} else {
				ch = st.rootsOf(val).add(st.site(val)) || ch
			}
		}
	}
	return ch
}

func (e *Eff) closureTargets(v ssa.Value) []*ssa.Function {
	switch x := v.(type) {
	case *ssa.MakeClosure:
		if f, ok := x.Fn.(*ssa.Function); ok {
			return []*ssa.Function{f}
		}
	case *ssa.Function:
		return []*ssa.Function{x}
	}
	return nil
}

// extEntry summarises an external callee.
type extEntry struct {
	Mutates    []int // argument indices (receiver = 0) whose referent is written
	Elems      bool  // the write is to the elements
	ReturnsArg int   // result aliases this argument (-1: fresh)
	Reason     string
	// Synchronised: writes are ordered by the Go memory model (sync.Once, mutex words); not counted as Mut.
	Synchronised bool
}

type extTable struct {
	pure     map[string]string          // package path -> reason
	entries  map[string]extEntry        // by ssa.Function.String()
	stateful map[string]map[string]bool // "pkg.Type" -> reader methods
}

// BuildEff computes the summaries to a fixpoint.
func BuildEff(c *Ctx) *Eff {
	return c.Memo("eff", func() interface{} {
		e := &Eff{P: c.P, Depth: 3, St: map[*ssa.Function]*effFn{}, Ext: loadExtTable(c)}
		if c.Deep {
			e.Depth = 4
		}
		for f := range c.P.AllFns {
			if len(f.Blocks) == 0 {
				continue
			}
			if c.P.InModule(f) || c.P.InBitset(f) {
				e.Fns = append(e.Fns, f)
			}
		}
		sort.Slice(e.Fns, func(i, j int) bool { return e.Fns[i].String() < e.Fns[j].String() })
		for _, f := range e.Fns {
			e.St[f] = &effFn{fn: f, roots: map[ssa.Value]pset{}, heap: map[string]pset{}, fresh: map[string]bool{},
				sum: &effSummary{Mut: pset{}, Heap: map[string]pset{}, MutSites: map[string]token.Pos{}}}
		}
		for round := 1; round <= 60; round++ {
			ch := false
			for _, f := range e.Fns {
				n := 0
				for e.step(e.St[f]) {
					ch = true
					n++
					if n > 200 {
						panic("EFF: no local fixpoint in " + f.String())
					}
				}
			}
			e.Rounds = round
			if !ch {
				break
			}
			if round == 60 {
				panic("EFF: no global fixpoint after 60 rounds")
			}
		}
		c.P.Stats["eff_functions"] = len(e.Fns)
		c.P.Stats["eff_rounds"] = e.Rounds
		return e
	}).(*Eff)
}

// Sum returns the summary of a function (nil if not analysed).
func (e *Eff) Sum(f *ssa.Function) *effSummary {
	if st := e.St[f]; st != nil {
		return st.sum
	}
	return nil
}

// MutRootedAt lists Mut entries whose root is the given parameter index.
func (s *effSummary) MutRootedAt(param int) []string {
	var out []string
	pre := fmt.Sprintf("P%d", param)
	for m := range s.Mut {
		if rootOf(m) == pre {
			out = append(out, m)
		}
	}
	sort.Strings(out)
	return out
}

// MutGlobals lists Mut entries rooted at globals.
func (s *effSummary) MutGlobals() []string {
	var out []string
	for m := range s.Mut {
		if strings.HasPrefix(m, "G:") {
			out = append(out, m)
		}
	}
	sort.Strings(out)
	return out
}

// constBool returns the value of a boolean constant operand.
func constBool(v ssa.Value) (bool, bool) {
	c, ok := v.(*ssa.Const)
	if !ok || c.Value == nil || c.Value.Kind() != constant.Bool {
		return false, false
	}
	return constant.BoolVal(c.Value), true
}

// nilOnEdge: the value the phi receives on its i-th edge was tested against nil by the branch that leads to that edge
// (directly, or one jump-only block earlier), and the edge is the "is nil" side.
func nilOnEdge(phi *ssa.Phi, i int) bool {
	b := phi.Block()
	if i >= len(b.Preds) {
		return false
	}
	v := phi.Edges[i]
	if !pointerLike(v.Type()) {
		return false
	}
	if _, isK := v.(*ssa.Const); isK {
		return false
	}
	to, from := b, b.Preds[i]
	for hop := 0; hop < 2; hop++ {
		if iff, ok := from.Instrs[len(from.Instrs)-1].(*ssa.If); ok && len(from.Succs) == 2 && from.Succs[0] != from.Succs[1] {
			bo, ok := iff.Cond.(*ssa.BinOp)
			if !ok || (bo.Op != token.EQL && bo.Op != token.NEQ) {
				return false
			}
			var other ssa.Value
			switch {
			case bo.X == v:
				other = bo.Y
			case bo.Y == v:
				other = bo.X
			default:
				return false
			}
			k, isK := other.(*ssa.Const)
			if !isK || !k.IsNil() {
				return false
			}
			nilSucc := from.Succs[0]
			if bo.Op == token.NEQ {
				nilSucc = from.Succs[1]
			}
			return nilSucc == to
		}
		// a block that only jumps on, entered from one place
		if _, isJ := from.Instrs[len(from.Instrs)-1].(*ssa.Jump); !isJ || len(from.Instrs) != 1 || len(from.Preds) != 1 {
			return false
		}
		to, from = from, from.Preds[0]
	}
	return false
}
