package rules

// Dominating branch facts on a CFG pruned by the handler summary: after `if err := handle…(…, true); err != nil`
// the nil edge is infeasible (a handler called with the literal failure flag true never returns nil — ERR-shape).

import (
	"go/token"
	"go/types"

	"golang.org/x/tools/go/ssa"
)

type condFact struct {
	Cond   ssa.Value
	Val    bool
	Origin *ssa.BasicBlock // the block whose branch established the fact
}

type fnFacts struct {
	fn       *ssa.Function
	feasible map[*ssa.BasicBlock][]bool // per block, per successor index
	dom      map[*ssa.BasicBlock]map[*ssa.BasicBlock]bool
	preds    map[*ssa.BasicBlock][]*ssa.BasicBlock // feasible predecessors
	reach    map[*ssa.BasicBlock]bool
}

// alwaysNonNil tells whether v is the result of a handler call with the literal failure flag true.
func alwaysNonNil(c *Ctx, v ssa.Value) bool {
	call, ok := v.(*ssa.Call)
	if !ok {
		return false
	}
	em := buildErrModel(c)
	h := em.Handlers[call.Common().StaticCallee()]
	if h == nil {
		return false
	}
	if h.ErrResult != 0 {
		return false // the answer is one of several results: the call itself is a tuple
	}
	fl, known := h.failureAt(call)
	return known && fl
}

// Facts computes (and caches) the pruned dominance information of a function.
func Facts(c *Ctx, f *ssa.Function) *fnFacts {
	return c.Memo("facts:"+f.String(), func() interface{} {
		ff := &fnFacts{fn: f, feasible: map[*ssa.BasicBlock][]bool{}, dom: map[*ssa.BasicBlock]map[*ssa.BasicBlock]bool{}, preds: map[*ssa.BasicBlock][]*ssa.BasicBlock{}, reach: map[*ssa.BasicBlock]bool{}}
		for _, b := range f.Blocks {
			fe := make([]bool, len(b.Succs))
			for i := range fe {
				fe[i] = true
			}
			if iff, ok := lastIf(b); ok {
				if bo, ok := iff.Cond.(*ssa.BinOp); ok && (bo.Op == token.NEQ || bo.Op == token.EQL) {
					for _, pr := range [][2]ssa.Value{{bo.X, bo.Y}, {bo.Y, bo.X}} {
						if isNilConst(pr[1]) && alwaysNonNil(c, pr[0]) {
							if bo.Op == token.NEQ {
								fe[1] = false
							} else {
								fe[0] = false
							}
						}
					}
				}
				// constant conditions
				if k, ok := iff.Cond.(*ssa.Const); ok {
					if v, ok := constBool(k); ok {
						if v {
							fe[1] = false
						} else {
							fe[0] = false
						}
					}
				}
			}
			ff.feasible[b] = fe
		}
		// reachability over feasible edges
		var work []*ssa.BasicBlock
		if len(f.Blocks) > 0 {
			work = append(work, f.Blocks[0])
			ff.reach[f.Blocks[0]] = true
		}
		for len(work) > 0 {
			b := work[len(work)-1]
			work = work[:len(work)-1]
			for i, s := range b.Succs {
				if ff.feasible[b][i] {
					ff.preds[s] = append(ff.preds[s], b)
					if !ff.reach[s] {
						ff.reach[s] = true
						work = append(work, s)
					}
				}
			}
		}
		// iterative dominators over reachable blocks
		all := map[*ssa.BasicBlock]bool{}
		for b := range ff.reach {
			all[b] = true
		}
		for b := range ff.reach {
			if b == f.Blocks[0] {
				ff.dom[b] = map[*ssa.BasicBlock]bool{b: true}
			} else {
				d := map[*ssa.BasicBlock]bool{}
				for x := range all {
					d[x] = true
				}
				ff.dom[b] = d
			}
		}
		for changed := true; changed; {
			changed = false
			for _, b := range f.Blocks {
				if !ff.reach[b] || b == f.Blocks[0] {
					continue
				}
				var nd map[*ssa.BasicBlock]bool
				for _, p := range ff.preds[b] {
					if !ff.reach[p] {
						continue
					}
					if nd == nil {
						nd = map[*ssa.BasicBlock]bool{}
						for x := range ff.dom[p] {
							nd[x] = true
						}
					} else {
						for x := range nd {
							if !ff.dom[p][x] {
								delete(nd, x)
							}
						}
					}
				}
				if nd == nil {
					nd = map[*ssa.BasicBlock]bool{}
				}
				nd[b] = true
				if len(nd) != len(ff.dom[b]) {
					ff.dom[b] = nd
					changed = true
				}
			}
		}
		return ff
	}).(*fnFacts)
}

// Dominates tells whether a dominates b on the pruned CFG.
func (ff *fnFacts) Dominates(a, b *ssa.BasicBlock) bool {
	return ff.dom[b] != nil && ff.dom[b][a]
}

// Reachable tells whether b is reachable over feasible edges.
func (ff *fnFacts) Reachable(b *ssa.BasicBlock) bool { return ff.reach[b] }

// At returns the branch facts that hold whenever block b executes.
func (ff *fnFacts) At(b *ssa.BasicBlock) []condFact {
	var out []condFact
	for x := range ff.dom[b] {
		iff, ok := lastIf(x)
		if !ok {
			continue
		}
		for i, s := range x.Succs {
			if !ff.feasible[x][i] {
				continue
			}
			if len(x.Succs) == 2 && x.Succs[0] == x.Succs[1] {
				continue
			}
			// s must be entered only from x (over feasible edges) and dominate b
			if len(ff.preds[s]) != 1 || ff.preds[s][0] != x {
				continue
			}
			if !ff.Dominates(s, b) {
				continue
			}
			for _, nf := range normFact(iff.Cond, i == 0) {
				nf.Origin = x
				out = append(out, nf)
			}
		}
	}
	direct := out
	for _, nf := range direct {
		out = append(out, ff.throughBoolPhi(nf, direct, 0)...)
	}
	for _, nf := range direct {
		out = append(out, ff.throughMerge(nf, 0)...)
	}
	return out
}

// throughMerge: the branch form of throughBoolPhi. A test made in a block where several ways meet
// (`if a && b {…} else if a {…}`: the second test of a stands where "a false" and "b false" meet) rules out the ways
// in on which the same comparison, computed before, came out the other way; if one way is left, control came that
// way, and what held there holds.
func (ff *fnFacts) throughMerge(f condFact, depth int) []condFact {
	x := f.Origin
	if x == nil || depth > 2 || len(ff.preds[x]) < 2 {
		return nil
	}
	fk := exprKey(f.Cond, 0)
	var left *ssa.BasicBlock
	var leftFacts []condFact
	for _, p := range ff.preds[x] {
		if ff.Dominates(x, p) {
			return nil // a way round a loop: what held before the test is not what holds after a round
		}
		var ef []condFact
		ef = append(ef, ff.atNoMerge(p)...)
		if iff, ok := lastIf(p); ok && len(p.Succs) == 2 && p.Succs[0] != p.Succs[1] {
			for i, sc := range p.Succs {
				if sc == x && ff.feasible[p][i] {
					for _, nf := range normFact(iff.Cond, i == 0) {
						nf.Origin = p
						ef = append(ef, nf)
					}
				}
			}
		}
		contradicted := false
		for _, e := range ef {
			if e.Val != f.Val && (e.Cond == f.Cond || exprKey(e.Cond, 0) == fk) {
				if _, isCmp := e.Cond.(*ssa.BinOp); isCmp || e.Cond == f.Cond {
					contradicted = true
				}
			}
		}
		if contradicted {
			continue
		}
		if left != nil {
			return nil
		}
		left, leftFacts = p, ef
	}
	if left == nil {
		return nil
	}
	out := append([]condFact(nil), leftFacts...)
	for _, g := range leftFacts {
		if g.Origin != nil && g.Origin != x {
			out = append(out, ff.throughMerge(g, depth+1)...)
		}
	}
	return out
}

// atNoMerge: the dominance facts at b (without the refinements through merges, which call this).
func (ff *fnFacts) atNoMerge(b *ssa.BasicBlock) []condFact {
	var out []condFact
	for x := range ff.dom[b] {
		iff, ok := lastIf(x)
		if !ok {
			continue
		}
		for i, s := range x.Succs {
			if !ff.feasible[x][i] || (len(x.Succs) == 2 && x.Succs[0] == x.Succs[1]) {
				continue
			}
			if len(ff.preds[s]) != 1 || ff.preds[s][0] != x || !ff.Dominates(s, b) {
				continue
			}
			for _, nf := range normFact(iff.Cond, i == 0) {
				nf.Origin = x
				out = append(out, nf)
			}
		}
	}
	return out
}

// exprKey: a structural name for a side-effect-free expression over SSA values, so that the same comparison computed
// twice (go/ssa does not share them) is recognised as the same condition.
func exprKey(v ssa.Value, depth int) string {
	if depth > 4 {
		return v.Name()
	}
	switch x := v.(type) {
	case *ssa.Const:
		return x.String()
	case *ssa.BinOp:
		return "(" + exprKey(x.X, depth+1) + x.Op.String() + exprKey(x.Y, depth+1) + ")"
	case *ssa.UnOp:
		if x.Op != token.MUL && x.Op != token.ARROW {
			return x.Op.String() + exprKey(x.X, depth+1)
		}
	case *ssa.Convert:
		return x.Type().String() + "(" + exprKey(x.X, depth+1) + ")"
	case *ssa.Call:
		if b, ok := x.Common().Value.(*ssa.Builtin); ok && b.Name() == "len" && len(x.Common().Args) == 1 {
			if _, isStr := x.Common().Args[0].Type().Underlying().(*types.Basic); isStr {
				return "len(" + exprKey(x.Common().Args[0], depth+1) + ")" // strings are immutable
			}
		}
	}
	return v.Name()
}

// throughBoolPhi: a branch on a merged boolean (the value form of `a || b`, `a && b`: constant on the edges that
// short-circuit). Knowing the outcome rules out the constant edges that say otherwise; if one edge is left, control
// came that way: the facts of that predecessor hold, and so does the edge's own value.
func (ff *fnFacts) throughBoolPhi(f condFact, known []condFact, depth int) []condFact {
	phi, ok := f.Cond.(*ssa.Phi)
	if !ok || depth > 3 {
		return nil
	}
	left := -1
	for i, e := range phi.Edges {
		if i >= len(phi.Block().Preds) || !ff.reach[phi.Block().Preds[i]] {
			continue
		}
		if k, isK := constBool(e); isK && k != f.Val {
			continue
		}
		// the edge is taken only under a branch outcome that a known fact contradicts (the same comparison, computed
		// again, came out the other way)
		pred := phi.Block().Preds[i]
		if iff, ok := lastIf(pred); ok && len(pred.Succs) == 2 && pred.Succs[0] != pred.Succs[1] {
			contradicted := false
			for si, sc := range pred.Succs {
				if sc != phi.Block() {
					continue
				}
				for _, ef := range normFact(iff.Cond, si == 0) {
					ek := exprKey(ef.Cond, 0)
					for _, kf := range known {
						if kf.Val != ef.Val && kf.Cond != ef.Cond && exprKey(kf.Cond, 0) == ek {
							contradicted = true
						}
						if kf.Val != ef.Val && kf.Cond == ef.Cond {
							contradicted = true
						}
					}
				}
			}
			if contradicted {
				continue
			}
		}
		if left >= 0 {
			return nil
		}
		left = i
	}
	if left < 0 {
		return nil
	}
	pred := phi.Block().Preds[left]
	var out []condFact
	for _, g := range ff.At(pred) {
		out = append(out, g)
	}
	// the branch of pred that leads into the merge
	if iff, ok := lastIf(pred); ok && len(pred.Succs) == 2 && pred.Succs[0] != pred.Succs[1] {
		for i, sc := range pred.Succs {
			if sc == phi.Block() && ff.feasible[pred][i] {
				for _, nf := range normFact(iff.Cond, i == 0) {
					nf.Origin = pred
					out = append(out, nf)
				}
			}
		}
	}
	if _, isK := phi.Edges[left].(*ssa.Const); !isK {
		for _, nf := range normFact(phi.Edges[left], f.Val) {
			nf.Origin = pred
			out = append(out, nf)
			out = append(out, ff.throughBoolPhi(nf, known, depth+1)...)
		}
	}
	return out
}

// normFact strips negations.
func normFact(v ssa.Value, val bool) []condFact {
	for {
		if u, ok := v.(*ssa.UnOp); ok && u.Op == token.NOT {
			v = u.X
			val = !val
			continue
		}
		break
	}
	return []condFact{{Cond: v, Val: val}}
}

// sameValue: SSA value identity modulo loads of the same unmodified cell and conversions.
func sameValue(a, b ssa.Value) bool {
	if a == b {
		return true
	}
	return false
}

// callTo recognises a static call to pkgpath.name (or a method by receiver type name) and returns its arguments.
func callTo(v ssa.Value, match func(*ssa.Function) bool) (*ssa.Call, bool) {
	call, ok := v.(*ssa.Call)
	if !ok {
		return nil, false
	}
	cl := call.Common().StaticCallee()
	if cl == nil || !match(cl) {
		return nil, false
	}
	return call, true
}

func fnNamed(full string) func(*ssa.Function) bool {
	return func(f *ssa.Function) bool { return f.String() == full }
}

// controlFacts: like At, for the block of an instruction.
func (ff *fnFacts) Of(ins ssa.Instruction) []condFact { return ff.At(ins.Block()) }

// ---- expanded calls: the calls a function makes, looking through module helpers (virtual inlining) ----

type xcall struct {
	Call  *ssa.Call
	Fn    *ssa.Function // function that contains the call
	Facts []condFact    // branch facts at the call, including those inherited along the chain of call sites
	Chain []*ssa.Call   // call instructions from the root function down to (and including) Call
	bind  map[ssa.Value]ssa.Value
}

// Root maps a value of Fn to the value of the root function it stands for (parameters bound along the chain).
func (x *xcall) Root(v ssa.Value) ssa.Value {
	for i := 0; i < 8; i++ {
		r, ok := x.bind[v]
		if !ok {
			return v
		}
		v = r
	}
	return v
}

func expandCalls(c *Ctx, root *ssa.Function, follow func(*ssa.Function) bool, maxDepth int) []xcall {
	var out []xcall
	var rec func(fn *ssa.Function, inherited []condFact, bind map[ssa.Value]ssa.Value, chain []*ssa.Call, depth int, onStack map[*ssa.Function]bool)
	rec = func(fn *ssa.Function, inherited []condFact, bind map[ssa.Value]ssa.Value, chain []*ssa.Call, depth int, onStack map[*ssa.Function]bool) {
		ff := Facts(c, fn)
		for _, b := range fn.Blocks {
			if !ff.Reachable(b) {
				continue
			}
			for _, ins := range b.Instrs {
				call, ok := ins.(*ssa.Call)
				if !ok {
					continue
				}
				facts := append(append([]condFact(nil), inherited...), ff.At(b)...)
				ch := append(append([]*ssa.Call(nil), chain...), call)
				x := xcall{Call: call, Fn: fn, Facts: facts, Chain: ch, bind: bind}
				out = append(out, x)
				cl := call.Common().StaticCallee()
				// a plan: the call runs every element of a slice of functions held in a field (`for _, step := range
				// p.steps { step(u) }`); each function that is ever appended to a slice stored into that field is run — under
				// the condition it was appended under, where the plan was made
				if cl == nil && !call.Common().IsInvoke() && depth < maxDepth {
					for _, st := range planSteps(c, call) {
						if len(st.fn.Blocks) == 0 || onStack[st.fn] || !follow(st.fn) {
							continue
						}
						var fs []condFact
						for _, f0 := range facts {
							if !isRangeBoundFact(f0) {
								fs = append(fs, f0)
							}
						}
						fs = append(fs, st.facts...)
						nb := map[ssa.Value]ssa.Value{}
						for k, v := range bind {
							nb[k] = v
						}
						for i, p := range st.fn.Params {
							if i < len(call.Common().Args) {
								nb[p] = x.Root(call.Common().Args[i])
							}
						}
						onStack[st.fn] = true
						rec(st.fn, fs, nb, ch, depth+1, onStack)
						delete(onStack, st.fn)
					}
					continue
				}
				if cl == nil || len(cl.Blocks) == 0 || depth >= maxDepth || onStack[cl] || !follow(cl) {
					continue
				}
				nb := map[ssa.Value]ssa.Value{}
				for k, v := range bind {
					nb[k] = v
				}
				for i, p := range cl.Params {
					if i < len(call.Common().Args) {
						nb[p] = x.Root(call.Common().Args[i])
					}
				}
				onStack[cl] = true
				rec(cl, facts, nb, ch, depth+1, onStack)
				delete(onStack, cl)
			}
		}
	}
	rec(root, nil, map[ssa.Value]ssa.Value{}, nil, 0, map[*ssa.Function]bool{root: true})
	return out
}

// mayPrecede: can a execute before b in one run of the root function? (compared at the first level where the chains differ)
func mayPrecede(a, b xcall) bool {
	for k := 0; k < len(a.Chain) && k < len(b.Chain); k++ {
		if a.Chain[k] == b.Chain[k] {
			continue
		}
		ia, ib := a.Chain[k], b.Chain[k]
		if ia.Block() == ib.Block() {
			for _, ins := range ia.Block().Instrs {
				if ins == ssa.Instruction(ia) {
					return true
				}
				if ins == ssa.Instruction(ib) {
					break
				}
			}
			// b comes first in the block: a precedes b only around a loop
		}
		seen := map[*ssa.BasicBlock]bool{}
		work := append([]*ssa.BasicBlock(nil), ia.Block().Succs...)
		for len(work) > 0 {
			blk := work[len(work)-1]
			work = work[:len(work)-1]
			if blk == ib.Block() {
				return true
			}
			if seen[blk] {
				continue
			}
			seen[blk] = true
			work = append(work, blk.Succs...)
		}
		return false
	}
	return false
}

// ---- facts that hold at a site because every caller establishes them ----

type callSite struct {
	Fn   *ssa.Function
	Call *ssa.Call
}

type siteIndex struct {
	sites map[*ssa.Function][]callSite
	taken map[*ssa.Function]bool // referenced other than as the callee of a static call
}

func sitesOf(c *Ctx) *siteIndex {
	return c.Memo("siteIndex", func() interface{} {
		ix := &siteIndex{sites: map[*ssa.Function][]callSite{}, taken: map[*ssa.Function]bool{}}
		for _, g := range c.P.ModFns {
			for _, b := range g.Blocks {
				for _, ins := range b.Instrs {
					var callee ssa.Value
					switch x := ins.(type) {
					case *ssa.Call:
						callee = x.Common().Value
						if cl := x.Common().StaticCallee(); cl != nil {
							ix.sites[cl] = append(ix.sites[cl], callSite{g, x})
						}
					case *ssa.Go:
						callee = x.Common().Value
						if cl := x.Common().StaticCallee(); cl != nil {
							ix.taken[cl] = true
						}
					case *ssa.Defer:
						callee = x.Common().Value
						if cl := x.Common().StaticCallee(); cl != nil {
							ix.taken[cl] = true
						}
					}
					for _, op := range ins.Operands(nil) {
						if op == nil || *op == nil {
							continue
						}
						if fn, ok := (*op).(*ssa.Function); ok && *op != callee {
							ix.taken[fn] = true
						}
					}
				}
			}
		}
		return ix
	}).(*siteIndex)
}

// holdsUpward: pred holds for the facts at block b of f, or — when f is an unexported function that is only ever called
// statically — for the facts at b joined with those at each of its call sites (recursively, depth levels up). root maps
// a value to the caller-side value it stands for (parameters bound to arguments along the chain).
func holdsUpward(c *Ctx, f *ssa.Function, b *ssa.BasicBlock, depth int, pred func(facts []condFact, root func(ssa.Value) ssa.Value) bool) bool {
	ix := sitesOf(c)
	var rec func(f *ssa.Function, b *ssa.BasicBlock, facts []condFact, bind map[ssa.Value]ssa.Value, depth int, stack map[*ssa.Function]bool) bool
	rec = func(f *ssa.Function, b *ssa.BasicBlock, facts []condFact, bind map[ssa.Value]ssa.Value, depth int, stack map[*ssa.Function]bool) bool {
		all := append(append([]condFact(nil), facts...), Facts(c, f).At(b)...)
		root := func(v ssa.Value) ssa.Value {
			for i := 0; i < 8; i++ {
				r, ok := bind[v]
				if !ok {
					return v
				}
				v = r
			}
			return v
		}
		if pred(all, root) {
			return true
		}
		if depth == 0 || ix.taken[f] || stack[f] || len(ix.sites[f]) == 0 {
			return false
		}
		if f.Object() != nil && f.Object().Exported() {
			return false
		}
		stack[f] = true
		defer delete(stack, f)
		for _, cs := range ix.sites[f] {
			nb := map[ssa.Value]ssa.Value{}
			for k, v := range bind {
				nb[k] = v
			}
			for i, p := range f.Params {
				if i < len(cs.Call.Common().Args) {
					nb[p] = cs.Call.Common().Args[i]
				}
			}
			if !Facts(c, cs.Fn).Reachable(cs.Call.Block()) {
				continue
			}
			if !rec(cs.Fn, cs.Call.Block(), all, nb, depth-1, stack) {
				return false
			}
		}
		return true
	}
	return rec(f, b, nil, map[ssa.Value]ssa.Value{}, depth, map[*ssa.Function]bool{})
}

// ---- plans: slices of functions kept in a field and run in a loop ----

type planStep struct {
	fn    *ssa.Function
	facts []condFact // the branch facts under which it was appended, in the function that made the plan
}

// isRangeBoundFact: the test of a range loop over a slice (rangeindex < len).
func isRangeBoundFact(f condFact) bool {
	bo, ok := f.Cond.(*ssa.BinOp)
	if !ok || bo.Op != token.LSS {
		return false
	}
	inc, ok := bo.X.(*ssa.BinOp)
	if !ok || inc.Op != token.ADD {
		return false
	}
	phi, ok := inc.X.(*ssa.Phi)
	return ok && phi.Comment == "rangeindex"
}

// planSteps: call is `e(args)` with e an element of a slice loaded from a field F of an object; returns the named
// functions that are appended (with the builtin append) to a slice that is stored into F somewhere in the module —
// directly or as the result of the function that builds it — each with the facts at its append.
func planSteps(c *Ctx, call *ssa.Call) []planStep {
	ld, ok := call.Common().Value.(*ssa.UnOp)
	if !ok || ld.Op != token.MUL {
		return nil
	}
	ia, ok := ld.X.(*ssa.IndexAddr)
	if !ok {
		return nil
	}
	sl, ok := ia.X.(*ssa.UnOp)
	if !ok || sl.Op != token.MUL {
		return nil
	}
	fa, ok := sl.X.(*ssa.FieldAddr)
	if !ok {
		return nil
	}
	el := fieldElem(fa.X.Type(), fa.Field)
	return c.Memo("planSteps:"+el, func() interface{} {
		var out []planStep
		okAll := true
		seen := map[ssa.Value]bool{}
		var trace func(v ssa.Value, depth int)
		trace = func(v ssa.Value, depth int) {
			if seen[v] || depth > 8 {
				return
			}
			seen[v] = true
			switch x := v.(type) {
			case *ssa.Const:
				// nil: the empty plan
			case *ssa.Phi:
				for _, e := range x.Edges {
					trace(e, depth+1)
				}
			case *ssa.Slice:
				trace(x.X, depth+1)
			case *ssa.Call:
				if bi, isB := x.Common().Value.(*ssa.Builtin); isB && bi.Name() == "append" {
					trace(x.Common().Args[0], depth+1)
					// the appended elements: a slice over a local array whose elements were stored one by one
					if len(x.Common().Args) == 2 {
						if s2, ok := x.Common().Args[1].(*ssa.Slice); ok {
							if al, ok := s2.X.(*ssa.Alloc); ok {
								facts := Facts(c, x.Parent()).At(x.Block())
								for _, r := range *al.Referrers() {
									ia2, ok := r.(*ssa.IndexAddr)
									if !ok {
										continue
									}
									for _, r2 := range *ia2.Referrers() {
										st, ok := r2.(*ssa.Store)
										if !ok || st.Addr != ssa.Value(ia2) {
											continue
										}
										fv := st.Val
										if ct, ok := fv.(*ssa.ChangeType); ok {
											fv = ct.X
										}
										if fn, ok := fv.(*ssa.Function); ok {
											out = append(out, planStep{fn, facts})
										} else {
											okAll = false
										}
									}
								}
								return
							}
						}
						okAll = false
					}
					return
				}
				if g := x.Common().StaticCallee(); g != nil && len(g.Blocks) > 0 && c.P.InModule(g) {
					for _, b := range g.Blocks {
						if r, ok := b.Instrs[len(b.Instrs)-1].(*ssa.Return); ok && len(r.Results) == 1 {
							trace(r.Results[0], depth+1)
						}
					}
					return
				}
				okAll = false
			default:
				okAll = false
			}
		}
		n := 0
		for _, f := range c.P.ModFns {
			for _, b := range f.Blocks {
				for _, ins := range b.Instrs {
					st, ok := ins.(*ssa.Store)
					if !ok {
						continue
					}
					fa2, ok := st.Addr.(*ssa.FieldAddr)
					if !ok || fieldElem(fa2.X.Type(), fa2.Field) != el {
						continue
					}
					n++
					// the plan is made after the options were applied: the store stands behind every loop of its function
					for _, l := range loopsOf(f) {
						if l.Blocks[b] || !l.Header.Dominates(b) {
							okAll = false
						}
					}
					trace(st.Val, 0)
				}
			}
		}
		if !okAll || n == 0 {
			return []planStep(nil)
		}
		return out
	}).([]planStep)
}
