package rules

// Numeric hygiene of the number parsers (necessary conditions that are visible in the shape of the code):
//   FLOW-width  an integer conversion applied to the result of a strconv parse keeps every value the parse can return
//   FLOW-accum  a multiply-and-add accumulator carried round a loop is bounded inside the loop (by a range test on
//               the new value that dominates the back edge, or by a constant trip count): it cannot wrap around
//   FLOW-units  a byte offset obtained by ranging over a string never indexes the []rune copy of that string

import (
	"fmt"
	"go/constant"
	"go/token"
	"go/types"
	"math/big"
	"strings"

	"golang.org/x/tools/go/ssa"

	"wucheck/core"
)

func intTypeInfo(t types.Type) (bits int, unsigned bool, ok bool) {
	b, isB := t.Underlying().(*types.Basic)
	if !isB || b.Info()&types.IsInteger == 0 {
		return 0, false, false
	}
	switch b.Kind() {
	case types.Int8:
		return 8, false, true
	case types.Int16:
		return 16, false, true
	case types.Int32:
		return 32, false, true
	case types.Int64, types.Int:
		return 64, false, true
	case types.Uint8:
		return 8, true, true
	case types.Uint16:
		return 16, true, true
	case types.Uint32:
		return 32, true, true
	case types.Uint64, types.Uint, types.Uintptr:
		return 64, true, true
	}
	return 0, false, false
}

// parseRange: the value range of a strconv parse as (bits, unsigned).
func parseRange(call *ssa.Call) (int, bool, bool) {
	cl := call.Common().StaticCallee()
	if cl == nil || core.PkgPathOf(cl) != "strconv" {
		return 0, false, false
	}
	switch cl.Name() {
	case "Atoi":
		return 64, false, true
	case "ParseInt", "ParseUint":
		bits := int64(64)
		if k, ok := constInt(call.Common().Args[2]); ok {
			if k != 0 {
				bits = k
			}
		} else {
			return 0, false, false
		}
		return int(bits), cl.Name() == "ParseUint", true
	}
	return 0, false, false
}

func fitsInt(srcBits int, srcUnsigned bool, dstBits int, dstUnsigned bool) bool {
	switch {
	case srcUnsigned && dstUnsigned:
		return dstBits >= srcBits
	case srcUnsigned && !dstUnsigned:
		return dstBits > srcBits
	case !srcUnsigned && !dstUnsigned:
		return dstBits >= srcBits
	}
	return false // signed into unsigned loses negative values
}

func init() {
	register(&Rule{
		Name:  "FLOW-width",
		Doc:   "every integer conversion applied to the number returned by strconv.Atoi/ParseInt/ParseUint can hold every value that parse can return (given its bitSize), unless branch facts at the conversion bound the value to the target type: a parsed number never wraps around silently",
		Props: []string{"C07", "C01"},
		Floor: 2,
		Run: func(c *Ctx, s *core.Sink) {
			n := map[string]int{}
			for _, f := range c.P.ModFns {
				for _, b := range f.Blocks {
					for _, ins := range b.Instrs {
						call, ok := ins.(*ssa.Call)
						if !ok {
							continue
						}
						bits, uns, ok := parseRange(call)
						if !ok {
							continue
						}
						base := "width/" + core.FuncName(f) + "/" + call.Common().StaticCallee().Name()
						n[base]++
						key := fmt.Sprintf("%s#%d", base, n[base])
						// the number: result 0
						var nums []ssa.Value
						for _, r := range *call.Referrers() {
							if ex, ok := r.(*ssa.Extract); ok && ex.Index == 0 {
								nums = append(nums, ex)
							}
						}
						// follow through phis (named results, if/else merges)
						seen := map[ssa.Value]bool{}
						var convs []*ssa.Convert
						for len(nums) > 0 {
							v := nums[len(nums)-1]
							nums = nums[:len(nums)-1]
							if seen[v] {
								continue
							}
							seen[v] = true
							for _, r := range *v.Referrers() {
								switch x := r.(type) {
								case *ssa.Phi:
									// a pure merge of the parse result with constants (named results, if/else);
									// accumulators that mix it with other values are FLOW-accum's business
									pure := true
									for _, e := range x.Edges {
										if _, isK := e.(*ssa.Const); !isK && !seen[e] && e != ssa.Value(x) {
											pure = false
										}
									}
									if pure {
										nums = append(nums, x)
									}
								case *ssa.Convert:
									if _, _, isInt := intTypeInfo(x.Type()); isInt {
										convs = append(convs, x)
									}
								}
							}
						}
						bad := ""
						for _, cv := range convs {
							db, du, _ := intTypeInfo(cv.Type())
							if fitsInt(bits, uns, db, du) {
								continue
							}
							// bounded by facts at the conversion?
							facts := newPFFacts()
							facts.absorb(c, Facts(c, f).At(cv.Block()), 0)
							lo, okLo := lowerBound(cv.X, facts, map[ssa.Value]bool{})
							hi, okHi := upperBound(cv.X, facts)
							if !okLo && strconvDigitsOnly(c, f, call) {
								lo, okLo = 0, true // digits only: no sign
							}
							if okLo && okHi {
								max := int64(1)<<uint(db-1) - 1
								if du && db < 64 {
									max = int64(1)<<uint(db) - 1
								}
								min := int64(0)
								if !du {
									min = -max - 1
								}
								if lo >= min && hi <= max {
									continue
								}
							}
							src := fmt.Sprintf("int%d", bits)
							if uns {
								src = fmt.Sprintf("uint%d", bits)
							}
							bad = fmt.Sprintf("the parsed number (range of %s) is converted to %s at %s without a range test: large values wrap around", src, cv.Type(), c.P.Pos(cv.Pos()))
						}
						props := []string{"C01"}
						if containsFold(f.Name(), "ipv4") {
							props = []string{"C07", "C01"}
						}
						if bad != "" {
							s.Bad(key, c.P.Pos(call.Pos()), bad, props...)
						} else {
							s.OK(key, c.P.Pos(call.Pos()), fmt.Sprintf("%d integer conversions of the result, all value-preserving", len(convs)), props...)
						}
					}
				}
			}
		},
	})

	register(&Rule{
		Name:  "FLOW-accum",
		Doc:   "an integer accumulator of the form acc = acc*K + d (K ≥ 2) carried round a loop is bounded inside the loop: a range test on the new value dominates the back edge (its failing arm leaves through a failure-flagged handler), or the loop has a constant trip count; otherwise a long enough run of digits wraps it around and the range test that follows the loop is meaningless",
		Props: []string{"C08", "C01", "C07"},
		Floor: 2,
		Run: func(c *Ctx, s *core.Sink) {
			n := map[string]int{}
			for _, f := range c.P.ModFns {
				loops := loopsOf(f)
				if len(loops) == 0 {
					continue
				}
				ff := Facts(c, f)
				ip := []string{"C08", "C01"}
				if strings.Contains(core.FuncName(f), "IPv4") {
					ip = []string{"C07", "C01"}
				}
				for _, l := range loops {
					for _, ins := range l.Header.Instrs {
						phi, ok := ins.(*ssa.Phi)
						if !ok {
							break
						}
						if _, _, isInt := intTypeInfo(phi.Type()); !isInt {
							continue
						}
						// updates: u = (x * K) + d  or  (x << k) + d / | d, with x the phi (possibly converted), u flowing back into phi
						var updates []ssa.Value
						for b := range l.Blocks {
							for _, in2 := range b.Instrs {
								bo, ok := in2.(*ssa.BinOp)
								if !ok || (bo.Op != token.ADD && bo.Op != token.OR) {
									continue
								}
								for _, side := range []ssa.Value{bo.X, bo.Y} {
									m, ok := side.(*ssa.BinOp)
									if !ok || (m.Op != token.MUL && m.Op != token.SHL) {
										continue
									}
									var x, k ssa.Value = m.X, m.Y
									if _, isK := k.(*ssa.Const); !isK && m.Op == token.MUL {
										x, k = m.Y, m.X
									}
									kv, isK := constInt(k)
									if !isK && m.Op == token.MUL {
										// a radix held in a variable (`number*int64(R) + digit`): whichever factor comes from the
										// accumulator is the accumulator; the other is a factor the loop does not change
										switch {
										case derivesFromPhi(m.X, phi, l, 0) && !derivesFromPhi(m.Y, phi, l, 0):
											x, k = m.X, m.Y
										case derivesFromPhi(m.Y, phi, l, 0) && !derivesFromPhi(m.X, phi, l, 0):
											x, k = m.Y, m.X
										default:
											continue
										}
										if _, _, isInt := intTypeInfo(k.Type()); !isInt {
											continue
										}
										if in, isIns := stripConv(k).(ssa.Instruction); isIns && in.Block() != nil && l.Blocks[in.Block()] {
											if _, isPhi := stripConv(k).(*ssa.Phi); !isPhi {
												continue // computed inside the loop: not a radix
											}
										}
										kv, isK = 2, true
									}
									if !isK || (m.Op == token.MUL && kv < 2) || (m.Op == token.SHL && kv < 1) {
										continue
									}
									if !derivesFromPhi(x, phi, l, 0) {
										continue
									}
									if phiReceives(phi, bo, map[*ssa.Phi]bool{}) {
										updates = append(updates, bo)
									}
								}
							}
						}
						if len(updates) == 0 {
							continue
						}
						base := "accum/" + core.FuncName(f) + "/" + phiName(phi)
						n[base]++
						key := fmt.Sprintf("%s#%d", base, n[base])
						pos := c.P.Pos(updates[0].Pos())
						if l.ConstBounded {
							s.OK(key, pos, "constant trip count ("+l.BoundFacts+")", ip...)
							// what the accumulator can reach in that many rounds must fit wherever it is narrowed to
							if t, ok := tripCount(l); ok {
								K, uniform := int64(0), true
								for _, u := range updates {
									bo := u.(*ssa.BinOp)
									for _, side := range []ssa.Value{bo.X, bo.Y} {
										if m, ok := side.(*ssa.BinOp); ok && (m.Op == token.MUL || m.Op == token.SHL) {
											kv, isK := constInt(m.Y)
											if !isK {
												kv, isK = constInt(m.X)
											}
											if !isK {
												continue
											}
											if m.Op == token.SHL {
												kv = 1 << uint(kv)
											}
											if K != 0 && K != kv {
												uniform = false
											}
											K = kv
										}
									}
								}
								init := int64(-1)
								for i, e := range phi.Edges {
									if !l.Blocks[l.Header.Preds[i]] {
										if v, ok := constInt(e); ok && (init < 0 || init == v) {
											init = v
										} else {
											init = -2
										}
									}
								}
								if uniform && K >= 2 && init >= 0 && init < K && t >= 0 && t <= 64 {
									max := new(big.Int).Exp(big.NewInt(K), big.NewInt(t), nil)
									max.Sub(max, big.NewInt(1))
									for _, b := range f.Blocks {
										for _, in2 := range b.Instrs {
											cv, ok := in2.(*ssa.Convert)
											if !ok {
												continue
											}
											bits, uns, isInt := intTypeInfo(cv.Type())
											if !isInt {
												continue
											}
											src := stripConv(cv.X)
											from := src == ssa.Value(phi)
											for _, u := range updates {
												if src == u {
													from = true
												}
											}
											if !from {
												continue
											}
											lim := new(big.Int).Lsh(big.NewInt(1), uint(bits))
											if !uns {
												lim.Rsh(lim, 1)
											}
											lim.Sub(lim, big.NewInt(1))
											nk := fmt.Sprintf("%s/narrow:%s", key, cv.Type().String())
											if max.Cmp(lim) <= 0 {
												s.OK(nk, c.P.Pos(cv.Pos()), fmt.Sprintf("at most %d rounds of ×%d: the value stays ≤ %s, which %s holds", t, K, max.String(), cv.Type().String()), ip...)
											} else {
												s.Bad(nk, c.P.Pos(cv.Pos()), fmt.Sprintf("the loop runs up to %d rounds of ×%d, so the value can reach %s, but it is converted to %s (max %s): digits are silently lost", t, K, max.String(), cv.Type().String(), lim.String()), ip...)
											}
										}
									}
								}
							}
							continue
						}
						// every back edge is dominated by an upper-bound fact on the updated value
						okAll := true
						for i, pred := range l.Header.Preds {
							_ = i
							if !l.Blocks[pred] || !ff.Reachable(pred) {
								continue
							}
							bounded := false
							for _, fa := range ff.At(pred) {
								bo, ok := fa.Cond.(*ssa.BinOp)
								if !ok {
									continue
								}
								rel, ok := relOf(bo.Op, fa.Val)
								if !ok {
									continue
								}
								x, y := bo.X, bo.Y
								if _, isK := x.(*ssa.Const); isK {
									x, y = y, x
									rel = mirror(rel)
								}
								if _, isK := y.(*ssa.Const); !isK {
									continue
								}
								if rel != token.LSS && rel != token.LEQ {
									continue
								}
								xv := stripConv(x)
								for _, u := range updates {
									if xv == u {
										bounded = true
									}
									if p2, isPhi := xv.(*ssa.Phi); isPhi && p2 != phi && phiReceives(p2, u, map[*ssa.Phi]bool{}) {
										bounded = true
									}
								}
							}
							if !bounded {
								okAll = false
							}
						}
						s.Check(okAll, key, pos, "a range test on the new value dominates every back edge of the loop", "the accumulator grows by a factor each iteration and nothing inside the loop bounds it (no range test on the new value before the back edge, no constant trip count): a long run of digits wraps it around", ip...)
					}
				}
			}
		},
	})

	register(&Rule{
		Name:  "FLOW-units",
		Doc:   "an index into the []rune copy of a string is a rune position: it is never (derived from) the byte offset handed out by ranging over that string",
		Props: []string{"C10", "C02"},
		Floor: 0, // a tree that indexes no []rune copy of a string has nothing to confuse (self-test mutant flow/units-* keeps the rule alive)
		Run: func(c *Ctx, s *core.Sink) {
			n := map[string]int{}
			defer func() {
				if len(n) == 0 {
					s.Obs = append(s.Obs, core.Obligation{Rule: s.Rule, Construct: "units/none", Pos: "-", Verdict: core.Discharged, Fact: "inventory: no []rune copy of a string is indexed anywhere in the module", Props: s.Props, Trivial: true})
				}
			}()
			for _, f := range c.P.ModFns {
				for _, b := range f.Blocks {
					for _, ins := range b.Instrs {
						ia, ok := ins.(*ssa.IndexAddr)
						if !ok {
							continue
						}
						cv, ok := ia.X.(*ssa.Convert)
						if !ok {
							continue
						}
						src := cv.X
						if sb, ok := src.Type().Underlying().(*types.Basic); !ok || sb.Info()&types.IsString == 0 {
							continue
						}
						sl, ok := cv.Type().Underlying().(*types.Slice)
						if !ok {
							continue
						}
						if eb, ok := sl.Elem().Underlying().(*types.Basic); !ok || eb.Kind() != types.Int32 {
							continue
						}
						base := "units/" + core.FuncName(f)
						n[base]++
						key := fmt.Sprintf("%s#%d", base, n[base])
						t := termOf(ia.Index)
						bad := false
						if ex, ok := stripConv(t.base).(*ssa.Extract); ok && ex.Index == 1 {
							if nx, ok := ex.Tuple.(*ssa.Next); ok && nx.IsString {
								if rg, ok := nx.Iter.(*ssa.Range); ok && rg.X == src {
									bad = true
								}
							}
						}
						s.Check(!bad, key, c.P.Pos(ia.Pos()), "indexed by a rune position", "the []rune copy of a string is indexed with the byte offset obtained by ranging over the string itself: the two differ after the first non-ASCII character")
					}
				}
			}
		},
	})
}

func containsFold(s, sub string) bool {
	ls, lsub := []byte(s), []byte(sub)
	for i := range ls {
		if ls[i] >= 'A' && ls[i] <= 'Z' {
			ls[i] += 'a' - 'A'
		}
	}
	return len(lsub) == 0 || indexBytes(ls, lsub) >= 0
}

func indexBytes(s, sub []byte) int {
	for i := 0; i+len(sub) <= len(s); i++ {
		if string(s[i:i+len(sub)]) == string(sub) {
			return i
		}
	}
	return -1
}

func phiName(p *ssa.Phi) string {
	if p.Comment != "" {
		return p.Comment
	}
	return p.Name()
}

// derivesFromPhi: v is the phi, a conversion of it, or an inner phi that merges it.
func derivesFromPhi(v ssa.Value, phi *ssa.Phi, l *ssaLoop, depth int) bool {
	if depth > 4 {
		return false
	}
	v = stripConv(v)
	if v == ssa.Value(phi) {
		return true
	}
	if p2, ok := v.(*ssa.Phi); ok && l.Blocks[p2.Block()] && p2.Block() != l.Header {
		for _, e := range p2.Edges {
			if derivesFromPhi(e, phi, l, depth+1) {
				return true
			}
		}
	}
	return false
}

// tripCount: the largest number of rounds of a counted loop (constant start, step and bound).
func tripCount(l *ssaLoop) (int64, bool) {
	for b := range l.Blocks {
		iff, ok := b.Instrs[len(b.Instrs)-1].(*ssa.If)
		if !ok {
			continue
		}
		stayTrue, stayFalse := l.Blocks[b.Succs[0]], l.Blocks[b.Succs[1]]
		if stayTrue == stayFalse {
			continue
		}
		bo, ok := iff.Cond.(*ssa.BinOp)
		if !ok {
			continue
		}
		op := bo.Op
		x, y := bo.X, bo.Y
		if _, isK := x.(*ssa.Const); isK {
			x, y = y, x
			op = mirror(op)
		}
		phi, isPhi := stripConv(x).(*ssa.Phi)
		bound, isK := constInt(y)
		if !isPhi || !isK || phi.Block() != l.Header {
			continue
		}
		if !stayTrue {
			// the loop continues on the false edge: negate
			switch op {
			case token.LSS:
				op = token.GEQ
			case token.LEQ:
				op = token.GTR
			case token.GTR:
				op = token.LEQ
			case token.GEQ:
				op = token.LSS
			case token.NEQ:
				op = token.EQL
			case token.EQL:
				op = token.NEQ
			}
		}
		start, step, ok2 := int64(0), int64(0), true
		haveStart := false
		for i, e := range phi.Edges {
			if !l.Blocks[l.Header.Preds[i]] {
				v, isC := constInt(e)
				if !isC || (haveStart && v != start) {
					ok2 = false
				}
				start, haveStart = v, true
				continue
			}
			st, isBin := e.(*ssa.BinOp)
			if !isBin || (st.Op != token.ADD && st.Op != token.SUB) || stripConv(st.X) != ssa.Value(phi) {
				ok2 = false
				continue
			}
			d, isC := constInt(st.Y)
			if !isC {
				ok2 = false
				continue
			}
			if st.Op == token.SUB {
				d = -d
			}
			if step != 0 && step != d {
				ok2 = false
			}
			step = d
		}
		if !ok2 || !haveStart || step == 0 {
			continue
		}
		var span int64
		switch {
		case step > 0 && op == token.LSS:
			span = bound - start
		case step > 0 && op == token.LEQ:
			span = bound - start + 1
		case step < 0 && op == token.GTR:
			span = start - bound
		case step < 0 && op == token.GEQ:
			span = start - bound + 1
		default:
			continue
		}
		if span < 0 {
			span = 0
		}
		if step < 0 {
			step = -step
		}
		return (span + step - 1) / step, true
	}
	return 0, false
}

var _ = constant.MakeInt64
