package rules

// FLOW-utf8: the form-urlencoded serialiser reads names and values as code points (DESIGN §3.7).
//
// A name or value may hold bytes that are not valid UTF-8 (percent-decoding produces them). The standard serialises
// them as U+FFFD; in Go that happens when the string is read by `range`, `[]rune(…)` or utf8.DecodeRune*, and does not
// happen when a byte read by index is written out. So on the serialiser's path a byte of a name/value read by index
// may be compared, but every other use of it needs a dominating fact that it is ASCII (< 0x80) or that the string
// passed utf8.ValidString.

import (
	"fmt"
	"go/token"
	"go/types"
	"sort"

	"golang.org/x/tools/go/ssa"

	"wucheck/core"
)

func isStringType(t types.Type) bool {
	b, ok := t.Underlying().(*types.Basic)
	return ok && b.Info()&types.IsString != 0
}

func init() {
	register(&Rule{
		Name:  "FLOW-utf8",
		Doc:   "on the path of the form-urlencoded serialiser, a byte read by index from a name or value (or from a []byte copy of it) is only compared, unless a dominating test bounds it below 0x80 or the string passed utf8.ValidString: everything else reads the string as code points, so that invalid UTF-8 is serialised as U+FFFD",
		Props: []string{"C11"},
		Floor: 1,
		Run: func(c *Ctx, s *core.Sink) {
			root := c.P.Func("url", "SearchParams", "String")
			if root == nil {
				s.Unknown("utf8/anchor", "-", "anchor (*SearchParams).String not found")
				return
			}
			// the serialiser's path
			seen := map[*ssa.Function]bool{}
			var fns []*ssa.Function
			var visit func(f *ssa.Function)
			visit = func(f *ssa.Function) {
				if f == nil || seen[f] || len(f.Blocks) == 0 || !c.P.InModule(f) {
					return
				}
				seen[f] = true
				fns = append(fns, f)
				for _, b := range f.Blocks {
					for _, ins := range b.Instrs {
						switch x := ins.(type) {
						case *ssa.Call:
							visit(x.Common().StaticCallee())
						case *ssa.MakeClosure:
							if g, ok := x.Fn.(*ssa.Function); ok {
								visit(g)
							}
						}
					}
				}
			}
			visit(root)
			if q := c.P.Func("url", "SearchParams", "QueryEscape"); q != nil {
				visit(q)
				// the exported escaper takes the name/value as its string parameter
			}
			paramTaint := map[*ssa.Function]map[int]bool{}
			if q := c.P.Func("url", "SearchParams", "QueryEscape"); q != nil {
				for i, p := range q.Params {
					if isStringType(p.Type()) {
						if paramTaint[q] == nil {
							paramTaint[q] = map[int]bool{}
						}
						paramTaint[q][i] = true
					}
				}
			}
			taintOf := map[*ssa.Function]map[ssa.Value]bool{}
			for round := 0; round < 10; round++ {
				changed := false
				for _, f := range fns {
					t := map[ssa.Value]bool{}
					for i, p := range f.Params {
						if paramTaint[f][i] {
							t[p] = true
						}
					}
					for pass := 0; pass < 6; pass++ {
						grew := false
						mark := func(v ssa.Value) {
							if !t[v] {
								t[v] = true
								grew = true
							}
						}
						for _, b := range f.Blocks {
							for _, ins := range b.Instrs {
								switch x := ins.(type) {
								case *ssa.UnOp:
									if x.Op == token.MUL && isStringType(x.Type()) {
										if fa, ok := x.X.(*ssa.FieldAddr); ok && namedOf(fa.X.Type()) == "NameValuePair" {
											mark(x)
										}
									}
								case *ssa.Phi:
									for _, e := range x.Edges {
										if t[e] {
											mark(x)
										}
									}
								case *ssa.Slice:
									if t[x.X] {
										mark(x)
									}
								case *ssa.ChangeType:
									if t[x.X] {
										mark(x)
									}
								case *ssa.Convert:
									// string → []byte keeps the bytes; string → []rune decodes
									if t[x.X] {
										if sl, ok := x.Type().Underlying().(*types.Slice); ok {
											if bt, ok := sl.Elem().Underlying().(*types.Basic); ok && (bt.Kind() == types.Byte || bt.Kind() == types.Uint8) {
												mark(x)
											}
										}
									}
								case *ssa.Call:
									g := x.Common().StaticCallee()
									if g == nil || !seen[g] {
										continue
									}
									for i, a := range x.Common().Args {
										if t[a] && i < len(g.Params) {
											if paramTaint[g] == nil {
												paramTaint[g] = map[int]bool{}
											}
											if !paramTaint[g][i] {
												paramTaint[g][i] = true
												changed = true
											}
										}
									}
								}
							}
						}
						if !grew {
							break
						}
					}
					taintOf[f] = t
				}
				if !changed {
					break
				}
			}
			sort.Slice(fns, func(i, j int) bool { return core.FuncName(fns[i]) < core.FuncName(fns[j]) })
			total := 0
			for _, f := range fns {
				t := taintOf[f]
				if len(t) == 0 {
					continue
				}
				total++
				key := "utf8/" + core.FuncName(f)
				ff := Facts(c, f)
				var bad []string
				reads, ranged := 0, 0
				// the string a value is a piece of
				var rootStr func(v ssa.Value) ssa.Value
				rootStr = func(v ssa.Value) ssa.Value {
					switch x := v.(type) {
					case *ssa.Slice:
						return rootStr(x.X)
					case *ssa.Convert:
						return rootStr(x.X)
					case *ssa.ChangeType:
						return rootStr(x.X)
					}
					return v
				}
				asciiAt := func(byteVal ssa.Value, str ssa.Value, at *ssa.BasicBlock) bool {
					for _, fact := range ff.At(at) {
						switch x := fact.Cond.(type) {
						case *ssa.BinOp:
							a, b := stripConv(x.X), stripConv(x.Y)
							op := x.Op
							var k int64
							if kk, ok := constInt(b); ok && a == byteVal {
								k = kk
							} else if kk, ok := constInt(a); ok && b == byteVal {
								k = kk
								op = mirror(op)
							} else {
								continue
							}
							// byteVal op k is fact.Val
							if !fact.Val {
								switch op {
								case token.GEQ:
									op = token.LSS
								case token.GTR:
									op = token.LEQ
								default:
									continue
								}
							}
							if (op == token.LSS && k <= 0x80) || (op == token.LEQ && k < 0x80) {
								return true
							}
						case *ssa.Call:
							if g := x.Common().StaticCallee(); g != nil && fact.Val && (g.String() == "unicode/utf8.ValidString" || g.String() == "unicode/utf8.Valid") {
								if rootStr(x.Common().Args[0]) == rootStr(str) {
									return true
								}
							}
						}
					}
					return false
				}
				for _, b := range f.Blocks {
					for _, ins := range b.Instrs {
						var byteVal, str ssa.Value
						switch x := ins.(type) {
						case *ssa.Range:
							if t[x.X] {
								ranged++
							}
							continue
						case *ssa.Index:
							if t[x.X] {
								byteVal, str = x, x.X
							}
						case *ssa.Lookup:
							if t[x.X] && isStringType(x.X.Type()) {
								byteVal, str = x, x.X
							}
						case *ssa.UnOp:
							if x.Op == token.MUL {
								if ia, ok := x.X.(*ssa.IndexAddr); ok && t[ia.X] {
									byteVal, str = x, ia.X
								}
							}
						}
						if byteVal == nil {
							continue
						}
						reads++
						// every use other than a comparison needs the ASCII / validity fact
						seenV := map[ssa.Value]bool{}
						var uses func(v ssa.Value)
						uses = func(v ssa.Value) {
							if seenV[v] {
								return
							}
							seenV[v] = true
							for _, r := range *v.Referrers() {
								switch u := r.(type) {
								case *ssa.BinOp:
									switch u.Op {
									case token.EQL, token.NEQ, token.LSS, token.LEQ, token.GTR, token.GEQ:
										continue
									}
								case *ssa.Convert:
									uses(u)
									continue
								case *ssa.ChangeType:
									uses(u)
									continue
								case *ssa.DebugRef:
									continue
								}
								at := r.Block()
								if phi, ok := r.(*ssa.Phi); ok {
									// the fact must hold on the edge the value arrives by
									okAll := true
									for i, e := range phi.Edges {
										if e == v && !asciiAt(byteVal, str, phi.Block().Preds[i]) {
											okAll = false
										}
									}
									if okAll {
										continue
									}
								} else if asciiAt(byteVal, str, at) {
									continue
								}
								bad = append(bad, fmt.Sprintf("a byte of a name/value read by index [%s] is used [%s] with no dominating test that it is below 0x80 and no utf8.ValidString test of the string: an invalid byte is serialised as itself, not as U+FFFD", c.P.Pos(byteVal.Pos()), c.P.Pos(r.Pos())))
							}
						}
						uses(byteVal)
					}
				}
				if len(bad) > 0 {
					sort.Strings(bad)
					s.Bad(key, c.P.Pos(f.Pos()), bad[0])
				} else {
					s.OK(key, c.P.Pos(f.Pos()), fmt.Sprintf("%d values hold a name/value; %d range loops decode it; %d byte reads, each only compared or known to be ASCII", len(t), ranged, reads))
				}
			}
			if total == 0 {
				s.Unknown("utf8/source", "-", "no function on the serialiser's path holds a name or value: the path cannot be named")
			}
		},
	})
}
