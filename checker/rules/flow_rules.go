package rules

// FLOW engine: small def-use / dominance rules (DESIGN §3.9).

import (
	"fmt"
	"go/constant"
	"go/token"
	"go/types"
	"sort"
	"strings"

	"golang.org/x/tools/go/ssa"

	"wucheck/core"
)

func constString(v ssa.Value) (string, bool) {
	k, ok := v.(*ssa.Const)
	if !ok || k.Value == nil || k.Value.Kind() != constant.String {
		return "", false
	}
	return constant.StringVal(k.Value), true
}

func constInt(v ssa.Value) (int64, bool) {
	k, ok := v.(*ssa.Const)
	if !ok || k.Value == nil {
		return 0, false
	}
	if k.Value.Kind() != constant.Int {
		return 0, false
	}
	n, ok := constant.Int64Val(k.Value)
	return n, ok
}

func isLenOf(v, of ssa.Value) bool {
	call, ok := v.(*ssa.Call)
	if !ok {
		return false
	}
	b, ok := call.Common().Value.(*ssa.Builtin)
	return ok && b.Name() == "len" && call.Common().Args[0] == of
}

// derivesFrom: does v depend on src through value-preserving operations (phi, extract, convert, slices, calls in `via`)?
func derivesFrom(v, src ssa.Value, via func(*ssa.Function) bool, depth int) bool {
	if v == src {
		return true
	}
	if depth > 12 {
		return false
	}
	switch x := v.(type) {
	case *ssa.Phi:
		for _, e := range x.Edges {
			if e != v && derivesFrom(e, src, via, depth+1) {
				return true
			}
		}
	case *ssa.Extract:
		return derivesFrom(x.Tuple, src, via, depth+1)
	case *ssa.Convert:
		return derivesFrom(x.X, src, via, depth+1)
	case *ssa.ChangeType:
		return derivesFrom(x.X, src, via, depth+1)
	case *ssa.Slice:
		return derivesFrom(x.X, src, via, depth+1)
	case *ssa.Call:
		if cl := x.Common().StaticCallee(); cl != nil && via != nil && via(cl) {
			for _, a := range x.Common().Args {
				if derivesFrom(a, src, via, depth+1) {
					return true
				}
			}
		}
	}
	return false
}

// bitsetGlobal recognises a load of a package-level *bitset.BitSet and returns its name.
func bitsetGlobal(v ssa.Value) (string, bool) {
	// possibly a phi of several
	if ld, ok := v.(*ssa.UnOp); ok && ld.Op == token.MUL {
		if g, ok := ld.X.(*ssa.Global); ok && namedOf(g.Type()) == "BitSet" {
			return g.Name(), true
		}
	}
	return digitTableByContent(v)
}

// digitValidation: is the fact a successful digits-only validation of `arg` (a string, or a rune converted to string)?
// Returns the names of the digit tables that may have been used.
func digitValidation(f condFact, arg ssa.Value) ([]string, bool) {
	if !f.Val {
		return nil, false
	}
	call, ok := f.Cond.(*ssa.Call)
	if !ok {
		return nil, false
	}
	cl := call.Common().StaticCallee()
	if cl == nil {
		return nil, false
	}
	args := call.Common().Args
	var setVal ssa.Value
	switch {
	case cl.Name() == "containsOnly" && core.PkgPathOf(cl) == core.ModPath+"/url" && len(args) == 2:
		if args[0] != arg {
			return nil, false
		}
		setVal = args[1]
	case cl.Name() == "Test" && core.PkgPathOf(cl) == core.BitsetPath && len(args) == 2:
		// arg must be string(c) with Test(uint(c))
		cv, ok := arg.(*ssa.Convert)
		if !ok {
			return nil, false
		}
		if stripConv(args[1]) != stripConv(cv.X) {
			return nil, false
		}
		setVal = args[0]
	default:
		return nil, false
	}
	var names []string
	var collect func(v ssa.Value, d int) bool
	collect = func(v ssa.Value, d int) bool {
		if n, ok := bitsetGlobal(v); ok {
			names = append(names, n)
			return true
		}
		if phi, ok := v.(*ssa.Phi); ok && d < 4 {
			for _, e := range phi.Edges {
				if !collect(e, d+1) {
					return false
				}
			}
			return true
		}
		// one result of a module helper that picks the table (with the radix): every return's table
		if ex, ok := v.(*ssa.Extract); ok && d < 4 {
			if hc, ok := ex.Tuple.(*ssa.Call); ok {
				if h := hc.Common().StaticCallee(); h != nil && len(h.Blocks) > 0 {
					n := 0
					for _, b := range h.Blocks {
						if r, ok := b.Instrs[len(b.Instrs)-1].(*ssa.Return); ok && ex.Index < len(r.Results) {
							n++
							if !collect(r.Results[ex.Index], d+1) {
								return false
							}
						}
					}
					return n > 0
				}
			}
		}
		return false
	}
	if !collect(setVal, 0) {
		return nil, false
	}
	sort.Strings(names)
	return uniq(names), true
}

func init() {
	register(&Rule{
		Name:  "FLOW-funnel",
		Doc:   "Parse, ParseRef, (*Url).Parse and the package-level wrappers pass their arguments unchanged into BasicParser(·, base, nil, NoState); ParseRef's base is Parse(rawUrl) of the same parser; (*Url).Parse runs on the receiver's own parser; every URL leaving BasicParser carries the parser that produced it",
		Props: []string{"C06"},
		Floor: 4,
		Run: func(c *Ctx, s *core.Sink) {
			bp := c.P.Func("url", "parser", "BasicParser")
			if bp == nil {
				s.Unknown("funnel/anchor", "-", "BasicParser not found")
				return
			}
			findCalls := func(f *ssa.Function, name string) []*ssa.Call {
				var out []*ssa.Call
				for _, b := range f.Blocks {
					for _, ins := range b.Instrs {
						if call, ok := ins.(*ssa.Call); ok {
							com := call.Common()
							if cl := com.StaticCallee(); cl != nil && cl.Name() == name {
								out = append(out, call)
							} else if com.IsInvoke() && com.Method.Name() == name {
								out = append(out, call)
							}
						}
					}
				}
				return out
			}
			argv := func(call *ssa.Call) []ssa.Value {
				com := call.Common()
				if com.IsInvoke() {
					return append([]ssa.Value{com.Value}, com.Args...)
				}
				return com.Args
			}
			returnsCall := func(f *ssa.Function, call *ssa.Call) bool {
				// every return hands out the URL of the funnel call, or no URL at all: no path produces a URL by other means
				var fromCall func(v ssa.Value, depth int) bool
				fromCall = func(v ssa.Value, depth int) bool {
					if isNilConst(v) {
						return true
					}
					if ex, ok := v.(*ssa.Extract); ok && ex.Tuple == ssa.Value(call) && ex.Index == 0 {
						return true
					}
					// the URL of another resolution route (ParseRef with an empty base string is Parse)
					if ex, ok := v.(*ssa.Extract); ok && ex.Index == 0 {
						if oc, ok := ex.Tuple.(*ssa.Call); ok {
							name := ""
							if cl := oc.Common().StaticCallee(); cl != nil && core.PkgPathOf(cl) == core.ModPath+"/url" {
								name = cl.Name()
							} else if oc.Common().IsInvoke() {
								name = oc.Common().Method.Name()
							}
							switch name {
							case "Parse", "ParseRef", "BasicParser":
								return true
							}
						}
					}
					if phi, ok := v.(*ssa.Phi); ok && depth < 4 {
						for _, e := range phi.Edges {
							if !fromCall(e, depth+1) {
								return false
							}
						}
						return true
					}
					return false
				}
				okAny := false
				ff := Facts(c, f)
				for _, b := range f.Blocks {
					if !ff.Reachable(b) {
						continue
					}
					if r, ok := b.Instrs[len(b.Instrs)-1].(*ssa.Return); ok && len(r.Results) == 2 {
						if !fromCall(r.Results[0], 0) {
							return false
						}
						if ex, ok := r.Results[0].(*ssa.Extract); ok && ex.Tuple == ssa.Value(call) {
							okAny = true
						}
						if _, ok := r.Results[0].(*ssa.Phi); ok {
							okAny = true
						}
					}
				}
				return okAny
			}
			isNoState := func(v ssa.Value) bool { n, ok := constInt(v); return ok && n == 0 }
			// (*parser).Parse
			if f := c.P.Func("url", "parser", "Parse"); f == nil {
				s.Unknown("funnel/(*parser).Parse", "-", "not found")
			} else {
				calls := findCalls(f, "BasicParser")
				ok := len(calls) == 1
				if ok {
					a := argv(calls[0])
					ok = a[0] == ssa.Value(f.Params[0]) && a[1] == ssa.Value(f.Params[1]) && isNilConst(a[2]) && isNilConst(a[3]) && isNoState(a[4]) && returnsCall(f, calls[0])
				}
				s.Check(ok, "funnel/(*parser).Parse", c.P.Pos(f.Pos()), "return p.BasicParser(rawUrl, nil, nil, NoState)", "does not forward (rawUrl, nil, nil, NoState) to its own BasicParser and return the result")
			}
			// (*parser).ParseRef: every parser call is either "parse the base string alone" or "resolve ref against that
			// base (or against nothing)"; every URL handed out comes from a resolving call
			if f := c.P.Func("url", "parser", "ParseRef"); f == nil {
				s.Unknown("funnel/(*parser).ParseRef", "-", "not found")
			} else {
				recv, rawUrl, ref := ssa.Value(f.Params[0]), ssa.Value(f.Params[1]), ssa.Value(f.Params[2])
				calls := append(findCalls(f, "BasicParser"), findCalls(f, "Parse")...)
				isBaseCall := func(call *ssa.Call) bool {
					a := argv(call)
					if a[0] != recv || a[1] != rawUrl {
						return false
					}
					if len(a) == 2 {
						return true // p.Parse(rawUrl)
					}
					return len(a) == 5 && isNilConst(a[2]) && isNilConst(a[3]) && isNoState(a[4])
				}
				var isBase func(v ssa.Value, depth int) bool
				isBase = func(v ssa.Value, depth int) bool {
					if isNilConst(v) {
						return true
					}
					if ex, ok := v.(*ssa.Extract); ok && ex.Index == 0 {
						if bc, ok := ex.Tuple.(*ssa.Call); ok {
							return isBaseCall(bc)
						}
					}
					if phi, ok := v.(*ssa.Phi); ok && depth < 3 {
						for _, e := range phi.Edges {
							if !isBase(e, depth+1) {
								return false
							}
						}
						return true
					}
					return false
				}
				var bad []string
				var resolving []*ssa.Call
				for _, call := range calls {
					a := argv(call)
					switch {
					case isBaseCall(call) && rawUrl != ref:
						// fine: the base
					case a[0] == recv && a[1] == ref && len(a) == 2:
						resolving = append(resolving, call) // p.Parse(ref): no base
					case a[0] == recv && a[1] == ref && len(a) == 5 && isBase(a[2], 0) && isNilConst(a[3]) && isNoState(a[4]):
						resolving = append(resolving, call)
					default:
						bad = append(bad, fmt.Sprintf("the parser call at %s is neither Parse(rawUrl) nor BasicParser(ref, base, nil, NoState) with base = Parse(rawUrl) on the same parser", c.P.Pos(call.Pos())))
					}
				}
				if len(resolving) == 0 {
					bad = append(bad, "no call resolves ref against the parsed base")
				}
				// every returned URL: result 0 of a resolving call, or nil
				ffp := Facts(c, f)
				var fromRes func(v ssa.Value, depth int) bool
				fromRes = func(v ssa.Value, depth int) bool {
					if isNilConst(v) {
						return true
					}
					if ex, ok := v.(*ssa.Extract); ok && ex.Index == 0 {
						for _, rc := range resolving {
							if ex.Tuple == ssa.Value(rc) {
								return true
							}
						}
					}
					if phi, ok := v.(*ssa.Phi); ok && depth < 3 {
						for _, e := range phi.Edges {
							if !fromRes(e, depth+1) {
								return false
							}
						}
						return true
					}
					return false
				}
				for _, b := range f.Blocks {
					if r, ok := b.Instrs[len(b.Instrs)-1].(*ssa.Return); ok && ffp.Reachable(b) && len(r.Results) == 2 {
						if !fromRes(r.Results[0], 0) {
							bad = append(bad, "some return hands out a URL that is not the result of resolving ref (a path bypasses the resolution algorithm)")
						}
					}
				}
				s.Check(len(bad) == 0, "funnel/(*parser).ParseRef", c.P.Pos(f.Pos()), "base = p.Parse(rawUrl); return p.BasicParser(ref, base, nil, NoState)", strings.Join(uniq(bad), "; "))
			}
			// (*Url).Parse
			if f := c.P.Func("url", "Url", "Parse"); f == nil {
				s.Unknown("funnel/(*Url).Parse", "-", "not found")
			} else {
				calls := findCalls(f, "BasicParser")
				ok := len(calls) == 1
				why := "does not call BasicParser exactly once"
				if ok {
					a := argv(calls[0])
					x, isOwn := loadOfField(a[0], "Url:parser")
					switch {
					case !isOwn || x != ssa.Value(f.Params[0]):
						ok, why = false, "resolves with a parser other than the receiver's own (u.parser): a URL made by a configured parser would resolve under different options"
					case a[1] != ssa.Value(f.Params[1]) || a[2] != ssa.Value(f.Params[0]) || !isNilConst(a[3]) || !isNoState(a[4]):
						ok, why = false, "BasicParser is not called as (ref, u, nil, NoState)"
					case !returnsCall(f, calls[0]):
						ok, why = false, "some return hands out a URL that is not the result of BasicParser (a path bypasses the resolution algorithm)"
					}
				}
				s.Check(ok, "funnel/(*Url).Parse", c.P.Pos(f.Pos()), "return u.parser.BasicParser(ref, u, nil, NoState)", why)
			}
			// package-level wrappers
			for _, n := range []string{"Parse", "ParseRef"} {
				f := c.P.Func("url", "", n)
				key := "funnel/url." + n
				if f == nil {
					s.Unknown(key, "-", "not found")
					continue
				}
				calls := findCalls(f, n)
				ok := len(calls) == 1
				if ok {
					a := argv(calls[0])
					ld, isLd := a[0].(*ssa.UnOp)
					ok = isLd
					if ok {
						g, isG := ld.X.(*ssa.Global)
						ok = isG && g.Name() == "defaultParser"
					}
					for i, p := range f.Params {
						if ok && a[i+1] != ssa.Value(p) {
							ok = false
						}
					}
					ok = ok && returnsCall(f, calls[0])
				}
				s.Check(ok, key, c.P.Pos(f.Pos()), "forwards its arguments to defaultParser."+n, "does not forward its arguments unchanged to defaultParser."+n)
			}
			// defaultParser = NewParser() without options
			if g, ok := c.P.SSAPkg["url"].Members["defaultParser"].(*ssa.Global); ok {
				initf := c.P.SSAPkg["url"].Func("init")
				okInit := false
				for _, b := range initf.Blocks {
					for _, ins := range b.Instrs {
						if st, ok := ins.(*ssa.Store); ok && st.Addr == ssa.Value(g) {
							if call, ok := st.Val.(*ssa.Call); ok {
								if cl := call.Common().StaticCallee(); cl != nil && cl.Name() == "NewParser" {
									if isNilConst(call.Common().Args[0]) {
										okInit = true
									}
								}
							}
						}
					}
				}
				s.Check(okInit, "funnel/defaultParser", c.P.Pos(g.Pos()), "defaultParser = NewParser() with no options", "defaultParser is not NewParser() without options")
			} else {
				s.Unknown("funnel/defaultParser", "-", "variable not found")
			}
			// url.parser = p dominates every return of url
			ff := Facts(c, bp)
			var pstore *ssa.Store
			for _, b := range bp.Blocks {
				for _, ins := range b.Instrs {
					if st, ok := ins.(*ssa.Store); ok && st.Val == ssa.Value(bp.Params[0]) {
						if _, ok := fieldAddrOf(st.Addr, "Url:parser"); ok {
							pstore = st
						}
					}
				}
			}
			// … or a helper that BasicParser hands its receiver to does, before every return of a URL, and BasicParser calls it
			// before every return of a URL
			var viaHelper *ssa.Call
			if pstore == nil {
				for _, b := range bp.Blocks {
					for _, ins := range b.Instrs {
						call, ok := ins.(*ssa.Call)
						if !ok {
							continue
						}
						h := call.Common().StaticCallee()
						if h == nil || !c.P.InModule(h) || len(h.Blocks) == 0 {
							continue
						}
						var hp *ssa.Parameter
						for i, a := range call.Common().Args {
							if a == ssa.Value(bp.Params[0]) && i < len(h.Params) {
								hp = h.Params[i]
							}
						}
						if hp == nil {
							continue
						}
						for _, hb := range h.Blocks {
							for _, hi := range hb.Instrs {
								st, ok := hi.(*ssa.Store)
								if !ok || st.Val != ssa.Value(hp) {
									continue
								}
								if _, ok := fieldAddrOf(st.Addr, "Url:parser"); !ok {
									continue
								}
								dom := true
								for _, rb := range h.Blocks {
									if r, isR := rb.Instrs[len(rb.Instrs)-1].(*ssa.Return); isR && len(r.Results) > 0 && !isNilConst(r.Results[0]) && !hb.Dominates(rb) {
										dom = false
									}
								}
								if dom {
									viaHelper = call
								}
							}
						}
					}
				}
			}
			if pstore == nil && viaHelper != nil {
				okAll := true
				for _, b := range bp.Blocks {
					if r, ok := b.Instrs[len(b.Instrs)-1].(*ssa.Return); ok && ff.Reachable(b) {
						if !isNilConst(r.Results[0]) && !ff.Dominates(viaHelper.Block(), b) {
							okAll = false
						}
					}
				}
				s.Check(okAll, "funnel/BasicParser/parser-field", c.P.Pos(viaHelper.Pos()), "a helper that stores url.parser = p is called before every return of a URL", "a URL can be returned without carrying the parser that produced it")
			} else if pstore == nil {
				s.Bad("funnel/BasicParser/parser-field", c.P.Pos(bp.Pos()), "BasicParser never stores its receiver into url.parser")
			} else {
				okAll := true
				for _, b := range bp.Blocks {
					if r, ok := b.Instrs[len(b.Instrs)-1].(*ssa.Return); ok && ff.Reachable(b) {
						if !isNilConst(r.Results[0]) && !ff.Dominates(pstore.Block(), b) {
							okAll = false
						}
					}
				}
				s.Check(okAll, "funnel/BasicParser/parser-field", c.P.Pos(pstore.Pos()), "url.parser = p dominates every return of a URL", "a URL can be returned without carrying the parser that produced it")
			}
		},
	})

	register(&Rule{
		Name:  "FLOW-strconv",
		Doc:   "every strconv.ParseInt/ParseUint/Atoi on input-derived text is reached only after a digits-only validation of that very text against a digit table that fits the radix (strconv accepts '+' and '-')",
		Props: []string{"C07", "C01"},
		Floor: 2,
		Run: func(c *Ctx, s *core.Sink) {
			env := BuildTables(c)
			spec := loadSetsSpec(c)
			hex := isetPoints(spec.Bitsets["ASCIIHexDigit"].Points...)
			sm := BuildSM(c)
			n := map[string]int{}
			for _, f := range c.P.ModFns {
				for _, b := range f.Blocks {
					for _, ins := range b.Instrs {
						call, ok := ins.(*ssa.Call)
						if !ok {
							continue
						}
						cl := call.Common().StaticCallee()
						if cl == nil || core.PkgPathOf(cl) != "strconv" {
							continue
						}
						switch cl.Name() {
						case "Atoi", "ParseInt", "ParseUint":
						default:
							continue
						}
						base := "strconv/" + core.FuncName(f) + "/" + cl.Name()
						n[base]++
						key := fmt.Sprintf("%s#%d", base, n[base])
						pos := c.P.Pos(call.Pos())
						props := []string{"C01"}
						if strings.Contains(f.Name(), "IPv4") {
							props = []string{"C07", "C01"}
						}
						arg := call.Common().Args[0]
						// configuration text (looked up in the special-scheme table) is not input
						if ex, ok := arg.(*ssa.Extract); ok {
							if c2, ok := ex.Tuple.(*ssa.Call); ok {
								if cl2 := c2.Common().StaticCallee(); cl2 != nil && (cl2.Name() == "getSpecialScheme" || schemeTableLookup(cl2)) {
									s.OK(key, pos, "argument is a default port from the configured scheme table, not input", props...)
									continue
								}
							}
						}
						ff := Facts(c, f)
						var tables []string
						found := false
						for _, fact := range ff.At(b) {
							if t, ok := digitValidation(fact, arg); ok {
								found = true
								tables = t
							}
						}
						if !found {
							// buffer discipline of the state machine: strconv.Atoi(buffer.String()) in the port state (or in a helper
							// of that state which is handed the buffer's text)
							if site, inSM := sm.SiteInMachine(c, f, call); inSM {
								if ok, why := portBufferDigitsOnly(c, sm, site); ok {
									s.OK(key, pos, why, props...)
									continue
								} else if why != "" {
									s.Bad(key, pos, why, props...)
									continue
								}
							}
							s.Bad(key, pos, "the text converted by strconv."+cl.Name()+" is not validated to consist of digits only: a leading '+' or '-' is accepted as part of a number", props...)
							continue
						}
						// the tables must contain digits only (⊆ hex digits) and fit the radix
						okTables := true
						for _, t := range tables {
							v, _ := env.Global("url", t)
							bs, isB := v.(*tvBitset)
							if !isB {
								// a table named by its content (a field of a table object): the content is the name's
								if _, byContent := map[string]bool{"ASCIIDigit": true, "ASCIIHexDigit": true, "asciiOctalDigit": true}[t]; byContent && v == nil {
									continue
								}
							}
							if !isB || !bs.iset().subsetOf(hex) {
								okTables = false
							}
						}
						radixOK, radixWhy := radixFits(env, call, tables, spec)
						switch {
						case !okTables:
							s.Bad(key, pos, fmt.Sprintf("validated against %v, which is not a table of digits", tables), props...)
						case !radixOK:
							s.Bad(key, pos, radixWhy, props...)
						default:
							s.OK(key, pos, fmt.Sprintf("dominated by a digits-only validation against %v", tables), props...)
						}
					}
				}
			}
		},
	})

	register(&Rule{
		Name:  "FLOW-ipv4",
		Doc:   "the IPv4 parser and the ends-in-a-number checker run only where a bool parameter that carries !url.IsSpecialScheme() (directly or handed down by a caller) is known to be false, the IPv4 parser only when the checker answered true for the same text",
		Props: []string{"C07"},
		Floor: 2,
		Run: func(c *Ctx, s *core.Sink) {
			p4 := c.P.Func("url", "parser", "parseIPv4")
			en := c.P.Func("url", "parser", "endsInANumber")
			if p4 == nil || en == nil {
				s.Unknown("ipv4/anchors", "-", "parseIPv4 / endsInANumber not found")
				return
			}
			// notSpecialParam(f, p): at every call site of f the argument for p is !X.IsSpecialScheme() or a parameter with the same property
			var carries func(f *ssa.Function, p *ssa.Parameter, depth int) (bool, string)
			carries = func(f *ssa.Function, p *ssa.Parameter, depth int) (bool, string) {
				if depth > 3 {
					return false, "call chain too deep"
				}
				idx := -1
				for i, q := range f.Params {
					if q == p {
						idx = i
					}
				}
				sites := 0
				for _, g := range c.P.ModFns {
					for _, b := range g.Blocks {
						for _, ins := range b.Instrs {
							call, ok := ins.(*ssa.Call)
							if !ok || call.Common().StaticCallee() != f {
								continue
							}
							sites++
							arg := call.Common().Args[idx]
							if u, isU := arg.(*ssa.UnOp); isU && u.Op == token.NOT {
								if ic, isC := u.X.(*ssa.Call); isC {
									if icl := ic.Common().StaticCallee(); icl != nil && icl.Name() == "IsSpecialScheme" {
										// of the URL handed to the same call
										same := false
										for _, a := range call.Common().Args {
											if a == ic.Common().Args[0] {
												same = true
											}
										}
										if same {
											continue
										}
										return false, fmt.Sprintf("%s passes !IsSpecialScheme() of a different URL at %s", core.FuncName(g), c.P.Pos(call.Pos()))
									}
								}
							}
							if q, isP := arg.(*ssa.Parameter); isP {
								if ok, why := carries(g, q, depth+1); ok {
									continue
								} else {
									return false, why
								}
							}
							return false, fmt.Sprintf("%s passes something other than !url.IsSpecialScheme() at %s", core.FuncName(g), c.P.Pos(call.Pos()))
						}
					}
				}
				if sites == 0 {
					return false, core.FuncName(f) + " has no call site"
				}
				return true, ""
			}
			n := map[string]int{}
			hostParsers := map[*ssa.Function]*ssa.Parameter{}
			for _, f := range c.P.ModFns {
				for _, b := range f.Blocks {
					for _, ins := range b.Instrs {
						call, ok := ins.(*ssa.Call)
						if !ok {
							continue
						}
						cl := call.Common().StaticCallee()
						if cl != p4 && cl != en {
							continue
						}
						base := "ipv4/" + core.FuncName(f) + "/calls:" + cl.Name()
						n[base]++
						key := fmt.Sprintf("%s#%d", base, n[base])
						special, why := false, "no bool parameter is known to be false here"
						checked := cl == en
						holdsUpward(c, f, b, 2, func(facts []condFact, root func(ssa.Value) ssa.Value) bool {
							special, checked = false, cl == en
							for _, fa := range facts {
								if p, ok := fa.Cond.(*ssa.Parameter); ok && !fa.Val && types.Identical(p.Type(), types.Typ[types.Bool]) {
									if ok, w := carries(p.Parent(), p, 0); ok {
										special = true
										hostParsers[p.Parent()] = p
									} else {
										why = w
									}
								}
								if ec, ok := fa.Cond.(*ssa.Call); ok && ec.Common().StaticCallee() == en && fa.Val {
									if root(ec.Common().Args[len(ec.Common().Args)-1]) == root(call.Common().Args[len(call.Common().Args)-1]) {
										checked = true
									}
								}
							}
							return special && checked
						})
						switch {
						case !special:
							s.Bad(key, c.P.Pos(call.Pos()), "not confined to special-scheme hosts ("+why+"): opaque hosts could be reinterpreted as IPv4 addresses")
						case !checked:
							s.Bad(key, c.P.Pos(call.Pos()), "the IPv4 parser runs without endsInANumber having answered true for the same text: domains that do not end in a number could become addresses")
						default:
							s.OK(key, c.P.Pos(call.Pos()), "special hosts only (isNotSpecial == false, carried from !url.IsSpecialScheme())"+map[bool]string{true: ", after endsInANumber(text) == true", false: ""}[cl == p4])
						}
					}
				}
			}
			for f, p := range hostParsers {
				s.OK("ipv4/"+core.FuncName(f)+"/isNotSpecial", c.P.Pos(f.Pos()), "parameter "+p.Name()+" is !url.IsSpecialScheme() of the URL being parsed at every call site")
			}
			if len(n) == 0 {
				s.Unknown("ipv4/none", "-", "no call of the IPv4 parser found")
			}
		},
	})

	register(&Rule{
		Name:  "FLOW-brackets",
		Doc:   "the text handed to the IPv6 parser is the host minus exactly its first and last byte, on a path where the first byte was tested to be '[' and the host to end with ']'; no Trim with a bracket cutset exists",
		Props: []string{"C08", "C01"},
		Floor: 2,
		Run: func(c *Ctx, s *core.Sink) {
			p6 := c.P.Func("url", "parser", "parseIPv6")
			if p6 == nil {
				s.Unknown("brackets/anchor", "-", "parseIPv6 not found")
				return
			}
			sites := 0
			for _, f := range c.P.ModFns {
				for _, b := range f.Blocks {
					for _, ins := range b.Instrs {
						call, ok := ins.(*ssa.Call)
						if !ok {
							continue
						}
						cl := call.Common().StaticCallee()
						if cl == nil {
							continue
						}
						if core.PkgPathOf(cl) == "strings" && strings.HasPrefix(cl.Name(), "Trim") && len(call.Common().Args) == 2 {
							if cut, ok := constString(call.Common().Args[1]); ok && strings.ContainsAny(cut, "[]") && (cl.Name() == "Trim" || cl.Name() == "TrimLeft" || cl.Name() == "TrimRight") {
								s.Bad("brackets/"+core.FuncName(f)+"/"+cl.Name(), c.P.Pos(call.Pos()), "strings."+cl.Name()+" with a bracket cutset removes any number of brackets: [[::1]] would be accepted")
							}
						}
						if cl != p6 {
							continue
						}
						sites++
						key := fmt.Sprintf("brackets/%s/parseIPv6#%d", core.FuncName(f), sites)
						// argument: newInputString(X)
						var text ssa.Value
						for _, a := range call.Common().Args {
							if namedOf(a.Type()) == "inputString" {
								if nc, ok := a.(*ssa.Call); ok && nc.Common().StaticCallee() != nil && nc.Common().StaticCallee().Name() == "newInputString" {
									text = nc.Common().Args[0]
								}
							}
							// the IPv6 parser may take the text itself
							if b, ok := a.Type().Underlying().(*types.Basic); ok && b.Kind() == types.String && text == nil {
								text = a
							}
						}
						sl, ok := text.(*ssa.Slice)
						if !ok {
							s.Bad(key, c.P.Pos(call.Pos()), "the text given to the IPv6 parser is not a slice host[1:len(host)-1]")
							continue
						}
						host := sl.X
						lo, okLo := constInt(sl.Low)
						hiOK := false
						if bo, ok := sl.High.(*ssa.BinOp); ok && bo.Op == token.SUB && isLenOf(bo.X, host) {
							if k, ok := constInt(bo.Y); ok && k == 1 {
								hiOK = true
							}
						}
						if sl.Low == nil || !okLo || lo != 1 || !hiOK {
							s.Bad(key, c.P.Pos(call.Pos()), "the text given to the IPv6 parser is not host[1:len(host)-1]")
							continue
						}
						first, last := false, false
						holdsUpward(c, f, b, 2, func(facts []condFact, root func(ssa.Value) ssa.Value) bool {
							first, last = false, false
							for _, fa := range facts {
								if bo, ok := fa.Cond.(*ssa.BinOp); ok && bo.Op == token.EQL && fa.Val {
									// host[0] == '['
									for _, pr := range [][2]ssa.Value{{bo.X, bo.Y}, {bo.Y, bo.X}} {
										if k, ok := constInt(pr[1]); ok && k == '[' {
											var x, idx ssa.Value
											switch ix := pr[0].(type) {
											case *ssa.Lookup:
												x, idx = ix.X, ix.Index
											case *ssa.Index:
												x, idx = ix.X, ix.Index
											}
											if i0, ok := constInt(idx); ok && i0 == 0 && x != nil && root(x) == root(host) {
												first = true
											}
										}
									}
								}
								if hc, ok := fa.Cond.(*ssa.Call); ok && fa.Val {
									if hcl := hc.Common().StaticCallee(); hcl != nil && hcl.String() == "strings.HasSuffix" && root(hc.Common().Args[0]) == root(host) {
										if suf, ok := constString(hc.Common().Args[1]); ok && suf == "]" {
											last = true
										}
									}
								}
							}
							return first && last
						})
						switch {
						case !first:
							s.Bad(key, c.P.Pos(call.Pos()), "not dominated by host[0] == '['")
						case !last:
							s.Bad(key, c.P.Pos(call.Pos()), "not dominated by a successful strings.HasSuffix(host, \"]\") (a host without the closing bracket reaches the IPv6 parser)")
						default:
							s.OK(key, c.P.Pos(call.Pos()), "host[1:len(host)-1] after host[0] == '[' and HasSuffix(host, \"]\")")
						}
					}
				}
			}
			if sites == 0 {
				s.Unknown("brackets/none", "-", "no call of parseIPv6 found")
			} else {
				s.OK("brackets/no-trim", "-", "no strings.Trim/TrimLeft/TrimRight with a bracket cutset in the module", "C08", "C01")
			}
		},
	})

	register(&Rule{
		Name:  "FLOW-hostpipe",
		Doc:   "special hosts: the forbidden-domain scan ranges over the result of ToASCII applied to the percent-decoded input, and dominates every non-lax success return and the IPv4 test",
		Props: []string{"C09"},
		Floor: 3,
		Run: func(c *Ctx, s *core.Sink) {
			// the domain pipeline: the function that applies the parser's ToASCII
			var ph *ssa.Function
			for _, f := range c.P.ModFns {
				for _, b := range f.Blocks {
					for _, ins := range b.Instrs {
						if call, ok := ins.(*ssa.Call); ok {
							if cl := call.Common().StaticCallee(); cl != nil && cl.Name() == "ToASCII" && namedOf(recvType(cl)) == "parser" && f != cl {
								ph = f
							}
						}
					}
				}
			}
			if ph == nil {
				s.Unknown("hostpipe/anchor", "-", "no function applies (*parser).ToASCII")
				return
			}
			var decode, toascii *ssa.Call
			var rangeIns *ssa.Range
			var testCall *ssa.Call
			for _, b := range ph.Blocks {
				for _, ins := range b.Instrs {
					switch x := ins.(type) {
					case *ssa.Call:
						if cl := x.Common().StaticCallee(); cl != nil {
							switch {
							case cl.Name() == "DecodePercentEncoded" && namedOf(recvType(cl)) == "parser":
								decode = x
							case cl.Name() == "ToASCII" && namedOf(recvType(cl)) == "parser":
								toascii = x
							case cl.Name() == "Test" && core.PkgPathOf(cl) == core.BitsetPath:
								if n, ok := bitsetGlobal(x.Common().Args[0]); ok && n == "ForbiddenDomainCodePoint" {
									testCall = x
								}
							}
						}
					case *ssa.Range:
						rangeIns = x
					}
				}
			}
			pos := c.P.Pos(ph.Pos())
			if decode == nil || toascii == nil {
				s.Bad("hostpipe/order", pos, "the host parser does not percent-decode and then apply ToASCII")
				return
			}
			// input of decode: the host parameter (possibly through the pre-parse callback)
			var hostParam *ssa.Parameter
			for _, p := range ph.Params {
				if types.Identical(p.Type(), types.Typ[types.String]) {
					hostParam = p
				}
			}
			viaCallback := func(f *ssa.Function) bool { return false }
			inOK := derivesFrom(decode.Common().Args[1], hostParam, viaCallback, 0) || phiOfParamOrCall(decode.Common().Args[1], hostParam)
			s.Check(inOK, "hostpipe/decode-input", c.P.Pos(decode.Pos()), "percent-decoding is applied to the host text", "percent-decoding is not applied to the host parameter")
			s.Check(toascii.Common().Args[1] == ssa.Value(decode), "hostpipe/order", c.P.Pos(toascii.Pos()), "ToASCII(DecodePercentEncoded(input))", "ToASCII is not applied to the percent-decoded text: escapes in the host would survive or be decoded after IDNA")
			// the scan
			var ascii ssa.Value
			for _, r := range *toascii.Referrers() {
				if ex, ok := r.(*ssa.Extract); ok && ex.Index == 0 {
					ascii = ex
				}
			}
			// the host hooks: the one that runs after parsing is handed the ToASCII result (its answer replaces the
			// domain: handed anything earlier, the normalisation is lost), the one that runs before is handed the host
			// text as it came in
			for _, b := range ph.Blocks {
				for _, ins := range b.Instrs {
					call, ok := ins.(*ssa.Call)
					if !ok || call.Common().IsInvoke() || call.Common().StaticCallee() != nil {
						continue
					}
					hook := optLoad(call.Common().Value)
					if hook != "postParseHostFunc" && hook != "preParseHostFunc" {
						continue
					}
					var sarg ssa.Value
					for _, a := range call.Common().Args {
						if isStringType(a.Type()) {
							sarg = a
						}
					}
					if sarg == nil {
						continue
					}
					switch hook {
					case "postParseHostFunc":
						s.Check(ascii != nil && sarg == ascii, "hostpipe/post-hook-input", c.P.Pos(call.Pos()), "the post-parse host hook is handed the ToASCII result", "the post-parse host hook is not handed the ToASCII result: its answer replaces the domain, so what ToASCII did (lower case, IDNA mapping) is lost")
					case "preParseHostFunc":
						s.Check(hostParam != nil && sarg == ssa.Value(hostParam), "hostpipe/pre-hook-input", c.P.Pos(call.Pos()), "the pre-parse host hook is handed the host text as it came in", "the pre-parse host hook is not handed the host parameter")
					}
				}
			}
			scanOK := rangeIns != nil && testCall != nil && ascii != nil && rangeIns.X == ascii
			if scanOK {
				// tested value is the ranged rune: Extract 2 of Next(range)
				scanOK = false
				if cv := stripConv(testCall.Common().Args[1]); cv != nil {
					if ex, ok := cv.(*ssa.Extract); ok && ex.Index == 2 {
						if nx, ok := ex.Tuple.(*ssa.Next); ok && nx.Iter == ssa.Value(rangeIns) {
							scanOK = true
						}
					}
				}
			}
			if !scanOK && ascii != nil {
				// the scan may live in a search helper: found := firstForbidden(ascii)
				for _, r := range *ascii.Referrers() {
					call, ok := r.(*ssa.Call)
					if !ok {
						continue
					}
					g := call.Common().StaticCallee()
					kb, ok := forbiddenScanFn(c, g)
					if !ok {
						continue
					}
					s.OK("hostpipe/scan", c.P.Pos(call.Pos()), "every code point of the ToASCII result is tested against ForbiddenDomainCodePoint by "+g.Name()+", which answers true exactly when one is found")
					ff := Facts(c, ph)
					nRet := 0
					for _, b := range ph.Blocks {
						rt, ok := b.Instrs[len(b.Instrs)-1].(*ssa.Return)
						if !ok || !ff.Reachable(b) {
							continue
						}
						ei := errResultIndex(ph)
						if ei < 0 || ei >= len(rt.Results) {
							continue
						}
						success := isNilConst(rt.Results[ei])
						if ex, ok := rt.Results[ei].(*ssa.Extract); ok {
							if c2, ok := ex.Tuple.(*ssa.Call); ok && c2.Common().StaticCallee() != nil && c2.Common().StaticCallee().Name() == "parseIPv4" {
								success = true
							}
						}
						if !success {
							continue
						}
						lax, clean := false, false
						beforeDecode := !ff.Dominates(decode.Block(), b)
						for _, fa := range ff.At(b) {
							if optLoad(fa.Cond) == "laxHostParsing" && fa.Val {
								lax = true
							}
							if ex, ok := fa.Cond.(*ssa.Extract); ok && ex.Tuple == ssa.Value(call) && ex.Index == kb && !fa.Val {
								clean = true
							}
						}
						if beforeDecode || lax {
							continue
						}
						nRet++
						s.Check(clean, fmt.Sprintf("hostpipe/return#%d", nRet), c.P.Pos(rt.Pos()), "reached only when the forbidden-domain scan found nothing", "a domain can be returned without the forbidden-domain scan having found nothing")
					}
					if nRet == 0 {
						s.Unknown("hostpipe/returns", pos, "no non-lax success return of a domain found")
					}
					return
				}
			}
			if !scanOK && ascii != nil {
				// the scan may be a library search with the set's test as predicate: strings.IndexFunc(ascii, isForbidden) / ContainsFunc
				for _, r := range *ascii.Referrers() {
					call, ok := r.(*ssa.Call)
					if !ok {
						continue
					}
					g := call.Common().StaticCallee()
					if g == nil || (g.String() != "strings.IndexFunc" && g.String() != "strings.ContainsFunc") || len(call.Common().Args) != 2 || call.Common().Args[0] != ascii {
						continue
					}
					if !forbiddenPredicate(c, call.Common().Args[1]) {
						continue
					}
					s.OK("hostpipe/scan", c.P.Pos(call.Pos()), "every code point of the ToASCII result is tested against ForbiddenDomainCodePoint by "+g.String()+" with the set's test as predicate")
					ff := Facts(c, ph)
					nRet := 0
					for _, b := range ph.Blocks {
						rt, ok := b.Instrs[len(b.Instrs)-1].(*ssa.Return)
						if !ok || !ff.Reachable(b) {
							continue
						}
						ei := errResultIndex(ph)
						if ei < 0 || ei >= len(rt.Results) {
							continue
						}
						success := isNilConst(rt.Results[ei])
						if ex, ok := rt.Results[ei].(*ssa.Extract); ok {
							if c2, ok := ex.Tuple.(*ssa.Call); ok && c2.Common().StaticCallee() != nil && c2.Common().StaticCallee().Name() == "parseIPv4" {
								success = true
							}
						}
						if !success {
							continue
						}
						lax, clean := false, false
						beforeDecode := !ff.Dominates(decode.Block(), b)
						for _, fa := range ff.At(b) {
							if optLoad(fa.Cond) == "laxHostParsing" && fa.Val {
								lax = true
							}
							if fa.Cond == ssa.Value(call) && !fa.Val {
								clean = true // ContainsFunc answered false
							}
							if bo, ok := fa.Cond.(*ssa.BinOp); ok && bo.X == ssa.Value(call) {
								if k, ok := constInt(bo.Y); ok {
									switch {
									case bo.Op == token.GEQ && k == 0 && !fa.Val, bo.Op == token.LSS && k == 0 && fa.Val,
										bo.Op == token.EQL && k == -1 && fa.Val, bo.Op == token.NEQ && k == -1 && !fa.Val,
										bo.Op == token.GTR && k == -1 && !fa.Val, bo.Op == token.LEQ && k == -1 && fa.Val:
										clean = true
									}
								}
							}
						}
						if beforeDecode || lax {
							continue
						}
						nRet++
						s.Check(clean, fmt.Sprintf("hostpipe/return#%d", nRet), c.P.Pos(rt.Pos()), "reached only when the forbidden-domain scan found nothing", "a domain can be returned without the forbidden-domain scan having found nothing")
					}
					if nRet == 0 {
						s.Unknown("hostpipe/returns", pos, "no non-lax success return of a domain found")
					}
					return
				}
			}
			if !scanOK {
				s.Bad("hostpipe/scan", pos, "no scan of the ToASCII result against ForbiddenDomainCodePoint found")
				return
			}
			s.OK("hostpipe/scan", c.P.Pos(testCall.Pos()), "every code point of the ToASCII result is tested against ForbiddenDomainCodePoint")
			// loop header = block of the Next instruction; exits dominate success returns
			ff := Facts(c, ph)
			var header *ssa.BasicBlock
			for _, r := range *rangeIns.Referrers() {
				if nx, ok := r.(*ssa.Next); ok {
					header = nx.Block()
				}
			}
			loops := loopsOf(ph)
			var scanLoop *ssaLoop
			for _, l := range loops {
				if l.Header == header {
					scanLoop = l
				}
			}
			if header == nil || scanLoop == nil {
				s.Unknown("hostpipe/dominance", pos, "scan loop not located")
				return
			}
			nRet := 0
			for _, b := range ph.Blocks {
				r, ok := b.Instrs[len(b.Instrs)-1].(*ssa.Return)
				if !ok || !ff.Reachable(b) {
					continue
				}
				// success returns: error operand nil, or forwarding parseIPv4's result
				ei := errResultIndex(ph)
				if ei < 0 || ei >= len(r.Results) {
					continue
				}
				success := isNilConst(r.Results[ei])
				if ex, ok := r.Results[ei].(*ssa.Extract); ok {
					if c2, ok := ex.Tuple.(*ssa.Call); ok && c2.Common().StaticCallee() != nil && c2.Common().StaticCallee().Name() == "parseIPv4" {
						success = true
					}
				}
				if !success {
					continue
				}
				// excused: before the domain branch (empty host, IPv6, opaque) or lax
				lax := false
				beforeDecode := !ff.Dominates(decode.Block(), b)
				for _, fa := range ff.At(b) {
					if optLoad(fa.Cond) == "laxHostParsing" && fa.Val {
						lax = true
					}
				}
				if beforeDecode || lax {
					continue
				}
				nRet++
				key := fmt.Sprintf("hostpipe/return#%d", nRet)
				inLoop := scanLoop.Blocks[b]
				s.Check(ff.Dominates(header, b) && !inLoop, key, c.P.Pos(r.Pos()), "reached only after the forbidden-domain scan completed", "a domain can be returned without (or before completing) the forbidden-domain scan")
			}
			if nRet == 0 {
				s.Unknown("hostpipe/returns", pos, "no non-lax success return of a domain found")
			}
		},
	})

	register(&Rule{
		Name:  "FLOW-urlenc",
		Doc:   "in the form-urlencoded parser, for the name and for the value, '+' is replaced by space in the input of percent-decoding (not in its output)",
		Props: []string{"C11"},
		Floor: 2,
		Run: func(c *Ctx, s *core.Sink) {
			f := c.P.Func("url", "SearchParams", "init")
			if f == nil {
				s.Unknown("urlenc/anchor", "-", "(*SearchParams).init not found")
				return
			}
			isPlusReplace := func(v ssa.Value) (*ssa.Call, bool) {
				call, ok := v.(*ssa.Call)
				if !ok {
					return nil, false
				}
				cl := call.Common().StaticCallee()
				if cl == nil || core.PkgPathOf(cl) != "strings" || (cl.Name() != "ReplaceAll" && cl.Name() != "Replace") {
					return nil, false
				}
				a, ok1 := constString(call.Common().Args[1])
				b, ok2 := constString(call.Common().Args[2])
				if !ok1 || !ok2 || a != "+" || b != " " {
					return nil, false
				}
				if cl.Name() == "Replace" {
					if n, ok := constInt(call.Common().Args[3]); !ok || n >= 0 {
						return nil, false
					}
				}
				return call, true
			}
			isDecode := func(v ssa.Value) (*ssa.Call, bool) {
				call, ok := v.(*ssa.Call)
				if !ok {
					return nil, false
				}
				cl := call.Common().StaticCallee()
				if cl == nil || cl.Name() != "DecodePercentEncoded" {
					return nil, false
				}
				return call, true
			}
			// decode calls in init and in the module functions it calls (a helper may do the decoding)
			fns := []*ssa.Function{f}
			seenFn := map[*ssa.Function]bool{f: true}
			for i := 0; i < len(fns) && i < 16; i++ {
				for _, b := range fns[i].Blocks {
					for _, ins := range b.Instrs {
						if call, ok := ins.(*ssa.Call); ok {
							if cl := call.Common().StaticCallee(); cl != nil && c.P.InModule(cl) && !seenFn[cl] && cl.Name() != "DecodePercentEncoded" && len(cl.Blocks) > 0 {
								seenFn[cl] = true
								fns = append(fns, cl)
							}
						}
					}
				}
			}
			good := map[*ssa.Call]bool{}        // properly fed decode calls
			decoder := map[*ssa.Function]bool{} // functions that contain one
			n := 0
			for _, g := range fns {
				for _, b := range g.Blocks {
					for _, ins := range b.Instrs {
						v, ok := ins.(ssa.Value)
						if !ok {
							continue
						}
						dc, ok := isDecode(v)
						if !ok {
							continue
						}
						n++
						key := fmt.Sprintf("urlenc/%s/decode#%d", core.FuncName(g), n)
						arg := dc.Common().Args[len(dc.Common().Args)-1]
						rc, fed := isPlusReplace(arg)
						switch {
						case !fed:
							after := false
							for _, r := range *dc.Referrers() {
								if rv, ok := r.(ssa.Value); ok {
									if _, ok := isPlusReplace(rv); ok {
										after = true
									}
								}
							}
							if after {
								s.Bad(key, c.P.Pos(dc.Pos()), "'+' is replaced in the output of percent-decoding: an escaped plus sign (%2B) is turned into a space")
							} else {
								s.Bad(key, c.P.Pos(dc.Pos()), "'+' is never translated to space for this piece")
							}
						default:
							if _, ok := isDecode(rc.Common().Args[0]); ok {
								s.Bad(key, c.P.Pos(dc.Pos()), "decoded twice")
							} else {
								good[dc] = true
								decoder[g] = true
								s.OK(key, c.P.Pos(dc.Pos()), "DecodePercentEncoded(ReplaceAll(raw, \"+\", \" \"))")
							}
						}
					}
				}
			}
			// name and value of every pair come out of such a decode
			var decoded func(v ssa.Value, d int) bool
			decoded = func(v ssa.Value, d int) bool {
				if d > 6 {
					return false
				}
				switch x := v.(type) {
				case *ssa.Call:
					if good[x] {
						return true
					}
					if cl := x.Common().StaticCallee(); cl != nil && decoder[cl] && cl != f {
						return true
					}
				case *ssa.Phi:
					for _, e := range x.Edges {
						if !decoded(e, d+1) {
							return false
						}
					}
					return len(x.Edges) > 0
				case *ssa.Extract:
					return decoded(x.Tuple, d+1)
				}
				return false
			}
			for _, fld := range []string{"Name", "Value"} {
				found, okAll := 0, true
				var pos token.Pos
				for _, g := range fns {
					for _, b := range g.Blocks {
						for _, ins := range b.Instrs {
							if st, ok := ins.(*ssa.Store); ok {
								if _, ok := fieldAddrOf(st.Addr, "NameValuePair:"+fld); ok {
									found++
									pos = st.Pos()
									if !decoded(st.Val, 0) {
										okAll = false
									}
								}
							}
						}
					}
				}
				key := "urlenc/pair." + fld
				switch {
				case found == 0:
					s.Bad(key, c.P.Pos(f.Pos()), "the "+strings.ToLower(fld)+" of a pair is never set by the form-urlencoded parser")
				case !okAll:
					s.Bad(key, c.P.Pos(pos), "the "+strings.ToLower(fld)+" of a pair is not the output of plus-translation followed by percent-decoding")
				default:
					s.OK(key, c.P.Pos(pos), "set from DecodePercentEncoded(ReplaceAll(raw, \"+\", \" \"))")
				}
			}
		},
	})
}

// phiOfParamOrCall: v is the parameter, or a phi mixing the parameter with a call that takes the parameter
// (the optional pre-parse callback).
func phiOfParamOrCall(v ssa.Value, p *ssa.Parameter) bool {
	if v == ssa.Value(p) {
		return true
	}
	phi, ok := v.(*ssa.Phi)
	if !ok {
		return false
	}
	for _, e := range phi.Edges {
		if e == ssa.Value(p) {
			continue
		}
		call, ok := e.(*ssa.Call)
		if !ok {
			return false
		}
		uses := false
		for _, a := range call.Common().Args {
			if a == ssa.Value(p) {
				uses = true
			}
		}
		if !uses {
			return false
		}
	}
	return true
}

// radixFits checks that the digit tables used to validate the text fit the radix passed to strconv.
func radixFits(env *tabEnv, call *ssa.Call, tables []string, spec *setsSpec) (bool, string) {
	cl := call.Common().StaticCallee()
	byRadix := map[int64]string{10: "ASCIIDigit", 16: "ASCIIHexDigit", 8: "asciiOctalDigit"}
	if cl.Name() == "Atoi" {
		if len(tables) == 1 && tables[0] == "ASCIIDigit" {
			return true, ""
		}
		return false, fmt.Sprintf("Atoi parses decimal but the text is validated against %v", tables)
	}
	radix := call.Common().Args[1]
	if k, ok := constInt(radix); ok {
		want, known := byRadix[k]
		if !known {
			return false, fmt.Sprintf("radix %d has no digit table", k)
		}
		for _, t := range tables {
			v, _ := env.Global("url", t)
			w, _ := env.Global("url", want)
			bv, ok1 := v.(*tvBitset)
			bw, ok2 := w.(*tvBitset)
			if !ok1 || !ok2 || !bv.iset().subsetOf(bw.iset()) {
				return false, fmt.Sprintf("text validated against %s may contain digits that radix %d does not have", t, k)
			}
		}
		return true, ""
	}
	// radix and digit table picked together by a helper: each return pairs a constant radix with its table
	if rex, ok := radix.(*ssa.Extract); ok {
		if hc, ok := rex.Tuple.(*ssa.Call); ok {
			if h := hc.Common().StaticCallee(); h != nil && len(h.Blocks) > 0 {
				// which result is the table: the one of type *BitSet
				ti := -1
				for i := 0; i < h.Signature.Results().Len(); i++ {
					if namedOf(h.Signature.Results().At(i).Type()) == "BitSet" {
						ti = i
					}
				}
				if ti < 0 {
					return false, "radix varies but the digit table does not vary with it"
				}
				n := 0
				for _, b := range h.Blocks {
					r, ok := b.Instrs[len(b.Instrs)-1].(*ssa.Return)
					if !ok {
						continue
					}
					n++
					k, ok := constInt(r.Results[rex.Index])
					if !ok {
						return false, "a radix picked by " + h.Name() + " is not a constant"
					}
					name, ok := bitsetGlobal(r.Results[ti])
					if !ok || byRadix[k] != name {
						return false, fmt.Sprintf("radix %d is paired with digit table %q, want %q", k, name, byRadix[k])
					}
				}
				if n > 0 {
					return true, ""
				}
			}
		}
	}
	// radix is a phi of constants; the table must be the phi of the matching tables on the same edges
	rphi, ok := radix.(*ssa.Phi)
	if !ok {
		return false, "radix is neither a constant nor a choice between constants"
	}
	// find the table phi in the same block
	var tphi *ssa.Phi
	for _, ins := range rphi.Block().Instrs {
		if p, ok := ins.(*ssa.Phi); ok && p != rphi && namedOf(p.Type()) == "BitSet" {
			tphi = p
		}
	}
	if tphi == nil {
		return false, "radix varies but the digit table does not vary with it"
	}
	// the two choices are made together: edge by edge (and through nested choices, block by block) a constant radix
	// stands beside its table
	seen := map[*ssa.Phi]bool{}
	var pairs func(r, t ssa.Value) (bool, string)
	pairs = func(r, t ssa.Value) (bool, string) {
		if k, ok := constInt(r); ok {
			name, ok := bitsetGlobal(t)
			if !ok || byRadix[k] != name {
				return false, fmt.Sprintf("radix %d is paired with digit table %q, want %q", k, name, byRadix[k])
			}
			return true, ""
		}
		rp, ok1 := r.(*ssa.Phi)
		tp, ok2 := t.(*ssa.Phi)
		if !ok1 || !ok2 || rp.Block() != tp.Block() || len(rp.Edges) != len(tp.Edges) {
			return false, "radix edge is not a constant"
		}
		if seen[rp] {
			return true, ""
		}
		seen[rp] = true
		for i := range rp.Edges {
			if ok, why := pairs(rp.Edges[i], tp.Edges[i]); !ok {
				return false, why
			}
		}
		return true, ""
	}
	return pairs(rphi, tphi)
}

// portBufferDigitsOnly: the buffer converted by strconv.Atoi in the port state only ever receives code points that
// passed ASCIIDigit.Test, and is empty whenever the port state is entered.
func portBufferDigitsOnly(c *Ctx, sm *smModel, call *ssa.Call) (bool, string) {
	a := sm.An
	if a == nil {
		return false, ""
	}
	state := a.groupAt(call.Pos())
	if state == "" {
		return false, ""
	}
	nWrites := 0
	for _, cx := range sm.Contexts {
		for _, p := range sm.Paths[cx.Name] {
			if p.State != "<prologue>" && a.groupOf(p.State) == state {
				for _, w := range p.BufWrites {
					if w.Buffer != "buffer" {
						continue
					}
					nWrites++
					if !w.DigitGuard {
						return false, fmt.Sprintf("in %s the buffer receives a code point that was not tested with ASCIIDigit (at %s): strconv.Atoi may see a sign", state, c.P.Pos(w.Pos))
					}
				}
			}
			// edges entering the state must leave the buffer empty
			if !p.Returned && p.Next != "" && p.State != "<prologue>" && a.groupOf(p.Next) == state && a.groupOf(p.State) != state {
				if !p.BufferEmptyAtEnd {
					return false, fmt.Sprintf("edge %s→%s does not reset the buffer: text collected before reaches strconv.Atoi", p.State, state)
				}
			}
		}
	}
	if nWrites == 0 {
		return false, "no buffer write found in " + state
	}
	return true, fmt.Sprintf("buffer discipline of %s: every write is guarded by ASCIIDigit.Test(uint(r)) and every entering edge resets the buffer", state)
}

// strconvDigitsOnly: the text handed to this strconv parse was validated to consist of digits only (the discharge
// condition of FLOW-strconv), so the parsed number cannot be negative.
func strconvDigitsOnly(c *Ctx, f *ssa.Function, call *ssa.Call) bool {
	arg := call.Common().Args[0]
	for _, fact := range Facts(c, f).At(call.Block()) {
		if _, ok := digitValidation(fact, arg); ok {
			return true
		}
	}
	sm := BuildSM(c)
	if site, inSM := sm.SiteInMachine(c, f, call); inSM {
		if ok, _ := portBufferDigitsOnly(c, sm, site); ok {
			return true
		}
	}
	return false
}

// schemeTableLookup: a module function whose first result is, on every return, what the special-scheme table of the
// parser's options holds for a key (or a constant): configuration text, not input.
func schemeTableLookup(g *ssa.Function) bool {
	if len(g.Blocks) == 0 {
		return false
	}
	var lk *ssa.Lookup
	for _, b := range g.Blocks {
		for _, ins := range b.Instrs {
			if l, ok := ins.(*ssa.Lookup); ok {
				if _, ok := loadOfField(l.X, "parserOptions:specialSchemes"); ok {
					lk = l
				}
			}
		}
	}
	if lk == nil {
		return false
	}
	n := 0
	for _, b := range g.Blocks {
		r, ok := b.Instrs[len(b.Instrs)-1].(*ssa.Return)
		if !ok || len(r.Results) == 0 {
			continue
		}
		n++
		switch x := r.Results[0].(type) {
		case *ssa.Const:
		case *ssa.Extract:
			if x.Tuple != ssa.Value(lk) || x.Index != 0 {
				return false
			}
		default:
			return false
		}
	}
	return n > 0
}

// forbiddenScanFn: g ranges over its string parameter, tests every code point against ForbiddenDomainCodePoint, and
// has a bool result (index returned) that is the constant true exactly on returns under a positive test and the
// constant false on the others; it writes nothing.
// forbiddenPredicate: v is a function of one code point that answers exactly ForbiddenDomainCodePoint.Test(uint(r)).
func forbiddenPredicate(c *Ctx, v ssa.Value) bool {
	var g *ssa.Function
	switch x := v.(type) {
	case *ssa.Function:
		g = x
	case *ssa.MakeClosure:
		if len(x.Bindings) == 0 {
			g, _ = x.Fn.(*ssa.Function)
		}
	}
	if g == nil || !c.P.InModule(g) || len(g.Blocks) != 1 || len(g.Params) != 1 {
		return false
	}
	ret, ok := g.Blocks[0].Instrs[len(g.Blocks[0].Instrs)-1].(*ssa.Return)
	if !ok || len(ret.Results) != 1 {
		return false
	}
	call, ok := ret.Results[0].(*ssa.Call)
	if !ok {
		return false
	}
	cl := call.Common().StaticCallee()
	if cl == nil || cl.Name() != "Test" || core.PkgPathOf(cl) != core.BitsetPath || len(call.Common().Args) != 2 {
		return false
	}
	if n, ok := bitsetGlobal(call.Common().Args[0]); !ok || n != "ForbiddenDomainCodePoint" {
		return false
	}
	return stripConv(call.Common().Args[1]) == ssa.Value(g.Params[0])
}

func forbiddenScanFn(c *Ctx, g *ssa.Function) (int, bool) {
	if g == nil || len(g.Blocks) == 0 || !c.P.InModule(g) {
		return 0, false
	}
	var sp *ssa.Parameter
	for _, p := range g.Params {
		if isStringType(p.Type()) {
			if sp != nil {
				return 0, false
			}
			sp = p
		}
	}
	if sp == nil {
		return 0, false
	}
	if sum := BuildEff(c).Sum(g); sum == nil || len(sum.Mut) > 0 {
		return 0, false
	}
	var rng *ssa.Range
	var test *ssa.Call
	for _, b := range g.Blocks {
		for _, ins := range b.Instrs {
			switch x := ins.(type) {
			case *ssa.Range:
				if x.X == ssa.Value(sp) {
					rng = x
				}
			case *ssa.Call:
				if cl := x.Common().StaticCallee(); cl != nil && cl.Name() == "Test" && core.PkgPathOf(cl) == core.BitsetPath {
					if n, ok := bitsetGlobal(x.Common().Args[0]); ok && n == "ForbiddenDomainCodePoint" {
						test = x
					}
				}
			}
		}
	}
	if rng == nil || test == nil {
		return 0, false
	}
	ex, ok := stripConv(test.Common().Args[1]).(*ssa.Extract)
	if !ok || ex.Index != 2 {
		return 0, false
	}
	if nx, ok := ex.Tuple.(*ssa.Next); !ok || nx.Iter != ssa.Value(rng) {
		return 0, false
	}
	// the test decides a branch directly
	kb := -1
	for i := 0; i < g.Signature.Results().Len(); i++ {
		if b, ok := g.Signature.Results().At(i).Type().Underlying().(*types.Basic); ok && b.Kind() == types.Bool {
			if kb >= 0 {
				return 0, false
			}
			kb = i
		}
	}
	if kb < 0 {
		return 0, false
	}
	ff := Facts(c, g)
	nT, nF := 0, 0
	for _, b := range g.Blocks {
		rt, ok := b.Instrs[len(b.Instrs)-1].(*ssa.Return)
		if !ok || !ff.Reachable(b) {
			continue
		}
		v, isK := constBool(rt.Results[kb])
		if !isK {
			return 0, false
		}
		under := false
		for _, fa := range ff.At(b) {
			if fa.Cond == ssa.Value(test) && fa.Val {
				under = true
			}
		}
		if v != under {
			return 0, false
		}
		if v {
			nT++
		} else {
			nF++
		}
	}
	// the false answer is given only after the loop ran to its end: under "the range has no further element"
	for _, b := range g.Blocks {
		rt, ok := b.Instrs[len(b.Instrs)-1].(*ssa.Return)
		if !ok || !ff.Reachable(b) {
			continue
		}
		if v, _ := constBool(rt.Results[kb]); v {
			continue
		}
		done := false
		for _, fa := range ff.At(b) {
			if e0, ok := fa.Cond.(*ssa.Extract); ok && e0.Index == 0 && !fa.Val {
				if nx, ok := e0.Tuple.(*ssa.Next); ok && nx.Iter == ssa.Value(rng) {
					done = true
				}
			}
		}
		if !done {
			return 0, false
		}
	}
	return kb, nT > 0 && nF > 0
}
