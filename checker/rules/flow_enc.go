package rules

// FLOW-encgate (C10): in every percent-encoder — a module function taking a *PercentEncodeSet and returning a string —
// nothing derived from the data reaches the result unencoded except under the set's own "need not be encoded" answer
// for that very code point, and sub-encoders are called with the same set or a superset derived from it with Set().
// This is the structural part of "encoding with a set leaves no code point of that set unencoded".

import (
	"fmt"
	"go/token"
	"go/types"

	"golang.org/x/tools/go/ssa"

	"wucheck/core"
)

func isPESPtr(t types.Type) bool {
	p, ok := t.(*types.Pointer)
	return ok && namedOf(p) == "PercentEncodeSet"
}

func encoderSetParam(f *ssa.Function) *ssa.Parameter {
	if f.Signature.Results().Len() != 1 {
		return nil
	}
	if b, ok := f.Signature.Results().At(0).Type().Underlying().(*types.Basic); !ok || b.Kind() != types.String {
		return nil
	}
	if recv := f.Signature.Recv(); recv != nil && namedOf(recv.Type()) == "PercentEncodeSet" {
		return nil
	}
	var tr *ssa.Parameter
	for _, p := range f.Params {
		if isPESPtr(p.Type()) {
			if recv := f.Signature.Recv(); recv != nil && p == f.Params[0] {
				continue
			}
			if tr != nil {
				return nil
			}
			tr = p
		}
	}
	return tr
}

func init() {
	register(&Rule{
		Name:  "FLOW-encgate",
		Doc:   "in every percent-encoder (module function taking a *PercentEncodeSet and returning a string) each piece of the result is either the answer of a sub-encoder called with the same set or with set.Set(…) (a superset), an escape built in place, or raw data dominated by the set's own RuneShouldBeEncoded / ByteShouldBeEncoded answering false for that very value: no code point bypasses the set",
		Props: []string{"C10"},
		Floor: 3,
		Run: func(c *Ctx, s *core.Sink) {
			for _, f := range c.P.ModFns {
				if len(f.Blocks) == 0 || f.Parent() != nil {
					continue
				}
				tr := encoderSetParam(f)
				if tr == nil {
					continue
				}
				key := "encgate/" + core.FuncName(f)
				ff := Facts(c, f)
				supersetOf := func(v ssa.Value) bool {
					if v == ssa.Value(tr) {
						return true
					}
					if call, ok := v.(*ssa.Call); ok {
						if cl := call.Common().StaticCallee(); cl != nil && cl.Name() == "Set" && cl.Signature.Recv() != nil && namedOf(cl.Signature.Recv().Type()) == "PercentEncodeSet" {
							return call.Common().Args[0] == ssa.Value(tr)
						}
					}
					return false
				}
				gated := func(raw ssa.Value, b *ssa.BasicBlock) bool {
					raw = stripConv(raw)
					for _, fa := range ff.At(b) {
						call, ok := fa.Cond.(*ssa.Call)
						if !ok || fa.Val {
							continue
						}
						cl := call.Common().StaticCallee()
						if cl == nil || (cl.Name() != "RuneShouldBeEncoded" && cl.Name() != "ByteShouldBeEncoded") {
							continue
						}
						if supersetOf(call.Common().Args[0]) && stripConv(call.Common().Args[1]) == raw {
							return true // excused by the set itself or by a superset: a fortiori not in the set
						}
					}
					return false
				}
				var bad []string
				var classify func(v ssa.Value, b *ssa.BasicBlock, depth int)
				// writes into a local builder
				builderWrites := func(bld ssa.Value) []*ssa.Call {
					var out []*ssa.Call
					for _, blk := range f.Blocks {
						for _, ins := range blk.Instrs {
							call, ok := ins.(*ssa.Call)
							if !ok {
								continue
							}
							cl := call.Common().StaticCallee()
							if cl == nil || len(call.Common().Args) < 2 || call.Common().Args[0] != bld {
								continue
							}
							switch cl.Name() {
							case "WriteString", "WriteRune", "WriteByte", "Write":
								out = append(out, call)
							}
						}
					}
					return out
				}
				classify = func(v ssa.Value, b *ssa.BasicBlock, depth int) {
					if depth > 6 {
						bad = append(bad, "result expression too deep to follow")
						return
					}
					switch x := v.(type) {
					case *ssa.Const:
						return
					case *ssa.Phi:
						for i, e := range x.Edges {
							if e == ssa.Value(x) {
								continue
							}
							classify(e, x.Block().Preds[i], depth+1)
						}
						return
					case *ssa.BinOp:
						if x.Op == token.ADD {
							classify(x.X, x.Block(), depth+1)
							classify(x.Y, x.Block(), depth+1)
							return
						}
					case *ssa.Call:
						cl := x.Common().StaticCallee()
						if cl != nil && c.P.InModule(cl) {
							if sub := encoderSetParam(cl); sub != nil {
								idx := -1
								for i, p := range cl.Params {
									if p == sub {
										idx = i
									}
								}
								if supersetOf(x.Common().Args[idx]) {
									return
								}
								bad = append(bad, fmt.Sprintf("%s is called with a set that is neither the encoder's own nor derived from it with Set() at %s", cl.Name(), c.P.Pos(x.Pos())))
								return
							}
						}
						if cl != nil && cl.Name() == "String" && len(x.Common().Args) == 1 {
							// builder.String(): every write into it
							for _, w := range builderWrites(x.Common().Args[0]) {
								classify(w.Common().Args[1], w.Block(), depth+1)
							}
							return
						}
					case *ssa.Convert:
						// string(r) / string(b): raw data; string(buf): an escape assembled in place
						src := stripConv(x.X)
						if _, isSlice := src.Type().Underlying().(*types.Slice); isSlice {
							if escapeBuffer(src) {
								return
							}
						} else if gated(src, b) || gated(src, x.Block()) {
							return
						}
						bad = append(bad, fmt.Sprintf("raw data reaches the result at %s without the set having answered that it need not be encoded", c.P.Pos(x.Pos())))
						return
					case *ssa.Slice:
						if escapeBuffer(x.X) {
							return
						}
					case *ssa.Lookup:
						if _, isK := x.X.(*ssa.Const); isK {
							return // a digit taken from a constant table (which table: TAB-hex)
						}
					case *ssa.Index:
						if _, isK := x.X.(*ssa.Const); isK {
							return
						}
					}
					// anything else derived from the data: must be gated
					if gated(v, b) {
						return
					}
					if isDataFree(v) {
						return
					}
					pos := "-"
					if v.Pos().IsValid() {
						pos = c.P.Pos(v.Pos())
					}
					bad = append(bad, fmt.Sprintf("%s (%s) reaches the result without passing the set", v.Name(), pos))
				}
				for _, blk := range f.Blocks {
					if !ff.Reachable(blk) {
						continue
					}
					if r, ok := blk.Instrs[len(blk.Instrs)-1].(*ssa.Return); ok {
						classify(r.Results[0], blk, 0)
					}
				}
				s.Check(len(bad) == 0, key, c.P.Pos(f.Pos()), "every piece of the result is a sub-encoder's answer for the same set (or a superset), an escape, or raw data the set excused", firstN(bad, 2))
			}
		},
	})
}

func firstN(xs []string, n int) string {
	out := ""
	for i, x := range xs {
		if i >= n {
			out += fmt.Sprintf("; … (%d more)", len(xs)-n)
			break
		}
		if i > 0 {
			out += "; "
		}
		out += x
	}
	return out
}

// escapeBuffer: a byte buffer allocated in this function into which the byte '%' is stored (an escape being assembled;
// its digits are TAB-hex's business).
func escapeBuffer(v ssa.Value) bool {
	v = stripConv(v)
	for i := 0; i < 4; i++ {
		switch x := v.(type) {
		case *ssa.Slice:
			v = x.X
			continue
		case *ssa.Phi:
			// append chains
			for _, e := range x.Edges {
				if e != ssa.Value(x) && escapeBuffer(e) {
					return true
				}
			}
			return false
		case *ssa.Call:
			if bi, ok := x.Common().Value.(*ssa.Builtin); ok && bi.Name() == "append" {
				// append(dst, '%', hi, lo): the varargs array holds '%'
				if len(x.Common().Args) == 2 && storesPercent(x.Common().Args[1]) {
					return true
				}
				v = x.Common().Args[0]
				continue
			}
			if cl := x.Common().StaticCallee(); cl != nil && len(cl.Blocks) > 0 {
				// a helper that appends an escape: some return is an escape buffer
				for _, b := range cl.Blocks {
					if r, ok := b.Instrs[len(b.Instrs)-1].(*ssa.Return); ok && len(r.Results) == 1 && escapeBuffer(r.Results[0]) {
						return true
					}
				}
			}
			return false
		}
		break
	}
	return storesPercent(v)
}

func storesPercent(v ssa.Value) bool {
	// the buffer and its aliases: the allocation, slices of it, slices of those
	aliases := map[ssa.Value]bool{}
	var add func(x ssa.Value, depth int)
	add = func(x ssa.Value, depth int) {
		x = stripConv(x)
		if x == nil || aliases[x] || depth > 4 {
			return
		}
		switch y := x.(type) {
		case *ssa.Slice:
			aliases[x] = true
			add(y.X, depth+1)
		case *ssa.Alloc, *ssa.MakeSlice:
			aliases[x] = true
		default:
			return
		}
		if refs := x.Referrers(); refs != nil {
			for _, r := range *refs {
				if sl, ok := r.(*ssa.Slice); ok && sl.X == x {
					add(sl, depth+1)
				}
			}
		}
	}
	add(v, 0)
	for a := range aliases {
		refs := a.Referrers()
		if refs == nil {
			continue
		}
		for _, r := range *refs {
			ia, ok := r.(*ssa.IndexAddr)
			if !ok {
				continue
			}
			for _, r2 := range *ia.Referrers() {
				if st, ok := r2.(*ssa.Store); ok {
					if k, ok := constInt(st.Val); ok && k == '%' {
						return true
					}
				}
			}
		}
	}
	return false
}

// isDataFree: a value that does not depend on parameters (constants, loads of globals).
func isDataFree(v ssa.Value) bool {
	switch x := v.(type) {
	case *ssa.Const, *ssa.Global:
		return true
	case *ssa.UnOp:
		return isDataFree(x.X)
	}
	return false
}
