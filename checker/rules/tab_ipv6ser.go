package rules

// TAB-ipv6ser: which pieces the IPv6 serializer prints and where it puts "::".
//
// The serializer touches the value of a piece in two ways only: it compares it with 0 and it hands it to the hex
// formatter. Its output *structure* therefore depends on the address only through the zero / non-zero pattern of the
// eight pieces — a finite partition with 256 classes. The rule abstract-interprets the function's SSA once per class:
// a piece is the abstract value "zero" or "the non-zero piece i", loop counters and flags are ordinary constants
// (constant propagation), a formatted piece is the token <i> (or 0), strings are sequences of literals and tokens.
// What comes out is compared with the standard's serialization of the same class (first longest run of two or more
// zero pieces replaced by "::"). Any other use of a piece value, or a construct outside the small domain, leaves the
// rule undecided (reported in the inventory only: it states a necessary condition where it applies).

import (
	"fmt"
	"go/token"
	"go/types"
	"strings"

	"golang.org/x/tools/go/ssa"

	"wucheck/core"
)

type aiKind int

const (
	aiUnknown aiKind = iota
	aiInt
	aiBool
	aiStr
	aiPiece // an element of the address: idx, zero?
	aiArr   // (pointer to) the address itself
	aiPtr   // pointer to a local cell (Alloc)
	aiElem  // pointer to element idx of the address
	aiTuple
	aiBytes // a byte slice being appended to (text so far)
	aiNil
	aiErr    // an error value: b = known non-nil
	aiOpaque // a value only passed along (the URL, the parser, the input)
	aiWin    // a slice of the address: pieces [i, j)
)

type aiVal struct {
	k    aiKind
	i    int64
	b    bool
	s    string
	cell *aiCell
	tup  []aiVal
	j    int64
	unk  bool // a piece whose being zero is not known
}

type aiCell struct {
	v aiVal
}

type aiInterp struct {
	c     *Ctx
	arr   [8]aiVal // the pieces of the address (aiPiece: s = token, b = is zero)
	steps int
	why   string
	bad   string // a definite defect found on the way (not a domain limit)
	// hook models a call instead of interpreting it (ok = handled)
	hook func(cl *ssa.Function, args []aiVal) (aiVal, bool)
	cov  *aiCoverage
}

// aiCoverage: what the abstract runs executed. When every class of inputs has been run to the end without leaving the
// domain, each concrete execution follows one of the runs step by step (integers are concrete in the domain): the
// index expressions met were in range and the loops met came to an end.
type aiCoverage struct {
	blocks map[*ssa.BasicBlock]bool
	instrs map[ssa.Instruction]bool
	fns    map[*ssa.Function]bool // functions interpreted from their entry
}

func newAICoverage() *aiCoverage {
	return &aiCoverage{blocks: map[*ssa.BasicBlock]bool{}, instrs: map[ssa.Instruction]bool{}, fns: map[*ssa.Function]bool{}}
}

func (ai *aiInterp) setPattern(zero [8]bool) {
	for i := range ai.arr {
		if zero[i] {
			ai.arr[i] = aiVal{k: aiPiece, s: "0", b: true}
		} else {
			ai.arr[i] = aiVal{k: aiPiece, s: fmt.Sprintf("<%d>", i)}
		}
	}
}

func (ai *aiInterp) fail(why string) aiVal {
	if ai.why == "" {
		ai.why = why
	}
	return aiVal{}
}

type aiFrame struct {
	fn   *ssa.Function
	env  map[ssa.Value]aiVal
	prev *ssa.BasicBlock
}

func (ai *aiInterp) zero(t types.Type) aiVal {
	switch u := t.Underlying().(type) {
	case *types.Basic:
		switch {
		case u.Info()&types.IsInteger != 0:
			return aiVal{k: aiInt}
		case u.Info()&types.IsBoolean != 0:
			return aiVal{k: aiBool}
		case u.Info()&types.IsString != 0:
			return aiVal{k: aiStr}
		}
	case *types.Struct:
		if namedOf(t) == "Builder" {
			return aiVal{k: aiStr}
		}
	case *types.Slice:
		return aiVal{k: aiBytes}
	}
	return aiVal{}
}

func (ai *aiInterp) val(fr *aiFrame, v ssa.Value) aiVal {
	if x, ok := fr.env[v]; ok {
		return x
	}
	switch x := v.(type) {
	case *ssa.Const:
		if x.Value == nil {
			return aiVal{k: aiNil}
		}
		if n, ok := constInt(x); ok {
			return aiVal{k: aiInt, i: n}
		}
		if b, ok := constBool(x); ok {
			return aiVal{k: aiBool, b: b}
		}
		if s, ok := constString(x); ok {
			return aiVal{k: aiStr, s: s}
		}
	}
	return ai.fail("a value outside the domain: " + v.String())
}

func (ai *aiInterp) call(fn *ssa.Function, args []aiVal, depth int) aiVal {
	if depth > 4 || len(fn.Blocks) == 0 {
		return ai.fail("call too deep or without body: " + fn.String())
	}
	fr := &aiFrame{fn: fn, env: map[ssa.Value]aiVal{}}
	for i, p := range fn.Params {
		if i < len(args) {
			fr.env[p] = args[i]
		}
	}
	if ai.cov != nil {
		ai.cov.fns[fn] = true
	}
	return ai.exec(fr, fn.Blocks[0], depth)
}

// exec runs the frame from block b to a return.
func (ai *aiInterp) exec(fr *aiFrame, b *ssa.BasicBlock, depth int) aiVal {
	for {
		ai.steps++
		if ai.steps > 20000 {
			return ai.fail("the abstract run does not end")
		}
		if ai.cov != nil {
			ai.cov.blocks[b] = true
		}
		// phis read the values of the edge the block was entered by, simultaneously
		if fr.prev != nil {
			upd := map[ssa.Value]aiVal{}
			for _, ins := range b.Instrs {
				p, ok := ins.(*ssa.Phi)
				if !ok {
					break
				}
				for i, pr := range b.Preds {
					if pr == fr.prev {
						upd[p] = ai.val(fr, p.Edges[i])
					}
				}
			}
			for k, v := range upd {
				fr.env[k] = v
			}
		}
		for _, ins := range b.Instrs {
			if ai.why != "" || ai.bad != "" {
				return aiVal{}
			}
			if ai.cov != nil {
				switch ins.(type) {
				case *ssa.IndexAddr, *ssa.Index, *ssa.Slice, *ssa.Call:
					ai.cov.instrs[ins] = true
				}
			}
			switch x := ins.(type) {
			case *ssa.Phi, *ssa.DebugRef:
			case *ssa.Alloc:
				pt := x.Type().Underlying().(*types.Pointer).Elem()
				fr.env[x] = aiVal{k: aiPtr, cell: &aiCell{v: ai.zero(pt)}}
			case *ssa.Store:
				a := ai.val(fr, x.Addr)
				v := ai.val(fr, x.Val)
				switch {
				case a.k == aiPtr:
					a.cell.v = v
				case a.k == aiElem && v.k == aiPiece:
					ai.arr[a.i] = v
				case a.k == aiElem && v.k == aiInt && v.i == 0:
					ai.arr[a.i] = aiVal{k: aiPiece, s: "0", b: true}
				default:
					return ai.fail("a store that is neither to a local variable nor of a piece into the address")
				}
			case *ssa.IndexAddr:
				base, idx := ai.val(fr, x.X), ai.val(fr, x.Index)
				if base.k == aiPtr && base.cell.v.k == aiArr {
					base = base.cell.v // a local copy of the address
				}
				if base.k == aiWin && idx.k == aiInt {
					if idx.i < 0 || base.i+idx.i >= base.j {
						ai.bad = fmt.Sprintf("index %d of a %d-piece slice of the address is out of range", idx.i, base.j-base.i)
						return aiVal{}
					}
					fr.env[x] = aiVal{k: aiElem, i: base.i + idx.i}
					continue
				}
				if base.k != aiArr || idx.k != aiInt {
					return ai.fail("an element access that is not address[constant]")
				}
				if idx.i < 0 || idx.i > 7 {
					ai.bad = fmt.Sprintf("index %d of the address is out of range", idx.i)
					return aiVal{}
				}
				fr.env[x] = aiVal{k: aiElem, i: idx.i}
			case *ssa.Index:
				base, idx := ai.val(fr, x.X), ai.val(fr, x.Index)
				if base.k != aiArr || idx.k != aiInt || idx.i < 0 || idx.i > 7 {
					return ai.fail("an element access that is not address[constant]")
				}
				fr.env[x] = ai.arr[idx.i]
			case *ssa.UnOp:
				in := ai.val(fr, x.X)
				switch x.Op {
				case token.MUL:
					switch in.k {
					case aiElem:
						fr.env[x] = ai.arr[in.i]
					case aiPtr:
						fr.env[x] = in.cell.v
					case aiArr:
						fr.env[x] = in // *address: the array value
					default:
						return ai.fail("a load outside the domain")
					}
				case token.NOT:
					if in.k != aiBool {
						return ai.fail("negation of a non-boolean")
					}
					fr.env[x] = aiVal{k: aiBool, b: !in.b}
				case token.SUB:
					if in.k != aiInt {
						return ai.fail("negation of a non-integer")
					}
					fr.env[x] = aiVal{k: aiInt, i: -in.i}
				default:
					return ai.fail("operator " + x.Op.String())
				}
			case *ssa.Convert:
				in := ai.val(fr, x.X) // integers stay small; a piece stays a piece
				if bt, ok := x.Type().Underlying().(*types.Basic); ok && bt.Info()&types.IsString != 0 {
					switch in.k {
					case aiBytes:
						in.k = aiStr
					case aiInt:
						in = aiVal{k: aiStr, s: string(rune(in.i))}
					}
				} else if _, ok := x.Type().Underlying().(*types.Slice); ok && in.k == aiStr {
					in.k = aiBytes
				}
				fr.env[x] = in
			case *ssa.ChangeType:
				fr.env[x] = ai.val(fr, x.X)
			case *ssa.BinOp:
				fr.env[x] = ai.binop(x.Op, ai.val(fr, x.X), ai.val(fr, x.Y))
			case *ssa.Extract:
				t := ai.val(fr, x.Tuple)
				if t.k != aiTuple || x.Index >= len(t.tup) {
					return ai.fail("a result that is not a tuple")
				}
				fr.env[x] = t.tup[x.Index]
			case *ssa.Slice:
				// b[:] of a byte buffer, s[:] — only the whole value
				in := ai.val(fr, x.X)
				if x.Low != nil || x.High != nil {
					lo, hi := int64(0), int64(-1)
					if x.Low != nil {
						l := ai.val(fr, x.Low)
						if l.k != aiInt {
							return ai.fail("slice bound")
						}
						lo = l.i
					}
					if x.High != nil {
						h := ai.val(fr, x.High)
						if h.k != aiInt {
							return ai.fail("slice bound")
						}
						hi = h.i
					}
					if (in.k == aiBytes || in.k == aiStr) && lo == 0 && hi == 0 {
						fr.env[x] = aiVal{k: in.k}
						continue
					}
					if in.k == aiPtr && in.cell.v.k == aiArr {
						in = in.cell.v
					}
					if in.k == aiArr || in.k == aiWin {
						base, end := int64(0), int64(8)
						if in.k == aiWin {
							base, end = in.i, in.j
						}
						if hi < 0 {
							hi = end - base
						}
						if lo < 0 || lo > hi || base+hi > 8 {
							ai.bad = fmt.Sprintf("slice bounds [%d:%d] of the address are out of range", lo, hi)
							return aiVal{}
						}
						fr.env[x] = aiVal{k: aiWin, i: base + lo, j: base + hi}
						continue
					}
					return ai.fail("a partial slice")
				}
				if in.k == aiArr {
					in = aiVal{k: aiWin, i: 0, j: 8}
				}
				fr.env[x] = in
			case *ssa.MakeSlice:
				fr.env[x] = aiVal{k: aiBytes}
			case *ssa.Call:
				r := ai.doCall(fr, x, depth)
				fr.env[x] = r
			case *ssa.If:
				cnd := ai.val(fr, x.Cond)
				if cnd.k != aiBool {
					return ai.fail("a branch on a value the pattern does not decide")
				}
				fr.prev = b
				if cnd.b {
					b = b.Succs[0]
				} else {
					b = b.Succs[1]
				}
			case *ssa.Jump:
				fr.prev = b
				b = b.Succs[0]
			case *ssa.Return:
				switch len(x.Results) {
				case 0:
					return aiVal{k: aiNil}
				case 1:
					return ai.val(fr, x.Results[0])
				}
				var t []aiVal
				for _, r := range x.Results {
					t = append(t, ai.val(fr, r))
				}
				return aiVal{k: aiTuple, tup: t}
			default:
				return ai.fail(fmt.Sprintf("instruction %T", ins))
			}
			if _, isBr := ins.(*ssa.If); isBr {
				break
			}
			if _, isJ := ins.(*ssa.Jump); isJ {
				break
			}
		}
		if ai.why != "" || ai.bad != "" {
			return aiVal{}
		}
	}
}

func (ai *aiInterp) binop(op token.Token, l, r aiVal) aiVal {
	// a piece compared with 0
	if l.k == aiPiece || r.k == aiPiece {
		p, o := l, r
		if r.k == aiPiece {
			p, o = r, l
		}
		if o.k == aiInt && o.i == 0 && p.unk {
			return ai.fail("a branch on the value of a piece that is not known")
		}
		if o.k == aiInt && o.i == 0 {
			switch op {
			case token.EQL:
				return aiVal{k: aiBool, b: p.b}
			case token.NEQ:
				return aiVal{k: aiBool, b: !p.b}
			case token.GTR:
				if l.k == aiPiece {
					return aiVal{k: aiBool, b: !p.b} // unsigned piece > 0
				}
			case token.LSS:
				if r.k == aiPiece {
					return aiVal{k: aiBool, b: !p.b} // 0 < piece
				}
			}
		}
		return ai.fail("a piece is used other than by comparison with 0 or formatting")
	}
	switch {
	case l.k == aiInt && r.k == aiInt:
		switch op {
		case token.ADD:
			return aiVal{k: aiInt, i: l.i + r.i}
		case token.SUB:
			return aiVal{k: aiInt, i: l.i - r.i}
		case token.MUL:
			return aiVal{k: aiInt, i: l.i * r.i}
		case token.EQL:
			return aiVal{k: aiBool, b: l.i == r.i}
		case token.NEQ:
			return aiVal{k: aiBool, b: l.i != r.i}
		case token.LSS:
			return aiVal{k: aiBool, b: l.i < r.i}
		case token.LEQ:
			return aiVal{k: aiBool, b: l.i <= r.i}
		case token.GTR:
			return aiVal{k: aiBool, b: l.i > r.i}
		case token.GEQ:
			return aiVal{k: aiBool, b: l.i >= r.i}
		}
	case l.k == aiBool && r.k == aiBool:
		switch op {
		case token.EQL:
			return aiVal{k: aiBool, b: l.b == r.b}
		case token.NEQ:
			return aiVal{k: aiBool, b: l.b != r.b}
		case token.AND:
			return aiVal{k: aiBool, b: l.b && r.b}
		case token.OR:
			return aiVal{k: aiBool, b: l.b || r.b}
		}
	case (l.k == aiErr || l.k == aiNil) && (r.k == aiErr || r.k == aiNil) && (l.k == aiNil || r.k == aiNil):
		nonNil := (l.k == aiErr && l.b) || (r.k == aiErr && r.b)
		if (l.k == aiErr && !l.b) || (r.k == aiErr && !r.b) {
			return ai.fail("an error value not known to be nil or not")
		}
		switch op {
		case token.EQL:
			return aiVal{k: aiBool, b: !nonNil}
		case token.NEQ:
			return aiVal{k: aiBool, b: nonNil}
		}
	case l.k == aiStr && r.k == aiStr:
		switch op {
		case token.ADD:
			return aiVal{k: aiStr, s: l.s + r.s}
		case token.EQL:
			return aiVal{k: aiBool, b: l.s == r.s}
		case token.NEQ:
			return aiVal{k: aiBool, b: l.s != r.s}
		}
	}
	return ai.fail("operator " + op.String() + " outside the domain")
}

func (ai *aiInterp) pieceText(p aiVal) string {
	return p.s
}

func (ai *aiInterp) doCall(fr *aiFrame, call *ssa.Call, depth int) aiVal {
	com := call.Common()
	if bi, ok := com.Value.(*ssa.Builtin); ok {
		switch bi.Name() {
		case "len":
			a := ai.val(fr, com.Args[0])
			if a.k == aiArr {
				return aiVal{k: aiInt, i: 8}
			}
			if a.k == aiWin {
				return aiVal{k: aiInt, i: a.j - a.i}
			}
			return ai.fail("len of a value outside the domain")
		case "copy":
			d, sr := ai.val(fr, com.Args[0]), ai.val(fr, com.Args[1])
			if d.k != aiWin || sr.k != aiWin {
				return ai.fail("copy of values outside the domain")
			}
			n := d.j - d.i
			if sr.j-sr.i < n {
				n = sr.j - sr.i
			}
			tmp := make([]aiVal, n)
			copy(tmp, ai.arr[sr.i:sr.i+n])
			copy(ai.arr[d.i:d.i+n], tmp)
			return aiVal{k: aiInt, i: n}
		case "append":
			// append(buf, bytes…) with constant bytes / append(buf, s...)
			a := ai.val(fr, com.Args[0])
			if a.k != aiBytes && a.k != aiNil {
				return ai.fail("append to a value outside the domain")
			}
			extra := ""
			if len(com.Args) == 2 {
				switch src := com.Args[1].(type) {
				case *ssa.Slice:
					// varargs array new [n]byte with constant stores
					if al, ok := src.X.(*ssa.Alloc); ok {
						bs := map[int64]byte{}
						for _, r := range *al.Referrers() {
							if ia, ok := r.(*ssa.IndexAddr); ok {
								idx, _ := constInt(ia.Index)
								for _, r2 := range *ia.Referrers() {
									if st, ok := r2.(*ssa.Store); ok {
										k, ok := constInt(st.Val)
										if !ok {
											return ai.fail("a non-constant byte appended")
										}
										bs[idx] = byte(k)
									}
								}
							}
						}
						for i := int64(0); i < int64(len(bs)); i++ {
							extra += string(rune(bs[i]))
						}
					} else {
						v := ai.val(fr, src)
						if v.k != aiStr && v.k != aiBytes {
							return ai.fail("append of a value outside the domain")
						}
						extra = v.s
					}
				default:
					v := ai.val(fr, com.Args[1])
					if v.k != aiStr && v.k != aiBytes {
						return ai.fail("append of a value outside the domain")
					}
					extra = v.s
				}
			}
			return aiVal{k: aiBytes, s: a.s + extra}
		}
		return ai.fail("builtin " + bi.Name())
	}
	cl := com.StaticCallee()
	if cl == nil {
		return ai.fail("a dynamic call")
	}
	var args []aiVal
	for _, a := range com.Args {
		args = append(args, ai.val(fr, a))
		if ai.why != "" {
			return aiVal{}
		}
	}
	if ai.hook != nil {
		if r, ok := ai.hook(cl, args); ok {
			return r
		}
	}
	switch cl.String() {
	case "strconv.FormatUint", "strconv.FormatInt":
		if args[0].k == aiPiece && args[1].k == aiInt {
			if args[1].i != 16 {
				ai.bad = fmt.Sprintf("a piece is formatted in base %d, the standard prints lower-case hexadecimal", args[1].i)
			}
			return aiVal{k: aiStr, s: ai.pieceText(args[0])}
		}
		return ai.fail("a piece formatted in a base that is not a constant")
	case "strconv.AppendUint", "strconv.AppendInt":
		if (args[0].k == aiBytes || args[0].k == aiNil) && args[1].k == aiPiece && args[2].k == aiInt {
			if args[2].i != 16 {
				ai.bad = fmt.Sprintf("a piece is formatted in base %d, the standard prints lower-case hexadecimal", args[2].i)
			}
			return aiVal{k: aiBytes, s: args[0].s + ai.pieceText(args[1])}
		}
		return ai.fail("a piece formatted in a base that is not a constant")
	case "(*strings.Builder).WriteString", "(*strings.Builder).WriteByte", "(*strings.Builder).WriteRune":
		if args[0].k != aiPtr {
			return ai.fail("a builder that is not a local variable")
		}
		switch args[1].k {
		case aiStr:
			args[0].cell.v.s += args[1].s
		case aiInt:
			args[0].cell.v.s += string(rune(args[1].i))
		default:
			return ai.fail("a write outside the domain")
		}
		return aiVal{k: aiTuple, tup: []aiVal{{k: aiInt}, {k: aiNil}}}
	case "(*strings.Builder).String":
		if args[0].k != aiPtr {
			return ai.fail("a builder that is not a local variable")
		}
		return aiVal{k: aiStr, s: args[0].cell.v.s}
	case "(*strings.Builder).Grow", "(*strings.Builder).Reset":
		if cl.Name() == "Reset" && args[0].k == aiPtr {
			args[0].cell.v.s = ""
		}
		return aiVal{k: aiNil}
	case "(*strings.Builder).Len":
		return ai.fail("the length of the text so far is not tracked")
	}
	if ai.c.P.InModule(cl) {
		return ai.call(cl, args, depth+1)
	}
	return ai.fail("call of " + cl.String())
}

// standardIPv6 renders the class the way the standard's serializer does.
func standardIPv6(zero [8]bool) string {
	compress, best := -1, 1
	for i := 0; i < 8; {
		if !zero[i] {
			i++
			continue
		}
		j := i
		for j < 8 && zero[j] {
			j++
		}
		if j-i > best {
			compress, best = i, j-i
		}
		i = j
	}
	var sb strings.Builder
	ignore0 := false
	for i := 0; i < 8; i++ {
		if ignore0 && zero[i] {
			continue
		} else if ignore0 {
			ignore0 = false
		}
		if compress == i {
			if i == 0 {
				sb.WriteString("::")
			} else {
				sb.WriteString(":")
			}
			ignore0 = true
			continue
		}
		if zero[i] {
			sb.WriteString("0")
		} else {
			fmt.Fprintf(&sb, "<%d>", i)
		}
		if i != 7 {
			sb.WriteString(":")
		}
	}
	return sb.String()
}

func init() {
	register(&Rule{
		Name:  "TAB-ipv6ser",
		Doc:   "the IPv6 serializer prints, for each of the 256 zero / non-zero patterns of the eight pieces, the pieces and separators the standard prints: the first longest run of two or more zero pieces becomes '::', every other piece is printed (abstract interpretation of the serializer's SSA per pattern; sound because the serializer uses a piece's value only to compare it with 0 and to format it — any other use leaves the rule undecided)",
		Props: []string{"C08", "C03", "C01"},
		Floor: 1,
		Run: func(c *Ctx, s *core.Sink) {
			r := ipv6SerAnalysis(c)
			if r == nil {
				return
			}
			f, key, pos, bad, undec, n := r.f, r.key, r.pos, r.bad, r.undec, r.n
			// a serializer that hands the address to the standard library's IP types prints RFC 5952 text, which is the
			// standard's except for IPv4-mapped addresses: netip / net print ::ffff:1.2.3.4 with a dotted tail
			if f != nil {
				for _, g := range moduleClosure(c, f, 1) {
					for _, b := range g.Blocks {
						for _, ins := range b.Instrs {
							ci, ok := ins.(ssa.CallInstruction)
							if !ok {
								continue
							}
							cl := ci.Common().StaticCallee()
							if cl == nil || cl.Pkg == nil {
								continue
							}
							if pp := cl.Pkg.Pkg.Path(); (pp == "net/netip" || pp == "net") && (cl.Name() == "String" || cl.Name() == "AppendTo" || cl.Name() == "MarshalText" || cl.Name() == "StringExpanded") {
								bad = "the serializer prints through " + cl.String() + ": the library writes an IPv4-mapped address with a dotted tail ([::ffff:1.2.3.4]) where the standard writes eight hexadecimal pieces ([::ffff:102:304])"
								undec = ""
								pos = c.P.Pos(ins.Pos())
							}
						}
					}
				}
			}
			switch {
			case undec != "":
				s.Obs = append(s.Obs, core.Obligation{Rule: s.Rule, Construct: key, Pos: pos, Verdict: core.Discharged, Fact: "inventory: not decided (" + undec + ")", Props: s.Props, Trivial: true})
			case bad != "":
				s.Bad(key, pos, bad)
			default:
				s.OK(key, pos, fmt.Sprintf("%d/256 zero patterns: pieces, separators and the place of '::' are the standard's", n))
			}
		},
	})
}

type aiOutcome struct {
	f          *ssa.Function
	key, pos   string
	bad, undec string
	n          int
	cov        *aiCoverage
	start      *ssa.BasicBlock // for an analysis that starts in the middle of f
	note       string
}

// ipv6SerAnalysis runs the serializer on the 256 zero / non-zero patterns (memoised).
func ipv6SerAnalysis(c *Ctx) *aiOutcome {
	return c.Memo("ipv6SerAnalysis", func() interface{} {
		var out *aiOutcome
		func() {
			f := c.P.Func("url", "IPv6Addr", "String")
			if f == nil || len(f.Params) != 1 {
				return
			}
			cov := newAICoverage()
			key := "ipv6ser/" + core.FuncName(f)
			pos := c.P.Pos(f.Pos())
			bad, undec := "", ""
			n := 0
			for m := 0; m < 256 && bad == "" && undec == ""; m++ {
				var pat [8]bool
				for i := 0; i < 8; i++ {
					pat[i] = m&(1<<uint(i)) != 0
				}
				ai := &aiInterp{c: c, cov: cov}
				ai.setPattern(pat)
				out := ai.call(f, []aiVal{{k: aiArr}}, 0)
				if ai.bad != "" {
					bad = ai.bad
					break
				}
				if ai.why != "" {
					undec = ai.why
					break
				}
				if out.k != aiStr {
					undec = "the result is not a text"
					break
				}
				if ai.bad != "" {
					bad = ai.bad
					break
				}
				n++
				if want := standardIPv6(pat); out.s != want {
					show := func(s string) string {
						for i := 0; i < 8; i++ {
							s = strings.ReplaceAll(s, fmt.Sprintf("<%d>", i), string(rune('a'+i)))
						}
						return s
					}
					var pieces []string
					for i := 0; i < 8; i++ {
						if pat[i] {
							pieces = append(pieces, "0")
						} else {
							pieces = append(pieces, string(rune('a'+i)))
						}
					}
					bad = fmt.Sprintf("the address %s (letters: non-zero pieces) is serialized as [%s], the standard gives [%s]", strings.Join(pieces, ":"), show(out.s), show(want))
				}
			}

			out = &aiOutcome{f: f, key: key, pos: pos, bad: bad, undec: undec, n: n, cov: cov}
		}()
		return out
	}).(*aiOutcome)
}
