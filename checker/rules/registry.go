// Package rules holds the repository-specific static rules of wucheck, grouped by engine.
package rules

import (
	"fmt"
	"runtime/debug"
	"sort"
	"strings"

	"wucheck/core"
)

// Ctx is what a rule sees.
type Ctx struct {
	P        *core.Prog
	Tier     string
	VerifDir string
	cache    map[string]interface{}
	// Deep enables the thorough-tier settings (finer SM contexts, deeper access paths).
	Deep bool
}

// NewCtx makes a rule context.
func NewCtx(p *core.Prog, tier, verifDir string) *Ctx {
	return &Ctx{P: p, Tier: tier, VerifDir: verifDir, cache: map[string]interface{}{}, Deep: tier == "thorough"}
}

// Memo computes a shared analysis result once per run.
func (c *Ctx) Memo(key string, f func() interface{}) interface{} {
	if v, ok := c.cache[key]; ok {
		return v
	}
	v := f()
	c.cache[key] = v
	return v
}

// Rule is one repository-specific static rule.
type Rule struct {
	Name      string
	Doc       string         // the structural fact required
	Props     []string       // properties some instance of this rule serves
	Floor     int            // minimum number of instances confirmed by hand on the pinned tree
	PropFloor map[string]int // minimum number of instances per property
	Run       func(c *Ctx, s *core.Sink)
}

var registry []*Rule

func register(r *Rule) { registry = append(registry, r) }

// All returns the registered rules sorted by name.
func All() []*Rule {
	out := append([]*Rule(nil), registry...)
	sort.Slice(out, func(i, j int) bool { return out[i].Name < out[j].Name })
	return out
}

// For returns the rules serving a property.
func For(prop string) []*Rule {
	var out []*Rule
	for _, r := range All() {
		for _, p := range r.Props {
			if p == prop {
				out = append(out, r)
				break
			}
		}
	}
	return out
}

// RunRule runs one rule, converting a panic into an internal failure.
func RunRule(c *Ctx, r *Rule) (obs []core.Obligation, internal string) {
	s := &core.Sink{Rule: r.Name, Props: r.Props}
	defer func() {
		if e := recover(); e != nil {
			st := strings.Split(string(debug.Stack()), "\n")
			if len(st) > 14 {
				st = st[6:14]
			}
			internal = fmt.Sprintf("rule %s panicked: %v [%s]", r.Name, e, strings.Join(st, " | "))
			obs = s.Obs
		}
	}()
	curCtx = c
	r.Run(c, s)
	return s.Obs, ""
}

// PropertyDoc describes what the rules of a property decide and what they do not.
type PropertyDoc struct {
	ID          string
	Explanation string
	Decides     []string
	NotDecided  []string
	Assumptions []string
}

var propertyDocs = map[string]*PropertyDoc{}

func describe(d *PropertyDoc) { propertyDocs[d.ID] = d }

// Doc returns the documentation of a property.
func Doc(id string) *PropertyDoc { return propertyDocs[id] }

// Properties lists the property ids that have at least one rule.
func Properties() []string {
	m := map[string]bool{}
	for _, r := range registry {
		for _, p := range r.Props {
			m[p] = true
		}
	}
	var out []string
	for p := range m {
		out = append(out, p)
	}
	sort.Strings(out)
	return out
}

func sortStrings(s []string) { sort.Strings(s) }
