package rules

// TAB-ipv6place: where the IPv6 parser puts the pieces once the text has been read.
//
// After its reading loop the address parser holds three things: the pieces read so far (address[0..pieceIdx)), the
// number of pieces (pieceIdx ∈ 0..8) and the place of "::" (compress ∈ 1..pieceIdx, or the "none" sentinel). What
// follows — too-few-pieces failure, moving the pieces behind "::" to the end, handing the address to the serializer
// between brackets — never looks at the text again and never looks *into* a piece: it only moves pieces about. Its
// behaviour is therefore a function of the finite set of (pieceIdx, compress) states, with the pieces as opaque
// tokens. The rule abstract-interprets that tail once per state and compares the final arrangement with the
// standard's (pieces before "::" stay, pieces after it end at index 7, zeros in between; without "::" exactly eight
// pieces or failure).
//
// The tail is found by its meaning: it starts at the topmost block, on the dominator chain of the success return,
// from which no read of the input cursor is reachable. Its state variables are recognised by the source variable
// behind the SSA value (phi / alloc comment: pieceIdx, compress — reference names, see name alignment); the "none"
// sentinel is the one constant among the definitions of compress. Anything else live into the tail, a branch on a
// piece's value, an unknown callee: not decided (inventory only).

import (
	"fmt"
	"go/types"
	"sort"
	"strings"

	"golang.org/x/tools/go/ssa"

	"wucheck/core"
)

// readsCursor: the block calls a method of, or reads a field of, the input cursor type.
func blockReadsCursor(b *ssa.BasicBlock) bool {
	for _, ins := range b.Instrs {
		switch x := ins.(type) {
		case *ssa.Call:
			if cl := x.Common().StaticCallee(); cl != nil && cl.Signature.Recv() != nil && namedOf(cl.Signature.Recv().Type()) == "inputString" {
				return true
			}
		case *ssa.FieldAddr:
			if namedOf(x.X.Type()) == "inputString" {
				return true
			}
		}
	}
	return false
}

func varNameOf(v ssa.Value) string {
	switch x := v.(type) {
	case *ssa.Phi:
		return x.Comment
	case *ssa.Alloc:
		return x.Comment
	}
	return ""
}

// constDefs collects the constants among the (phi-transitive) definitions of v.
func constDefs(v ssa.Value, seen map[ssa.Value]bool, out map[int64]bool) {
	if seen[v] {
		return
	}
	seen[v] = true
	switch x := v.(type) {
	case *ssa.Const:
		if n, ok := constInt(x); ok {
			out[n] = true
		}
	case *ssa.Phi:
		for _, e := range x.Edges {
			constDefs(e, seen, out)
		}
	}
}

// phiDefs collects the non-phi values that may flow into v through phis.
func phiDefs(v ssa.Value, out map[ssa.Value]bool, seen map[ssa.Value]bool) {
	if seen[v] {
		return
	}
	seen[v] = true
	if p, ok := v.(*ssa.Phi); ok {
		for _, e := range p.Edges {
			phiDefs(e, out, seen)
		}
		return
	}
	out[v] = true
}

func init() {
	register(&Rule{
		Name:  "TAB-ipv6place",
		Doc:   "after the IPv6 parser has read the text, for every state (number of pieces 0..8, place of '::' or none) the rest of the function fails exactly when there is no '::' and fewer than eight pieces, and otherwise hands the serializer, between brackets, the address with the pieces before '::' in place, the pieces after it moved to the end and zeros in between (abstract interpretation of the tail's SSA per state, pieces as opaque tokens; sound because the tail never reads the text nor looks into a piece — otherwise not decided)",
		Props: []string{"C08", "C01"},
		Floor: 1,
		Run: func(c *Ctx, s *core.Sink) {
			r := ipv6PlaceAnalysis(c)
			if r == nil {
				return
			}
			switch {
			case r.undec != "":
				s.Obs = append(s.Obs, core.Obligation{Rule: s.Rule, Construct: r.key, Pos: r.pos, Verdict: core.Discharged, Fact: "inventory: not decided (" + r.undec + ")", Props: s.Props, Trivial: true})
			case r.bad != "":
				s.Bad(r.key, r.pos, r.bad)
			default:
				s.OK(r.key, r.pos, fmt.Sprintf("%d states (pieces read × place of '::'): failure, piece placement and brackets are the standard's; %s", r.n, r.note))
			}
		},
	})
}

// ipv6PlaceAnalysis interprets the tail of the IPv6 parser for its 45 end states (memoised).
func ipv6PlaceAnalysis(c *Ctx) *aiOutcome {
	return c.Memo("ipv6PlaceAnalysis", func() interface{} {
		return func() *aiOutcome {
			f := c.P.Func("url", "parser", "parseIPv6")
			if f == nil || len(f.Blocks) == 0 {
				return nil
			}
			out := &aiOutcome{f: f, cov: newAICoverage()}
			key := "ipv6place/" + core.FuncName(f)
			pos := c.P.Pos(f.Pos())
			out.key, out.pos = key, pos
			undecided := func(why string) {
				if out.undec == "" {
					out.undec = why
				}
			}
			m := buildErrModel(c)
			ser := c.P.Func("url", "IPv6Addr", "String")

			// blocks from which a cursor read is reachable
			reads := map[*ssa.BasicBlock]bool{}
			for changed := true; changed; {
				changed = false
				for _, b := range f.Blocks {
					if reads[b] {
						continue
					}
					r := blockReadsCursor(b)
					for _, sc := range b.Succs {
						r = r || reads[sc]
					}
					if r {
						reads[b] = true
						changed = true
					}
				}
			}
			// the success return: a return whose error result is the nil constant
			var succs []*ssa.BasicBlock
			for _, b := range f.Blocks {
				if r, ok := b.Instrs[len(b.Instrs)-1].(*ssa.Return); ok && len(r.Results) == 2 {
					if k, ok := r.Results[1].(*ssa.Const); ok && k.Value == nil {
						succs = append(succs, b)
					}
				}
			}
			if len(succs) == 0 {
				undecided("no success return")
				return out
			}
			// their nearest common dominator
			start := succs[0]
			for _, o := range succs[1:] {
				for !start.Dominates(o) {
					start = start.Idom()
				}
			}
			if reads[start] {
				undecided("the input is still read where the success returns meet")
				return out
			}
			for start.Idom() != nil && !reads[start.Idom()] {
				start = start.Idom()
			}
			// region reachable from start
			region := map[*ssa.BasicBlock]bool{}
			var walk func(b *ssa.BasicBlock)
			walk = func(b *ssa.BasicBlock) {
				if region[b] {
					return
				}
				region[b] = true
				for _, sc := range b.Succs {
					walk(sc)
				}
			}
			walk(start)
			for _, p := range start.Preds {
				if region[p] {
					undecided("the tail is inside a loop")
					return out
				}
			}
			// live-in values
			livein := map[ssa.Value]bool{}
			for b := range region {
				for _, ins := range b.Instrs {
					if p, ok := ins.(*ssa.Phi); ok && b == start {
						livein[p] = true
						continue
					}
					for _, op := range ins.Operands(nil) {
						if *op == nil {
							continue
						}
						switch v := (*op).(type) {
						case *ssa.Const, *ssa.Function, *ssa.Global, *ssa.Builtin:
						case *ssa.Parameter, *ssa.FreeVar:
							livein[v] = true
						default:
							if in, ok := v.(ssa.Instruction); ok && !region[in.Block()] {
								livein[v] = true
							}
						}
					}
				}
			}
			var vPiece, vCompress, vAddr, vFlag ssa.Value
			var opaque []ssa.Value
			var names []string
			for v := range livein {
				n := varNameOf(v)
				isInt := false
				t := v.Type()
				if al, ok := v.(*ssa.Alloc); ok {
					t = al.Type().Underlying().(*types.Pointer).Elem()
				}
				if bt, ok := t.Underlying().(*types.Basic); ok && bt.Info()&types.IsInteger != 0 {
					isInt = true
				}
				switch {
				case n == "pieceIdx" && isInt && vPiece == nil:
					vPiece = v
				case n == "compress" && isInt && vCompress == nil:
					vCompress = v
				case namedOf(v.Type()) == "IPv6Addr" && vAddr == nil:
					vAddr = v
				default:
					switch v.(type) {
					case *ssa.Parameter:
						opaque = append(opaque, v)
					default:
						// a boolean that is false or true by assignment only: "a '::' has been seen" kept beside its place
						if bt, ok := t.Underlying().(*types.Basic); ok && bt.Kind() == types.Bool && vFlag == nil {
							if _, isPhi := v.(*ssa.Phi); isPhi {
								vFlag = v
								continue
							}
						}
						names = append(names, v.Name()+" "+n)
					}
				}
			}
			if len(names) > 0 {
				sort.Strings(names)
				undecided("other values live into the tail: " + strings.Join(names, ", "))
				return out
			}
			if vPiece == nil || vCompress == nil || vAddr == nil {
				undecided("the tail's state is not (address, pieceIdx, compress)")
				return out
			}
			if _, ok := vCompress.(*ssa.Alloc); ok {
				undecided("compress lives in memory")
				return out
			}
			if _, ok := vPiece.(*ssa.Alloc); ok {
				undecided("pieceIdx lives in memory")
				return out
			}
			ks := map[int64]bool{}
			constDefs(vCompress, map[ssa.Value]bool{}, ks)
			if len(ks) != 1 {
				undecided("the 'no compression' value of compress is not one constant")
				return out
			}
			var none int64
			for k := range ks {
				none = k
			}
			if vFlag == nil && none >= 1 && none <= 8 {
				undecided("the 'no compression' value of compress is a possible place")
				return out
			}
			if vFlag != nil {
				// the flag must say exactly "compress has been set": edge by edge, the flag takes true where compress takes
				// a piece count and false where compress keeps its initial constant
				var paired func(vc, vf ssa.Value, depth int) bool
				paired = func(vc, vf ssa.Value, depth int) bool {
					if depth > 6 {
						return false
					}
					if b, isK := constBool(vf); isK {
						_, cIsConst := vc.(*ssa.Const)
						return b != cIsConst
					}
					pc, ok1 := vc.(*ssa.Phi)
					pf, ok2 := vf.(*ssa.Phi)
					if !ok1 || !ok2 || pc.Block() != pf.Block() {
						return false
					}
					if depth > 0 && (pc == vCompress || pf == vFlag) {
						return pc == vCompress && pf == vFlag
					}
					for i := range pc.Edges {
						ec, ef := pc.Edges[i], pf.Edges[i]
						if ec == ssa.Value(pc) && ef == ssa.Value(pf) {
							continue
						}
						if !paired(ec, ef, depth+1) {
							return false
						}
					}
					return true
				}
				if !paired(vCompress, vFlag, 0) {
					undecided("a boolean lives into the tail that is not 'compress has been set'")
					return out
				}
			}

			// the meaning of compress the states below assume: wherever it is set, it is set to the number of pieces
			// (the same value pieceIdx gets)
			dc, dp := map[ssa.Value]bool{}, map[ssa.Value]bool{}
			phiDefs(vCompress, dc, map[ssa.Value]bool{})
			phiDefs(vPiece, dp, map[ssa.Value]bool{})
			for v := range dc {
				if _, isConst := v.(*ssa.Const); isConst {
					continue
				}
				if !dp[v] {
					undecided("compress is set to something else than the current number of pieces")
					return out
				}
			}

			states, bad := 0, ""
			for p := int64(0); p <= 8 && bad == ""; p++ {
				type cstate struct {
					c   int64
					has bool
				}
				cs := []cstate{{none, false}}
				for k := int64(1); k <= p; k++ {
					cs = append(cs, cstate{k, true})
				}
				for _, cst := range cs {
					cp, has := cst.c, cst.has
					ai := &aiInterp{c: c, cov: out.cov}
					for i := range ai.arr {
						if int64(i) < p {
							ai.arr[i] = aiVal{k: aiPiece, s: string(rune('a' + i)), unk: true}
						} else {
							ai.arr[i] = aiVal{k: aiPiece, s: "0", b: true}
						}
					}
					ai.hook = func(cl *ssa.Function, args []aiVal) (aiVal, bool) {
						if h := m.Handlers[cl]; h != nil {
							if h.FailIdx < 0 && h.FailConst {
								// a wrapper for failures only; its answer may stand beside zero values
								if h.ErrResult == 0 && cl.Signature.Results().Len() == 1 {
									return aiVal{k: aiErr, b: true}, true
								}
								tup := aiVal{k: aiTuple}
								for i := 0; i < cl.Signature.Results().Len(); i++ {
									if i == h.ErrResult {
										tup.tup = append(tup.tup, aiVal{k: aiErr, b: true})
									} else {
										tup.tup = append(tup.tup, aiVal{k: aiStr, s: ""})
									}
								}
								return tup, true
							}
							if h.FailIdx >= 0 && h.FailIdx < len(args) && args[h.FailIdx].k == aiBool {
								if args[h.FailIdx].b {
									return aiVal{k: aiErr, b: true}, true
								}
								return ai.fail("a non-fatal validation error in the tail (its result depends on the configuration)"), true
							}
							return ai.fail("a handler call whose failure flag is not a constant"), true
						}
						if cl == ser && len(args) == 1 && args[0].k == aiArr {
							var ts []string
							for _, e := range ai.arr {
								ts = append(ts, e.s)
							}
							return aiVal{k: aiStr, s: "{" + strings.Join(ts, ":") + "}"}, true
						}
						return aiVal{}, false
					}
					fr := &aiFrame{fn: f, env: map[ssa.Value]aiVal{}}
					fr.env[vPiece] = aiVal{k: aiInt, i: p}
					fr.env[vCompress] = aiVal{k: aiInt, i: cp}
					if vFlag != nil {
						fr.env[vFlag] = aiVal{k: aiBool, b: has}
					}
					fr.env[vAddr] = aiVal{k: aiArr}
					for _, o := range opaque {
						fr.env[o] = aiVal{k: aiOpaque}
					}
					res := ai.exec(fr, start, 0)
					if ai.bad != "" {
						bad = fmt.Sprintf("%d pieces read, compress = %d: %s", p, cp, ai.bad)
						break
					}
					if ai.why != "" {
						undecided(ai.why)
						return out
					}
					if res.k != aiTuple || len(res.tup) != 2 {
						undecided("the result is not (text, error)")
						return out
					}
					states++
					failed := res.tup[1].k == aiErr && res.tup[1].b
					state := fmt.Sprintf("%d pieces read, ", p)
					if !has {
						state += "no '::'"
					} else {
						state += fmt.Sprintf("'::' before piece %d", cp)
					}
					// the standard
					var want []string
					wantFail := false
					if !has {
						wantFail = p != 8
						for i := 0; i < 8; i++ {
							want = append(want, string(rune('a'+i)))
						}
					} else {
						// pieces a[0..cp) stay, a[cp..p) end at 7
						want = make([]string, 8)
						for i := range want {
							want[i] = "0"
						}
						for i := int64(0); i < cp && i < 8; i++ {
							want[i] = string(rune('a' + i))
						}
						for i := cp; i < p; i++ {
							want[8-(p-i)] = string(rune('a' + i))
						}
					}
					switch {
					case wantFail && !failed:
						bad = state + ": accepted, the standard fails (too few pieces)"
					case !wantFail && failed:
						bad = state + ": rejected, the standard accepts"
					case !wantFail:
						w := "[{" + strings.Join(want, ":") + "}]"
						if res.tup[0].k != aiStr || res.tup[0].s != w {
							bad = fmt.Sprintf("%s (pieces a, b, …): the host is built from %s, the standard's address is %s", state, res.tup[0].s, w)
						}
					}
					if bad != "" {
						break
					}
				}
			}
			out.bad, out.n, out.start = bad, states, start
			out.note = fmt.Sprintf("'none' is %d", none)
			return out
		}()
	}).(*aiOutcome)
}

// aiCovered: the instruction (an index or slice expression) or the block (a loop header) was executed by an abstract
// interpretation that ran every class of its inputs to the end, and cannot be reached in any other way: it lies in the
// function interpreted from its entry for all inputs (the serializer), in the part of the IPv6 parser behind the
// analysed start block, or in an unexported helper all of whose call sites were themselves executed.
func aiCovered(c *Ctx, ins ssa.Instruction, blk *ssa.BasicBlock) (bool, string) {
	if ins != nil {
		blk = ins.Block()
	}
	if blk == nil {
		return false, ""
	}
	fn := blk.Parent()
	try := func(r *aiOutcome, what string) (bool, string) {
		if r == nil || r.undec != "" || r.bad != "" || r.cov == nil || r.n == 0 {
			return false, ""
		}
		if ins != nil && !r.cov.instrs[ins] {
			return false, ""
		}
		if !r.cov.blocks[blk] {
			return false, ""
		}
		switch {
		case fn == r.f && r.start == nil:
			// interpreted from its entry, for every input
		case fn == r.f:
			if !r.start.Dominates(blk) {
				return false, ""
			}
		default:
			// a helper: unexported, never used as a value, and called only from executed call sites
			if !r.cov.fns[fn] || fn.Object() == nil || fn.Object().Exported() {
				return false, ""
			}
			ix := sitesOf(c)
			if ix.taken[fn] || len(ix.sites[fn]) == 0 {
				return false, ""
			}
			for _, cs := range ix.sites[fn] {
				if !r.cov.instrs[cs.Call] {
					return false, ""
				}
				if cs.Fn == r.f && r.start != nil && !r.start.Dominates(cs.Call.Block()) {
					return false, ""
				}
			}
		}
		return true, what
	}
	if ok, w := try(ipv6SerAnalysis(c), "executed by the abstract interpretation of the IPv6 serializer, which ran all 256 classes of addresses to the end (TAB-ipv6ser)"); ok {
		return true, w
	}
	if ok, w := try(ipv6PlaceAnalysis(c), "executed by the abstract interpretation of the IPv6 parser's tail, which ran all 45 end states to the end (TAB-ipv6place; assumes its entry invariants)"); ok {
		return true, w
	}
	return false, ""
}
