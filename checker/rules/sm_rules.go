package rules

import (
	"encoding/json"
	"fmt"
	"os"
	"path/filepath"
	"sort"
	"strings"

	"golang.org/x/tools/go/ssa"

	"wucheck/core"
)

var primaryFields = []string{"scheme", "username", "password", "host", "port", "path", "query", "fragment"}

func readSpec(c *Ctx, name string, v interface{}) {
	b, err := os.ReadFile(filepath.Join(c.VerifDir, "spec", name))
	if err != nil {
		panic("spec/" + name + ": " + err.Error())
	}
	if err := json.Unmarshal(b, v); err != nil {
		panic("spec/" + name + ": " + err.Error())
	}
}

func smProblems(m *smModel, s *core.Sink, props ...string) bool {
	for _, p := range m.Problems {
		s.Unknown("anchors", "-", p, props...)
	}
	return m.An == nil
}

// dispOf renders the disposition map of a path over the primary fields.
func dispOf(p *smPath, skipFragment bool) map[string]string {
	out := map[string]string{}
	for _, f := range primaryFields {
		if f == "fragment" && skipFragment {
			continue
		}
		d := p.Disposition(f)
		if d == "untouched" {
			continue
		}
		if d == "value" && f == "scheme" {
			// the literal matters for the scheme
			for _, e := range p.Effects {
				if e.Field == f && e.Kind == "value" {
					d = "value(" + e.Detail + ")"
				}
			}
		}
		out[f] = d
	}
	return out
}

func dispString(d map[string]string) string {
	var ks []string
	for k := range d {
		ks = append(ks, k)
	}
	sort.Strings(ks)
	var parts []string
	for _, k := range ks {
		parts = append(parts, k+"="+d[k])
	}
	return "{" + strings.Join(parts, " ") + "}"
}

func sameDisp(a, b map[string]string) bool {
	if len(a) != len(b) {
		return false
	}
	for k, v := range a {
		if b[k] != v {
			return false
		}
	}
	return true
}

func nextKey(p *smPath) string {
	if p.Next == "" {
		return "stay"
	}
	return p.Next
}

// specialSchemeAlias: (*Url).IsSpecialScheme() is `return u.isSpecialScheme(u.scheme)`.
func specialSchemeAlias(c *Ctx) bool {
	return c.Memo("specialSchemeAlias", func() interface{} {
		f := c.P.Func("url", "Url", "IsSpecialScheme")
		if f == nil || len(f.Blocks) != 1 {
			return false
		}
		ret, ok := f.Blocks[0].Instrs[len(f.Blocks[0].Instrs)-1].(*ssa.Return)
		if !ok || len(ret.Results) != 1 {
			return false
		}
		call, ok := ret.Results[0].(*ssa.Call)
		if !ok {
			return false
		}
		cl := call.Common().StaticCallee()
		if cl == nil || cl.Name() != "isSpecialScheme" || len(call.Common().Args) != 2 || call.Common().Args[0] != ssa.Value(f.Params[0]) {
			return false
		}
		x, ok := loadOfField(call.Common().Args[1], "Url:scheme")
		return ok && x == ssa.Value(f.Params[0])
	}).(bool)
}

func init() {
	register(&Rule{
		Name:  "SM-inherit",
		Doc:   "on every path of every state clause the net disposition of each primary component (inherited from base / null / fresh / untouched; last store wins) equals the standard's table; no other state copies from the base",
		Props: []string{"C01", "C06"},
		Floor: 30,
		Run: func(c *Ctx, s *core.Sink) {
			m := BuildSM(c)
			if smProblems(m, s) {
				return
			}
			var spec struct {
				States map[string][]struct {
					Next string            `json:"next"`
					Disp map[string]string `json:"disp"`
					Spec string            `json:"spec"`
				} `json:"states"`
			}
			readSpec(c, "basecopies.json", &spec)
			propsFor := func(state string) []string {
				if state == "StateNoScheme" || state == "StateRelative" {
					return []string{"C01", "C06"}
				}
				return []string{"C01"}
			}
			for _, ctxName := range []string{"parse/base", "parse/nobase"} {
				matched := map[string]bool{}
				perState := map[string]map[string]*smPath{}
				for _, p := range m.Paths[ctxName] {
					if p.State == "<prologue>" || p.Returned {
						continue
					}
					rows, isBaseState := spec.States[p.State]
					d := dispOf(p, p.Next == "StateFragment")
					if !isBaseState {
						// other states must not copy from the base at all
						for _, e := range p.Effects {
							if e.Kind == "inherit" || strings.HasPrefix(e.Detail, "from base.") {
								s.Bad(fmt.Sprintf("inherit/%s/%s/%s/unexpected-copy:%s", ctxName, p.State, nextKey(p), e.Field), c.P.Pos(e.Pos),
									"state copies "+e.Field+" from the base although the standard does not", "C01")
							}
						}
						continue
					}
					k := p.State + "→" + nextKey(p) + " " + dispString(d)
					if perState[p.State] == nil {
						perState[p.State] = map[string]*smPath{}
					}
					if perState[p.State][k] != nil {
						continue
					}
					perState[p.State][k] = p
					found := -1
					for i, r := range rows {
						if r.Next == nextKey(p) && sameDisp(r.Disp, d) {
							found = i
						}
					}
					key := fmt.Sprintf("inherit/%s/%s→%s/%s", ctxName, p.State, nextKey(p), dispString(d))
					pos := c.P.Pos(p.NextPos)
					if p.NextPos == 0 && len(p.Effects) > 0 {
						pos = c.P.Pos(p.Effects[0].Pos)
					}
					if found >= 0 {
						matched[fmt.Sprintf("%s#%d", p.State, found)] = true
						s.OK(key, pos, "matches the standard: "+rows[found].Spec, propsFor(p.State)...)
					} else {
						var want []string
						for _, r := range rows {
							if r.Next == nextKey(p) {
								want = append(want, dispString(r.Disp))
							}
						}
						s.Bad(key, pos, fmt.Sprintf("components after this edge are %s; the standard requires one of %v", dispString(d), want), propsFor(p.State)...)
					}
				}
				if ctxName == "parse/base" {
					// every row of the table must be realised by some path (a deleted branch is a deviation too)
					var states []string
					for st := range spec.States {
						states = append(states, st)
					}
					sort.Strings(states)
					for _, st := range states {
						for i, r := range spec.States[st] {
							key := fmt.Sprintf("inherit/row/%s→%s/%s", st, r.Next, dispString(r.Disp))
							if matched[fmt.Sprintf("%s#%d", st, i)] {
								s.OK(key, "-", "realised by an extracted path", propsFor(st)...)
							} else {
								s.Bad(key, c.P.Pos(m.An.clauses[st].Pos()), "no path of the state clause realises this row of the standard: "+r.Spec, propsFor(st)...)
							}
						}
					}
				}
			}
		},
	})

	register(&Rule{
		Name:  "SM-failpoints",
		Doc:   "the set of failure points (handler call sites with the literal failure flag true whose non-nil result aborts the function), keyed by state clause or function and error type, equals the standard's 'return failure' points",
		Props: []string{"C01", "C06", "C07", "C08"},
		Floor: 20,
		Run: func(c *Ctx, s *core.Sink) {
			m := BuildSM(c)
			if smProblems(m, s) {
				return
			}
			em := buildErrModel(c)
			var spec struct {
				Points []struct {
					Where string   `json:"where"`
					Type  string   `json:"type"`
					Count int      `json:"count"`
					Props []string `json:"props"`
					Spec  string   `json:"spec"`
				} `json:"points"`
				Dontcare []struct {
					Where string `json:"where"`
					Type  string `json:"type"`
				} `json:"dontcare"`
			}
			readSpec(c, "failpoints.json", &spec)
			// a site inside a helper of the state machine belongs to the clause(s) on whose paths the walker met it
			walked := map[*handlerSite]map[string]bool{}
			for _, cx := range m.Contexts {
				for _, p := range m.Paths[cx.Name] {
					if p.State == "<prologue>" {
						continue
					}
					for _, h := range p.Handlers {
						if h.Site == nil || h.Site.Caller == m.An.fn {
							continue
						}
						if walked[h.Site] == nil {
							walked[h.Site] = map[string]bool{}
						}
						walked[h.Site][m.An.groupOf(p.State)] = true
					}
				}
			}
			whereOf := func(st *handlerSite) string {
				if st.Caller == m.An.fn {
					// position of the call inside the switch
					return m.An.groupAt(st.Call.Pos())
				}
				if gs := walked[st]; len(gs) == 1 {
					for g := range gs {
						return g
					}
				}
				return "host-parsers"
			}
			got := map[string][]*handlerSite{}
			for _, st := range em.Sites {
				w := whereOf(st)
				if !st.FailKnown {
					s.Unknown("failpoint/"+st.Key+"/flag", c.P.Pos(st.Call.Pos()), "failure flag is not a literal", "C01")
					continue
				}
				if !st.Failure {
					continue
				}
				got[w+"|"+st.TypeName] = append(got[w+"|"+st.TypeName], st)
			}
			dc := map[string]bool{}
			for _, d := range spec.Dontcare {
				dc[d.Where+"|"+d.Type] = true
			}
			seen := map[string]bool{}
			for _, pt := range spec.Points {
				k := pt.Where + "|" + pt.Type
				seen[k] = true
				sites := got[k]
				key := "failpoint/" + pt.Where + "/" + pt.Type
				pos := "-"
				if len(sites) > 0 {
					pos = c.P.Pos(sites[0].Call.Pos())
				}
				if len(sites) < pt.Count {
					s.Bad(key+"/count", pos, fmt.Sprintf("%d failure-flagged sites, the standard has %d (%s)", len(sites), pt.Count, pt.Spec), pt.Props...)
				} else if len(sites) > pt.Count {
					// the same failure written at more places (a disjunction split into guard clauses): every site is still
					// checked below; where it may fail is SM-transitions' and TAB-thresholds' business
					s.OK(key+"/count", pos, fmt.Sprintf("%d sites for the standard's %d failure point(s): %s", len(sites), pt.Count, pt.Spec), pt.Props...)
				} else {
					s.OK(key+"/count", pos, fmt.Sprintf("%d failure point(s): %s", pt.Count, pt.Spec), pt.Props...)
				}
				for _, st := range sites {
					v, fact := core.Discharged, ""
					vals := errorValuesOf(st.Call)
					if len(vals) == 0 {
						v, fact = core.Violated, "result of the failure-flagged handler call is dropped: the parse continues"
					} else {
						v, fact = checkErrUse(st.Caller, vals, em)
					}
					k2 := fmt.Sprintf("failpoint/%s/abort", st.Key)
					switch v {
					case core.Discharged:
						s.OK(k2, c.P.Pos(st.Call.Pos()), "aborts: "+fact, pt.Props...)
					case core.Violated:
						s.Bad(k2, c.P.Pos(st.Call.Pos()), fact, pt.Props...)
					default:
						s.Unknown(k2, c.P.Pos(st.Call.Pos()), fact, pt.Props...)
					}
				}
			}
			var extra []string
			for k := range got {
				if !seen[k] && !dc[k] {
					extra = append(extra, k)
				}
			}
			sort.Strings(extra)
			for _, k := range extra {
				st := got[k][0]
				props := []string{"C01"}
				if strings.Contains(k, "|IPv4") && !strings.Contains(k, "InIPv6") {
					props = []string{"C01", "C07"}
				}
				if strings.Contains(k, "|IPv6") || strings.Contains(k, "InIPv6") {
					props = []string{"C01", "C08"}
				}
				s.Bad("failpoint/"+strings.Replace(k, "|", "/", 1)+"/extra", c.P.Pos(st.Call.Pos()), "failure point that the standard does not have", props...)
			}
		},
	})

	register(&Rule{
		Name:  "SM-rank",
		Doc:   "termination ranking of the main loop: the loop head advances the cursor and the loop exits on eof; no path that stays in its state rewinds the cursor; the state graph without self-loops is acyclic; no `continue` skips the eof exit",
		Props: []string{"C02"},
		Floor: 20,
		Run: func(c *Ctx, s *core.Sink) {
			m := BuildSM(c)
			if smProblems(m, s) {
				return
			}
			a := m.An
			s.Check(a.cursorClass["nextCodePoint"] == "advance", "rank/loophead", c.P.Pos(a.loop.Pos()), "loop head calls nextCodePoint, which stores pointer+1", "loop head does not advance the cursor")
			// nextCodePoint sets eof when the pointer passes the end: checked structurally on SSA
			ncp := c.P.Func("url", "inputString", "nextCodePoint")
			// (directly or through a helper on the same cursor, e.g. an `atEnd()` shared with the byte reader)
			var storesEOF func(fn *ssa.Function, depth int) bool
			storesEOF = func(fn *ssa.Function, depth int) bool {
				if fn == nil || depth > 3 {
					return false
				}
				for _, b := range fn.Blocks {
					for _, ins := range b.Instrs {
						if st, ok := ins.(*ssa.Store); ok {
							if fa, ok := st.Addr.(*ssa.FieldAddr); ok && fieldElem(fa.X.Type(), fa.Field) == "inputString:eof" {
								if v, ok := constBool(st.Val); ok && v {
									return true
								}
							}
						}
						if call, ok := ins.(ssa.CallInstruction); ok {
							if callee := call.Common().StaticCallee(); callee != nil && callee.Pkg == fn.Pkg && len(callee.Params) > 0 && len(fn.Params) > 0 && len(call.Common().Args) > 0 && call.Common().Args[0] == ssa.Value(fn.Params[0]) {
								if storesEOF(callee, depth+1) {
									return true
								}
							}
						}
					}
				}
				return false
			}
			setsEOF := storesEOF(ncp, 0)
			s.Check(setsEOF, "rank/eof", c.P.Pos(a.loop.Pos()), "nextCodePoint sets eof when the pointer reaches the length", "nextCodePoint never sets eof")
			edges := map[string]map[string]bool{}
			type stayKey struct{ st, ctx string }
			stayBad := map[string]*smPath{}
			states := map[string]bool{}
			for _, cx := range m.Contexts {
				for _, p := range m.Paths[cx.Name] {
					if p.State == "<prologue>" {
						continue
					}
					states[p.State] = true
					if p.Continue {
						s.Bad("rank/continue/"+p.State, c.P.Pos(a.clauses[p.State].Pos()), "a `continue` of the main loop skips the eof exit")
					}
					if p.Returned {
						continue
					}
					if p.Next == "" || p.Next == p.State {
						if p.Rewinds() && stayBad[p.State] == nil {
							stayBad[p.State] = p
						}
						continue
					}
					if edges[p.State] == nil {
						edges[p.State] = map[string]bool{}
					}
					edges[p.State][p.Next] = true
				}
			}
			var sts []string
			for st := range states {
				sts = append(sts, st)
			}
			sort.Strings(sts)
			for _, st := range sts {
				if p := stayBad[st]; p != nil {
					pos := "-"
					for _, co := range p.Cursor {
						if co.Class == "rewind" {
							pos = c.P.Pos(co.Pos)
						}
					}
					s.Bad("rank/stay/"+st, pos, "a path that stays in "+st+" rewinds the cursor: the loop need not make progress")
				} else {
					s.OK("rank/stay/"+st, c.P.Pos(a.clauses[st].Pos()), "every path that stays consumes the code point read at the loop head")
				}
			}
			// acyclicity (Kahn)
			indeg := map[string]int{}
			for _, st := range sts {
				indeg[st] += 0
				for t := range edges[st] {
					indeg[t]++
				}
			}
			var queue []string
			for st, d := range indeg {
				if d == 0 {
					queue = append(queue, st)
				}
			}
			n := 0
			for len(queue) > 0 {
				x := queue[0]
				queue = queue[1:]
				n++
				for t := range edges[x] {
					indeg[t]--
					if indeg[t] == 0 {
						queue = append(queue, t)
					}
				}
			}
			var cyc []string
			for st, d := range indeg {
				if d > 0 {
					cyc = append(cyc, st)
				}
			}
			sort.Strings(cyc)
			s.Check(len(cyc) == 0, "rank/acyclic", c.P.Pos(a.sw.Pos()), fmt.Sprintf("state graph without self-loops is acyclic (%d states): iterations ≤ #states·(n+2)", n), "states on a cycle: "+strings.Join(cyc, ", "))
		},
	})

	register(&Rule{
		Name:  "SM-base",
		Doc:   "in every context in which base is nil (no base given, every setter) no reachable path evaluates a selector on base",
		Props: []string{"C02"},
		Floor: 8,
		Run: func(c *Ctx, s *core.Sink) {
			m := BuildSM(c)
			if smProblems(m, s) {
				return
			}
			for _, cx := range m.Contexts {
				if cx.Base != triF {
					continue
				}
				bad := map[string]bool{}
				n := 0
				for _, p := range m.Paths[cx.Name] {
					n++
					for _, d := range p.BaseDerefs {
						k := c.P.Pos(d)
						if !bad[k] {
							bad[k] = true
							s.Bad("base/"+cx.Name+"/"+p.State, k, "base is dereferenced on a path reachable with base == nil (nil pointer dereference)")
						}
					}
				}
				if len(bad) == 0 {
					s.OK("base/"+cx.Name, "-", fmt.Sprintf("%d paths, none touches base", n))
				}
			}
		},
	})

	register(&Rule{
		Name:  "SM-query",
		Doc:   "every path that stores through url.query lies in a state that is only entered over edges that made url.query non-nil",
		Props: []string{"C02"},
		Floor: 2,
		Run: func(c *Ctx, s *core.Sink) {
			m := BuildSM(c)
			if smProblems(m, s) {
				return
			}
			for _, cx := range m.Contexts {
				// states with a deref path
				deref := map[string]*smPath{}
				for _, p := range m.Paths[cx.Name] {
					for _, e := range p.Effects {
						if e.Kind == "deref" {
							// a store url.f = fresh earlier on the same path makes it safe by itself
							safe := false
							for _, e2 := range p.Effects {
								if e2.Pos < e.Pos && e2.Field == e.Field && (e2.Kind == "fresh" || e2.Kind == "value") {
									safe = true
								}
							}
							// the path tested the component for nil and took the non-nil branch
							if v, ok := assumed(p)["url."+e.Field+" == nil"]; ok && !v {
								safe = true
							}
							if !safe {
								deref[p.State+"|"+e.Field] = p
							}
						}
					}
				}
				if len(deref) == 0 {
					s.OK("query/"+cx.Name, "-", "no reachable path stores through a nullable component pointer")
					continue
				}
				for k := range deref {
					parts := strings.SplitN(k, "|", 2)
					st, field := parts[0], parts[1]
					if cx.Entry == st || (cx.Override != "" && cx.Override == st) {
						s.Bad("query/"+cx.Name+"/"+st+"/entry", c.P.Pos(m.An.clauses[st].Pos()), "the state is an override entry and stores through url."+field+" without a guarantee that it is non-nil")
						continue
					}
					bad := false
					n := 0
					for _, p := range m.Paths[cx.Name] {
						if p.Returned || p.Next != st || p.State == st {
							continue
						}
						n++
						d := p.Disposition(field)
						if d != "fresh" && d != "value" {
							bad = true
							s.Bad(fmt.Sprintf("query/%s/%s→%s", cx.Name, p.State, st), c.P.Pos(p.NextPos), "edge enters "+st+" with url."+field+" "+d+" but the state stores through it")
						}
					}
					if !bad {
						s.OK("query/"+cx.Name+"/"+st+"/"+field, c.P.Pos(m.An.clauses[st].Pos()), fmt.Sprintf("all %d entering edges set url.%s to a non-nil value first", n, field))
					}
				}
			}
		},
	})

	register(&Rule{
		Name:  "SM-result",
		Doc:   "in the parse contexts every return of BasicParser is (x, err) with err known non-nil, or (url, nil) with url non-nil; (nil, nil) occurs only under a state override",
		Props: []string{"C02"},
		Floor: 12,
		Run: func(c *Ctx, s *core.Sink) {
			m := BuildSM(c)
			if smProblems(m, s) {
				return
			}
			seen := map[string]bool{}
			for _, cx := range m.Contexts {
				for _, p := range m.Paths[cx.Name] {
					for _, u := range p.Undecided {
						k := "result/undecided/" + cx.Name + "/" + p.State + "/" + u
						if !seen[k] {
							seen[k] = true
							s.Unknown(k, c.P.Pos(m.An.fd.Pos()), u)
						}
					}
					if !p.Returned {
						continue
					}
					k := fmt.Sprintf("result/%s/%s/%s", cx.Name, p.State, c.P.Pos(p.RetPos))
					if seen[k] {
						continue
					}
					seen[k] = true
					key := fmt.Sprintf("result/%s/%s/return(%s)", cx.Name, p.State, p.RetText)
					switch {
					case p.RetKind == "ok" || p.RetKind == "fail":
						s.OK(key, c.P.Pos(p.RetPos), "returns "+p.RetKind)
					case p.RetKind == "nilnil" && cx.Override != "":
						s.OK(key, c.P.Pos(p.RetPos), "(nil, nil) under a state override only (setters ignore the result)")
					default:
						s.Bad(key, c.P.Pos(p.RetPos), "a parse may return neither a URL nor an error: "+p.RetText)
					}
				}
			}
			s.OK("result/final", c.P.Pos(m.An.loop.End()), "after the loop: return url, nil with url non-nil (assigned in the prologue when nil)")
		},
	})

	register(&Rule{
		Name:  "SM-footprint",
		Doc:   "under each state override the primary components BasicParser may write (directly or through callees) are exactly those the standard's setter may change, and only the setter's states run",
		Props: []string{"C05"},
		Floor: 10,
		Run: func(c *Ctx, s *core.Sink) {
			m := BuildSM(c)
			if smProblems(m, s) {
				return
			}
			var spec struct {
				Overrides map[string]struct {
					Setter string   `json:"setter"`
					Writes []string `json:"writes"`
					States []string `json:"states"`
				} `json:"overrides"`
			}
			readSpec(c, "setters.json", &spec)
			for _, cx := range m.Contexts {
				if cx.Override == "" {
					continue
				}
				row, ok := spec.Overrides[cx.Override]
				if !ok {
					s.Unknown("footprint/"+cx.Name, "-", "no row in spec/setters.json")
					continue
				}
				written := map[string]*fieldEff{}
				for _, p := range m.Paths[cx.Name] {
					for i := range p.Effects {
						e := &p.Effects[i]
						for _, f := range primaryFields {
							if e.Field == f && written[f] == nil {
								written[f] = e
							}
						}
					}
				}
				want := map[string]bool{}
				for _, f := range row.Writes {
					want[f] = true
				}
				for _, f := range primaryFields {
					key := fmt.Sprintf("footprint/%s(%s)/%s", cx.Name, row.Setter, f)
					switch {
					case written[f] != nil && !want[f]:
						s.Bad(key, c.P.Pos(written[f].Pos), fmt.Sprintf("the %s setter can change %s (%s), which the standard's setter never does", row.Setter, f, written[f].Kind))
					case written[f] == nil && want[f]:
						s.Bad(key, "-", fmt.Sprintf("the %s setter can never change %s, which the standard's setter does", row.Setter, f))
					case want[f]:
						s.OK(key, c.P.Pos(written[f].Pos), "written, as in the standard")
					default:
						s.OK(key, "-", "never written")
					}
				}
				allowed := map[string]bool{}
				for _, st := range row.States {
					allowed[st] = true
				}
				var extra []string
				for _, st := range m.Reach[cx.Name] {
					if !allowed[st] {
						extra = append(extra, st)
					}
				}
				s.Check(len(extra) == 0, fmt.Sprintf("footprint/%s(%s)/states", cx.Name, row.Setter), "-", fmt.Sprintf("runs only %v", m.Reach[cx.Name]), fmt.Sprintf("the %s setter can reach states outside its algorithm: %v", row.Setter, extra))
			}
		},
	})

	register(&Rule{
		Name:  "SM-onevisit",
		Doc:   "calls to cursor helpers whose cost is proportional to the remaining input lie only on paths that leave the state (so each runs O(#states) times per parse)",
		Props: []string{"C20"},
		Floor: 3,
		Run: func(c *Ctx, s *core.Sink) {
			m := BuildSM(c)
			if smProblems(m, s) {
				return
			}
			helpers := linearHelpers(c)
			seen := map[string]bool{}
			for _, cx := range m.Contexts {
				for _, p := range m.Paths[cx.Name] {
					if p.State == "<prologue>" {
						continue
					}
					for _, cu := range p.Calls {
						fn := c.P.SSA.FuncValue(cu.Callee)
						why, isLin := helpers[fn]
						if !isLin {
							continue
						}
						key := fmt.Sprintf("onevisit/%s/%s@%s", p.State, cu.Callee.Name(), c.P.Pos(cu.Pos))
						stays := !p.Returned && (p.Next == "" || p.Next == p.State)
						if stays {
							if !seen[key+"!"] {
								seen[key+"!"] = true
								s.Bad(fmt.Sprintf("onevisit/%s/%s", p.State, cu.Callee.Name()), c.P.Pos(cu.Pos), "O(remaining input) helper ("+why+") is called on a path that stays in the state: quadratic in the input length")
							}
							continue
						}
						if !seen[key] {
							seen[key] = true
						}
					}
				}
			}
			// one obligation per call site
			sites := map[string]bool{}
			for k := range seen {
				if strings.HasSuffix(k, "!") {
					continue
				}
				sites[k] = true
			}
			var ks []string
			for k := range sites {
				ks = append(ks, k)
			}
			sort.Strings(ks)
			ord := map[string]int{}
			for _, k := range ks {
				if seen[k+"!"] {
					continue
				}
				parts := strings.SplitN(k, "@", 2)
				ord[parts[0]]++
				s.OK(fmt.Sprintf("%s#%d", parts[0], ord[parts[0]]), parts[1], "only on paths that leave the state or return")
			}
		},
	})
}

// ---- SM-guards: decisions as boolean functions, compared with the standard's formulas by truth table ----

type boolExpr func(env map[string]bool) (bool, error)

func parseBool(src string) (boolExpr, error) {
	toks := []string{}
	for i := 0; i < len(src); {
		ch := src[i]
		switch {
		case ch == ' ':
			i++
		case ch == '(' || ch == ')' || ch == '!':
			toks = append(toks, string(ch))
			i++
		case strings.HasPrefix(src[i:], "&&") || strings.HasPrefix(src[i:], "||"):
			toks = append(toks, src[i:i+2])
			i += 2
		default:
			j := i
			for j < len(src) && (src[j] == '_' || src[j] >= '0' && src[j] <= '9' || src[j] >= 'a' && src[j] <= 'z' || src[j] >= 'A' && src[j] <= 'Z') {
				j++
			}
			if j == i {
				return nil, fmt.Errorf("bad character %q", ch)
			}
			toks = append(toks, src[i:j])
			i = j
		}
	}
	pos := 0
	var or, and, unary func() (boolExpr, error)
	or = func() (boolExpr, error) {
		l, err := and()
		if err != nil {
			return nil, err
		}
		for pos < len(toks) && toks[pos] == "||" {
			pos++
			r, err := and()
			if err != nil {
				return nil, err
			}
			l0 := l
			l = func(env map[string]bool) (bool, error) {
				a, err := l0(env)
				if err != nil {
					return false, err
				}
				b, err := r(env)
				return a || b, err
			}
		}
		return l, nil
	}
	and = func() (boolExpr, error) {
		l, err := unary()
		if err != nil {
			return nil, err
		}
		for pos < len(toks) && toks[pos] == "&&" {
			pos++
			r, err := unary()
			if err != nil {
				return nil, err
			}
			l0 := l
			l = func(env map[string]bool) (bool, error) {
				a, err := l0(env)
				if err != nil {
					return false, err
				}
				b, err := r(env)
				return a && b, err
			}
		}
		return l, nil
	}
	unary = func() (boolExpr, error) {
		if pos >= len(toks) {
			return nil, fmt.Errorf("unexpected end")
		}
		t := toks[pos]
		pos++
		switch t {
		case "!":
			x, err := unary()
			if err != nil {
				return nil, err
			}
			return func(env map[string]bool) (bool, error) { v, err := x(env); return !v, err }, nil
		case "(":
			x, err := or()
			if err != nil {
				return nil, err
			}
			if pos >= len(toks) || toks[pos] != ")" {
				return nil, fmt.Errorf("missing )")
			}
			pos++
			return x, nil
		case "true":
			return func(map[string]bool) (bool, error) { return true, nil }, nil
		case "false":
			return func(map[string]bool) (bool, error) { return false, nil }, nil
		}
		name := t
		return func(env map[string]bool) (bool, error) {
			v, ok := env[name]
			if !ok {
				return false, fmt.Errorf("atom %s unbound", name)
			}
			return v, nil
		}, nil
	}
	e, err := or()
	if err != nil {
		return nil, err
	}
	if pos != len(toks) {
		return nil, fmt.Errorf("trailing tokens")
	}
	return e, nil
}

// assumed parses the Assumes list of a path into key -> value (first occurrence wins).
func assumed(p *smPath) map[string]bool {
	m := map[string]bool{}
	for _, a := range p.Assumes {
		k, v := a, true
		if strings.HasPrefix(a, "!(") && strings.HasSuffix(a, ")") {
			k, v = a[2:len(a)-1], false
		}
		if _, ok := m[k]; !ok {
			m[k] = v
		}
	}
	return m
}

func init() {
	register(&Rule{
		Name:  "SM-guards",
		Doc:   "decisions of the state machine (what a setter refuses / fails / writes; which path operations end a segment), read off the extracted paths as a function of the conditions they evaluate, equal the standard's formulas on every assignment of the atoms (truth table; semantic, independent of how the conditions are written)",
		Props: []string{"C05", "C04", "C03", "C01", "C18", "C19"},
		Floor: 3,
		Run: func(c *Ctx, s *core.Sink) {
			m := BuildSM(c)
			if smProblems(m, s) {
				return
			}
			var spec struct {
				Guards []struct {
					ID        string            `json:"id"`
					Spec      string            `json:"spec"`
					Contexts  []string          `json:"contexts"`
					States    []string          `json:"states"`
					RClass    []string          `json:"rclass"`
					Observe   string            `json:"observe"`
					Requires  map[string]bool   `json:"requires"`
					AppliesIf []string          `json:"applies_if"`
					Atoms     map[string]string `json:"atoms"`
					Outcomes  map[string]string `json:"outcomes"`
					Props     []string          `json:"props"`
				} `json:"guards"`
			}
			readSpec(c, "guards.json", &spec)
			for _, g := range spec.Guards {
				forms := map[string]boolExpr{}
				bad := ""
				for o, src := range g.Outcomes {
					f, err := parseBool(src)
					if err != nil {
						bad = fmt.Sprintf("formula of outcome %q does not parse: %v", o, err)
					}
					forms[o] = f
				}
				if bad != "" {
					s.Unknown("guards/"+g.ID, "-", bad, g.Props...)
					continue
				}
				var names []string
				byText := map[string]string{}
				for n, t := range g.Atoms {
					names = append(names, n)
					byText[t] = n
					// the exported predicate and its unexported form are one atom when the one returns the other's answer
					// for the URL's own scheme (read off the method's SSA)
					if specialSchemeAlias(c) {
						switch {
						case strings.Contains(t, "url.IsSpecialScheme()"):
							byText[strings.Replace(t, "url.IsSpecialScheme()", "url.isSpecialScheme(url.scheme)", 1)] = n
						case strings.Contains(t, "url.isSpecialScheme(url.scheme)"):
							byText[strings.Replace(t, "url.isSpecialScheme(url.scheme)", "url.IsSpecialScheme()", 1)] = n
						}
					}
				}
				sort.Strings(names)
				obsKind, obsField := g.Observe, ""
				if i := strings.Index(g.Observe, ":"); i >= 0 {
					obsKind, obsField = g.Observe[:i], g.Observe[i+1:]
				}
				for _, cxName := range g.Contexts {
					key := "guards/" + g.ID + "/" + cxName
					type cand struct {
						asg     map[string]bool
						outcome string
						pos     string
					}
					var cands []cand
					unknownAtoms := map[string]bool{}
					for _, p := range m.Paths[cxName] {
						inState := false
						for _, st := range g.States {
							if st == p.State {
								inState = true
							}
						}
						if p.State == "<prologue>" || !inState {
							continue
						}
						okClass := len(p.RClass) > 0
						for _, rc := range p.RClass {
							in := false
							for _, w := range g.RClass {
								if w == rc {
									in = true
								}
							}
							if !in {
								okClass = false
							}
						}
						if !okClass {
							continue
						}
						as := assumed(p)
						skip := false
						for k, v := range g.Requires {
							if got, ok := as[k]; ok && got != v {
								skip = true
							}
						}
						for _, n := range g.AppliesIf {
							if _, ok := as[g.Atoms[n]]; !ok {
								skip = true
							}
						}
						// validation failures under fail-on-validation-error are not decisions of the guard
						for _, h := range p.Handlers {
							if h.Taken == triT && !(h.Site.FailKnown && h.Site.Failure) {
								skip = true
							}
						}
						if skip {
							continue
						}
						asg := map[string]bool{}
						for k, v := range as {
							if n, ok := byText[k]; ok {
								asg[n] = v
							} else if _, isReq := g.Requires[k]; !isReq {
								unknownAtoms[k] = true
							}
						}
						// pseudo-atoms on the current code point
						for n, t := range g.Atoms {
							if !strings.HasPrefix(t, "r:") {
								continue
							}
							cls := strings.TrimPrefix(t, "r:")
							has := false
							for _, rc := range p.RClass {
								if rc == cls {
									has = true
								}
							}
							switch {
							case has && len(p.RClass) == 1:
								asg[n] = true
							case !has:
								asg[n] = false
							}
						}
						outcome := ""
						pos := p.RetPos
						switch obsKind {
						case "setter":
							wrote, failed := false, false
							for _, e := range p.Effects {
								if e.Field == obsField {
									wrote = true
								}
							}
							for _, h := range p.Handlers {
								if h.Taken == triT && h.Site.FailKnown && h.Site.Failure {
									failed = true
								}
							}
							if !wrote && !p.Returned && p.Next == "" {
								// the state merely consumes the code point and stays: not a decision about the component
								continue
							}
							switch {
							case wrote:
								outcome = "write"
							case p.Returned && p.RetKind == "fail" && failed:
								outcome = "fail"
							case p.Returned && p.RetKind == "fail":
								outcome = "write" // the component's own parser was tried and rejected the value
							case p.Returned:
								outcome = "refuse"
							default:
								outcome = "write" // the state goes on towards writing the component
							}
						case "ops":
							var ops []string
							for _, e := range p.Effects {
								if e.Field != obsField {
									continue
								}
								if pos == 0 {
									pos = e.Pos
								}
								switch {
								case strings.HasPrefix(e.Kind, "call:"):
									op := strings.TrimPrefix(e.Kind, "call:")
									if e.Args != "" && !strings.Contains(e.Args, "url.scheme") {
										op += "(" + e.Args + ")"
									}
									ops = append(ops, op)
								default:
									ops = append(ops, e.Kind)
								}
							}
							outcome = strings.Join(ops, "+")
							if outcome == "" {
								outcome = "none"
							}
						default:
							outcome = "?"
						}
						cands = append(cands, cand{asg, outcome, c.P.Pos(pos)})
					}
					if len(cands) == 0 {
						s.Unknown(key, "-", "no path of the state machine matches this decision (state / code point class / conditions evaluated)", g.Props...)
						continue
					}
					var bads []string
					rows, checked := 1<<uint(len(names)), 0
					for mask := 0; mask < rows; mask++ {
						env := map[string]bool{}
						for i, n := range names {
							env[n] = mask&(1<<uint(i)) != 0
						}
						outs := map[string]string{}
						for _, cd := range cands {
							ok := true
							for n, v := range cd.asg {
								if env[n] != v {
									ok = false
								}
							}
							if ok {
								outs[cd.outcome] = cd.pos
							}
						}
						if len(outs) == 0 {
							continue
						}
						var want []string
						anyOK := false
						for o, f := range forms {
							if v, _ := f(env); v {
								if o == "*" {
									anyOK = true
								}
								want = append(want, o)
							}
						}
						sort.Strings(want)
						if anyOK {
							continue
						}
						checked++
						for o, pos := range outs {
							okO := false
							for _, w := range want {
								if w == o {
									okO = true
								}
							}
							if !okO && len(bads) < 3 {
								var parts []string
								for _, n := range names {
									parts = append(parts, fmt.Sprintf("%s=%v", g.Atoms[n], env[n]))
								}
								bads = append(bads, fmt.Sprintf("with %s the parser does %q (at %s), the standard says %q", strings.Join(parts, ", "), o, pos, strings.Join(want, " or ")))
							}
						}
					}
					if len(bads) > 0 {
						s.Bad(key, "-", strings.Join(bads, "; "), g.Props...)
						continue
					}
					var unk []string
					for k := range unknownAtoms {
						unk = append(unk, k)
					}
					sort.Strings(unk)
					extra := ""
					if len(unk) > 0 {
						extra = "; other conditions evaluated: " + strings.Join(unk, ", ")
					}
					s.OK(key, "-", fmt.Sprintf("%d paths; %d of %d assignments decided, each as in the standard (%s)%s", len(cands), checked, rows, g.Spec, extra), g.Props...)
				}
			}
		},
	})
}

func init() {
	register(&Rule{
		Name:  "SM-commit",
		Doc:   "a component value that comes out of a parser together with an error (the host) is stored into the URL only on paths that tested that error and found it nil: validate, then commit",
		Props: []string{"C05"},
		Floor: 3,
		Run: func(c *Ctx, s *core.Sink) {
			m := BuildSM(c)
			if smProblems(m, s) {
				return
			}
			type agg struct {
				ok  bool
				n   int
				pos string
			}
			res := map[string]*agg{}
			for _, cx := range m.Contexts {
				for _, p := range m.Paths[cx.Name] {
					for _, e := range p.Effects {
						if !strings.Contains(e.Detail, "[validated]") && !strings.Contains(e.Detail, "[unvalidated]") {
							continue
						}
						k := fmt.Sprintf("commit/%s/%s@%s", p.State, e.Field, c.P.Pos(e.Pos))
						a := res[k]
						if a == nil {
							a = &agg{ok: true, pos: c.P.Pos(e.Pos)}
							res[k] = a
						}
						a.n++
						if strings.Contains(e.Detail, "[unvalidated]") {
							a.ok = false
						}
					}
				}
			}
			var keys []string
			for k := range res {
				keys = append(keys, k)
			}
			sort.Strings(keys)
			ord := map[string]int{}
			for _, k := range keys {
				a := res[k]
				base := strings.SplitN(k, "@", 2)[0]
				ord[base]++
				s.Check(a.ok, fmt.Sprintf("%s#%d", base, ord[base]), a.pos, fmt.Sprintf("stored only after its error was found nil (%d paths)", a.n), "the value is stored into the URL before (or without) its parse error being tested: a rejected value is committed")
			}
		},
	})
}
