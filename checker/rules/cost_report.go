package rules

// COST-report: reporting one validation error costs O(1) in the length of the input (DESIGN §3.8).
//
// The parser reports a validation error per offending code point, so the number of reports grows with the input. Every
// report carries the whole input string (Url.inputUrl → ValidationError.url). If anything on the reporting path — the
// handlers of package url, the constructors of package errors and whatever they call — formats, concatenates, converts
// or walks that string, a parse costs (number of reports) × (input length): quadratic. Rendering belongs in Error(),
// which the parser never calls.

import (
	"fmt"
	"go/token"
	"sort"
	"strings"

	"golang.org/x/tools/go/ssa"

	"wucheck/core"
)

type reportSink struct {
	Fn  *ssa.Function
	Pos token.Pos
	Why string
}

type reportCost struct {
	Fns     []*ssa.Function // the reporting path, in discovery order
	Tainted map[*ssa.Function]int
	Sinks   map[*ssa.Function][]reportSink
	Seeds   int
	Fields  []string
}

func reportCostAnalysis(c *Ctx) *reportCost {
	return c.Memo("reportCost", func() interface{} {
		m := buildErrModel(c)
		rc := &reportCost{Tainted: map[*ssa.Function]int{}, Sinks: map[*ssa.Function][]reportSink{}}
		// the reporting path: handlers, their cores, and every module function they reach through static calls
		seen := map[*ssa.Function]bool{}
		var roots []*ssa.Function
		for f := range m.Handlers {
			roots = append(roots, f)
		}
		for f := range m.Cores {
			roots = append(roots, f)
		}
		sort.Slice(roots, func(i, j int) bool { return core.FuncName(roots[i]) < core.FuncName(roots[j]) })
		var visit func(f *ssa.Function)
		visit = func(f *ssa.Function) {
			if f == nil || seen[f] || len(f.Blocks) == 0 || !c.P.InModule(f) {
				return
			}
			seen[f] = true
			rc.Fns = append(rc.Fns, f)
			for _, b := range f.Blocks {
				for _, ins := range b.Instrs {
					switch x := ins.(type) {
					case *ssa.Call:
						visit(x.Common().StaticCallee())
					case *ssa.MakeClosure:
						if g, ok := x.Fn.(*ssa.Function); ok {
							visit(g)
						}
					}
				}
			}
		}
		for _, f := range roots {
			visit(f)
		}
		// taint: strings loaded from a field of the URL inside a handler (the input the error quotes), followed through
		// parameters, results, fields of the objects built on the way, interface boxes and argument lists
		fieldTaint := map[string]bool{}
		paramTaint := map[*ssa.Function]map[int]bool{}
		retTaint := map[*ssa.Function]bool{}
		isRoot := map[*ssa.Function]bool{}
		for _, f := range roots {
			isRoot[f] = true
		}
		for round := 0; round < 12; round++ {
			changed := false
			rc.Seeds = 0
			for _, f := range rc.Fns {
				t := map[ssa.Value]bool{}
				sinks := []reportSink{}
				for i := range f.Params {
					if paramTaint[f][i] {
						t[f.Params[i]] = true
					}
				}
				loops := loopsOf(f)
				for pass := 0; pass < 6; pass++ {
					grew := false
					mark := func(v ssa.Value) {
						if v != nil && !t[v] {
							t[v] = true
							grew = true
						}
					}
					for _, b := range f.Blocks {
						for _, ins := range b.Instrs {
							switch x := ins.(type) {
							case *ssa.UnOp:
								if x.Op != token.MUL {
									continue
								}
								if fa, ok := x.X.(*ssa.FieldAddr); ok {
									el := fieldElem(fa.X.Type(), fa.Field)
									if isRoot[f] && namedOf(fa.X.Type()) == "Url" && isStringy(x.Type()) {
										if !t[x] {
											rc.Seeds++
										}
										mark(x)
									}
									if fieldTaint[el] && isStringy(x.Type()) {
										mark(x)
									}
								}
								if t[x.X] {
									mark(x)
								}
							case *ssa.Phi:
								for _, e := range x.Edges {
									if t[e] {
										mark(x)
									}
								}
							case *ssa.Slice:
								if t[x.X] {
									mark(x)
								}
							case *ssa.ChangeType:
								if t[x.X] {
									mark(x)
								}
							case *ssa.MakeInterface:
								if t[x.X] {
									mark(x)
								}
							case *ssa.TypeAssert:
								if t[x.X] {
									mark(x)
								}
							case *ssa.Extract:
								if t[x.Tuple] {
									mark(x)
								}
							case *ssa.IndexAddr:
								if t[x.X] {
									mark(x)
								}
							case *ssa.Store:
								if !t[x.Val] {
									continue
								}
								switch a := x.Addr.(type) {
								case *ssa.FieldAddr:
									el := fieldElem(a.X.Type(), a.Field)
									if !fieldTaint[el] {
										fieldTaint[el] = true
										changed = true
									}
								case *ssa.IndexAddr:
									mark(a.X) // the argument list (array) now holds it
									mark(a)
								case *ssa.Alloc:
									mark(a)
								}
							case *ssa.Call:
								cm := x.Common()
								g := cm.StaticCallee()
								if g != nil && seen[g] {
									args := cm.Args
									for i, a := range args {
										if t[a] && i < len(g.Params) {
											if paramTaint[g] == nil {
												paramTaint[g] = map[int]bool{}
											}
											if !paramTaint[g][i] {
												paramTaint[g][i] = true
												changed = true
											}
										}
									}
									if retTaint[g] {
										mark(x)
									}
								}
							case *ssa.Return:
								for _, r := range x.Results {
									if t[r] && isStringy(r.Type()) && !retTaint[f] {
										retTaint[f] = true
										changed = true
									}
								}
							}
						}
					}
					if !grew {
						break
					}
				}
				// sinks: work proportional to the length of a tainted string
				for _, b := range f.Blocks {
					inLoop := unboundedLoop(inLoops(loops, b)) != nil
					for _, ins := range b.Instrs {
						switch x := ins.(type) {
						case *ssa.BinOp:
							if !t[x.X] && !t[x.Y] {
								continue
							}
							switch x.Op {
							case token.ADD:
								if isStringy(x.Type()) {
									sinks = append(sinks, reportSink{f, x.Pos(), "concatenates the input string"})
								}
							case token.EQL, token.NEQ, token.LSS, token.GTR, token.LEQ, token.GEQ:
								_, kx := x.X.(*ssa.Const)
								_, ky := x.Y.(*ssa.Const)
								if !kx && !ky && isStringy(x.X.Type()) {
									sinks = append(sinks, reportSink{f, x.Pos(), "compares the input string with another string"})
								}
							}
						case *ssa.Convert:
							if t[x.X] && linearConvert(x) {
								sinks = append(sinks, reportSink{f, x.Pos(), "converts (copies) the input string"})
							}
						case *ssa.Range:
							if t[x.X] {
								sinks = append(sinks, reportSink{f, x.Pos(), "ranges over the input string"})
							}
						case *ssa.Index:
							if t[x.X] && inLoop {
								sinks = append(sinks, reportSink{f, x.Pos(), "indexes the input string in a loop that is not constant-bounded"})
							}
						case *ssa.Lookup:
							if t[x.X] && inLoop {
								sinks = append(sinks, reportSink{f, x.Pos(), "indexes the input string in a loop that is not constant-bounded"})
							}
						case *ssa.Call:
							cm := x.Common()
							var tainted bool
							for _, a := range cm.Args {
								if t[a] {
									tainted = true
								}
							}
							if !tainted {
								continue
							}
							if bi, ok := cm.Value.(*ssa.Builtin); ok {
								switch bi.Name() {
								case "len", "cap":
								default:
									sinks = append(sinks, reportSink{f, x.Pos(), "passes the input string to the builtin " + bi.Name()})
								}
								continue
							}
							g := cm.StaticCallee()
							if g != nil && seen[g] {
								continue // followed
							}
							name := "a dynamic call"
							if g != nil {
								name = g.String()
							} else if cm.IsInvoke() {
								name = "the interface method " + cm.Method.Name()
							}
							sinks = append(sinks, reportSink{f, x.Pos(), "hands the input string to " + name + ", whose cost is proportional to its length"})
						}
					}
				}
				n := 0
				for range t {
					n++
				}
				rc.Tainted[f] = n
				rc.Sinks[f] = sinks
			}
			if !changed {
				break
			}
		}
		for k := range fieldTaint {
			rc.Fields = append(rc.Fields, k)
		}
		sort.Strings(rc.Fields)
		return rc
	}).(*reportCost)
}

func init() {
	register(&Rule{
		Name:  "COST-report",
		Doc:   "reporting a validation error costs O(1) in the input: on the path from the error handlers through the error constructors, the input string an error quotes is only stored and handed on — never concatenated, formatted, converted, compared with another string or walked (the parser reports once per offending code point, so anything more is quadratic)",
		Props: []string{"C20"},
		Floor: 4,
		Run: func(c *Ctx, s *core.Sink) {
			rc := reportCostAnalysis(c)
			if len(rc.Fns) == 0 {
				s.Unknown("report/anchors", "-", "no error handler found: the reporting path cannot be named")
				return
			}
			if rc.Seeds == 0 {
				s.Unknown("report/source", "-", "no handler reads a string field of the URL: the input string an error quotes cannot be named")
				return
			}
			for _, f := range rc.Fns {
				key := "report/" + core.FuncName(f)
				if sk := rc.Sinks[f]; len(sk) > 0 {
					var why []string
					for _, x := range sk {
						why = append(why, fmt.Sprintf("%s [%s]", x.Why, c.P.Pos(x.Pos)))
					}
					s.Bad(key, c.P.Pos(sk[0].Pos), "on the path of every validation error: "+strings.Join(why, "; "))
				} else {
					s.OK(key, c.P.Pos(f.Pos()), fmt.Sprintf("%d values carry the input string; they are stored or handed on only (fields holding it: %s)", rc.Tainted[f], strings.Join(rc.Fields, ", ")))
				}
			}
		},
	})
}
