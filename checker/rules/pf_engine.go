package rules

// PF engine: panic-freedom obligations (DESIGN §3.7).  A small linear-fact reasoner over the dominating branch facts
// of the pruned CFG:  len(K) ≥ base + k  and  v ≤ c,  where K is a canonical key of a collection expression
// (SSA value, or a chain of field loads rooted at one) and base an SSA value.

import (
	"fmt"
	"go/ast"
	"go/token"
	"go/types"
	"os"
	"sort"
	"strings"

	"golang.org/x/tools/go/ssa"

	"wucheck/core"
)

type term struct {
	base ssa.Value // nil: constant
	k    int64
}

func (t term) String() string {
	if t.base == nil {
		return fmt.Sprint(t.k)
	}
	if t.k == 0 {
		return t.base.Name()
	}
	return fmt.Sprintf("%s%+d", t.base.Name(), t.k)
}

func isIntType(t types.Type) bool {
	b, ok := t.Underlying().(*types.Basic)
	return ok && b.Info()&types.IsInteger != 0
}

// termOf decomposes v into base + k.
func termOf(v ssa.Value) term {
	k := int64(0)
	for i := 0; i < 8; i++ {
		switch x := v.(type) {
		case *ssa.Const:
			if n, ok := constInt(x); ok {
				return term{nil, k + n}
			}
			return term{v, k}
		case *ssa.Convert:
			if isIntType(x.Type()) && isIntType(x.X.Type()) {
				v = x.X
				continue
			}
			return term{v, k}
		case *ssa.ChangeType:
			v = x.X
			continue
		case *ssa.BinOp:
			if c, ok := constInt(x.Y); ok && (x.Op == token.ADD || x.Op == token.SUB) {
				if x.Op == token.ADD {
					k += c
				} else {
					k -= c
				}
				v = x.X
				continue
			}
			if c, ok := constInt(x.X); ok && x.Op == token.ADD {
				k += c
				v = x.Y
				continue
			}
			return term{v, k}
		default:
			return term{v, k}
		}
	}
	return term{v, k}
}

// lenArg returns X if v is len(X).
func lenArg(v ssa.Value) (ssa.Value, bool) {
	call, ok := v.(*ssa.Call)
	if !ok {
		return nil, false
	}
	b, ok := call.Common().Value.(*ssa.Builtin)
	if !ok || b.Name() != "len" {
		return nil, false
	}
	return call.Common().Args[0], true
}

// lenKey: the key of the collection whose length v is — len(X), or a call of a module accessor whose every return is
// the length of a collection reached from one of its parameters (func (p *path) numSegments() int { return len(p.p) }).
func lenKey(v ssa.Value) (string, bool) {
	if v == nil {
		return "", false
	}
	if x, ok := lenArg(v); ok {
		return collKey(x), true
	}
	call, ok := v.(*ssa.Call)
	if !ok {
		return "", false
	}
	g := call.Common().StaticCallee()
	if g == nil || len(g.Blocks) == 0 || len(g.Blocks) > 2 || g.Signature.Results().Len() != 1 || !isIntType(g.Signature.Results().At(0).Type()) {
		return "", false
	}
	key := ""
	for _, b := range g.Blocks {
		r, ok := b.Instrs[len(b.Instrs)-1].(*ssa.Return)
		if !ok {
			continue
		}
		x, ok := lenArg(r.Results[0])
		if !ok {
			return "", false
		}
		k := collKey(x)
		if !strings.HasPrefix(k, "P:") || (key != "" && k != key) {
			return "", false
		}
		key = k
	}
	if key == "" {
		return "", false
	}
	return substKey(key, g, call.Common().Args)
}

// collKey is the canonical key of a collection-valued expression: an SSA register, or a chain of field loads.
func collKey(v ssa.Value) string {
	switch x := v.(type) {
	case *ssa.UnOp:
		if x.Op == token.MUL {
			if fa, ok := x.X.(*ssa.FieldAddr); ok {
				return collKey(fa.X) + "." + fieldElem(fa.X.Type(), fa.Field)
			}
			if g, ok := x.X.(*ssa.Global); ok {
				return "G:" + g.Name()
			}
			if fv, ok := x.X.(*ssa.FreeVar); ok {
				return "fv:" + fv.Name()
			}
		}
	case *ssa.Parameter:
		return "P:" + x.Name()
	case *ssa.Slice:
		// a full reslice x[:] of an array pointer names the array
		if x.Low == nil && x.High == nil {
			return collKey(x.X)
		}
	}
	return "v:" + v.Name()
}

// keyFields lists the field elements a key depends on (a write to one of them invalidates facts about the key).
func keyFields(key string) []string {
	var out []string
	for _, p := range strings.Split(key, ".")[1:] {
		out = append(out, p)
	}
	return out
}

type pfFacts struct {
	ctx    *Ctx                         // for interprocedural bounds (parameters, results of module helpers)
	lenNE  map[string][]int64           // len(key) ≠ c
	origin map[string][]*ssa.BasicBlock // blocks whose branches established facts about key
	cur    *ssa.BasicBlock
	lenGE  map[string][]term   // len(key) ≥ term
	lenLE  map[string][]term   // len(key) ≤ term
	ub     map[ssa.Value]int64 // value ≤ c
	lb     map[ssa.Value]int64 // value ≥ c
	notes  []string
	// lenGEKey[k][k2]: len(k) ≥ len(k2) (HasPrefix / HasSuffix(k, k2) answered true; strings are immutable)
	lenGEKey map[string]map[string]bool
}

func newPFFacts() *pfFacts {
	return &pfFacts{lenNE: map[string][]int64{}, origin: map[string][]*ssa.BasicBlock{}, lenGE: map[string][]term{}, lenLE: map[string][]term{}, ub: map[ssa.Value]int64{}, lb: map[ssa.Value]int64{}}
}

func (p *pfFacts) addUB(v ssa.Value, c int64) {
	if old, ok := p.ub[v]; !ok || c < old {
		p.ub[v] = c
	}
}
func (p *pfFacts) addLB(v ssa.Value, c int64) {
	if old, ok := p.lb[v]; !ok || c > old {
		p.lb[v] = c
	}
}

func (p *pfFacts) note(key string) {
	if p.cur != nil {
		p.origin[key] = append(p.origin[key], p.cur)
	}
}

// relation a REL b  (REL: < <= == != >= >) normalised from a condition and its truth value.
func relOf(op token.Token, val bool) (token.Token, bool) {
	if val {
		switch op {
		case token.LSS, token.LEQ, token.GTR, token.GEQ, token.EQL, token.NEQ:
			return op, true
		}
		return op, false
	}
	switch op {
	case token.LSS:
		return token.GEQ, true
	case token.LEQ:
		return token.GTR, true
	case token.GTR:
		return token.LEQ, true
	case token.GEQ:
		return token.LSS, true
	case token.EQL:
		return token.NEQ, true
	case token.NEQ:
		return token.EQL, true
	}
	return op, false
}

func mirror(op token.Token) token.Token {
	switch op {
	case token.LSS:
		return token.GTR
	case token.LEQ:
		return token.GEQ
	case token.GTR:
		return token.LSS
	case token.GEQ:
		return token.LEQ
	}
	return op
}

// addRel records  a REL b  for integer values.
func (p *pfFacts) addRel(a ssa.Value, rel token.Token, b ssa.Value) {
	ta, tb := termOf(a), termOf(b)
	// len on the left
	for pass := 0; pass < 2; pass++ {
		if ta.base != nil {
			if key, ok := lenKey(ta.base); ok {
				// len(K) + ta.k REL tb   =>   len(K) REL tb - ta.k
				t := term{tb.base, tb.k - ta.k}
				if _, isLen := lenKey(tb.base); !(tb.base != nil && isLen) {
					p.note(key)
					if rel == token.NEQ && t.base == nil {
						p.lenNE[key] = append(p.lenNE[key], t.k)
					}
					switch rel {
					case token.GEQ, token.EQL:
						p.lenGE[key] = append(p.lenGE[key], t)
					case token.GTR:
						p.lenGE[key] = append(p.lenGE[key], term{t.base, t.k + 1})
					case token.NEQ:
						if t.base == nil && t.k == 0 {
							p.lenGE[key] = append(p.lenGE[key], term{nil, 1})
						}
					}
					switch rel {
					case token.LEQ, token.EQL:
						p.lenLE[key] = append(p.lenLE[key], t)
					case token.LSS:
						p.lenLE[key] = append(p.lenLE[key], term{t.base, t.k - 1})
					}
				}
			}
		}
		ta, tb = tb, ta
		rel = mirror(rel)
	}
	ta, tb = termOf(a), termOf(b)
	// value bounds against constants
	if ta.base != nil && tb.base == nil {
		c := tb.k - ta.k
		switch rel {
		case token.LSS:
			p.addUB(ta.base, c-1)
		case token.LEQ:
			p.addUB(ta.base, c)
		case token.EQL:
			p.addUB(ta.base, c)
			p.addLB(ta.base, c)
		case token.GTR:
			p.addLB(ta.base, c+1)
		case token.GEQ:
			p.addLB(ta.base, c)
		}
	}
	if tb.base != nil && ta.base == nil {
		c := ta.k - tb.k
		switch mirror(rel) {
		case token.LSS:
			p.addUB(tb.base, c-1)
		case token.LEQ:
			p.addUB(tb.base, c)
		case token.EQL:
			p.addUB(tb.base, c)
			p.addLB(tb.base, c)
		case token.GTR:
			p.addLB(tb.base, c+1)
		case token.GEQ:
			p.addLB(tb.base, c)
		}
	}
}

// predicate summaries: facts implied by a module predicate returning true / false, in terms of its parameters.
type predFacts struct {
	whenTrue, whenFalse []condFact
}

func predicateSummary(c *Ctx, f *ssa.Function) *predFacts {
	return c.Memo("predsum:"+f.String(), func() interface{} {
		if f == nil || len(f.Blocks) == 0 || f.Signature.Results().Len() != 1 || !types.Identical(f.Signature.Results().At(0).Type(), types.Typ[types.Bool]) {
			return (*predFacts)(nil)
		}
		if len(f.Blocks) > 24 {
			return (*predFacts)(nil)
		}
		ff := Facts(c, f)
		var trues, falses [][]condFact
		for _, b := range f.Blocks {
			r, ok := b.Instrs[len(b.Instrs)-1].(*ssa.Return)
			if !ok || !ff.Reachable(b) {
				continue
			}
			base := ff.At(b)
			var expand func(v ssa.Value, facts []condFact, depth int)
			expand = func(v ssa.Value, facts []condFact, depth int) {
				if k, ok := constBool(v); ok {
					if k {
						trues = append(trues, facts)
					} else {
						falses = append(falses, facts)
					}
					return
				}
				if phi, ok := v.(*ssa.Phi); ok && depth < 3 {
					for i, e := range phi.Edges {
						pf := append(append([]condFact(nil), facts...), ff.At(phi.Block().Preds[i])...)
						expand(e, pf, depth+1)
					}
					return
				}
				// result is a condition value itself
				trues = append(trues, append(append([]condFact(nil), facts...), normFact(v, true)...))
				falses = append(falses, append(append([]condFact(nil), facts...), normFact(v, false)...))
			}
			expand(r.Results[0], base, 0)
		}
		common := func(sets [][]condFact) []condFact {
			if len(sets) == 0 {
				return nil
			}
			var out []condFact
			for _, f0 := range sets[0] {
				in := true
				for _, s := range sets[1:] {
					found := false
					for _, f1 := range s {
						if f1 == f0 {
							found = true
						}
					}
					if !found {
						in = false
					}
				}
				if in {
					out = append(out, f0)
				}
			}
			return out
		}
		return &predFacts{whenTrue: common(trues), whenFalse: common(falses)}
	}).(*predFacts)
}

// substKey rewrites a callee key (rooted at a parameter) into the caller's key for the actual argument.
func substKey(key string, callee *ssa.Function, args []ssa.Value) (string, bool) {
	for i, p := range callee.Params {
		root := "P:" + p.Name()
		if key == root || strings.HasPrefix(key, root+".") {
			if i >= len(args) {
				return "", false
			}
			return collKey(args[i]) + strings.TrimPrefix(key, root), true
		}
	}
	return "", false
}

// absorb turns branch facts into length / bound facts.
func (p *pfFacts) absorb(c *Ctx, facts []condFact, depth int) {
	for _, f := range facts {
		if depth == 0 {
			p.cur = f.Origin
		}
		switch x := f.Cond.(type) {
		case *ssa.BinOp:
			rel, ok := relOf(x.Op, f.Val)
			if !ok {
				continue
			}
			if isIntType(x.X.Type()) {
				p.addRel(x.X, rel, x.Y)
				continue
			}
			// string emptiness
			if isStringy(x.X.Type()) {
				for _, pr := range [][2]ssa.Value{{x.X, x.Y}, {x.Y, x.X}} {
					if s, ok := constString(pr[1]); ok {
						p.note(collKey(pr[0]))
						switch {
						case s == "" && rel == token.NEQ:
							p.lenGE[collKey(pr[0])] = append(p.lenGE[collKey(pr[0])], term{nil, 1})
						case rel == token.EQL:
							p.lenGE[collKey(pr[0])] = append(p.lenGE[collKey(pr[0])], term{nil, int64(len(s))})
							p.lenLE[collKey(pr[0])] = append(p.lenLE[collKey(pr[0])], term{nil, int64(len(s))})
						}
					}
				}
			}
		case *ssa.Call:
			cl := x.Common().StaticCallee()
			if cl == nil {
				continue
			}
			switch cl.String() {
			case "strings.HasPrefix", "strings.HasSuffix":
				if lit, ok := constString(x.Common().Args[1]); ok && f.Val {
					k := collKey(x.Common().Args[0])
					p.note(k)
					p.lenGE[k] = append(p.lenGE[k], term{nil, int64(len(lit))})
				} else if f.Val {
					k, k2 := collKey(x.Common().Args[0]), collKey(x.Common().Args[1])
					p.note(k)
					if p.lenGEKey == nil {
						p.lenGEKey = map[string]map[string]bool{}
					}
					if p.lenGEKey[k] == nil {
						p.lenGEKey[k] = map[string]bool{}
					}
					p.lenGEKey[k][k2] = true
				}
				continue
			}
			if !c.P.InModule(cl) || depth > 1 {
				continue
			}
			ps := predicateSummary(c, cl)
			if ps == nil {
				continue
			}
			inner := ps.whenFalse
			if f.Val {
				inner = ps.whenTrue
			}
			sub := newPFFacts()
			sub.absorb(c, inner, depth+1)
			// a term over one of the predicate's parameters becomes a term over the argument
			mapTerm := func(t term) (term, bool) {
				if t.base == nil {
					return t, true
				}
				if pp, ok := t.base.(*ssa.Parameter); ok && pp.Parent() == cl {
					for i, q := range cl.Params {
						if q == pp && i < len(x.Common().Args) {
							at := termOf(x.Common().Args[i])
							return term{at.base, at.k + t.k}, true
						}
					}
				}
				return t, false
			}
			for k, ts := range sub.lenGE {
				if nk, ok := substKey(k, cl, x.Common().Args); ok {
					for _, t := range ts {
						if mt, ok := mapTerm(t); ok {
							p.note(nk)
							p.lenGE[nk] = append(p.lenGE[nk], mt)
						}
					}
				}
				// the predicate was handed the rest x[lo:] of a string: len(x[lo:]) ≥ k means len(x) ≥ lo + k
				if pk := strings.TrimPrefix(k, "P:"); pk != k {
					for i, q := range cl.Params {
						if q.Name() != pk || i >= len(x.Common().Args) {
							continue
						}
						sl, isSl := x.Common().Args[i].(*ssa.Slice)
						if !isSl || sl.High != nil || sl.Low == nil || !isStringType(sl.X.Type()) {
							continue
						}
						lo := termOf(sl.Low)
						xk := collKey(sl.X)
						for _, t := range ts {
							if t.base == nil {
								p.note(xk)
								p.lenGE[xk] = append(p.lenGE[xk], term{lo.base, lo.k + t.k})
							}
						}
					}
				}
			}
			for k, ns := range sub.lenNE {
				if nk, ok := substKey(k, cl, x.Common().Args); ok {
					p.note(nk)
					p.lenNE[nk] = append(p.lenNE[nk], ns...)
				}
			}
			for k, ts := range sub.lenLE {
				if nk, ok := substKey(k, cl, x.Common().Args); ok {
					for _, t := range ts {
						if t.base == nil {
							p.lenLE[nk] = append(p.lenLE[nk], t)
						}
					}
				}
			}
		}
	}
}

// lowerBound computes a constant lower bound of an integer value by structural induction (phis that only grow).
func lowerBound(v ssa.Value, facts *pfFacts, seen map[ssa.Value]bool) (int64, bool) {
	if seen[v] {
		return 0, false
	}
	if facts != nil {
		if c, ok := facts.lb[v]; ok {
			return c, true
		}
	}
	seen[v] = true
	defer delete(seen, v)
	switch x := v.(type) {
	case *ssa.Const:
		return constInt(x)
	case *ssa.Parameter:
		if facts != nil && facts.ctx != nil && isIntType(x.Type()) {
			return paramLowerBound(facts.ctx, x)
		}
	case *ssa.Convert:
		if isIntType(x.Type()) && isIntType(x.X.Type()) {
			if b, ok := x.X.Type().Underlying().(*types.Basic); ok && b.Info()&types.IsUnsigned != 0 {
				return 0, true
			}
			return lowerBound(x.X, facts, seen)
		}
		// conversion from an unsigned/byte source
		return 0, false
	case *ssa.Call:
		if _, ok := lenKey(x); ok {
			return 0, true
		}
		if lo, _, ok := apiRange(x); ok {
			return lo, true
		}
		if lo, _, ok := moduleRange(x, 0); ok {
			return lo, true
		}
		if _, ok := indexAPI(x); ok {
			return -1, true
		}
		if facts != nil && facts.ctx != nil {
			if _, ok := indexLikeResult(facts.ctx, x); ok {
				return -1, true
			}
		}
		if args, ok := minLikeArgs(x); ok {
			best, have := int64(0), false
			for _, a := range args {
				l, ok := lowerBound(a, facts, seen)
				if !ok {
					return 0, false
				}
				if !have || l < best {
					best, have = l, true
				}
			}
			return best, have
		}
	case *ssa.BinOp:
		if c, ok := constInt(x.Y); ok {
			if l, ok := lowerBound(x.X, facts, seen); ok {
				switch x.Op {
				case token.ADD:
					return l + c, true
				case token.SUB:
					return l - c, true
				}
			}
		}
		if x.Op == token.ADD {
			l1, ok1 := lowerBound(x.X, facts, seen)
			l2, ok2 := lowerBound(x.Y, facts, seen)
			if ok1 && ok2 {
				return l1 + l2, true
			}
		}
		if x.Op == token.MUL {
			l1, ok1 := lowerBound(x.X, facts, seen)
			l2, ok2 := lowerBound(x.Y, facts, seen)
			if ok1 && ok2 && l1 >= 0 && l2 >= 0 {
				return l1 * l2, true
			}
		}
		if x.Op == token.SHR || x.Op == token.AND {
			return 0, isUnsignedOrNonNeg(x.X, facts, seen)
		}
	case *ssa.Phi:
		// min over entry edges; edges that are (phi + positive const) keep the bound
		min := int64(0)
		have := false
		for i, e := range x.Edges {
			t := termOf(e)
			if t.base == ssa.Value(x) && t.k >= 0 {
				continue
			}
			// a decrement taken only where the counter is known to be large enough: phi - k under phi ≥ k stays ≥ 0
			if t.base == ssa.Value(x) && t.k < 0 && facts != nil && facts.ctx != nil {
				pf := newPFFacts()
				pf.absorb(facts.ctx, Facts(facts.ctx, x.Parent()).At(x.Block().Preds[i]), 0)
				if lb, ok := pf.lb[ssa.Value(x)]; ok && lb >= -t.k {
					if !have || 0 < min {
						if !have {
							min, have = 0, true
						} else if min > 0 {
							min = 0
						}
					}
					continue
				}
			}
			// an increment of a value derived from the phi through other phis
			l, ok := lowerBound(e, facts, seen)
			if !ok {
				if derivedIncrement(e, x, 0) {
					continue
				}
				return 0, false
			}
			if !have || l < min {
				min, have = l, true
			}
		}
		return min, have
	case *ssa.Extract:
		// index key of a range over string / slice: Next(...)#1 is a valid index, hence ≥ 0
		if nx, ok := x.Tuple.(*ssa.Next); ok && x.Index == 1 {
			_ = nx
			return 0, true
		}
	}
	if b, ok := v.Type().Underlying().(*types.Basic); ok && b.Info()&types.IsUnsigned != 0 {
		return 0, true
	}
	return 0, false
}

func isUnsignedOrNonNeg(v ssa.Value, facts *pfFacts, seen map[ssa.Value]bool) bool {
	if b, ok := v.Type().Underlying().(*types.Basic); ok && b.Info()&types.IsUnsigned != 0 {
		return true
	}
	l, ok := lowerBound(v, facts, seen)
	return ok && l >= 0
}

// derivedIncrement: e == phi + k (k ≥ 0) possibly through one more phi of the same loop nest.
func derivedIncrement(e ssa.Value, phi *ssa.Phi, depth int) bool {
	if depth > 3 {
		return false
	}
	t := termOf(e)
	if t.base == ssa.Value(phi) && t.k >= 0 {
		return true
	}
	if p2, ok := t.base.(*ssa.Phi); ok && t.k >= 0 && p2 != phi {
		for _, e2 := range p2.Edges {
			if e2 == ssa.Value(p2) {
				continue
			}
			if !derivedIncrement(e2, phi, depth+1) && !derivedIncrement(e2, p2, depth+1) {
				return false
			}
		}
		return true
	}
	return false
}

// lenAtLeast: is len(key) ≥ want provable?
func (p *pfFacts) lenAtLeast(key string, want term) bool {
	if want.base == nil && want.k <= 0 {
		return true
	}
	if want.base == nil {
		// best constant lower bound, pushed up by disequalities
		best := int64(0)
		for _, t := range p.lenGE[key] {
			if t.base == nil && t.k > best {
				best = t.k
			}
		}
		for changed := true; changed; {
			changed = false
			for _, n := range p.lenNE[key] {
				if n == best {
					best++
					changed = true
				}
			}
		}
		if best >= want.k {
			return true
		}
	}
	// want = phi + k where the phi only shrinks from len(key) + k0
	if phi, ok := want.base.(*ssa.Phi); ok {
		if k0, ok := phiUpperLenC(p.ctx, phi, key); ok && want.k+k0 <= 0 {
			return true
		}
	}
	for _, t := range p.lenGE[key] {
		if t.base == want.base && t.k >= want.k {
			return true
		}
	}
	// want = len(key') + k with k ≤ 0 and same key
	if want.base != nil {
		if lk, ok := lenKey(want.base); ok && lk == key && want.k <= 0 {
			return true
		}
		// … or a key' that is a prefix / suffix of key
		if lk, ok := lenKey(want.base); ok && p.lenGEKey[key][lk] && want.k <= 0 {
			return true
		}
		// want.base ≤ c known
		if c, ok := p.ub[want.base]; ok {
			return p.lenAtLeast(key, term{nil, c + want.k})
		}
	}
	return false
}

// phiUpperLen: phi ≤ len(key) + k0 by induction (entry edges are len(key)+k, loop edges only decrease).
func phiUpperLen(phi *ssa.Phi, key string) (int64, bool) {
	return phiUpperLenC(nil, phi, key)
}

func phiUpperLenC(c *Ctx, phi *ssa.Phi, key string) (int64, bool) {
	best := int64(0)
	have := false
	guarded := false
	for i, e := range phi.Edges {
		t := termOf(e)
		if t.base == ssa.Value(phi) {
			if t.k > 0 {
				// an increment taken only where phi + k ≤ len(key) is known keeps phi ≤ len(key)
				if c == nil {
					return 0, false
				}
				pf := newPFFacts()
				pf.absorb(c, Facts(c, phi.Parent()).At(phi.Block().Preds[i]), 0)
				ok := false
				for _, g := range pf.lenGE[key] {
					if g.base == ssa.Value(phi) && g.k >= t.k {
						ok = true
					}
				}
				if !ok {
					return 0, false
				}
				guarded = true
			}
			continue
		}
		if c != nil && t.base == nil {
			// a constant start: ≤ len(key) + (k - 0) only if k ≤ 0 … a non-negative constant needs len ≥ k, which the guard
			// of the increments does not give at entry: accept 0 only
			if t.k == 0 {
				if !have || 0 > best {
					// 0 ≤ len always: contributes len + (-len) ≤ len + 0
					have = true
					if best < 0 {
						best = 0
					}
				}
				continue
			}
			return 0, false
		}
		lk, ok := lenKey(t.base)
		if t.base == nil || !ok || lk != key {
			return 0, false
		}
		if !have || t.k > best {
			best, have = t.k, true
		}
	}
	_ = guarded
	return best, have
}

// indexSite is one index / slice expression of module code.
type indexSite struct {
	Fn    *ssa.Function
	Ins   ssa.Instruction
	X     ssa.Value
	Index ssa.Value // nil for slices
	Low   ssa.Value
	High  ssa.Value
	Kind  string // index | slice
	Expr  string // source text (normalised), "" for compiler-generated
	Pos   token.Pos
}

// exprIndex maps '[' positions to source expressions for every function of the module.
func exprIndex(c *Ctx) map[token.Pos]string {
	return c.Memo("exprIndex", func() interface{} {
		m := map[token.Pos]string{}
		for _, pk := range c.P.Roots {
			for _, f := range pk.Syntax {
				ast.Inspect(f, func(n ast.Node) bool {
					switch x := n.(type) {
					case *ast.IndexExpr:
						m[x.Lbrack] = types.ExprString(x)
					case *ast.SliceExpr:
						m[x.Lbrack] = types.ExprString(x)
					}
					return true
				})
			}
		}
		return m
	}).(map[token.Pos]string)
}

func collectIndexSites(c *Ctx) []*indexSite {
	idx := exprIndex(c)
	var out []*indexSite
	for _, f := range c.P.ModFns {
		if isInitializer(f) {
			continue
		}
		for _, b := range f.Blocks {
			for _, ins := range b.Instrs {
				var s *indexSite
				switch x := ins.(type) {
				case *ssa.IndexAddr:
					s = &indexSite{Fn: f, Ins: x, X: x.X, Index: x.Index, Kind: "index", Pos: x.Pos()}
				case *ssa.Index:
					s = &indexSite{Fn: f, Ins: x, X: x.X, Index: x.Index, Kind: "index", Pos: x.Pos()}
				case *ssa.Lookup:
					if _, isMap := x.X.Type().Underlying().(*types.Map); isMap {
						continue
					}
					s = &indexSite{Fn: f, Ins: x, X: x.X, Index: x.Index, Kind: "index", Pos: x.Pos()}
				case *ssa.Slice:
					s = &indexSite{Fn: f, Ins: x, X: x.X, Low: x.Low, High: x.High, Kind: "slice", Pos: x.Pos()}
				default:
					continue
				}
				s.Expr = idx[s.Pos]
				out = append(out, s)
			}
		}
	}
	sort.SliceStable(out, func(i, j int) bool { return out[i].Pos < out[j].Pos })
	return out
}

// staticLen returns the constant length of a collection value when it has one (array, make with constant, constant string).
func staticLen(v ssa.Value) (int64, bool) {
	t := v.Type().Underlying()
	if p, ok := t.(*types.Pointer); ok {
		t = p.Elem().Underlying()
	}
	if a, ok := t.(*types.Array); ok {
		return a.Len(), true
	}
	switch x := v.(type) {
	case *ssa.Const:
		if s, ok := constString(x); ok {
			return int64(len(s)), true
		}
	case *ssa.MakeSlice:
		return constInt(x.Len)
	case *ssa.Slice:
		if x.Low == nil && x.High == nil {
			return staticLen(x.X)
		}
		if x.Low == nil && x.High != nil {
			if h, ok := constInt(x.High); ok {
				if n, ok := staticLen(x.X); ok && h <= n {
					return h, true
				}
			}
		}
	}
	return 0, false
}

// upperBound: a constant c with v ≤ c.
func upperBound(v ssa.Value, facts *pfFacts) (int64, bool) {
	t := termOf(v)
	if t.base == nil {
		return t.k, true
	}
	if c, ok := facts.ub[t.base]; ok {
		return c + t.k, true
	}
	switch x := t.base.(type) {
	case *ssa.Phi:
		// the largest bound among the edges (no edge may depend on the phi itself)
		best, have := int64(0), false
		for _, e := range x.Edges {
			if te := termOf(e); te.base == ssa.Value(x) {
				return 0, false
			}
			if _, isPhi := termOf(e).base.(*ssa.Phi); isPhi {
				return 0, false
			}
			ub, ok := upperBound(e, facts)
			if !ok {
				return 0, false
			}
			if !have || ub > best {
				best, have = ub, true
			}
		}
		if have {
			return best + t.k, true
		}
	case *ssa.Call:
		if _, hi, ok := apiRange(x); ok {
			return hi + t.k, true
		}
		if _, hi, ok := moduleRange(x, 0); ok {
			return hi + t.k, true
		}
		if args, ok := minLikeArgs(x); ok {
			best, have := int64(0), false
			for _, a := range args {
				if ub, ok := upperBound(a, facts); ok && (!have || ub < best) {
					best, have = ub, true
				}
			}
			if have {
				return best + t.k, true
			}
		}
	case *ssa.BinOp:
		if c, ok := constInt(x.Y); ok {
			switch x.Op {
			case token.AND:
				if c >= 0 {
					return c + t.k, true
				}
			case token.SHR:
				if b, ok := x.X.Type().Underlying().(*types.Basic); ok && (b.Kind() == types.Uint8 || b.Kind() == types.Byte) && c >= 0 && c < 8 {
					return (255 >> uint(c)) + t.k, true
				}
			case token.REM:
				if c > 0 {
					return c - 1 + t.k, true
				}
			}
		}
	}
	return 0, false
}

// writesBetween: may a field the key depends on be written on some path from the facts' origin to the use?
// Conservative: any store to (or call mutating) such a field anywhere in the function, outside the instruction itself,
// that can reach the use block.
func writesBetween(c *Ctx, f *ssa.Function, key string, use ssa.Instruction, origins []*ssa.BasicBlock) (bool, string) {
	fields := keyFields(key)
	if len(fields) == 0 {
		return false, ""
	}
	e := BuildEff(c)
	ff := Facts(c, f)
	// the earliest guard: the origin that dominates all others
	var earliest *ssa.BasicBlock
	for _, o := range origins {
		if earliest == nil || ff.Dominates(o, earliest) {
			earliest = o
		}
	}
	// blocks on paths earliest → use that do not pass the guard again (passing it re-establishes the fact)
	reach := map[*ssa.BasicBlock]bool{use.Block(): true}
	work := []*ssa.BasicBlock{use.Block()}
	for len(work) > 0 {
		b := work[len(work)-1]
		work = work[:len(work)-1]
		if b == earliest {
			continue
		}
		for _, p := range b.Preds {
			if !reach[p] {
				reach[p] = true
				work = append(work, p)
			}
		}
	}
	inRegion := func(b *ssa.BasicBlock) bool {
		if !reach[b] {
			return false
		}
		if earliest == nil {
			return true
		}
		return b != earliest && ff.Dominates(earliest, b)
	}
	for _, b := range f.Blocks {
		if !inRegion(b) {
			continue
		}
		for _, ins := range b.Instrs {
			if ins == use {
				break
			}
			switch x := ins.(type) {
			case *ssa.Store:
				if fa, ok := x.Addr.(*ssa.FieldAddr); ok {
					el := fieldElem(fa.X.Type(), fa.Field)
					for _, fl := range fields {
						if fl == el {
							return true, fmt.Sprintf("%s is written at %s", el, c.P.Pos(x.Pos()))
						}
					}
				}
			case ssa.CallInstruction:
				for _, callee := range c.P.Callees(f, x) {
					sum := e.Sum(callee)
					if sum == nil {
						continue
					}
					for m := range sum.Mut {
						for _, el := range pathElems(m) {
							for _, fl := range fields {
								if fl == el {
									return true, fmt.Sprintf("%s may be written by %s at %s", el, callee.Name(), c.P.Pos(x.Pos()))
								}
							}
						}
					}
				}
			}
		}
	}
	return false, ""
}

func reachesBlock(f *ssa.Function, target *ssa.BasicBlock) map[*ssa.BasicBlock]bool {
	reach := map[*ssa.BasicBlock]bool{target: true}
	work := []*ssa.BasicBlock{target}
	for len(work) > 0 {
		b := work[len(work)-1]
		work = work[:len(work)-1]
		for _, p := range b.Preds {
			if !reach[p] {
				reach[p] = true
				work = append(work, p)
			}
		}
	}
	return reach
}

// dischargeIndex tries every idiom; returns the class and the deciding fact.
func dischargeIndex(c *Ctx, s *indexSite) (string, string, bool) {
	cls, fact, ok := dischargeIndex1(c, s)
	if ok {
		return cls, fact, ok
	}
	// an operand chosen between a few values (`end := len(s); if … { end-- }`): within bounds if each choice is, under
	// the facts that hold at the expression whatever the choice was
	if cls2, fact2, ok2 := dischargeChoices(c, s, 0); ok2 {
		return cls2, fact2, true
	}
	return cls, fact, ok
}

func dischargeChoices(c *Ctx, s *indexSite, depth int) (string, string, bool) {
	if depth > 2 {
		return "", "", false
	}
	for _, slot := range []*ssa.Value{&s.Index, &s.Low, &s.High} {
		phi, ok := (*slot).(*ssa.Phi)
		if !ok || isLoopHeaderPhi(phi) || len(phi.Edges) > 4 {
			continue
		}
		cls, fact := "", ""
		all := true
		for _, e := range phi.Edges {
			cp := *s
			switch slot {
			case &s.Index:
				cp.Index = e
			case &s.Low:
				cp.Low = e
			case &s.High:
				cp.High = e
			}
			c1, f1, ok1 := dischargeIndex1(c, &cp)
			if !ok1 {
				c1, f1, ok1 = dischargeChoices(c, &cp, depth+1)
			}
			if !ok1 {
				all = false
				break
			}
			cls, fact = c1, f1
		}
		if all && len(phi.Edges) > 0 {
			name := phi.Comment
			if name == "" {
				name = phi.Name()
			}
			return cls, fact + fmt.Sprintf(" (for each of the %d values %s can have)", len(phi.Edges), name), true
		}
	}
	return "", "", false
}

func dischargeIndex1(c *Ctx, s *indexSite) (string, string, bool) {
	cls, fact, ok := dischargeIndexWith(c, s, 0)
	if ok {
		return cls, fact, ok
	}
	// what every caller guarantees about the length of the collection (unexported, statically called functions only)
	if n, why := inheritedLen(c, s.Fn, s, 0); n > 0 {
		if cls2, fact2, ok2 := dischargeIndexWith(c, s, n); ok2 {
			return cls2, fact2 + " (" + why + ")", true
		}
	}
	// … or about the length relative to an int parameter (every caller passes an index below the length)
	if ts := inheritedRel(c, s.Fn, s); len(ts) > 0 {
		inheritedTerms = ts
		cls2, fact2, ok2 := dischargeIndexWith(c, s, 0)
		inheritedTerms = nil
		if ok2 {
			return cls2, fact2 + " (length relative to a parameter, at every call site)", true
		}
	}
	return cls, fact, ok
}

var inheritedTerms []term

// inheritedRel: terms q + k (q an int parameter of f) such that len(collection) ≥ arg_q + k holds at every call site
// of f, for a collection that is itself a parameter (strings and slices handed in are not resized by the callee).
func inheritedRel(c *Ctx, f *ssa.Function, s *indexSite) []term {
	key := collKey(s.X)
	ix := sitesOf(c)
	if f.Parent() != nil || ix.taken[f] || len(ix.sites[f]) == 0 || (f.Object() != nil && f.Object().Exported()) {
		return nil
	}
	ci := -1
	suffix := "" // the collection is a field of (an object reached from) the parameter: ".Type:field…"
	for i, p := range f.Params {
		if key == "P:"+p.Name() {
			ci = i
		} else if strings.HasPrefix(key, "P:"+p.Name()+".") {
			ci, suffix = i, strings.TrimPrefix(key, "P:"+p.Name())
		}
	}
	if ci < 0 {
		return nil
	}
	if suffix != "" {
		// the callee must not have changed the field before the expression
		if w, _ := writesBetween(c, f, key, s.Ins, []*ssa.BasicBlock{f.Blocks[0]}); w {
			return nil
		}
	}
	var out []term
	for qi, q := range f.Params {
		if !isIntType(q.Type()) {
			continue
		}
		best, have, fail := int64(0), false, false
		for _, cs := range ix.sites[f] {
			ff := Facts(c, cs.Fn)
			if !ff.Reachable(cs.Call.Block()) {
				continue
			}
			args := cs.Call.Common().Args
			if ci >= len(args) || qi >= len(args) {
				fail = true
				break
			}
			facts := newPFFacts()
			facts.ctx = c
			facts.absorb(c, ff.At(cs.Call.Block()), 0)
			ckey := collKey(args[ci]) + suffix
			at := termOf(args[qi])
			if os.Getenv("WUDEBUG") == "rel" {
				fmt.Fprintf(os.Stderr, "inheritedRel %s key=%s ckey=%s at=%v lenGE=%v\n", f.Name(), key, ckey, at, facts.lenGE)
			}
			k, ok := int64(0), false
			for _, t := range facts.lenGE[ckey] {
				if t.base == at.base && at.base != nil {
					if d := t.k - at.k; !ok || d > k {
						k, ok = d, true
					}
				}
			}
			// the argument is what a search in the very collection answered: below its length (-1 included)
			if call, isCall := at.base.(*ssa.Call); isCall && !ok {
				if subj, ok2 := indexLikeResult(c, call); ok2 && suffix == "" && subj == args[ci] {
					k, ok = 1-at.k, true
				}
				if k2, ok2 := indexLikeResultKey(c, call); ok2 && k2 == ckey {
					if w, _ := writesBetween(c, cs.Fn, ckey, cs.Call, []*ssa.BasicBlock{call.Block()}); !w {
						k, ok = 1-at.k, true
					}
				}
			}
			// the argument is the key of a range loop over the very collection handed in: a valid index
			if ex, isEx := args[qi].(*ssa.Extract); isEx && ex.Index == 0 && !ok {
				if nx, isNx := ex.Tuple.(*ssa.Next); isNx {
					if rg, isRg := nx.Iter.(*ssa.Range); isRg && rg.X == args[ci] {
						k, ok = 1, true
					}
				}
			}
			if phi, isPhi := args[qi].(*ssa.Phi); isPhi && !ok && strings.HasPrefix(phi.Block().Comment, "rangeindex") {
				// the index variable of `for i := range xs` / `for i, x := range xs` over a slice
				if lenOfRangeIndex(phi) == args[ci] {
					k, ok = 1, true
				}
			}
			// a constant argument against the best constant lower bound of the length
			if at.base == nil && !ok {
				bestLen := int64(0)
				for _, t := range facts.lenGE[ckey] {
					if t.base == nil && t.k > bestLen {
						bestLen = t.k
					}
				}
				for changed := true; changed; {
					changed = false
					for _, n := range facts.lenNE[ckey] {
						if n == bestLen {
							bestLen++
							changed = true
						}
					}
				}
				if bestLen > at.k {
					k, ok = bestLen-at.k, true
				}
			}
			if !ok {
				fail = true
				break
			}
			if !have || k < best {
				best, have = k, true
			}
		}
		if !fail && have {
			out = append(out, term{q, best})
		}
	}
	return out
}

// lenOfRangeIndex: for the index phi of a range-over-slice loop, the slice whose length bounds it.
func lenOfRangeIndex(phi *ssa.Phi) ssa.Value {
	// rangeindex.loop: t = phi [-1, t+1]; if t+1 < len(xs) …  (go/ssa's lowering); find the comparison with len(xs)
	for _, r := range *phi.Referrers() {
		bo, ok := r.(*ssa.BinOp)
		if !ok || bo.Op != token.ADD {
			continue
		}
		for _, r2 := range *bo.Referrers() {
			cmp, ok := r2.(*ssa.BinOp)
			if !ok || cmp.Op != token.LSS || cmp.X != ssa.Value(bo) {
				continue
			}
			if a, isLen := lenArg(cmp.Y); isLen {
				return a
			}
		}
	}
	return nil
}

// typeInvariantLen: reviewed invariants attached to a type rather than to one expression (tables/index.json,
// "type_invariants"): for the named struct type, whenever its (only) bool field is known true — by a direct test or
// through a method that returns it — its (only) slice field has at least min_len elements.
func typeInvariantLen(c *Ctx, x ssa.Value, facts []condFact) (int64, string) {
	ld, ok := x.(*ssa.UnOp)
	if !ok || ld.Op != token.MUL {
		return 0, ""
	}
	fa, ok := ld.X.(*ssa.FieldAddr)
	if !ok {
		return 0, ""
	}
	tn := namedOf(fa.X.Type())
	for _, ti := range loadIndexTable(c).TypeInvariants {
		if ti.Type != tn {
			continue
		}
		st, ok := structOf(fa.X.Type())
		if !ok {
			continue
		}
		sliceIdx, boolIdx, ns, nb := -1, -1, 0, 0
		for i := 0; i < st.NumFields(); i++ {
			switch u := st.Field(i).Type().Underlying().(type) {
			case *types.Slice:
				sliceIdx = i
				ns++
			case *types.Basic:
				if u.Kind() == types.Bool {
					boolIdx = i
					nb++
				}
			}
		}
		if ns != 1 || nb != 1 || fa.Field != sliceIdx {
			continue
		}
		for _, f := range facts {
			if !f.Val {
				continue
			}
			// direct: *(&R.boolField)
			if l2, ok := f.Cond.(*ssa.UnOp); ok && l2.Op == token.MUL {
				if fb, ok := l2.X.(*ssa.FieldAddr); ok && fb.Field == boolIdx && fb.X == fa.X {
					return ti.MinLen, "type invariant of " + tn + ": " + ti.Invariant
				}
			}
			// through a method of the type that returns the field
			if call, ok := f.Cond.(*ssa.Call); ok {
				cl := call.Common().StaticCallee()
				if cl != nil && len(call.Common().Args) == 1 && sameObject(call.Common().Args[0], fa.X) && returnsOwnField(cl, boolIdx) {
					return ti.MinLen, "type invariant of " + tn + ": " + ti.Invariant
				}
			}
		}
	}
	return 0, ""
}

func structOf(t types.Type) (*types.Struct, bool) {
	if p, ok := t.Underlying().(*types.Pointer); ok {
		t = p.Elem()
	}
	st, ok := t.Underlying().(*types.Struct)
	return st, ok
}

// sameObject: the same SSA value, or two loads of the same field of the same object with no way to tell them apart.
func sameObject(a, b ssa.Value) bool {
	if a == b {
		return true
	}
	return sameLoad(a, b)
}

// returnsOwnField: a method whose every return is the load of the given field of its receiver.
func returnsOwnField(f *ssa.Function, field int) bool {
	if len(f.Blocks) == 0 || len(f.Params) != 1 {
		return false
	}
	n := 0
	for _, b := range f.Blocks {
		r, ok := b.Instrs[len(b.Instrs)-1].(*ssa.Return)
		if !ok {
			continue
		}
		n++
		if len(r.Results) != 1 {
			return false
		}
		ld, ok := r.Results[0].(*ssa.UnOp)
		if !ok || ld.Op != token.MUL {
			return false
		}
		fa, ok := ld.X.(*ssa.FieldAddr)
		if !ok || fa.Field != field || fa.X != ssa.Value(f.Params[0]) {
			return false
		}
	}
	return n > 0
}

// inheritedLen: the largest constant n such that len(collection) ≥ n holds at every call site of f (for a collection
// reached from a parameter), with no write to the collection's fields between the callers' guards and the use.
func inheritedLen(c *Ctx, f *ssa.Function, s *indexSite, depth int) (int64, string) {
	key := collKey(s.X)
	if !strings.HasPrefix(key, "P:") || depth > 1 {
		return 0, ""
	}
	ix := sitesOf(c)
	if f.Parent() != nil || ix.taken[f] || len(ix.sites[f]) == 0 || (f.Object() != nil && f.Object().Exported()) {
		return 0, ""
	}
	// nothing in f writes the fields between entry and the use
	if w, _ := writesBetween(c, f, key, s.Ins, []*ssa.BasicBlock{f.Blocks[0]}); w {
		return 0, ""
	}
	best := int64(-1)
	for _, cs := range ix.sites[f] {
		ff := Facts(c, cs.Fn)
		if !ff.Reachable(cs.Call.Block()) {
			continue
		}
		ckey, ok := substKey(key, f, cs.Call.Common().Args)
		if !ok {
			return 0, ""
		}
		at := ff.At(cs.Call.Block())
		facts := newPFFacts()
		facts.absorb(c, at, 0)
		n := int64(0)
		for _, t := range facts.lenGE[ckey] {
			if t.base == nil && t.k > n {
				n = t.k
			}
		}
		// the argument itself has a length known from its type or construction (a slice of a whole array)
		for i, p := range f.Params {
			if key == "P:"+p.Name() && i < len(cs.Call.Common().Args) {
				if sl, ok := staticLen(cs.Call.Common().Args[i]); ok && sl > n {
					n = sl
				}
			}
		}
		// the type invariant, seen from the caller
		for i, p := range f.Params {
			root := "P:" + p.Name()
			if strings.HasPrefix(key, root+".") && i < len(cs.Call.Common().Args) {
				if ld, ok := s.X.(*ssa.UnOp); ok {
					if fa, ok := ld.X.(*ssa.FieldAddr); ok && fa.X == ssa.Value(p) {
						if m, _ := typeInvariantLenFor(c, cs.Call.Common().Args[i], fa.Field, at); m > n {
							n = m
						}
					}
				}
			}
		}
		if n > 0 {
			if w, _ := writesBetween(c, cs.Fn, ckey, cs.Call, facts.origin[ckey]); w {
				n = 0
			}
		}
		if best < 0 || n < best {
			best = n
		}
	}
	if best <= 0 {
		return 0, ""
	}
	return best, fmt.Sprintf("len ≥ %d at each of the %d call sites", best, len(ix.sites[f]))
}

// typeInvariantLenFor: like typeInvariantLen, for the slice field `field` of the object `obj` (a pointer value).
func typeInvariantLenFor(c *Ctx, obj ssa.Value, field int, facts []condFact) (int64, string) {
	tn := namedOf(obj.Type())
	for _, ti := range loadIndexTable(c).TypeInvariants {
		if ti.Type != tn {
			continue
		}
		st, ok := structOf(obj.Type())
		if !ok {
			continue
		}
		boolIdx, nb, ns, sliceIdx := -1, 0, 0, -1
		for i := 0; i < st.NumFields(); i++ {
			switch u := st.Field(i).Type().Underlying().(type) {
			case *types.Slice:
				sliceIdx = i
				ns++
			case *types.Basic:
				if u.Kind() == types.Bool {
					boolIdx = i
					nb++
				}
			}
		}
		if ns != 1 || nb != 1 || sliceIdx != field {
			continue
		}
		for _, f := range facts {
			if !f.Val {
				continue
			}
			if l2, ok := f.Cond.(*ssa.UnOp); ok && l2.Op == token.MUL {
				if fb, ok := l2.X.(*ssa.FieldAddr); ok && fb.Field == boolIdx && sameObject(fb.X, obj) {
					return ti.MinLen, ti.Invariant
				}
			}
			if call, ok := f.Cond.(*ssa.Call); ok {
				cl := call.Common().StaticCallee()
				if cl != nil && len(call.Common().Args) == 1 && sameObject(call.Common().Args[0], obj) && returnsOwnField(cl, boolIdx) {
					return ti.MinLen, ti.Invariant
				}
			}
		}
	}
	return 0, ""
}

func dischargeIndexWith(c *Ctx, s *indexSite, inherited int64) (string, string, bool) {
	f := s.Fn
	ff := Facts(c, f)
	b := s.Ins.Block()
	if !ff.Reachable(b) {
		return "dead", "unreachable (after a failure-flagged handler returned)", true
	}
	if s.Expr == "" {
		return "I2", "compiler-generated element access of a range loop", true
	}
	if ok, why := aiCovered(c, s.Ins, nil); ok {
		return "I8", why, true
	}
	facts := newPFFacts()
	facts.ctx = c
	facts.absorb(c, ff.At(b), 0)
	key := collKey(s.X)
	if inherited > 0 {
		facts.lenGE[key] = append(facts.lenGE[key], term{nil, inherited})
	}
	facts.lenGE[key] = append(facts.lenGE[key], inheritedTerms...)
	// make([]T, len(y)): as long as y is a value of this function (not a field that can be re-assigned), what is known
	// about len(y) is known about the new slice
	if mk, ok := s.X.(*ssa.MakeSlice); ok {
		if y, ok := lenArg(mk.Len); ok {
			yk := collKey(y)
			if !strings.Contains(yk, ".") {
				facts.lenGE[key] = append(facts.lenGE[key], facts.lenGE[yk]...)
			}
		}
	}
	if n, _ := typeInvariantLen(c, s.X, ff.At(b)); n > 0 {
		facts.lenGE[key] = append(facts.lenGE[key], term{nil, n})
	}
	checkKey := func() (bool, string) {
		if w, why := writesBetween(c, f, key, s.Ins, facts.origin[key]); w {
			return false, why
		}
		return true, ""
	}
	// API facts about the collection
	apiMin := int64(0)
	if call, ok := s.X.(*ssa.Call); ok {
		if cl := call.Common().StaticCallee(); cl != nil {
			switch cl.String() {
			case "strings.Split", "strings.SplitN":
				if sep, ok := constString(call.Common().Args[1]); ok && sep != "" {
					apiMin = 1
				}
			}
		}
	}
	// net/url.PathUnescape / QueryUnescape of a non-empty text is non-empty (an escape yields one byte, anything else is
	// copied): the text here is a slice of constant positive width
	sx := s.X
	if ex, ok := sx.(*ssa.Extract); ok && ex.Index == 0 {
		sx = ex.Tuple
	}
	if call, ok := sx.(*ssa.Call); ok {
		if cl := call.Common().StaticCallee(); cl != nil && (cl.String() == "net/url.PathUnescape" || cl.String() == "net/url.QueryUnescape") && len(call.Common().Args) == 1 {
			if sl, ok := stripConv(call.Common().Args[0]).(*ssa.Slice); ok && sl.Low != nil && sl.High != nil {
				lo, hi := termOf(sl.Low), termOf(sl.High)
				if lo.base == hi.base && hi.k-lo.k >= 1 {
					// … when it did not fail: the error of the same call is known nil here
					for _, r := range *call.Referrers() {
						ev, isEx := r.(*ssa.Extract)
						if !isEx || ev.Index != 1 {
							continue
						}
						for _, fa := range ff.At(b) {
							bo, isBo := fa.Cond.(*ssa.BinOp)
							if !isBo || (bo.Op != token.EQL && bo.Op != token.NEQ) {
								continue
							}
							if (bo.X == ssa.Value(ev) && isNilConst(bo.Y)) || (bo.Y == ssa.Value(ev) && isNilConst(bo.X)) {
								if (bo.Op == token.EQL) == fa.Val {
									apiMin = 1
								}
							}
						}
					}
				}
			}
		}
	}
	if apiMin > 0 {
		facts.lenGE[key] = append(facts.lenGE[key], term{nil, apiMin})
	}
	slen, hasStatic := staticLen(s.X)
	nonNeg := func(v ssa.Value) bool {
		l, ok := lowerBound(v, facts, map[ssa.Value]bool{})
		return ok && l >= 0
	}
	lenGEDepth := 0
	var lenGERec func(want term) bool
	lenGE := func(want term) bool {
		// API fact: strings.Index*/LastIndex*(S, …) < len(S) for the very string being indexed (strings are immutable)
		if call, ok := want.base.(*ssa.Call); ok {
			if subj, ok := indexAPI(call); ok && subj == s.X && want.k <= 1 {
				return true
			}
			if subj, ok := indexLikeResult(c, call); ok && subj == s.X && want.k <= 1 {
				return true
			}
			if k2, ok := indexLikeResultKey(c, call); ok && k2 == key && want.k <= 1 {
				if w, _ := writesBetween(c, f, key, s.Ins, []*ssa.BasicBlock{call.Block()}); !w {
					return true
				}
			}
			// min(a, b) ≤ a and ≤ b: enough that one argument is within the length
			if args, ok := minLikeArgs(call); ok && lenGEDepth < 3 {
				lenGEDepth++
				defer func() { lenGEDepth-- }()
				for _, a := range args {
					ta := termOf(a)
					if lenGERec(term{ta.base, ta.k + want.k}) {
						return true
					}
				}
			}
		}
		// a merge of search results over the same subject (i := find(xs, 0); …; i = find(xs, i+1))
		if phi, ok := want.base.(*ssa.Phi); ok && want.k <= 1 && len(phi.Edges) > 0 {
			all := true
			for _, e := range phi.Edges {
				ec, isCall := e.(*ssa.Call)
				if !isCall {
					all = false
					break
				}
				subj, ok1 := indexAPI(ec)
				if !ok1 {
					subj, ok1 = indexLikeResult(c, ec)
				}
				if !ok1 {
					if k2, okk := indexLikeResultKey(c, ec); okk && k2 == key {
						if w, _ := writesBetween(c, f, key, s.Ins, []*ssa.BasicBlock{ec.Block()}); !w {
							continue
						}
					}
				}
				if !ok1 || subj != s.X {
					all = false
					break
				}
			}
			if all {
				return true
			}
		}
		// API fact: i := strings.Index(S, sep), i ≥ 0  ⇒  i + len(sep) ≤ len(S)
		if bo, ok := want.base.(*ssa.BinOp); ok && bo.Op == token.ADD && want.k <= 0 {
			for _, pr := range [][2]ssa.Value{{bo.X, bo.Y}, {bo.Y, bo.X}} {
				call, ok := pr[0].(*ssa.Call)
				if !ok {
					continue
				}
				subj, ok := indexAPI(call)
				if !ok || subj != s.X {
					continue
				}
				switch call.Common().StaticCallee().Name() {
				case "Index", "LastIndex":
				default:
					continue
				}
				if lx, ok := lenArg(pr[1]); ok && lx == call.Common().Args[1] {
					if l, ok := lowerBound(call, facts, map[ssa.Value]bool{}); ok && l >= 0 {
						return true
					}
				}
			}
		}
		if hasStatic {
			if want.base == nil {
				return slen >= want.k
			}
			if ub, ok := upperBound(want.base, facts); ok {
				return slen >= ub+want.k
			}
			return false
		}
		return facts.lenAtLeast(key, want)
	}
	lenGERec = lenGE
	switch s.Kind {
	case "index":
		// sort comparators: indices handed in by the sort package
		if f.Parent() != nil {
			if p, ok := s.Index.(*ssa.Parameter); ok && isSortComparator(f) {
				_ = p
				return "I4", "index supplied by the sort package to its comparator", true
			}
		}
		// … and the Less / Swap methods of a sort.Interface whose Len is the length of what they index
		if p, ok := s.Index.(*ssa.Parameter); ok && isSortInterfaceMethod(c, f, s.X) {
			_ = p
			return "I4", "index supplied by the sort package to Less / Swap of a sort.Interface whose Len() is the length of the indexed value", true
		}
		// key of a range over the same string/slice
		if ex, ok := s.Index.(*ssa.Extract); ok && ex.Index == 1 {
			if nx, ok := ex.Tuple.(*ssa.Next); ok {
				if rg, ok := nx.Iter.(*ssa.Range); ok && rg.X == s.X {
					return "I2", "key of the range loop over the same value", true
				}
			}
		}
		t := termOf(s.Index)
		need := term{t.base, t.k + 1}
		lowOK := false
		if t.base == nil {
			lowOK = t.k >= 0
		} else {
			lowOK = nonNeg(s.Index)
		}
		if !lowOK && t.base != nil {
			// index = len(K) + k with k < 0: non-negative iff len(K) ≥ -k
			if lk, ok := lenKey(t.base); ok && lk == key && t.k < 0 {
				if lenGE(term{nil, -t.k}) {
					if !hasStatic {
						if ok, why := checkKey(); !ok {
							return "", "length fact about " + key + " may be stale: " + why, false
						}
					}
					return "I3", fmt.Sprintf("len ≥ %d", -t.k), true
				}
				return "", fmt.Sprintf("no dominating fact len(%s) ≥ %d", key, -t.k), false
			}
		}
		if !lowOK {
			return "", "index not known to be non-negative", false
		}
		if lenGE(need) {
			if !hasStatic {
				if ok, why := checkKey(); !ok {
					return "", "length fact about " + key + " may be stale: " + why, false
				}
			}
			cls := "I3"
			if hasStatic {
				cls = "I1"
			}
			return cls, fmt.Sprintf("len ≥ %s", need), true
		}
		// counted by ≠: the index is a variable that starts at 0 and goes up by one on every way round its loop, each
		// of which stands under "index ≠ len(x)" — so index ≤ len(x) always, and here, under the same test, index < len(x)
		if phi, ok := s.Index.(*ssa.Phi); ok && isLoopHeaderPhi(phi) {
			neLen := func(bb *ssa.BasicBlock) bool {
				for _, fa := range ff.At(bb) {
					bo, ok := fa.Cond.(*ssa.BinOp)
					if !ok {
						continue
					}
					rel, okR := relOf(bo.Op, fa.Val)
					if !okR || rel != token.NEQ {
						continue
					}
					for _, pr := range [][2]ssa.Value{{bo.X, bo.Y}, {bo.Y, bo.X}} {
						if pr[0] != ssa.Value(phi) {
							continue
						}
						if a, isLen := lenArg(pr[1]); isLen && (a == s.X || sameValue(a, s.X)) {
							return true
						}
					}
				}
				return false
			}
			okShape := neLen(b)
			hdr := phi.Block()
			for i, e := range phi.Edges {
				pred := hdr.Preds[i]
				if hdr.Dominates(pred) {
					t := termOf(e)
					if t.base != ssa.Value(phi) || t.k != 1 || !neLen(pred) {
						okShape = false
					}
				} else if k, isK := constInt(e); !isK || k != 0 {
					okShape = false
				}
			}
			// x itself does not change round the loop: a value defined outside it (or a string)
			if in, isIns := s.X.(ssa.Instruction); isIns && hdr.Dominates(in.Block()) && in.Block() != hdr {
				if _, isPhiX := s.X.(*ssa.Phi); isPhiX {
					okShape = false
				}
			}
			if okShape {
				if ok2, why := checkKey(); ok2 || hasStatic {
					return "I9", fmt.Sprintf("%s starts at 0, goes up by one only under %s ≠ len, and is tested ≠ len here", phiName(phi), phiName(phi)), true
				} else {
					_ = why
				}
			}
		}
		return "", fmt.Sprintf("no dominating fact len(%s) ≥ %s", key, need), false
	case "slice":
		// 0 ≤ lo ≤ hi ≤ len
		lo := term{nil, 0}
		if s.Low != nil {
			lo = termOf(s.Low)
			if lo.base == nil && lo.k < 0 {
				return "", "negative low bound", false
			}
			if lo.base != nil && !nonNeg(s.Low) {
				// lo = len(X)+k handled below
				if lk, ok := lenKey(lo.base); !(ok && lk == key) {
					return "", "low bound not known to be non-negative", false
				}
			}
		}
		if s.High == nil {
			// lo ≤ len
			if lo.base == nil && lo.k == 0 {
				return "I5", "x[:] / x[0:]", true
			}
			if lenGE(lo) {
				if ok, why := checkKey(); !ok && !hasStatic {
					return "", "length fact may be stale: " + why, false
				}
				return "I3", fmt.Sprintf("len ≥ %s", lo), true
			}
			// range key of the same string: a valid index
			if ex, ok := s.Low.(*ssa.Extract); ok && ex.Index == 1 {
				if nx, ok := ex.Tuple.(*ssa.Next); ok {
					if rg, ok := nx.Iter.(*ssa.Range); ok && rg.X == s.X {
						return "I2", "low bound is the key of the range loop over the same value", true
					}
				}
			}
			return "", fmt.Sprintf("no dominating fact len(%s) ≥ %s", key, lo), false
		}
		hi := termOf(s.High)
		if hi.base == nil && hi.k == 0 && lo.base == nil && lo.k == 0 {
			return "I5", "x[:0]", true
		}
		// hi ≤ len
		hiOK := lenGE(hi)
		// lo ≤ hi
		loHi := false
		// a reslice x[lo':hi] of the very same value with the very same high bound that is evaluated before this one
		// has already shown 0 ≤ hi ≤ len(x) (it would have panicked otherwise, and is itself a site to be shown);
		// a search in that reslice answers below its length hi − lo' ≤ hi
		var sib *ssa.Slice
		for _, r := range *s.X.Referrers() {
			sl, ok := r.(*ssa.Slice)
			if !ok || ssa.Instruction(sl) == s.Ins || sl.X != s.X || sl.High != s.High || sl.High == nil {
				continue
			}
			before := false
			if sl.Block() == b {
				for _, ins := range b.Instrs {
					if ins == ssa.Instruction(sl) {
						before = true
						break
					}
					if ins == s.Ins {
						break
					}
				}
			} else {
				before = ff.Dominates(sl.Block(), b)
			}
			if before {
				sib = sl
			}
		}
		if sib != nil {
			hiOK = true
			if call, ok := lo.base.(*ssa.Call); ok && lo.k <= 1 {
				if subj, ok := indexAPI(call); ok && subj == ssa.Value(sib) {
					loHi = true
				}
			}
		}
		switch {
		case loHi:
		case lo.base == hi.base:
			loHi = lo.k <= hi.k
		case lo.base == nil && hi.base != nil:
			// const ≤ len(X)+k  or const ≤ value with lower bound
			if lk, ok := lenKey(hi.base); ok && lk == key {
				loHi = lenGE(term{nil, lo.k - hi.k})
			} else if l, ok := lowerBound(s.High, facts, map[ssa.Value]bool{}); ok {
				loHi = lo.k <= l
			}
		}
		if hi.base != nil && sib == nil {
			if l, ok := lowerBound(s.High, facts, map[ssa.Value]bool{}); !ok || l < 0 {
				if lk, ok := lenKey(hi.base); !(ok && lk == key) {
					return "", "high bound not known to be non-negative", false
				}
			}
		}
		if hiOK && loHi {
			if ok, why := checkKey(); !ok && !hasStatic {
				return "", "length fact may be stale: " + why, false
			}
			return "I3", fmt.Sprintf("%s ≤ %s ≤ len", lo, hi), true
		}
		return "", fmt.Sprintf("cannot show %s ≤ %s ≤ len(%s)", lo, hi, key), false
	}
	return "", "unknown construct", false
}

// isSortInterfaceMethod: f is Less(i, j int) bool or Swap(i, j int) of a type that also has Len() int, the type is only
// ever used through the sort package (no other caller of Less / Swap in the module), the indexed value x is the
// receiver itself (or a field / embedded part of it that Len() takes the length of).
func isSortInterfaceMethod(c *Ctx, f *ssa.Function, x ssa.Value) bool {
	if f.Signature.Recv() == nil || (f.Name() != "Less" && f.Name() != "Swap") || len(f.Params) != 3 {
		return false
	}
	for _, p := range f.Params[1:] {
		if !isIntType(p.Type()) {
			return false
		}
	}
	// no caller inside the module
	if len(sitesOf(c).sites[f]) > 0 {
		return false
	}
	// the indexed value derives from the receiver
	root := x
	path := ""
	for {
		switch v := root.(type) {
		case *ssa.Field:
			path = fmt.Sprintf(".%d", v.Field) + path
			root = v.X
			continue
		case *ssa.UnOp:
			if v.Op == token.MUL {
				if fa, ok := v.X.(*ssa.FieldAddr); ok {
					path = fmt.Sprintf(".%d", fa.Field) + path
					root = fa.X
					continue
				}
				root = v.X
				continue
			}
		case *ssa.ChangeType:
			root = v.X
			continue
		}
		break
	}
	// a value receiver spilled into a local (`t0 = local T (p); *t0 = p`)
	if al, ok := root.(*ssa.Alloc); ok {
		var stored ssa.Value
		n := 0
		for _, r := range *al.Referrers() {
			if st, ok := r.(*ssa.Store); ok && st.Addr == ssa.Value(al) {
				stored = st.Val
				n++
			}
		}
		if n == 1 {
			root = stored
		}
	}
	if root != ssa.Value(f.Params[0]) {
		return false
	}
	// Len() of the same type returns len of the same part of the receiver
	ms := c.P.SSA.MethodSets.MethodSet(f.Signature.Recv().Type())
	for i := 0; i < ms.Len(); i++ {
		if ms.At(i).Obj().Name() != "Len" {
			continue
		}
		if len(ms.At(i).Index()) > 1 && path != "" {
			return true // Len is promoted from the embedded part that is indexed
		}
		lf := c.P.SSA.MethodValue(ms.At(i))
		if lf == nil || len(lf.Blocks) == 0 {
			return false
		}
		// a promoted Len (embedded type) is a wrapper: follow it
		for _, b := range lf.Blocks {
			r, ok := b.Instrs[len(b.Instrs)-1].(*ssa.Return)
			if !ok || len(r.Results) != 1 {
				continue
			}
			v := r.Results[0]
			if call, ok := v.(*ssa.Call); ok {
				if _, isLen := lenArg(call); isLen {
					return true // Len() is the length of (a part of) its receiver: the sort package stays below it
				}
				if cl := call.Common().StaticCallee(); cl != nil && cl.Name() == "Len" {
					return true
				}
			}
		}
	}
	return false
}

func isSortComparator(f *ssa.Function) bool {
	par := f.Parent()
	if par == nil {
		return false
	}
	for _, b := range par.Blocks {
		for _, ins := range b.Instrs {
			call, ok := ins.(*ssa.Call)
			if !ok {
				continue
			}
			cl := call.Common().StaticCallee()
			if cl == nil || (core.PkgPathOf(cl) != "sort" && core.PkgPathOf(cl) != "slices") {
				continue
			}
			for _, a := range call.Common().Args {
				if mc, ok := a.(*ssa.MakeClosure); ok && mc.Fn == ssa.Value(f) {
					return true
				}
				if fn, ok := a.(*ssa.Function); ok && fn == f {
					return true
				}
			}
		}
	}
	return false
}

// minLikeArgs: a call whose result is ≤ each of its arguments and equal to one of them — the builtin min, or a module
// function of two int parameters that returns a parameter on every path, the first only under first ≤/< second and
// the second only under the negation.
func minLikeArgs(call *ssa.Call) ([]ssa.Value, bool) {
	if bi, ok := call.Common().Value.(*ssa.Builtin); ok && bi.Name() == "min" {
		return call.Common().Args, true
	}
	f := call.Common().StaticCallee()
	if f == nil || len(f.Blocks) == 0 || len(f.Params) != 2 || f.Signature.Recv() != nil {
		return nil, false
	}
	for _, p := range f.Params {
		if !isIntType(p.Type()) {
			return nil, false
		}
	}
	a, b := ssa.Value(f.Params[0]), ssa.Value(f.Params[1])
	// the returned value: a parameter, or a phi of parameters, each edge/return guarded by the comparison
	okRet := func(v ssa.Value, blk *ssa.BasicBlock) bool {
		if v != a && v != b {
			return false
		}
		other := a
		if v == a {
			other = b
		}
		// blk is entered only under v ≤ other: walk the unique-predecessor chain to the deciding If
		for cur := blk; ; {
			if len(cur.Preds) != 1 {
				return false
			}
			pred := cur.Preds[0]
			if iff, ok := lastIf(pred); ok {
				bo, ok := iff.Cond.(*ssa.BinOp)
				if !ok {
					return false
				}
				val := pred.Succs[0] == cur
				rel, ok := relOf(bo.Op, val)
				if !ok {
					return false
				}
				x, y := bo.X, bo.Y
				if x == other && y == v {
					rel = mirror(rel)
					x, y = y, x
				}
				return x == v && y == other && (rel == token.LSS || rel == token.LEQ)
			}
			cur = pred
		}
	}
	n := 0
	for _, blk := range f.Blocks {
		for _, ins := range blk.Instrs {
			r, ok := ins.(*ssa.Return)
			if !ok {
				continue
			}
			n++
			if len(r.Results) != 1 {
				return nil, false
			}
			if phi, ok := r.Results[0].(*ssa.Phi); ok {
				for i, e := range phi.Edges {
					if !okRet(e, phi.Block().Preds[i]) {
						// the edge block itself may be the If block (empty arm)
						pb := phi.Block().Preds[i]
						iff, isIf := lastIf(pb)
						if !isIf {
							return nil, false
						}
						bo, isBo := iff.Cond.(*ssa.BinOp)
						if !isBo || (e != a && e != b) {
							return nil, false
						}
						other := a
						if e == a {
							other = b
						}
						val := pb.Succs[0] == phi.Block()
						rel, ok := relOf(bo.Op, val)
						if !ok {
							return nil, false
						}
						x, y := bo.X, bo.Y
						if x == other && y == e {
							rel = mirror(rel)
							x, y = y, x
						}
						if !(x == e && y == other && (rel == token.LSS || rel == token.LEQ)) {
							return nil, false
						}
					}
				}
				continue
			}
			if !okRet(r.Results[0], blk) {
				return nil, false
			}
		}
	}
	if n == 0 {
		return nil, false
	}
	return call.Common().Args, true
}

// paramLowerBound: a constant lower bound of an int parameter of an unexported function that is only ever called
// statically — the smallest lower bound of the argument over all call sites (each with the branch facts there).
var plbInProgress = map[*ssa.Parameter]bool{}

func paramLowerBound(c *Ctx, p *ssa.Parameter) (int64, bool) {
	f := p.Parent()
	ix := sitesOf(c)
	if f == nil || f.Parent() != nil || ix.taken[f] || len(ix.sites[f]) == 0 || (f.Object() != nil && f.Object().Exported()) {
		return 0, false
	}
	if plbInProgress[p] || len(plbInProgress) > 3 {
		return 0, false
	}
	plbInProgress[p] = true
	defer delete(plbInProgress, p)
	idx := -1
	for i, q := range f.Params {
		if q == p {
			idx = i
		}
	}
	best, have := int64(0), false
	for _, cs := range ix.sites[f] {
		ff := Facts(c, cs.Fn)
		if !ff.Reachable(cs.Call.Block()) {
			continue
		}
		if idx >= len(cs.Call.Common().Args) {
			return 0, false
		}
		facts := newPFFacts()
		facts.ctx = c
		facts.absorb(c, ff.At(cs.Call.Block()), 0)
		l, ok := lowerBound(cs.Call.Common().Args[idx], facts, map[ssa.Value]bool{})
		if !ok {
			return 0, false
		}
		if !have || l < best {
			best, have = l, true
		}
	}
	return best, have
}

// indexLikeResult: a module function whose int result is, on every return, a negative constant or a value known (by the
// branch facts at that return) to be a valid index of one of its slice/string parameters; returns the argument that
// parameter is bound to at this call.
type indexLikeRes struct {
	idx    int
	ok     bool
	suffix string
}

func indexLikeResult(c *Ctx, call *ssa.Call) (ssa.Value, bool) {
	g := call.Common().StaticCallee()
	if g == nil || !c.P.InModule(g) || len(g.Blocks) == 0 || g.Signature.Results().Len() != 1 || !isIntType(g.Signature.Results().At(0).Type()) {
		return nil, false
	}
	type res = indexLikeRes
	r := c.Memo("indexlike:"+g.String(), func() interface{} {
		ff := Facts(c, g)
		subject := -1
		suffix := ""
		nonneg := 0
		for _, b := range g.Blocks {
			ret, ok := b.Instrs[len(b.Instrs)-1].(*ssa.Return)
			if !ok || !ff.Reachable(b) {
				continue
			}
			v := ret.Results[0]
			if k, ok := constInt(v); ok {
				if k >= 0 {
					return res{}
				}
				continue
			}
			facts := newPFFacts()
			facts.absorb(c, ff.At(b), 0)
			if l, ok := lowerBound(v, facts, map[ssa.Value]bool{}); !ok || l < -1 {
				// a loop counter that starts at a parameter: fine as long as the callers pass non-negative values
				facts.ctx = c
				if l2, ok2 := lowerBound(v, facts, map[ssa.Value]bool{}); !ok2 || l2 < -1 {
					return res{}
				}
			}
			found := -1
			sfx := ""
			for i, p := range g.Params {
				key := "P:" + p.Name()
				for k2, ts := range facts.lenGE {
					if k2 != key && !strings.HasPrefix(k2, key+".") {
						continue
					}
					for _, t := range ts {
						if t.base == v && t.k >= 1 {
							found = i
							sfx = strings.TrimPrefix(k2, key)
						}
					}
				}
			}
			if found < 0 || (subject >= 0 && (subject != found || suffix != sfx)) {
				return res{}
			}
			subject = found
			suffix = sfx
			nonneg++
		}
		if subject < 0 || nonneg == 0 {
			return res{}
		}
		return res{subject, true, suffix}
	}).(res)
	if !r.ok || r.idx >= len(call.Common().Args) {
		return nil, false
	}
	if r.suffix != "" {
		return nil, false // an index of a part of the argument: see indexLikeResultKey
	}
	return call.Common().Args[r.idx], true
}

// indexLikeResultKey: like indexLikeResult, for a helper whose result indexes a part of one of its arguments (a slice
// field of its receiver): the collection key of that part in the caller.
func indexLikeResultKey(c *Ctx, call *ssa.Call) (string, bool) {
	g := call.Common().StaticCallee()
	if g == nil {
		return "", false
	}
	indexLikeResult(c, call) // fills the memo
	type res = indexLikeRes
	r, ok := c.Memo("indexlike:"+g.String(), func() interface{} { return res{} }).(res)
	if !ok || !r.ok || r.suffix == "" || r.idx >= len(call.Common().Args) {
		return "", false
	}
	return collKey(call.Common().Args[r.idx]) + r.suffix, true
}

// moduleRange: the range of a module function's int result when every return is a constant or the result of a call
// with a documented range.
func moduleRange(call *ssa.Call, depth int) (int64, int64, bool) {
	g := call.Common().StaticCallee()
	if g == nil || len(g.Blocks) == 0 || depth > 2 || g.Signature.Results().Len() != 1 || !isIntType(g.Signature.Results().At(0).Type()) {
		return 0, 0, false
	}
	lo, hi, have := int64(0), int64(0), false
	for _, b := range g.Blocks {
		r, ok := b.Instrs[len(b.Instrs)-1].(*ssa.Return)
		if !ok {
			continue
		}
		var l, h int64
		if k, ok := constInt(r.Results[0]); ok {
			l, h = k, k
		} else if rc, ok := r.Results[0].(*ssa.Call); ok {
			var ok2 bool
			if l, h, ok2 = apiRange(rc); !ok2 {
				if l, h, ok2 = moduleRange(rc, depth+1); !ok2 {
					return 0, 0, false
				}
			}
		} else {
			return 0, 0, false
		}
		if !have || l < lo {
			lo = l
		}
		if !have || h > hi {
			hi = h
		}
		have = true
	}
	return lo, hi, have
}

// indexAPI: a strings/bytes search whose result r satisfies -1 ≤ r < len(subject); returns the subject.
func indexAPI(call *ssa.Call) (ssa.Value, bool) {
	cl := call.Common().StaticCallee()
	if cl == nil || len(call.Common().Args) < 2 {
		return nil, false
	}
	switch cl.String() {
	case "strings.Index", "strings.IndexByte", "strings.IndexRune", "strings.IndexAny", "strings.IndexFunc",
		"strings.LastIndex", "strings.LastIndexByte", "strings.LastIndexAny", "strings.LastIndexFunc",
		"bytes.Index", "bytes.IndexByte", "bytes.IndexRune", "bytes.IndexAny", "bytes.IndexFunc",
		"bytes.LastIndex", "bytes.LastIndexByte", "bytes.LastIndexAny", "bytes.LastIndexFunc":
		if b, ok := call.Common().Args[0].Type().Underlying().(*types.Basic); ok && b.Info()&types.IsString != 0 {
			return call.Common().Args[0], true
		}
	}
	return nil, false
}

// apiRange: documented result ranges of standard-library functions (API facts).
func apiRange(call *ssa.Call) (int64, int64, bool) {
	cl := call.Common().StaticCallee()
	if cl == nil {
		return 0, 0, false
	}
	switch cl.String() {
	case "unicode/utf8.EncodeRune":
		return 1, 4, true // writes 1..UTFMax bytes (panics itself if the buffer is too small)
	case "unicode/utf8.RuneLen":
		return -1, 4, true
	}
	return 0, 0, false
}
