package rules

// TAB engine: constant evaluation of the package-level tables over a tiny table DSL, and interval-set denotations of
// the membership predicates (DESIGN §3.5).  Only constants, bitset.New/Set/Clear/Clone/InPlaceUnion, the three
// PercentEncodeSet constructors (whose semantics a companion rule checks on SSA), map literals and init()'s
// constant-bounded counted loops are understood; anything else is "unknown" and fails the rule that needs it.

import (
	"fmt"
	"go/ast"
	"go/constant"
	"go/token"
	"go/types"
	"os"
	"sort"
	"strings"

	"golang.org/x/tools/go/packages"

	"wucheck/core"
)

const maxCP = 0x10FFFF

// ---- interval sets over [0, maxCP] ----

type ivl struct{ lo, hi int64 }
type iset []ivl // sorted, disjoint, non-adjacent

func (s iset) norm() iset {
	if len(s) == 0 {
		return nil
	}
	t := append(iset(nil), s...)
	sort.Slice(t, func(i, j int) bool { return t[i].lo < t[j].lo })
	var out iset
	for _, v := range t {
		if v.lo > v.hi {
			continue
		}
		if n := len(out); n > 0 && v.lo <= out[n-1].hi+1 {
			if v.hi > out[n-1].hi {
				out[n-1].hi = v.hi
			}
			continue
		}
		out = append(out, v)
	}
	return out
}

func isetRange(lo, hi int64) iset {
	if lo < 0 {
		lo = 0
	}
	if hi > maxCP {
		hi = maxCP
	}
	if lo > hi {
		return nil
	}
	return iset{{lo, hi}}
}

func isetPoints(ps ...int64) iset {
	var s iset
	for _, p := range ps {
		if p >= 0 && p <= maxCP {
			s = append(s, ivl{p, p})
		}
	}
	return s.norm()
}

func (s iset) union(o iset) iset { return append(append(iset(nil), s...), o...).norm() }

func (s iset) complement(max int64) iset {
	var out iset
	next := int64(0)
	for _, v := range s.norm() {
		if v.lo > next {
			out = append(out, ivl{next, v.lo - 1})
		}
		next = v.hi + 1
	}
	if next <= max {
		out = append(out, ivl{next, max})
	}
	return out
}

func (s iset) intersect(o iset) iset {
	return s.complement(maxCP).union(o.complement(maxCP)).complement(maxCP)
}

func (s iset) minus(o iset) iset { return s.intersect(o.complement(maxCP)) }

func (s iset) equal(o iset) bool {
	a, b := s.norm(), o.norm()
	if len(a) != len(b) {
		return false
	}
	for i := range a {
		if a[i] != b[i] {
			return false
		}
	}
	return true
}

func (s iset) subsetOf(o iset) bool { return len(s.minus(o)) == 0 }

func (s iset) clip(max int64) iset { return s.intersect(isetRange(0, max)) }

func (s iset) size() int64 {
	var n int64
	for _, v := range s.norm() {
		n += v.hi - v.lo + 1
	}
	return n
}

func (s iset) String() string {
	var parts []string
	for _, v := range s.norm() {
		if v.lo == v.hi {
			parts = append(parts, cpName(v.lo))
		} else {
			parts = append(parts, cpName(v.lo)+"–"+cpName(v.hi))
		}
	}
	return "{" + strings.Join(parts, ", ") + "}"
}

func cpName(c int64) string {
	if c > 0x20 && c < 0x7F {
		return fmt.Sprintf("U+%04X(%c)", c, rune(c))
	}
	return fmt.Sprintf("U+%04X", c)
}

func rangesToIset(rs [][]int64) iset {
	var s iset
	for _, r := range rs {
		if len(r) == 2 {
			s = append(s, ivl{r[0], r[1]})
		}
	}
	return s.norm()
}

// ---- abstract table values ----

type tvBitset struct{ bits map[int64]bool }

func (b *tvBitset) clone() *tvBitset {
	n := &tvBitset{bits: map[int64]bool{}}
	for k := range b.bits {
		n.bits[k] = true
	}
	return n
}

func (b *tvBitset) iset() iset {
	var ps []int64
	for k := range b.bits {
		ps = append(ps, k)
	}
	return isetPoints(ps...)
}

type tvPES struct {
	allBelow int64
	bs       *tvBitset
}

type tvMap map[string]string

type tvUnknown struct{ why string }

// tvList: the elements of a variadic parameter that are not plain code points (spans, other sets).
type tvList []interface{}

// tvStruct: a small struct value of the module used as data in a table (a span of code points).
type tvStruct struct{ fields []interface{} }

// tvFunc: a method expression used as a value ((*bitset.BitSet).Set handed to a helper).
type tvFunc struct{ full string }

type tabEnv struct {
	ssaFolded []string // tables whose value comes from the SSA fold of the initialisers
	c         *Ctx
	globals   map[types.Object]interface{}
	locals    map[types.Object]interface{}
	unknown   []string
	// evaluation of module helper functions used by the tables (newCodePointSet(...), addRange(...))
	depth    int
	ret      interface{}
	returned bool
	decls    map[*types.Func]*ast.FuncDecl
	declPkg  map[*types.Func]*packages.Package
	// constructors of PercentEncodeSet whose bodies the evaluator interpreted (instead of assuming their meaning)
	interpreted map[string]bool
	assumed     map[string]bool
}

// helperDecl finds the declaration of a module function (tables may be built through small helpers).
func (e *tabEnv) helperDecl(fn *types.Func) (*ast.FuncDecl, *packages.Package) {
	if e.decls == nil {
		e.decls = map[*types.Func]*ast.FuncDecl{}
		e.declPkg = map[*types.Func]*packages.Package{}
		for _, pk := range e.c.P.ByName {
			for _, f := range pk.Syntax {
				for _, d := range f.Decls {
					if fd, ok := d.(*ast.FuncDecl); ok && fd.Body != nil {
						if o, ok := pk.TypesInfo.Defs[fd.Name].(*types.Func); ok {
							e.decls[o] = fd
							e.declPkg[o] = pk
						}
					}
				}
			}
		}
	}
	return e.decls[fn], e.declPkg[fn]
}

// callHelper evaluates a call of a module function: parameters bound to table values, body executed by the same
// small interpreter (calls, counted loops, range over a variadic parameter, return).
func (e *tabEnv) callHelper(pk *packages.Package, call *ast.CallExpr, fn *types.Func, recv ast.Expr) (interface{}, bool) {
	fd, fpk := e.helperDecl(fn)
	if fd == nil || e.depth >= 4 {
		return nil, false
	}
	sig := fn.Type().(*types.Signature)
	if sig.Results().Len() > 1 {
		return nil, false
	}
	saved := map[types.Object]interface{}{}
	had := map[types.Object]bool{}
	bind := func(o types.Object, v interface{}) {
		if o == nil {
			return
		}
		if old, ok := e.locals[o]; ok {
			saved[o], had[o] = old, true
		} else {
			had[o] = false
		}
		e.locals[o] = v
	}
	// evaluate the arguments in the caller's environment first
	var vals []interface{}
	np := sig.Params().Len()
	for i := 0; i < np; i++ {
		variadic := sig.Variadic() && i == np-1
		if !variadic {
			if i >= len(call.Args) {
				return nil, false
			}
			vals = append(vals, e.eval(pk, call.Args[i]))
			continue
		}
		if call.Ellipsis != token.NoPos {
			v, ok := e.eval(pk, call.Args[i]).([]int64)
			if !ok {
				return nil, false
			}
			vals = append(vals, v)
			continue
		}
		var xs []int64
		ints := true
		for _, a := range call.Args[i:] {
			v, ok := e.constInt(pk, a)
			if !ok {
				ints = false
				break
			}
			xs = append(xs, v)
		}
		if ints {
			vals = append(vals, xs)
			continue
		}
		var lst tvList
		for _, a := range call.Args[i:] {
			lst = append(lst, e.eval(pk, a))
		}
		vals = append(vals, lst)
	}
	var rv interface{}
	if recv != nil {
		rv = e.eval(pk, recv)
	}
	for _, v := range append(append([]interface{}(nil), vals...), rv) {
		if _, bad := v.(tvUnknown); bad {
			return v, true
		}
		if l, ok := v.(tvList); ok {
			for _, x := range l {
				if _, bad := x.(tvUnknown); bad {
					return x, true
				}
			}
		}
	}
	// bind
	i := 0
	if fd.Recv != nil && len(fd.Recv.List) == 1 && len(fd.Recv.List[0].Names) == 1 {
		bind(fpk.TypesInfo.Defs[fd.Recv.List[0].Names[0]], rv)
	}
	for _, fl := range fd.Type.Params.List {
		for _, nm := range fl.Names {
			if i < len(vals) {
				bind(fpk.TypesInfo.Defs[nm], vals[i])
			}
			i++
		}
	}
	sr, sret := e.ret, e.returned
	e.ret, e.returned = nil, false
	e.depth++
	e.exec(fpk, fd.Body)
	e.depth--
	out := e.ret
	e.ret, e.returned = sr, sret
	for o, h := range had {
		if h {
			e.locals[o] = saved[o]
		} else {
			delete(e.locals, o)
		}
	}
	return out, true
}

func (e *tabEnv) unk(why string, n ast.Node, pk *packages.Package) interface{} {
	msg := fmt.Sprintf("%s at %s", why, e.c.P.Pos(n.Pos()))
	e.unknown = append(e.unknown, msg)
	return tvUnknown{msg}
}

func (e *tabEnv) constInt(pk *packages.Package, x ast.Expr) (int64, bool) {
	if tv, ok := pk.TypesInfo.Types[x]; ok && tv.Value != nil {
		if v, ok := constant.Int64Val(constant.ToInt(tv.Value)); ok {
			return v, true
		}
	}
	switch y := ast.Unparen(x).(type) {
	case *ast.CallExpr:
		// conversion uint(i)
		if len(y.Args) == 1 {
			if tv, ok := pk.TypesInfo.Types[y.Fun]; ok && tv.IsType() {
				return e.constInt(pk, y.Args[0])
			}
		}
	case *ast.Ident:
		o := pk.TypesInfo.Uses[y]
		if v, ok := e.locals[o].(int64); ok {
			return v, true
		}
	case *ast.SelectorExpr:
		if fo, ok := pk.TypesInfo.Uses[y.Sel].(*types.Var); ok && fo.IsField() {
			if id, ok := ast.Unparen(y.X).(*ast.Ident); ok {
				if sv, ok := e.locals[pk.TypesInfo.Uses[id]].(*tvStruct); ok {
					if st, ok := structOf(pk.TypesInfo.Types[y.X].Type); ok {
						for i := 0; i < st.NumFields() && i < len(sv.fields); i++ {
							if st.Field(i) == fo {
								if v, ok := sv.fields[i].(int64); ok {
									return v, true
								}
							}
						}
					}
				}
			}
		}
	}
	return 0, false
}

func (e *tabEnv) eval(pk *packages.Package, x ast.Expr) interface{} {
	info := pk.TypesInfo
	x = ast.Unparen(x)
	if v, ok := e.constInt(pk, x); ok {
		return v
	}
	switch y := x.(type) {
	case *ast.Ident:
		o := info.Uses[y]
		if v, ok := e.locals[o]; ok {
			return v
		}
		if v, ok := e.globals[o]; ok {
			return v
		}
		return e.unk("identifier "+y.Name+" has no table value", y, pk)
	case *ast.UnaryExpr:
		if y.Op == token.AND {
			if cl, ok := ast.Unparen(y.X).(*ast.CompositeLit); ok {
				return e.eval(pk, cl)
			}
		}
	case *ast.SelectorExpr:
		// pkg.Global
		if o, ok := info.Uses[y.Sel].(*types.Var); ok {
			if v, ok := e.globals[o]; ok {
				return v
			}
			// field of a set being built: by the field's type (the counter, or the bit set)
			if o.IsField() {
				if ps, ok := e.eval(pk, y.X).(*tvPES); ok {
					if _, isPtr := o.Type().Underlying().(*types.Pointer); isPtr {
						return ps.bs
					}
					return ps.allBelow
				}
			}
		}
		// method expression (*T).M
		if sel, ok := info.Selections[y]; ok && sel.Kind() == types.MethodExpr {
			if f, ok := sel.Obj().(*types.Func); ok {
				return tvFunc{f.FullName()}
			}
		}
		return e.unk("selector "+types.ExprString(y)+" has no table value", y, pk)
	case *ast.CompositeLit:
		if _, ok := info.Types[y].Type.Underlying().(*types.Map); ok {
			m := tvMap{}
			for _, el := range y.Elts {
				kv, ok := el.(*ast.KeyValueExpr)
				if !ok {
					return e.unk("map element", el, pk)
				}
				k, ok1 := info.Types[kv.Key]
				v, ok2 := info.Types[kv.Value]
				if !ok1 || !ok2 || k.Value == nil || v.Value == nil {
					return e.unk("non-constant map element", el, pk)
				}
				m[constant.StringVal(k.Value)] = constant.StringVal(v.Value)
			}
			return m
		}
		if _, ok := info.Types[y].Type.Underlying().(*types.Slice); ok {
			// a list of tables (or of code points) written as a literal
			var lst tvList
			ints := true
			var xs []int64
			for _, el := range y.Elts {
				if _, isKV := el.(*ast.KeyValueExpr); isKV {
					return e.unk("keyed slice literal", el, pk)
				}
				if v, ok := e.constInt(pk, el); ok {
					xs = append(xs, v)
					lst = append(lst, v)
					continue
				}
				ints = false
				lst = append(lst, e.eval(pk, el))
			}
			if ints && len(xs) > 0 {
				return xs
			}
			return lst
		}
		if st, ok := info.Types[y].Type.Underlying().(*types.Struct); ok && namedOf(info.Types[y].Type) != "PercentEncodeSet" {
			sv := &tvStruct{fields: make([]interface{}, st.NumFields())}
			for i, el := range y.Elts {
				idx := i
				val := el
				if kv, ok := el.(*ast.KeyValueExpr); ok {
					fo, _ := info.Uses[kv.Key.(*ast.Ident)].(*types.Var)
					idx = -1
					for j := 0; j < st.NumFields(); j++ {
						if st.Field(j) == fo {
							idx = j
						}
					}
					val = kv.Value
				}
				if idx < 0 || idx >= st.NumFields() {
					return e.unk("field of a struct literal", el, pk)
				}
				sv.fields[idx] = e.eval(pk, val)
			}
			return sv
		}
		if namedOf(info.Types[y].Type) == "PercentEncodeSet" {
			ps := &tvPES{bs: &tvBitset{bits: map[int64]bool{}}}
			for _, el := range y.Elts {
				kv, ok := el.(*ast.KeyValueExpr)
				if !ok {
					return e.unk("positional field in a set literal", el, pk)
				}
				fo, _ := info.Uses[kv.Key.(*ast.Ident)].(*types.Var)
				if fo == nil {
					return e.unk("field of a set literal", el, pk)
				}
				v := e.eval(pk, kv.Value)
				if _, isPtr := fo.Type().Underlying().(*types.Pointer); isPtr {
					b, ok := v.(*tvBitset)
					if !ok {
						return e.unk("bit set of a set literal", el, pk)
					}
					ps.bs = b
				} else {
					n, ok := v.(int64)
					if !ok {
						return e.unk("counter of a set literal", el, pk)
					}
					ps.allBelow = n
				}
			}
			return ps
		}
		return e.unk("composite literal", y, pk)
	case *ast.CallExpr:
		return e.call(pk, y)
	}
	return e.unk(fmt.Sprintf("expression %T", x), x, pk)
}

func (e *tabEnv) args(pk *packages.Package, args []ast.Expr) ([]int64, bool) {
	var out []int64
	for _, a := range args {
		v, ok := e.constInt(pk, a)
		if !ok {
			return nil, false
		}
		out = append(out, v)
	}
	return out, true
}

func (e *tabEnv) call(pk *packages.Package, call *ast.CallExpr) interface{} {
	info := pk.TypesInfo
	var fn *types.Func
	var recv ast.Expr
	switch f := ast.Unparen(call.Fun).(type) {
	case *ast.Ident:
		fn, _ = info.Uses[f].(*types.Func)
	case *ast.SelectorExpr:
		fn, _ = info.Uses[f.Sel].(*types.Func)
		if sel := info.Selections[f]; sel != nil {
			recv = f.X
		}
	}
	if fn == nil {
		// a function value bound to a method expression: op(bs, cp)
		if id, ok := ast.Unparen(call.Fun).(*ast.Ident); ok {
			if fv, ok := e.locals[info.Uses[id]].(tvFunc); ok && len(call.Args) >= 1 {
				if r, ok := e.eval(pk, call.Args[0]).(*tvBitset); ok {
					as, ok := e.args(pk, call.Args[1:])
					if ok && len(as) == 1 {
						switch fv.full {
						case "(*github.com/bits-and-blooms/bitset.BitSet).Set":
							r.bits[as[0]] = true
							return r
						case "(*github.com/bits-and-blooms/bitset.BitSet).Clear":
							delete(r.bits, as[0])
							return r
						}
					}
				}
			}
		}
		return e.unk("call of a non-function", call, pk)
	}
	full := fn.FullName()
	if tabPrimitive[full] && e.depth < 4 {
		// read the constructor's meaning off its body when the evaluator can; otherwise assume it (TAB-ctor then checks
		// the body's shape)
		mark := len(e.unknown)
		if v, ok := e.callHelper(pk, call, fn, recv); ok {
			if ps, isPES := v.(*tvPES); isPES && len(e.unknown) == mark {
				if e.interpreted == nil {
					e.interpreted = map[string]bool{}
				}
				e.interpreted[full] = true
				return ps
			}
		}
		e.unknown = e.unknown[:mark]
		if e.assumed == nil {
			e.assumed = map[string]bool{}
		}
		e.assumed[full] = true
	}
	if fn.Pkg() != nil && strings.HasPrefix(fn.Pkg().Path(), core.ModPath) && !tabPrimitive[full] {
		if v, ok := e.callHelper(pk, call, fn, recv); ok {
			return v
		}
		return e.unk("call of "+full+" is outside the table DSL", call, pk)
	}
	if call.Ellipsis != token.NoPos {
		return e.unk("variadic spread in a table expression", call, pk)
	}
	switch full {
	case "github.com/bits-and-blooms/bitset.New":
		return &tvBitset{bits: map[int64]bool{}}
	case "github.com/nlnwa/whatwg-url/url.NewPercentEncodeSet":
		as, ok := e.args(pk, call.Args)
		if !ok || len(as) < 1 {
			return e.unk("non-constant argument of NewPercentEncodeSet", call, pk)
		}
		p := &tvPES{allBelow: as[0], bs: &tvBitset{bits: map[int64]bool{}}}
		for _, b := range as[1:] {
			p.bs.bits[b] = true
		}
		return p
	}
	if recv == nil {
		return e.unk("call of "+full+" is outside the table DSL", call, pk)
	}
	rv := e.eval(pk, recv)
	switch r := rv.(type) {
	case *tvBitset:
		switch full {
		case "(*github.com/bits-and-blooms/bitset.BitSet).Set", "(*github.com/bits-and-blooms/bitset.BitSet).Clear":
			as, ok := e.args(pk, call.Args)
			if !ok || len(as) != 1 {
				return e.unk("non-constant bit index", call, pk)
			}
			if strings.HasSuffix(full, "Set") {
				r.bits[as[0]] = true
			} else {
				delete(r.bits, as[0])
			}
			return r
		case "(*github.com/bits-and-blooms/bitset.BitSet).Clone":
			return r.clone()
		case "(*github.com/bits-and-blooms/bitset.BitSet).InPlaceUnion":
			o, ok := e.eval(pk, call.Args[0]).(*tvBitset)
			if !ok {
				return e.unk("InPlaceUnion with an unknown set", call, pk)
			}
			for k := range o.bits {
				r.bits[k] = true
			}
			return nil
		}
	case *tvPES:
		switch full {
		case "(*github.com/nlnwa/whatwg-url/url.PercentEncodeSet).Set", "(*github.com/nlnwa/whatwg-url/url.PercentEncodeSet).Clear":
			as, ok := e.args(pk, call.Args)
			if !ok {
				return e.unk("non-constant code point in a derived set", call, pk)
			}
			n := &tvPES{allBelow: r.allBelow, bs: r.bs.clone()}
			for _, b := range as {
				if strings.HasSuffix(full, "Set") {
					n.bs.bits[b] = true
				} else {
					delete(n.bs.bits, b)
				}
			}
			return n
		}
	case tvUnknown:
		return r
	}
	return e.unk("call of "+full+" is outside the table DSL", call, pk)
}

// tabPrimitive: module functions whose meaning the evaluator knows (checked against their bodies by TAB-ctor).
var tabPrimitive = map[string]bool{
	"github.com/nlnwa/whatwg-url/url.NewPercentEncodeSet":       true,
	"(*github.com/nlnwa/whatwg-url/url.PercentEncodeSet).Set":   true,
	"(*github.com/nlnwa/whatwg-url/url.PercentEncodeSet).Clear": true,
}

func (e *tabEnv) exec(pk *packages.Package, st ast.Stmt) {
	info := pk.TypesInfo
	if e.returned {
		return
	}
	switch x := st.(type) {
	case *ast.ReturnStmt:
		if e.depth == 0 {
			e.unk("return in init()", st, pk)
			return
		}
		if len(x.Results) == 1 {
			e.ret = e.eval(pk, x.Results[0])
		}
		e.returned = true
	case *ast.RangeStmt:
		rv := e.eval(pk, x.X)
		if lst, ok := rv.(tvList); ok && x.Tok == token.DEFINE {
			var vv types.Object
			if id, ok := x.Value.(*ast.Ident); ok && id.Name != "_" {
				vv = info.Defs[id]
			}
			for _, v := range lst {
				if vv != nil {
					e.locals[vv] = v
				}
				e.exec(pk, x.Body)
				if e.returned {
					break
				}
			}
			if vv != nil {
				delete(e.locals, vv)
			}
			return
		}
		xs, ok := rv.([]int64)
		if !ok || x.Tok != token.DEFINE {
			e.unk("range over something other than a list of code points", st, pk)
			return
		}
		var kv, vv types.Object
		if id, ok := x.Key.(*ast.Ident); ok && id.Name != "_" {
			kv = info.Defs[id]
		}
		if id, ok := x.Value.(*ast.Ident); ok && id.Name != "_" {
			vv = info.Defs[id]
		}
		for i, v := range xs {
			if kv != nil {
				e.locals[kv] = int64(i)
			}
			if vv != nil {
				e.locals[vv] = v
			}
			e.exec(pk, x.Body)
			if e.returned {
				break
			}
		}
		if kv != nil {
			delete(e.locals, kv)
		}
		if vv != nil {
			delete(e.locals, vv)
		}
	case *ast.ExprStmt:
		if call, ok := x.X.(*ast.CallExpr); ok {
			e.call(pk, call)
			return
		}
		e.unk("statement in init()", st, pk)
	case *ast.BlockStmt:
		for _, s := range x.List {
			e.exec(pk, s)
		}
	case *ast.AssignStmt:
		// x := <table expression> inside a helper
		if e.depth > 0 && x.Tok == token.DEFINE && len(x.Lhs) == 1 && len(x.Rhs) == 1 {
			if id, ok := x.Lhs[0].(*ast.Ident); ok {
				e.locals[info.Defs[id]] = e.eval(pk, x.Rhs[0])
				return
			}
		}
		e.unk("assignment in a table helper", st, pk)
	case *ast.ForStmt:
		// for i := c0; i <= c1; i++ { ... } with constant bounds
		as, ok := x.Init.(*ast.AssignStmt)
		if !ok || as.Tok != token.DEFINE || len(as.Lhs) != 1 {
			e.unk("loop without a counted header in init()", st, pk)
			return
		}
		lo, ok1 := e.constInt(pk, as.Rhs[0])
		cond, ok2 := x.Cond.(*ast.BinaryExpr)
		inc, ok3 := x.Post.(*ast.IncDecStmt)
		if !ok1 || !ok2 || !ok3 || inc.Tok != token.INC {
			e.unk("loop without a constant counted header in init()", st, pk)
			return
		}
		iv := info.Defs[as.Lhs[0].(*ast.Ident)]
		if id, ok := cond.X.(*ast.Ident); !ok || info.Uses[id] != iv {
			e.unk("loop condition not on the induction variable", st, pk)
			return
		}
		if id, ok := inc.X.(*ast.Ident); !ok || info.Uses[id] != iv {
			e.unk("loop increment not on the induction variable", st, pk)
			return
		}
		hi, ok4 := e.constInt(pk, cond.Y)
		if !ok4 {
			e.unk("loop bound is not a constant", st, pk)
			return
		}
		switch cond.Op {
		case token.LEQ:
		case token.LSS:
			hi--
		default:
			e.unk("loop comparison "+cond.Op.String(), st, pk)
			return
		}
		if hi-lo > 0x20000 {
			e.unk("loop range too large", st, pk)
			return
		}
		for i := lo; i <= hi && !e.returned; i++ {
			e.locals[iv] = i
			e.exec(pk, x.Body)
		}
		delete(e.locals, iv)
	default:
		e.unk(fmt.Sprintf("statement %T in init()", st), st, pk)
	}
}

// BuildTables evaluates the package-level tables of url and canonicalizer.
func BuildTables(c *Ctx) *tabEnv {
	return c.Memo("tables", func() interface{} {
		e := &tabEnv{c: c, globals: map[types.Object]interface{}{}, locals: map[types.Object]interface{}{}}
		for _, name := range []string{"url", "canonicalizer"} {
			pk := c.P.ByName[name]
			for _, in := range pk.TypesInfo.InitOrder {
				if len(in.Lhs) != 1 {
					continue
				}
				// only table-like variables are of interest
				tn := namedOf(in.Lhs[0].Type())
				_, isMap := in.Lhs[0].Type().Underlying().(*types.Map)
				if tn != "BitSet" && tn != "PercentEncodeSet" && !isMap {
					continue
				}
				mark := len(e.unknown)
				v := e.eval(pk, in.Rhs)
				if len(e.unknown) > mark {
					v = tvUnknown{strings.Join(e.unknown[mark:], "; ")}
				}
				e.globals[in.Lhs[0]] = v
			}
			for _, f := range pk.Syntax {
				for _, d := range f.Decls {
					if fd, ok := d.(*ast.FuncDecl); ok && fd.Recv == nil && fd.Name.Name == "init" {
						mark := len(e.unknown)
						e.exec(pk, fd.Body)
						if len(e.unknown) > mark {
							// a statement of init() the evaluator could not follow may have changed any table of the
							// package: none of their values can be trusted
							why := "init() contains a statement the table evaluator cannot follow: " + strings.Join(e.unknown[mark:], "; ")
							for o := range e.globals {
								if o.Pkg() == pk.Types {
									if _, isMap := e.globals[o].(tvMap); !isMap {
										e.globals[o] = tvUnknown{why}
									}
								}
							}
						}
					}
				}
			}
		}
		// what the AST evaluator could not follow is folded on the SSA form of the initialisers (tab_ssaeval.go); where
		// both have a value they must agree
		se := seTables(c)
		if os.Getenv("WUDEBUG") == "tab" {
			for o, v := range se {
				fmt.Fprintf(os.Stderr, "SSA %s = %s\n", o.Name(), dumpTable(v))
			}
		}
		for o, v := range e.globals {
			sv, have := se[o]
			if !have {
				continue
			}
			if _, unk := v.(tvUnknown); unk {
				e.globals[o] = sv
				e.ssaFolded = append(e.ssaFolded, o.Name())
				continue
			}
			if !sameTable(v, sv) {
				if os.Getenv("WUDEBUG") == "tab" {
					fmt.Fprintf(os.Stderr, "DISAGREE %s: ast=%v ssa=%v\n", o.Name(), dumpTable(v), dumpTable(sv))
				}
				e.globals[o] = tvUnknown{"the two table evaluators disagree on " + o.Name()}
			}
		}
		for o, sv := range se {
			if _, have := e.globals[o]; !have {
				e.globals[o] = sv
			}
		}
		sort.Strings(e.ssaFolded)
		return e
	}).(*tabEnv)
}

func dumpTable(v interface{}) string {
	bits := func(x *tvBitset) iset {
		var pts []int64
		for k := range x.bits {
			pts = append(pts, k)
		}
		return isetPoints(pts...)
	}
	switch x := v.(type) {
	case *tvBitset:
		return bits(x).String()
	case *tvPES:
		return fmt.Sprintf("below %d + %s", x.allBelow, bits(x.bs).String())
	}
	return fmt.Sprintf("%v", v)
}

// sameTable compares two table values.
func sameTable(a, b interface{}) bool {
	bits := func(x *tvBitset) iset {
		var pts []int64
		for k := range x.bits {
			pts = append(pts, k)
		}
		return isetPoints(pts...)
	}
	switch x := a.(type) {
	case *tvBitset:
		y, ok := b.(*tvBitset)
		return ok && bits(x).equal(bits(y))
	case *tvPES:
		y, ok := b.(*tvPES)
		return ok && x.allBelow == y.allBelow && x.bs != nil && y.bs != nil && bits(x.bs).equal(bits(y.bs))
	case tvMap:
		y, ok := b.(tvMap)
		if !ok || len(x) != len(y) {
			return false
		}
		for k, v := range x {
			if y[k] != v {
				return false
			}
		}
		return true
	}
	return true // kinds this comparison does not know: no opinion
}

// Global returns the table value of a package-level variable.
func (e *tabEnv) Global(pkg, name string) (interface{}, types.Object) {
	pk := e.c.P.ByName[pkg]
	if pk == nil {
		return nil, nil
	}
	o := pk.Types.Scope().Lookup(name)
	if o == nil {
		return nil, nil
	}
	return e.globals[o], o
}

// ---- membership predicates as interval-set denotations ----

// predDenotation computes {x : method(x) is true} for a PercentEncodeSet method with one rune/byte parameter,
// given the abstract value of the receiver.
var depthPred int

func predDenotation(c *Ctx, method string, p *tvPES) (iset, error) {
	d, err := predDenotationAST(c, method, p)
	fn := c.P.Func("url", "PercentEncodeSet", method)
	if fn == nil || p == nil || p.bs == nil {
		return d, err
	}
	// the same denotation read off the SSA form: the fallback where the source form is outside the AST reader, and a
	// cross-check where both can read it
	d2, err2 := predDenotationSSA(c, fn, p, 0)
	switch {
	case err != nil && err2 == nil:
		return d2, nil
	case err == nil && err2 == nil && !d.equal(d2):
		return nil, fmt.Errorf("%s: the two predicate readers disagree (%s vs %s)", method, d.String(), d2.String())
	}
	return d, err
}

func predDenotationAST(c *Ctx, method string, p *tvPES) (iset, error) {
	fn := c.P.Func("url", "PercentEncodeSet", method)
	if fn == nil {
		return nil, fmt.Errorf("method %s not found", method)
	}
	fd := c.P.Decl(fn)
	pk := c.P.ByName["url"]
	info := pk.TypesInfo
	if fd == nil || len(fd.Type.Params.List) != 1 || len(fd.Type.Params.List[0].Names) != 1 {
		return nil, fmt.Errorf("method %s: unexpected signature", method)
	}
	param := info.Defs[fd.Type.Params.List[0].Names[0]]
	recv := info.Defs[fd.Recv.List[0].Names[0]]
	domMax := int64(maxCP)
	if b, ok := param.Type().Underlying().(*types.Basic); ok && (b.Kind() == types.Uint8 || b.Kind() == types.Byte) {
		domMax = 255
	}
	dom := isetRange(0, domMax)
	isParam := func(x ast.Expr) bool {
		x = ast.Unparen(x)
		for {
			call, ok := x.(*ast.CallExpr)
			if !ok || len(call.Args) != 1 {
				break
			}
			if tv, ok := info.Types[call.Fun]; !ok || !tv.IsType() {
				break
			}
			x = ast.Unparen(call.Args[0])
		}
		id, ok := x.(*ast.Ident)
		return ok && info.Uses[id] == param
	}
	recvField := func(x ast.Expr) string {
		sel, ok := ast.Unparen(x).(*ast.SelectorExpr)
		if !ok {
			return ""
		}
		id, ok := sel.X.(*ast.Ident)
		if !ok || info.Uses[id] != recv {
			return ""
		}
		return sel.Sel.Name
	}
	num := func(x ast.Expr) (int64, bool) {
		if tv, ok := info.Types[x]; ok && tv.Value != nil {
			v, ok := constant.Int64Val(constant.ToInt(tv.Value))
			return v, ok
		}
		if recvField(x) == "allBelow" {
			return p.allBelow, true
		}
		return 0, false
	}
	var den func(x ast.Expr) (iset, error)
	den = func(x ast.Expr) (iset, error) {
		x = ast.Unparen(x)
		switch y := x.(type) {
		case *ast.UnaryExpr:
			if y.Op == token.NOT {
				s, err := den(y.X)
				if err != nil {
					return nil, err
				}
				return s.complement(domMax), nil
			}
		case *ast.BinaryExpr:
			switch y.Op {
			case token.LOR, token.LAND:
				a, err := den(y.X)
				if err != nil {
					return nil, err
				}
				b, err := den(y.Y)
				if err != nil {
					return nil, err
				}
				if y.Op == token.LOR {
					return a.union(b).intersect(dom), nil
				}
				return a.intersect(b), nil
			case token.LSS, token.LEQ, token.GTR, token.GEQ, token.EQL, token.NEQ:
				op := y.Op
				var k int64
				var ok bool
				switch {
				case isParam(y.X):
					k, ok = num(y.Y)
				case isParam(y.Y):
					k, ok = num(y.X)
					// mirror
					switch op {
					case token.LSS:
						op = token.GTR
					case token.LEQ:
						op = token.GEQ
					case token.GTR:
						op = token.LSS
					case token.GEQ:
						op = token.LEQ
					}
				}
				if !ok {
					return nil, fmt.Errorf("comparison %s not between the parameter and a constant/allBelow", types.ExprString(y))
				}
				switch op {
				case token.LSS:
					return isetRange(0, k-1).intersect(dom), nil
				case token.LEQ:
					return isetRange(0, k).intersect(dom), nil
				case token.GTR:
					return isetRange(k+1, domMax), nil
				case token.GEQ:
					return isetRange(k, domMax), nil
				case token.EQL:
					return isetPoints(k).intersect(dom), nil
				case token.NEQ:
					return isetPoints(k).complement(domMax), nil
				}
			}
		case *ast.CallExpr:
			// p.bs.Test(uint(r))
			if sel, ok := y.Fun.(*ast.SelectorExpr); ok && sel.Sel.Name == "Test" && recvField(sel.X) == "bs" && len(y.Args) == 1 && isParam(y.Args[0]) {
				if f, _ := info.Uses[sel.Sel].(*types.Func); f != nil && f.FullName() == "(*github.com/bits-and-blooms/bitset.BitSet).Test" {
					return p.bs.iset().intersect(dom), nil
				}
			}
			// p.OtherPredicate(T(param)): the sibling's denotation, on this predicate's domain
			if sel, ok := y.Fun.(*ast.SelectorExpr); ok && len(y.Args) == 1 && isParam(y.Args[0]) {
				if id, ok := ast.Unparen(sel.X).(*ast.Ident); ok && info.Uses[id] == recv && sel.Sel.Name != method {
					if f, _ := info.Uses[sel.Sel].(*types.Func); f != nil && f.Pkg() == pk.Types {
						if depthPred < 3 {
							depthPred++
							d, err := predDenotation(c, sel.Sel.Name, p)
							depthPred--
							if err != nil {
								return nil, err
							}
							return d.intersect(dom), nil
						}
					}
				}
			}
		case *ast.Ident:
			if y.Name == "true" {
				return dom, nil
			}
			if y.Name == "false" {
				return nil, nil
			}
		}
		return nil, fmt.Errorf("condition %s is outside the predicate DSL", types.ExprString(x))
	}
	// body: a chain of `if cond { return K }` followed by `return K` (or `return cond`)
	result := iset(nil)  // points decided true so far
	decided := iset(nil) // points decided (true or false)
	var walk func(stmts []ast.Stmt, live iset) error
	walk = func(stmts []ast.Stmt, live iset) error {
		for _, st := range stmts {
			switch x := st.(type) {
			case *ast.IfStmt:
				if x.Init != nil {
					return fmt.Errorf("if with init")
				}
				cs, err := den(x.Cond)
				if err != nil {
					return err
				}
				if err := walk(x.Body.List, live.intersect(cs)); err != nil {
					return err
				}
				if x.Else != nil {
					eb, ok := x.Else.(*ast.BlockStmt)
					if !ok {
						eb = &ast.BlockStmt{List: []ast.Stmt{x.Else}}
					}
					if err := walk(eb.List, live.minus(cs)); err != nil {
						return err
					}
				}
				live = live.minus(decided)
			case *ast.ReturnStmt:
				if len(x.Results) != 1 {
					return fmt.Errorf("return arity")
				}
				rs, err := den(x.Results[0])
				if err != nil {
					return err
				}
				result = result.union(live.intersect(rs))
				decided = decided.union(live)
				return nil
			default:
				return fmt.Errorf("statement %T in predicate", st)
			}
		}
		return nil
	}
	if err := walk(fd.Body.List, dom); err != nil {
		return nil, fmt.Errorf("%s: %v", method, err)
	}
	if !decided.equal(dom) {
		return nil, fmt.Errorf("%s: not every input reaches a return", method)
	}
	return result, nil
}
